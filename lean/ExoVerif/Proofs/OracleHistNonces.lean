import ExoVerif.Proofs.OracleHistQuota
/-!
Part 5 of the history-level development (C13): the nonce table holds entries only for validators of
the current set and configured feeder ids, one per key — an invariant of the State-level run — and
therefore at most `validators × feeders` entries. Core Lean only.
-/
namespace ExoVerif.Oracle

/-! ### validator sets are only replaced by EndBlock -/

theorem fillPrice_vals (g : Agc) (p : Params) (m : Msg) : (g.fillPrice p m).1.vals = g.vals := by
  unfold Agc.fillPrice
  simp only
  repeat' split
  all_goals rfl

theorem sealOne_vals (p : Params) (h : Nat) (force : Bool) (g : Agc) (fid : Nat) :
    (sealOne p h force g fid).1.vals = g.vals := by
  unfold sealOne
  cases alookup fid g.rounds with
  | none => rfl
  | some r =>
    simp only
    by_cases h1 : r.status = Status.open
    · by_cases h2 : ((decide (((p.feeder? fid).getD default).endBlock > 0) && decide (h ≥ ((p.feeder? fid).getD default).endBlock)) || decide (h - r.basedBlock ≥ p.maxNonce) || force) = true
      · simp only [h1, h2, if_true]
        repeat' split
        all_goals rfl
      · simp only [h1, h2, if_true, Bool.false_eq_true, if_false]
        repeat' split
        all_goals rfl
    · simp only [h1, if_false]
      repeat' split
      all_goals rfl

theorem sealRound_vals (g : Agc) (p : Params) (h : Nat) (force : Bool) :
    (g.sealRound p h force).1.vals = g.vals := by
  rw [sealRound_eq]
  generalize (g.rounds.map (·.1)) = l
  have key : ∀ (l : List Nat) (acc : Agc × List Nat × List Nat),
      (l.foldl (sealStep p h force) acc).1.vals = acc.1.vals := by
    intro l
    induction l with
    | nil => intro acc; rfl
    | cons fid t ih =>
      intro acc
      rw [List.foldl_cons, ih]
      exact sealOne_vals p h force acc.1 fid
  exact key l (g, [], [])

theorem prepareOne_vals (p : Params) (block : Nat) (g : Agc) (fid : Nat) (f : Feeder) :
    (prepareOne p block g fid f).1.vals = g.vals := by
  unfold prepareOne
  repeat' split
  all_goals rfl

theorem prepareLoop_vals (p : Params) (block : Nat) (fs : List Feeder) : ∀ (g : Agc) (i : Nat) (acc : List Nat),
    (prepareLoop p block g i fs acc).1.vals = g.vals := by
  induction fs with
  | nil => intro g i acc; rfl
  | cons f fs ih =>
    intro g i acc
    unfold prepareLoop
    by_cases hi : i = 0
    · simp only [hi, if_true]; exact ih _ _ _
    · simp only [hi, if_false]
      rw [ih]
      exact prepareOne_vals _ _ _ _ _

theorem prepareRound_vals (g : Agc) (block : Nat) : (g.prepareRound block).1.vals = g.vals := by
  unfold Agc.prepareRound
  repeat' split
  · rfl
  · rfl
  · exact prepareLoop_vals _ _ _ _ _ _

theorem prepareLoop_opened_pos (p : Params) (block fid : Nat) (fs : List Feeder) : ∀ (g : Agc) (i : Nat) (acc : List Nat),
    fid ∈ (prepareLoop p block g i fs acc).2 → fid ∈ acc ∨ 1 ≤ fid := by
  induction fs with
  | nil => intro g i acc h; left; exact h
  | cons f' fs ih =>
    intro g i acc h
    unfold prepareLoop at h
    by_cases hi : i = 0
    · simp only [hi, if_true] at h
      exact ih _ _ _ h
    · simp only [hi, if_false] at h
      rcases ih _ _ _ h with h1 | h1
      · by_cases ho : (prepareOne p block g i f').2 = true
        · simp only [ho, if_true, List.mem_append, List.mem_singleton] at h1
          rcases h1 with h1 | h1
          · left; exact h1
          · right; omega
        · simp only [ho, Bool.false_eq_true, if_false] at h1
          left; exact h1
      · right; exact h1

theorem prepareRound_opened_pos (g : Agc) (block fid : Nat) (h : fid ∈ (g.prepareRound block).2) : 1 ≤ fid := by
  unfold Agc.prepareRound at h
  split at h
  · simp at h
  · split at h
    · simp at h
    · rcases prepareLoop_opened_pos _ block fid _ g 0 [] h with h1 | h1
      · simp at h1
      · exact h1

theorem endCommit_cache_vals (st : Store) (g : Agc) (c : Cache) (p : Params) (h : Nat) :
    (endCommit st g c p h).2.2.vals = c.vals := by
  unfold endCommit
  simp only
  by_cases h1 : c.msgs.length > 0 <;> by_cases h2 : c.vUpdate = true <;> by_cases h3 : c.pUpdate = true
  all_goals simp only [h1, h2, h3, if_true, if_false, Bool.false_eq_true]
  all_goals (try cases hcp : c.params)
  all_goals simp

/-! ### keys of association lists under the store operations -/

theorem akeys_aset_mem {κ α} [DecidableEq κ] (k : κ) (v : α) (l : List (κ × α)) (h : k ∈ akeys l) :
    akeys (aset k v l) = akeys l := by
  induction l with
  | nil => simp [akeys] at h
  | cons hd t ih =>
    obtain ⟨k', v'⟩ := hd
    by_cases hk : k' = k
    · simp [aset, akeys, hk]
    · have : k ∈ akeys t := by
        simp only [akeys, List.map_cons, List.mem_cons] at h
        rcases h with h | h
        · exact absurd h.symm hk
        · exact h
      simp only [aset, hk, if_false, akeys, List.map_cons]
      have := ih this
      simp only [akeys] at this
      rw [this]

theorem akeys_filter_sublist {κ α} (P : (κ × α) → Bool) (l : List (κ × α)) :
    (akeys (l.filter P)).Sublist (akeys l) :=
  List.Sublist.map _ List.filter_sublist

theorem mem_akeys_adel_of_ne {κ α} [DecidableEq κ] (k x : κ) (l : List (κ × α)) (hx : x ≠ k) (h : x ∈ akeys l) :
    x ∈ akeys (adel k l) := by
  induction l with
  | nil => simp [akeys] at h
  | cons hd t ih =>
    obtain ⟨k', v'⟩ := hd
    simp only [akeys, List.map_cons, List.mem_cons] at h
    by_cases hk : k' = k
    · simp only [adel, hk, if_true]
      rcases h with h | h
      · exact absurd (h.trans hk) hx
      · exact h
    · simp only [adel, hk, if_false, akeys, List.map_cons, List.mem_cons]
      rcases h with h | h
      · exact Or.inl h
      · exact Or.inr (ih h)

/-- caches.go: cacheValidator.add keeps every validator that is not removed by a zero-power update -/
theorem cacheAddVals_keeps (v : Nat) (upd : List (Nat × Int)) (hup : ∀ kv ∈ upd, kv.2 = 0 → kv.1 ≠ v) :
    ∀ (cur : List (Nat × Int)), v ∈ akeys cur → v ∈ akeys (cacheAddVals cur upd).1 := by
  unfold cacheAddVals
  have key : ∀ (upd : List (Nat × Int)), (∀ kv ∈ upd, kv.2 = 0 → kv.1 ≠ v) → ∀ (acc : List (Nat × Int) × Bool),
      v ∈ akeys acc.1 → v ∈ akeys (upd.foldl (fun (acc : List (Nat × Int) × Bool) (kv : Nat × Int) =>
        match alookup kv.1 acc.1 with
        | some pw =>
          if kv.2 = 0 then (adel kv.1 acc.1, true)
          else if pw ≠ kv.2 then (aset kv.1 kv.2 acc.1, true)
          else acc
        | none => (aset kv.1 kv.2 acc.1, true)) acc).1 := by
    intro upd
    induction upd with
    | nil => intro _ acc h; exact h
    | cons kv t ih =>
      intro hup acc h
      simp only [List.foldl_cons]
      apply ih (fun kv' hk => hup kv' (by simp [hk]))
      cases hl : alookup kv.1 acc.1 with
      | none =>
        simp only
        exact (mem_akeys_aset _ _ _ _).mpr (Or.inr h)
      | some pw =>
        simp only
        by_cases h0 : kv.2 = 0
        · simp only [h0, if_true]
          exact mem_akeys_adel_of_ne _ _ _ (Ne.symm (hup kv (by simp) h0)) h
        · simp only [h0, if_false]
          by_cases h1 : pw ≠ kv.2
          · rw [if_pos h1]
            exact (mem_akeys_aset _ _ _ _).mpr (Or.inr h)
          · rw [if_neg h1]
            exact h
  intro cur h
  exact key upd hup (cur, false) h

theorem dropLeavers_keys (updates : List (Nat × Int)) : ∀ (st : Store),
    (akeys (dropLeavers st updates).nonces).Sublist (akeys st.nonces) ∧
    ∀ k ∈ akeys (dropLeavers st updates).nonces, ∀ kv ∈ updates, kv.2 = 0 → kv.1 ≠ k.1 := by
  induction updates with
  | nil => intro st; exact ⟨List.Sublist.refl _, by intro k _ kv hkv; simp at hkv⟩
  | cons kv t ih =>
    intro st
    simp only [dropLeavers, List.foldl_cons]
    by_cases h : kv.2 = 0
    · simp only [h, if_true]
      obtain ⟨i1, i2⟩ := ih { st with nonces := st.nonces.filter (fun e => !(e.1.1 = kv.1)) }
      refine ⟨i1.trans (akeys_filter_sublist _ _), ?_⟩
      intro k hk kv' hkv' h0
      simp only [List.mem_cons] at hkv'
      rcases hkv' with e | hkv'
      · subst e
        have hm := i1.subset hk
        simp only [akeys, List.mem_map, List.mem_filter] at hm
        obtain ⟨x, ⟨_, hx2⟩, hx3⟩ := hm
        intro e
        rw [← hx3] at e
        simp [e] at hx2
      · exact i2 k hk kv' hkv' h0
    · simp only [h, if_false]
      obtain ⟨i1, i2⟩ := ih st
      refine ⟨i1, ?_⟩
      intro k hk kv' hkv' h0
      simp only [List.mem_cons] at hkv'
      rcases hkv' with e | hkv'
      · subst e; exact absurd h0 h
      · exact i2 k hk kv' hkv' h0

theorem removeFold_keys (vals : List Nat) (l : List Nat) : ∀ (st : Store),
    (akeys (l.foldl (fun st fid => st.removeNonces fid vals) st).nonces).Sublist (akeys st.nonces) := by
  induction l with
  | nil => intro st; exact List.Sublist.refl _
  | cons a t ih =>
    intro st
    simp only [List.foldl_cons]
    exact (ih _).trans (akeys_filter_sublist _ _)

theorem addZeroNonces_keys (st : Store) (fid : Nat) (vals : List Nat) (h : (akeys st.nonces).Nodup) :
    (akeys (st.addZeroNonces fid vals).nonces).Nodup ∧
    ∀ k ∈ akeys (st.addZeroNonces fid vals).nonces, k ∈ akeys st.nonces ∨ (k.1 ∈ vals ∧ k.2 = fid) := by
  unfold Store.addZeroNonces
  simp only
  generalize st.nonces = ns at h
  have key : ∀ (vals : List Nat) (ns : List ((Nat × Nat) × Nat)), (akeys ns).Nodup →
      (akeys (vals.foldl (fun ns v => if (alookup (v, fid) ns).isSome then ns else ns ++ [((v, fid), 0)]) ns)).Nodup ∧
      ∀ k ∈ akeys (vals.foldl (fun ns v => if (alookup (v, fid) ns).isSome then ns else ns ++ [((v, fid), 0)]) ns),
        k ∈ akeys ns ∨ (k.1 ∈ vals ∧ k.2 = fid) := by
    intro vals
    induction vals with
    | nil => intro ns h; exact ⟨h, fun k hk => Or.inl hk⟩
    | cons v t ih =>
      intro ns h
      simp only [List.foldl_cons]
      by_cases hs : (alookup (v, fid) ns).isSome = true
      · simp only [hs, if_true]
        obtain ⟨i1, i2⟩ := ih ns h
        refine ⟨i1, fun k hk => ?_⟩
        rcases i2 k hk with h1 | ⟨h1, h2⟩
        · exact Or.inl h1
        · exact Or.inr ⟨by simp [h1], h2⟩
      · simp only [hs, Bool.false_eq_true, if_false]
        have hnone : alookup (v, fid) ns = none := by
          cases hh : alookup (v, fid) ns with
          | none => rfl
          | some c => simp [hh] at hs
        have hnm := (alookup_none_iff _ _).mp hnone
        have hnd : (akeys (ns ++ [((v, fid), 0)])).Nodup := by
          have e : akeys (ns ++ [((v, fid), (0 : Nat))]) = akeys ns ++ [(v, fid)] := by simp [akeys]
          rw [e]
          apply List.nodup_append.mpr
          refine ⟨h, by simp, ?_⟩
          intro a ha b hb
          simp only [List.mem_singleton] at hb
          subst hb
          intro e; subst e; exact hnm ha
        obtain ⟨i1, i2⟩ := ih _ hnd
        refine ⟨i1, fun k hk => ?_⟩
        rcases i2 k hk with h1 | ⟨h1, h2⟩
        · have e : akeys (ns ++ [((v, fid), (0 : Nat))]) = akeys ns ++ [(v, fid)] := by simp [akeys]
          rw [e] at h1
          simp only [List.mem_append, List.mem_singleton] at h1
          rcases h1 with h1 | h1
          · exact Or.inl h1
          · subst h1; exact Or.inr ⟨by simp, rfl⟩
        · exact Or.inr ⟨by simp [h1], h2⟩
  exact key vals ns h

theorem addZeroFold_keys (vals : List Nat) (l : List Nat) : ∀ (st : Store), (akeys st.nonces).Nodup →
    (akeys (l.foldl (fun st fid => st.addZeroNonces fid vals) st).nonces).Nodup ∧
    ∀ k ∈ akeys (l.foldl (fun st fid => st.addZeroNonces fid vals) st).nonces,
      k ∈ akeys st.nonces ∨ (k.1 ∈ vals ∧ k.2 ∈ l) := by
  induction l with
  | nil => intro st h; exact ⟨h, fun k hk => Or.inl hk⟩
  | cons a t ih =>
    intro st h
    simp only [List.foldl_cons]
    obtain ⟨a1, a2⟩ := addZeroNonces_keys st a vals h
    obtain ⟨i1, i2⟩ := ih _ a1
    refine ⟨i1, fun k hk => ?_⟩
    rcases i2 k hk with h1 | ⟨h1, h2⟩
    · rcases a2 k h1 with h3 | ⟨h3, h4⟩
      · exact Or.inl h3
      · exact Or.inr ⟨h3, by simp [h4]⟩
    · exact Or.inr ⟨h1, by simp [h2]⟩


/-! ### the invariant -/

/-- the nonce table holds one entry per key, only for validators of the current set and feeder ids
`1 ≤ fid < len(feeders)`; the aggregator's validator map and the cache's are in step -/
structure NonceOK (p : Params) (s : State) : Prop where
  sync : ∀ g, s.agc = some g → g.vals = s.cacheD.vals
  nodup : (akeys s.store.nonces).Nodup
  cur : ∀ g, s.agc = some g → ∀ k ∈ akeys s.store.nonces, k.1 ∈ akeys g.vals ∧ 1 ≤ k.2 ∧ k.2 < p.feeders.length

/-- a step inside a block: validator maps untouched, nonce keys only removed -/
structure NStep (s s' : State) : Prop where
  vals : s'.agc.map (·.vals) = s.agc.map (·.vals)
  cvals : s'.cacheD.vals = s.cacheD.vals
  keys : (akeys s'.store.nonces).Sublist (akeys s.store.nonces)

theorem NStep.refl (s : State) : NStep s s := ⟨rfl, rfl, List.Sublist.refl _⟩

theorem NStep.trans {a b c : State} (h1 : NStep a b) (h2 : NStep b c) : NStep a c :=
  ⟨h2.vals.trans h1.vals, h2.cvals.trans h1.cvals, h2.keys.trans h1.keys⟩

theorem NonceOK.step {p : Params} {s s' : State} (h : NonceOK p s) (hs : NStep s s') : NonceOK p s' := by
  refine ⟨?_, h.nodup.sublist hs.keys, ?_⟩
  · intro g' hg'
    have hv := hs.vals
    rw [hg'] at hv
    cases hg : s.agc with
    | none => rw [hg] at hv; simp at hv
    | some g =>
      rw [hg] at hv
      simp only [Option.map_some, Option.some.injEq] at hv
      rw [hv, hs.cvals]; exact h.sync g hg
  · intro g' hg' k hk
    have hv := hs.vals
    rw [hg'] at hv
    cases hg : s.agc with
    | none => rw [hg] at hv; simp at hv
    | some g =>
      rw [hg] at hv
      simp only [Option.map_some, Option.some.injEq] at hv
      rw [hv]; exact h.cur g hg k (hs.keys.subset hk)

theorem createPrice_nstep (p : Params) (s : State) (m : Msg) (hpf : PF p s) : NStep s (createPrice s m).1 := by
  obtain ⟨g, hg, hp⟩ := hpf.agc
  by_cases hts : checkTimestamp s.blockTime m = true
  · cases hc : g.checkMsg p m with
    | some e =>
      rw [createPrice_check_fail s m g p e hg hp hts hc]
      exact ⟨rfl, rfl, List.Sublist.refl _⟩
    | none =>
      rw [createPrice_fill s m g p hg hp hts hc]
      have hv := fillPrice_vals g p m
      rcases hf : g.fillPrice p m with ⟨g', res⟩
      rw [hf] at hv
      simp only at hv
      cases res with
      | ignored => exact ⟨by simp [hg, hv], rfl, List.Sublist.refl _⟩
      | cached it => exact ⟨by simp [hg, hv], rfl, List.Sublist.refl _⟩
      | final it => exact ⟨by simp [hg, hv], rfl, akeys_filter_sublist _ _⟩
  · have hts' : checkTimestamp s.blockTime m = false := by simpa using hts
    rw [createPrice_bad_ts s m hts']
    exact NStep.refl s

theorem runMsgs_nstep (p : Params) (ms : List Msg) : ∀ (s : State) (i : Nat), PF p s → NStep s (runMsgs s i ms).1 := by
  induction ms with
  | nil => intro s i _; exact NStep.refl s
  | cons m ms ih =>
    intro s i hpf
    have h1 := createPrice_nstep p s m hpf
    have h2 := createPrice_pf p s m hpf
    unfold runMsgs
    rcases hcp : createPrice s m with ⟨s', out⟩
    rw [hcp] at h1 h2
    cases out with
    | ok => exact h1.trans (ih s' (i + 1) h2.2.1)
    | err e => exact h1

theorem anteNonces_keys (mn : Nat) (ms : List Msg) : ∀ (st st' : Store), anteNonces mn st ms = some st' →
    akeys st'.nonces = akeys st.nonces := by
  induction ms with
  | nil => intro st st' h; simp only [anteNonces, Option.some.injEq] at h; rw [← h]
  | cons m ms ih =>
    intro st st' h
    simp only [anteNonces] at h
    cases hc : st.checkNonce mn m.creator m.feederID m.nonce with
    | none => rw [hc] at h; simp at h
    | some st1 =>
      rw [hc] at h
      obtain ⟨cur, h1, _, _, h4⟩ := checkNonce_some st st1 mn _ _ _ hc
      rw [ih st1 st' h, h4]
      apply akeys_aset_mem
      cases hm : decide ((m.creator, m.feederID) ∈ akeys st.nonces) with
      | true => simpa using hm
      | false =>
        have : (m.creator, m.feederID) ∉ akeys st.nonces := by simpa using hm
        rw [(alookup_none_iff _ _).mpr this] at h1
        cases h1

theorem deliverTx_nstep (p : Params) (s : State) (tx : Tx) (hpf : PF p s) : NStep s (deliverTx s tx).1 := by
  unfold deliverTx
  cases ha : anteHandle s tx with
  | error why => exact NStep.refl s
  | ok st =>
    simp only
    have hk := anteNonces_keys _ _ _ _ (anteHandle_ok s tx st ha)
    have h0 : PF p { s with store := st } := ⟨hpf.agc, hpf.cache⟩
    have h1 := runMsgs_nstep p tx.msgs { s with store := st } 0 h0
    have hs0 : NStep s { s with store := st } := ⟨rfl, rfl, by rw [hk]; exact List.Sublist.refl _⟩
    rcases hr : runMsgs { s with store := st } 0 tx.msgs with ⟨s2, r⟩
    rw [hr] at h1
    cases r with
    | none => exact hs0.trans h1
    | some ie => exact ⟨h1.vals, h1.cvals, by rw [hk]; exact List.Sublist.refl _⟩

theorem runTxs_nstep (p : Params) (txs : List Tx) : ∀ (s : State), PF p s → NStep s (runTxs s txs).1 := by
  induction txs with
  | nil => intro s _; exact NStep.refl s
  | cons tx txs ih =>
    intro s hpf
    simp only [runTxs]
    exact (deliverTx_nstep p s tx hpf).trans (ih _ (deliverTx_pf p s tx hpf).2.1)

/-! ### EndBlock -/

theorem feeder_lt (p : Params) (fid : Nat) (f : Feeder) (h : p.feeder? fid = some f) : fid < p.feeders.length := by
  unfold Params.feeder? at h
  cases hlt : decide (fid < p.feeders.length) with
  | true => simpa using hlt
  | false =>
    have : p.feeders.length ≤ fid := by simpa using hlt
    rw [List.getElem?_eq_none this] at h
    cases h

theorem endTail_nonceOK (s : State) (g : Agc) (c : Cache) (updates : List (Nat × Int)) (force : Bool) (p : Params)
    (hg : g.params = some p) (hc : c.pUpdate = true → c.params = some p) (hs : g.vals = c.vals)
    (hn : (akeys s.store.nonces).Nodup)
    (hk : ∀ k ∈ akeys (dropLeavers s.store updates).nonces, k.1 ∈ akeys g.vals ∧ 1 ≤ k.2 ∧ k.2 < p.feeders.length) :
    NonceOK p (endTail s g c updates force p) := by
  unfold endTail
  simp only
  generalize hsr : g.sealRound p s.height force = sr
  obtain ⟨g2, failed, sealed⟩ := sr
  simp only
  have hg2 : g2.vals = g.vals := by
    have := sealRound_vals g p s.height force
    rw [hsr] at this; exact this
  have hfr := endCommit_frame (endStore1 s.store updates sealed failed (g2.vals.map (·.1)) p.maxSizePrices) g2 c p s.height
  have hcv := endCommit_cache_vals (endStore1 s.store updates sealed failed (g2.vals.map (·.1)) p.maxSizePrices) g2 c p s.height
  have hpar : (endCommit (endStore1 s.store updates sealed failed (g2.vals.map (·.1)) p.maxSizePrices) g2 c p s.height).2.1.params = some p := by
    rcases hfr.2.2.2.2.2.2.2.2 with h | ⟨h1, h2⟩
    · rw [h]
      have := sealRound_params g p s.height force
      rw [hsr] at this
      rw [this]; exact hg
    · rw [h2]; exact hc h1
  have hv4 : ((endCommit (endStore1 s.store updates sealed failed (g2.vals.map (·.1)) p.maxSizePrices) g2 c p s.height).2.1.prepareRound s.height).1.vals = g.vals := by
    rw [prepareRound_vals, hfr.2.2.2.2.2.1, hg2]
  have hsub : (akeys (endCommit (endStore1 s.store updates sealed failed (g2.vals.map (·.1)) p.maxSizePrices) g2 c p s.height).1.nonces).Sublist
      (akeys (dropLeavers s.store updates).nonces) := by
    rw [hfr.2.1, endStore1_eq, growFold_nonces]
    exact removeFold_keys _ _ _
  have hnd : (akeys (endCommit (endStore1 s.store updates sealed failed (g2.vals.map (·.1)) p.maxSizePrices) g2 c p s.height).1.nonces).Nodup :=
    (hn.sublist (dropLeavers_keys updates s.store).1).sublist hsub
  obtain ⟨a1, a2⟩ := addZeroFold_keys
    (((endCommit (endStore1 s.store updates sealed failed (g2.vals.map (·.1)) p.maxSizePrices) g2 c p s.height).2.1.prepareRound s.height).1.vals.map (·.1))
    ((endCommit (endStore1 s.store updates sealed failed (g2.vals.map (·.1)) p.maxSizePrices) g2 c p s.height).2.1.prepareRound s.height).2 _ hnd
  refine ⟨?_, a1, ?_⟩
  · intro g' hg'
    simp only [Option.some.injEq] at hg'
    rw [← hg', hv4]
    simp only [State.cacheD, Option.getD_some]
    rw [hcv]; exact hs
  · intro g' hg' k hkm
    simp only [Option.some.injEq] at hg'
    rw [← hg', hv4]
    rcases a2 k hkm with h1 | ⟨h1, h2⟩
    · exact hk k (hsub.subset h1)
    · rw [hv4] at h1
      refine ⟨h1, prepareRound_opened_pos _ _ _ h2, ?_⟩
      obtain ⟨f, hf, _⟩ := prepareRound_opened _ p _ _ hpar h2
      exact feeder_lt p _ f hf

theorem endVals_vals (g : Agc) (c : Cache) (updates : List (Nat × Int)) :
    (updates.length > 0 → (endVals g c updates).1.vals = (cacheAddVals c.vals updates).1 ∧
      (endVals g c updates).2.1.vals = (cacheAddVals c.vals updates).1) ∧
    (¬ updates.length > 0 → (endVals g c updates).1 = g ∧ (endVals g c updates).2.1 = c) := by
  unfold endVals
  constructor
  · intro h
    simp [h, Agc.setValidators]
  · intro h
    simp [h]

theorem endBlock_nonceOK (p : Params) (s s' : State) (updates : List (Nat × Int)) (hpf : PF p s)
    (hok : NonceOK p s) (he : endBlock s updates = some s') : NonceOK p s' := by
  obtain ⟨g, hg, hp⟩ := hpf.agc
  have hf := endVals_frame g s.cacheD updates
  rw [endBlock_eq s updates g hg, hf.1, hp] at he
  simp only [Option.some.injEq] at he
  rw [← he]
  have hvv := endVals_vals g s.cacheD updates
  apply endTail_nonceOK { s with cache := some s.cacheD, dogfood := endDog s.dogfood updates }
  · rw [hf.1]; exact hp
  · rw [hf.2.2.2.1, hf.2.2.2.2.1]; exact hpf.cacheD
  · by_cases hu : updates.length > 0
    · rw [(hvv.1 hu).1, (hvv.1 hu).2]
    · rw [(hvv.2 hu).1, (hvv.2 hu).2]; exact hok.sync g hg
  · exact hok.nodup
  · intro k hk
    obtain ⟨d1, d2⟩ := dropLeavers_keys updates s.store
    have hk0 := hok.cur g hg k (d1.subset hk)
    refine ⟨?_, hk0.2⟩
    by_cases hu : updates.length > 0
    · rw [(hvv.1 hu).1]
      apply cacheAddVals_keeps k.1 updates (fun kv hkv h0 => d2 k hk kv hkv h0)
      rw [← hok.sync g hg]; exact hk0.1
    · rw [(hvv.2 hu).1]; exact hk0.1

theorem runBlock_nonceOK (p : Params) (s s' : State) (b : Block) (outs : List TxOut) (hpf : PF p s)
    (hok : NonceOK p s) (hr : runBlock s b = some (s', outs)) : NonceOK p s' := by
  unfold runBlock at hr
  have h0 : PF p (beginBlock s b.blockTime) := ⟨hpf.agc, hpf.cache⟩
  have hT := runTxs_pf p b.txs _ h0
  have hN := runTxs_nstep p b.txs _ h0
  have hok0 : NonceOK p (beginBlock s b.blockTime) := ⟨hok.sync, hok.nodup, hok.cur⟩
  cases he : endBlock (runTxs (beginBlock s b.blockTime) b.txs).1 b.updates with
  | none => simp [he] at hr
  | some s1 =>
    simp only [he, Option.some.injEq, Prod.mk.injEq] at hr
    rw [← hr.1]
    exact endBlock_nonceOK p _ _ b.updates hT.2.1 (hok0.step hN) he

theorem runBlocks_nonceOK (p : Params) (bs : List Block) : ∀ (s s' : State) (outs : List (List TxOut)),
    PF p s → NonceOK p s → runBlocks s bs = some (s', outs) → NonceOK p s' := by
  induction bs with
  | nil =>
    intro s s' outs _ hok hr
    simp only [runBlocks, Option.some.injEq, Prod.mk.injEq] at hr
    rw [← hr.1]; exact hok
  | cons b bs ih =>
    intro s s' outs hpf hok hr
    simp only [runBlocks] at hr
    cases hb : runBlock s b with
    | none => rw [hb] at hr; cases hr
    | some r1 =>
      obtain ⟨s1, o1⟩ := r1
      rw [hb] at hr
      simp only at hr
      cases hbs : runBlocks s1 bs with
      | none => rw [hbs] at hr; cases hr
      | some r2 =>
        obtain ⟨s2, o2⟩ := r2
        rw [hbs] at hr
        simp only [Option.some.injEq, Prod.mk.injEq] at hr
        rw [← hr.1]
        obtain ⟨s1', o1', hb', _, hpf1, _⟩ := runBlock_pf p s b hpf
        rw [hb] at hb'
        simp only [Option.some.injEq, Prod.mk.injEq] at hb'
        rw [← hb'.1] at hpf1
        exact ih s1 s2 o2 hpf1 (runBlock_nonceOK p s s1 b o1 hpf hok hb) hbs

/-! ### at most validators × feeders entries -/

theorem filter_partition_length {α} (P : α → Bool) (l : List α) :
    (l.filter P).length + (l.filter (fun x => !P x)).length = l.length := by
  induction l with
  | nil => simp
  | cons x t ih =>
    by_cases hp : P x = true
    · simp only [List.filter_cons, hp, if_true, Bool.not_true, Bool.false_eq_true, if_false, List.length_cons]; omega
    · have hp' : P x = false := by simpa using hp
      simp only [List.filter_cons, hp', Bool.false_eq_true, if_false, Bool.not_false, if_true, List.length_cons]; omega

theorem map_snd_nodup (a : Nat) (l : List (Nat × Nat)) (h : l.Nodup) (ha : ∀ x ∈ l, x.1 = a) :
    (l.map (·.2)).Nodup := by
  induction l with
  | nil => simp
  | cons x t ih =>
    have h' := List.nodup_cons.mp h
    simp only [List.map_cons, List.nodup_cons]
    refine ⟨?_, ih h'.2 (fun y hy => ha y (by simp [hy]))⟩
    intro hm
    obtain ⟨y, hy, he⟩ := List.mem_map.mp hm
    have e1 := ha x (by simp)
    have e2 := ha y (by simp [hy])
    have : y = x := Prod.ext (e2.trans e1.symm) he
    exact h'.1 (this ▸ hy)

theorem pairs_length_le (lo F : Nat) (A : List Nat) : ∀ (l : List (Nat × Nat)), l.Nodup →
    (∀ x ∈ l, x.1 ∈ A ∧ x.2 < lo ∧ lo ≤ x.2 + F) → l.length ≤ A.length * F := by
  induction A with
  | nil =>
    intro l _ h
    cases l with
    | nil => simp
    | cons x t => have := (h x (by simp)).1; simp at this
  | cons a A ih =>
    intro l hn h
    have hp := filter_partition_length (fun x : Nat × Nat => decide (x.1 = a)) l
    have h1 : (l.filter (fun x => decide (x.1 = a))).length ≤ F := by
      have hnd := map_snd_nodup a (l.filter (fun x => decide (x.1 = a))) (hn.sublist List.filter_sublist)
        (fun x hx => by simpa using (List.mem_filter.mp hx).2)
      have := nodup_window_length F _ lo hnd (by
        intro y hy
        obtain ⟨x, hx, he⟩ := List.mem_map.mp hy
        have := (h x (List.mem_filter.mp hx).1).2
        rw [← he]; exact this)
      simpa using this
    have h2 : (l.filter (fun x => !decide (x.1 = a))).length ≤ A.length * F := by
      apply ih _ (hn.sublist List.filter_sublist)
      intro x hx
      have hx' := List.mem_filter.mp hx
      have hne : ¬ x.1 = a := by simpa using hx'.2
      have := h x hx'.1
      refine ⟨?_, this.2⟩
      rcases List.mem_cons.mp this.1 with e | e
      · exact absurd e hne
      · exact e
    simp only [List.length_cons, Nat.succ_mul]
    omega

/-- the nonce table never holds more than `validators × feeders` entries -/
theorem nonces_length_le (p : Params) (s : State) (g : Agc) (hok : NonceOK p s) (hg : s.agc = some g) :
    s.store.nonces.length ≤ g.vals.length * (p.feeders.length - 1) := by
  have h := pairs_length_le p.feeders.length (p.feeders.length - 1) (akeys g.vals) (akeys s.store.nonces) hok.nodup
    (fun k hk => by
      have := hok.cur g hg k hk
      exact ⟨this.1, this.2.2, by omega⟩)
  simpa [akeys] using h


/-! ### what a counted message went through -/

theorem sanityCheck_none (g : Agc) (p : Params) (m : Msg) (h : g.sanityCheck p m = none) :
    (alookup m.creator g.vals).isSome = true ∧ m.prices ≠ [] ∧ sanitySources p m.prices = none := by
  unfold Agc.sanityCheck at h
  by_cases h1 : (alookup m.creator g.vals).isNone = true
  · rw [if_pos h1] at h; cases h
  · rw [if_neg h1] at h
    by_cases h2 : m.prices.length = 0
    · rw [if_pos h2] at h; cases h
    · rw [if_neg h2] at h
      refine ⟨?_, ?_, h⟩
      · cases hv : alookup m.creator g.vals with
        | none => simp [hv] at h1
        | some x => rfl
      · intro e; rw [e] at h2; simp at h2

/-- context.go: FillPrice answers "ignored" unless the feeder's worker is still collecting and its
filter (filter.go: filtrate — first use of this nonce by this validator, and at least one source /
source round the validator has not reported yet) lets something of the message through -/
theorem fillPrice_not_ignored (g : Agc) (p : Params) (m : Msg) (h : (g.fillPrice p m).2 ≠ .ignored) :
    ((alookup m.feederID g.workers).getD (newWorker p g m.feederID)).sealed = false ∧
    ∃ f, ((alookup m.feederID g.workers).getD (newWorker p g m.feederID)).f = some f ∧ (f.filtrate m).2.2 ≠ [] := by
  unfold Agc.fillPrice at h
  simp only at h
  generalize (alookup m.feederID g.workers).getD (newWorker p g m.feederID) = w at h ⊢
  by_cases hs : w.sealed = true
  · simp [hs] at h
  · have hs' : w.sealed = false := by simpa using hs
    refine ⟨hs', ?_⟩
    simp only [hs', Bool.false_eq_true, if_false] at h
    by_cases hl : (w.run p ((alookup m.creator g.vals).getD 0) m).2.length > 0
    · unfold Worker.run at hl
      cases hf : w.f with
      | none => simp [hf] at hl
      | some f =>
        refine ⟨f, rfl, ?_⟩
        cases hc : w.c with
        | none => simp [hf, hc] at hl
        | some c =>
          cases ha : w.a with
          | none => simp [hf, hc, ha] at hl
          | some a =>
            simp only [hf, hc, ha] at hl
            intro he
            split at hl <;> simp [he] at hl
    · simp [hl] at h


/-! ### a transaction whose first message is refused -/

theorem runMsgs_idx (ms : List Msg) : ∀ (s : State) (i j : Nat) (e : MsgErr),
    (runMsgs s i ms).2 = some (j, e) → i ≤ j := by
  induction ms with
  | nil => intro s i j e h; simp [runMsgs] at h
  | cons m ms ih =>
    intro s i j e h
    unfold runMsgs at h
    rcases hcp : createPrice s m with ⟨s', out⟩
    rw [hcp] at h
    cases out with
    | ok => have := ih s' (i + 1) j e h; omega
    | err e' => simp only [Option.some.injEq, Prod.mk.injEq] at h; omega

theorem runMsgs_fail_first (s : State) (i : Nat) (ms : List Msg) (e : MsgErr)
    (h : (runMsgs s i ms).2 = some (i, e)) :
    ∃ m rest, ms = m :: rest ∧ createPrice s m = ((runMsgs s i ms).1, .err e) := by
  cases ms with
  | nil => simp [runMsgs] at h
  | cons m rest =>
    refine ⟨m, rest, rfl, ?_⟩
    unfold runMsgs at h ⊢
    rcases hcp : createPrice s m with ⟨s', out⟩
    rw [hcp] at h
    cases out with
    | ok =>
      have := runMsgs_idx rest s' (i + 1) i e h
      omega
    | err e' =>
      simp only [Option.some.injEq, Prod.mk.injEq] at h
      rw [h.2]

theorem createPrice_err_frame (p : Params) (s : State) (m : Msg) (e : MsgErr) (hpf : PF p s)
    (h : (createPrice s m).2 = .err e) (hne : e ≠ .ignored) :
    (createPrice s m).1.agc = s.agc ∧ (createPrice s m).1.cacheD = s.cacheD ∧ (createPrice s m).1.store = s.store := by
  obtain ⟨g, hg, hp⟩ := hpf.agc
  by_cases hts : checkTimestamp s.blockTime m = true
  · cases hc : g.checkMsg p m with
    | some e' =>
      rw [createPrice_check_fail s m g p e' hg hp hts hc]
      exact ⟨rfl, rfl, rfl⟩
    | none =>
      rw [createPrice_fill s m g p hg hp hts hc] at h
      rcases hf : g.fillPrice p m with ⟨g', res⟩
      rw [hf] at h
      cases res with
      | ignored => simp only [MsgOut.err.injEq] at h; exact absurd h.symm hne
      | cached it => cases h
      | final it => cases h
  · have hts' : checkTimestamp s.blockTime m = false := by simpa using hts
    rw [createPrice_bad_ts s m hts']
    exact ⟨rfl, rfl, rfl⟩

theorem deliverTx_first_fail (p : Params) (s : State) (tx : Tx) (e : MsgErr) (hpf : PF p s)
    (hout : (deliverTx s tx).2 = .msg 0 e) (hne : e ≠ .ignored) :
    (deliverTx s tx).1.agc = s.agc ∧ (deliverTx s tx).1.cacheD = s.cacheD ∧
    (deliverTx s tx).1.store.prices = s.store.prices ∧
    anteNonces s.store.params.maxNonce s.store tx.msgs = some (deliverTx s tx).1.store := by
  unfold deliverTx at hout ⊢
  cases ha : anteHandle s tx with
  | error why => rw [ha] at hout; cases hout
  | ok st =>
    rw [ha] at hout
    simp only at hout ⊢
    have hfr := anteHandle_frame s tx st ha
    have hante := anteHandle_ok s tx st ha
    have h0 : PF p { s with store := st } := ⟨hpf.agc, hpf.cache⟩
    rcases hr : runMsgs { s with store := st } 0 tx.msgs with ⟨s2, r⟩
    rw [hr] at hout
    cases r with
    | none => cases hout
    | some ie =>
      obtain ⟨i, e'⟩ := ie
      simp only [TxOut.msg.injEq] at hout
      obtain ⟨hi, he⟩ := hout
      subst hi; subst he
      obtain ⟨m, rest, _, hcp⟩ := runMsgs_fail_first { s with store := st } 0 tx.msgs e' (by rw [hr])
      rw [hr] at hcp
      simp only at hcp
      have hfrm := createPrice_err_frame p { s with store := st } m e' h0 (by rw [hcp]) hne
      rw [hcp] at hfrm
      simp only at hfrm ⊢
      exact ⟨hfrm.1, hfrm.2.1, hfr.1, hante⟩

end ExoVerif.Oracle
