import ExoVerif.Proofs.AvsHist
/-!
Helper lemmas for Props/C20Spelling.lean: which STRINGS can name a task contract in the stores.

The model (like the Go code) keys the task store, the result store and the lookup of the AVS of a task
contract by the address string as it was handed in. `SpellInv P s` says, for an arbitrary predicate `P` on
strings ("is a spelling the AVS registrations use"):
  * every registered AVS has an empty task address or one satisfying `P`;
  * every key of the task store has an address satisfying `P`;
  * every key of the result store names a key of the task store, literally (same string, same id).
It holds initially and is kept by every step whose `update` operations carry an empty task address or one
satisfying `P`; `submit`, `task`, `challenge` operations are unconstrained (any string whatsoever).
-/
namespace ExoVerif.KV
variable {κ : Type} {α : Type} [DecidableEq κ]

/-- membership after `set`, without a no-duplicates hypothesis -/
theorem mem_set' (m : List (κ × α)) (k : κ) (v : α) (q : κ × α) (h : q ∈ set m k v) : q = (k, v) ∨ q ∈ m := by
  induction m with
  | nil => simp [set] at h; exact Or.inl h
  | cons p rest ih =>
    obtain ⟨k', v'⟩ := p
    by_cases h1 : k' = k
    · simp only [set, h1, if_true, List.mem_cons] at h
      rcases h with h | h
      · exact Or.inl h
      · exact Or.inr (by simp [h])
    · simp only [set, h1, if_false, List.mem_cons] at h
      rcases h with h | h
      · exact Or.inr (by simp [h])
      · rcases ih h with h2 | h2
        · exact Or.inl h2
        · exact Or.inr (by simp [h2])

theorem mem_keys_of_find? (m : List (κ × α)) (k : κ) (v : α) (h : find? m k = some v) : k ∈ keys m :=
  mem_keys_of_mem m (k, v) (find?_mem m k v h)

end ExoVerif.KV

namespace ExoVerif.Avs
open ExoVerif

/-- the keys of the task store over the statistics loop: none is lost, none appears that is neither there nor due -/
theorem statGo_keys (s : State) (pw : Powers) (l tasks : List ((Addr × Nat) × Task)) (x : Addr × Nat) :
    (x ∈ KV.keys tasks → x ∈ KV.keys (statGo s pw l tasks)) ∧
    (x ∈ KV.keys (statGo s pw l tasks) → x ∈ KV.keys tasks ∨ x ∈ l.map (·.1)) := by
  induction l generalizing tasks with
  | nil => simp [statGo]
  | cons kt rest ih =>
    obtain ⟨k, t⟩ := kt
    cases hs : statTask s pw t with
    | none =>
      simp only [statGo, hs]
      refine ⟨(ih tasks).1, fun h => ?_⟩
      rcases (ih tasks).2 h with h | h
      · exact Or.inl h
      · exact Or.inr (by simp [h])
    | some t' =>
      simp only [statGo, hs]
      refine ⟨fun h => (ih _).1 ((KV.keys_set_mem tasks k t' x).2 (Or.inr h)), fun h => ?_⟩
      rcases (ih _).2 h with h | h
      · rcases (KV.keys_set_mem tasks k t' x).1 h with h | h
        · exact Or.inr (by simp [h])
        · exact Or.inl h
      · exact Or.inr (by simp [h])

theorem epochEnd_task_keys (s : State) (id : String) (n : Int) (pw : Powers) (x : Addr × Nat) :
    x ∈ KV.keys (epochEnd s id n pw).1.tasks ↔ x ∈ KV.keys s.tasks := by
  simp only [epochEnd]
  constructor
  · intro h
    rcases (statGo_keys s pw (dueTasks s id n) s.tasks x).2 h with h | h
    · exact h
    · obtain ⟨kt, hkt, rfl⟩ := List.mem_map.1 h
      simp only [dueTasks, List.mem_filter] at hkt
      exact KV.mem_keys_of_mem _ _ hkt.1
  · exact (statGo_keys s pw (dueTasks s id n) s.tasks x).1

def SpellInv (P : String → Prop) (s : State) : Prop :=
  (∀ p ∈ s.avss, p.2.taskAddr = "" ∨ P p.2.taskAddr) ∧
  (∀ k ∈ KV.keys s.tasks, P k.1) ∧
  (∀ k ∈ KV.keys s.results, k.2 ∈ KV.keys s.tasks)

theorem spellInv_init (P : String → Prop) : SpellInv P init := by
  refine ⟨?_, ?_, ?_⟩ <;> intro k hk <;> simp [init, KV.keys] at hk

theorem spellInv_congr {P : String → Prop} {s s' : State} (h1 : s'.avss = s.avss) (h2 : s'.tasks = s.tasks)
    (h3 : s'.results = s.results) (hi : SpellInv P s) : SpellInv P s' := by
  unfold SpellInv at *; rw [h1, h2, h3]; exact hi

/-- the operations the invariant constrains: an `update` carries no task address or one satisfying `P` -/
def Op.spelled (P : String → Prop) : Op → Prop
  | .update p => p.taskAddr = "" ∨ P p.taskAddr
  | _ => True

theorem spellInv_update (P : String → Prop) (s : State) (p : AvsParams) (hp : p.taskAddr = "" ∨ P p.taskAddr)
    (hi : SpellInv P s) : SpellInv P (updateAVS s p).1 := by
  obtain ⟨ha, ht, hr⟩ := hi
  have hf := updateAVS_frame s p
  have ht' : (updateAVS s p).1.tasks = s.tasks := hf.2.2.2.2.2.2.2.1
  have hr' : (updateAVS s p).1.results = s.results := hf.2.2.1
  refine ⟨?_, by rw [ht']; exact ht, by rw [hr', ht']; exact hr⟩
  -- the registry
  have setOk : ∀ a : AVS, (a.taskAddr = "" ∨ P a.taskAddr) →
      ∀ q ∈ KV.set s.avss p.avsAddr a, q.2.taskAddr = "" ∨ P q.2.taskAddr := by
    intro a hA q hq
    rcases KV.mem_set' _ _ _ _ hq with h | h
    · rw [h]; exact hA
    · exact ha q h
  unfold updateAVS
  simp only []
  split
  · exact ha
  · split
    · split
      · exact ha
      · split
        · exact ha
        · split
          · exact ha
          · exact setOk _ hp
    · split
      · split
        · exact ha
        · split
          · exact ha
          · split
            · exact ha
            · split
              · exact ha
              · intro q hq; exact ha q (KV.mem_erase _ _ _ hq)
      · split
        · split
          · exact ha
          · rename_i a hfind
            split
            · exact ha
            · split
              · exact ha
              · refine setOk _ ?_
                simp only [mergeAVS]
                by_cases hne : p.taskAddr = ""
                · simp only [hne, ne_eq, not_true_eq_false, if_false]
                  exact ha (p.avsAddr, a) (KV.find?_mem _ _ _ hfind)
                · simp only [ne_eq, hne, not_false_eq_true, if_true]
                  rcases hp with h | h
                  · exact absurd h hne
                  · exact Or.inr h
        · exact ha

theorem spellInv_create (P : String → Prop) (s : State) (p : TaskParams) (hi : SpellInv P s) :
    SpellInv P (createTask s p).1 := by
  obtain ⟨ha, ht, hr⟩ := hi
  rcases createTask_spec s p with ⟨h, _⟩ | ⟨a, cur, t, hav, _, _, _, _, _, _, _, _, _, _, _, h⟩
  · rw [h]; exact ⟨ha, ht, hr⟩
  · rw [h]
    obtain ⟨hne, hta, k, hmem⟩ := avsByTaskAddr_some s p.taskAddr a hav
    have hP : P p.taskAddr := by
      rcases ha (k, a) hmem with h0 | h0
      · exact absurd (hta ▸ h0) hne
      · exact hta ▸ h0
    refine ⟨ha, ?_, ?_⟩
    · intro x hx
      simp only [afterCreate] at hx
      rcases (KV.keys_set_mem _ _ _ _).1 hx with h1 | h1
      · rw [h1]; exact hP
      · exact ht x h1
    · intro x hx
      simp only [afterCreate] at hx ⊢
      exact (KV.keys_set_mem _ _ _ _).2 (Or.inr (hr x hx))

/-- an accepted submission found a task under exactly the submitted address string -/
theorem submit_ok_task (s : State) (i : Submit) (h : (submit s i).2 = "ok") :
    (i.taskAddr, i.id) ∈ KV.keys s.tasks := by
  rcases submit_spec s i with ⟨_, h2⟩ | ⟨_, _, _, task, cur, hf, _, _⟩
  · exact absurd h h2
  · exact KV.mem_keys_of_find? _ _ _ hf

theorem spellInv_submit (P : String → Prop) (s : State) (i : Submit) (hi : SpellInv P s) :
    SpellInv P (submit s i).1 := by
  obtain ⟨ha, ht, hr⟩ := hi
  have hf := submit_frame s i
  have ha' : (submit s i).1.avss = s.avss := hf.1
  have ht' : (submit s i).1.tasks = s.tasks := hf.2.2.2.2.2.2.1
  refine ⟨by rw [ha']; exact ha, by rw [ht']; exact ht, ?_⟩
  rw [ht']
  rcases submit_cases s i with h | ⟨h, _⟩ | ⟨h, _⟩
  · rw [h]; exact hr
  · have hk := submit_ok_task s i (by rw [h])
    rw [h]; intro x hx
    simp only [afterOne] at hx
    rcases (KV.keys_set_mem _ _ _ _).1 hx with h1 | h1
    · rw [h1]; exact hk
    · exact hr x h1
  · have hk := submit_ok_task s i (by rw [h])
    rw [h]; intro x hx
    simp only [afterTwo] at hx
    rcases (KV.keys_set_mem _ _ _ _).1 hx with h1 | h1
    · rw [h1]; exact hk
    · exact hr x h1

theorem spellInv_epochEnd (P : String → Prop) (s : State) (id : String) (n : Int) (pw : Powers) (hi : SpellInv P s) :
    SpellInv P (epochEnd s id n pw).1 := by
  obtain ⟨ha, ht, hr⟩ := hi
  have hf := epochEnd_frame s id n pw
  have ha' : (epochEnd s id n pw).1.avss = s.avss := hf.1
  have hr' : (epochEnd s id n pw).1.results = s.results := hf.2.2.2.1
  refine ⟨by rw [ha']; exact ha, ?_, ?_⟩
  · intro x hx; exact ht x ((epochEnd_task_keys s id n pw x).1 hx)
  · rw [hr']; intro x hx; exact (epochEnd_task_keys s id n pw x.2).2 (hr x hx)

theorem spellInv_step (P : String → Prop) (s : State) (o : Op) (ho : o.spelled P) (hi : SpellInv P s) :
    SpellInv P (step s o).1 := by
  unfold step
  split
  · exact hi
  · cases o with
    | setEpochs e => exact hi
    | setEnv a b => exact hi
    | update p => exact spellInv_update P s p ho hi
    | opt d a op avs u =>
      have h := optAction_frame s d a op avs u
      exact spellInv_congr h.1 h.2.2.2.2.2.2.2.2.1 h.2.2.2.1 hi
    | task p => exact spellInv_create P s p hi
    | bls op pk ok =>
      have h := regBLS_frame s op pk ok
      exact spellInv_congr h.1 h.2.2.2.2.2.2.2.2.1 h.2.2.2.1 hi
    | submit i => exact spellInv_submit P s i hi
    | challenge c =>
      have h := challenge_frame s c
      exact spellInv_congr h.1 h.2.2.2.2.2.2.1 h.2.2.2.1 hi
    | epochEnd id n pw => exact spellInv_epochEnd P s id n pw hi

theorem spellInv_run (P : String → Prop) (ops : List Op) (s : State) (ho : ∀ o ∈ ops, o.spelled P)
    (hi : SpellInv P s) : SpellInv P (run s ops) := by
  induction ops generalizing s with
  | nil => exact hi
  | cons o rest ih =>
    simp only [run]
    exact ih _ (fun o' h => ho o' (List.mem_cons_of_mem _ h)) (spellInv_step P s o (ho o (List.mem_cons_self ..)) hi)

end ExoVerif.Avs
