import ExoVerif.Proofs.LedgerRelease
import ExoVerif.Proofs.LedgerPend
import ExoVerif.Proofs.LedgerNN
import ExoVerif.Proofs.LedgerAccept
/-! Helper lemmas for C03's release clause: the completion of a live record never fails in a state of the
    invariants (the pending-undelegation figures cover the record's amount, the escrow account covers a
    native-token record), hence a due, un-held record IS released by the block's EndBlock. Core Lean only. -/
namespace ExoVerif.Ledger
open ExoVerif ExoVerif.KV

/-- each of the three pending-undelegation figures naming a live record is at least the record's amount -/
theorem pend_figures_cover {s : L} (hp : PendInv s) (hn : NN s) {r : URec} (hr : find? s.recs r.key = some r) :
    r.amount ≤ (getD s.deleg (r.staker, r.asset, r.op) zeroDeleg).wait ∧
    r.amount ≤ (getD s.pools (r.op, r.asset) zeroPool).pending ∧
    (r.asset ≠ nativeAID → r.amount ≤ (getD s.stakers (r.staker, r.asset) zeroStaker).pending) := by
  obtain ⟨p1, p2, p3⟩ := hp
  have hnn : ∀ e ∈ s.recs, 0 ≤ e.2.amount := fun e he => by have := hn.rc e he; omega
  refine ⟨?_, ?_, fun ha => ?_⟩
  · rw [p3]
    have h := atP_le_sumP (pdAt r.staker r.asset r.op) s.recs r.key (fun e he => by
      unfold pdAt; split
      · exact hnn e he
      · exact Int.le_refl 0)
    rw [atP_of_find _ _ _ _ hr] at h
    simpa [pdAt] using h
  · rw [p2]
    have h := atP_le_sumP (ppAt r.op r.asset) s.recs r.key (fun e he => by
      unfold ppAt; split
      · exact hnn e he
      · exact Int.le_refl 0)
    rw [atP_of_find _ _ _ _ hr] at h
    simpa [ppAt] using h
  · rw [p1 _ _ ha]
    have h := atP_le_sumP (psAt r.staker r.asset) s.recs r.key (fun e he => by
      unfold psAt; split
      · exact hnn e he
      · exact Int.le_refl 0)
    rw [atP_of_find _ _ _ _ hr] at h
    simpa [psAt] using h

/-- the escrow account covers what a live native-token record still owes -/
theorem escrow_covers_record {s : L} (hn : NN s) (hc : value s nativeAID ≤ s.escrow) {r : URec}
    (hr : find? s.recs r.key = some r) (ha : r.asset = nativeAID) : r.actual ≤ s.escrow := by
  have h1 : 0 ≤ sumP (wAt nativeAID) s.stakers := sumP_nonneg _ _ (fun e he => by
    unfold wAt; split
    · exact (hn.st e he).2.1
    · exact Int.le_refl 0)
  have h2 : 0 ≤ sumP (pAt nativeAID) s.pools := sumP_nonneg _ _ (fun e he => by
    unfold pAt; split
    · exact (hn.pl e he).1
    · exact Int.le_refl 0)
  have h3 := atP_le_sumP (rAt nativeAID) s.recs r.key (fun e he => by
    unfold rAt; split
    · exact (hn.rc e he).1
    · exact Int.le_refl 0)
  rw [atP_of_find _ _ _ _ hr] at h3
  simp only [rAt, ha, if_true] at h3
  unfold value at hc
  omega

theorem creditStaker_accepts (s : L) (r : URec) (h0 : 0 ≤ r.actual)
    (hnat : r.asset = nativeAID → r.actual ≤ s.escrow)
    (hpen : r.asset ≠ nativeAID → r.amount ≤ (getD s.stakers (r.staker, r.asset) zeroStaker).pending) :
    ∃ s', creditStaker s r = .ok s' ∧ s'.pools = s.pools := by
  unfold creditStaker
  by_cases hn : r.asset = nativeAID
  · have := hnat hn
    rw [if_pos hn, if_neg (by omega)]
    exact ⟨_, rfl, rfl⟩
  · rw [if_neg hn]
    obtain ⟨row, e⟩ := updStaker_ok_of s r.staker r.asset 0 r.actual (-r.amount) (by omega) (by omega)
      (by have := hpen hn; omega)
    exact ⟨_, e, rfl⟩

/-- **completion never fails**: in a state where the pending figures equal the record sums, nothing is negative
and the escrow account covers the native-token ledger value, `completeRecord` of a live record succeeds -/
theorem completeRecord_accepts {s : L} {r : URec} (hp : PendInv s) (hn : NN s)
    (hc : value s nativeAID ≤ s.escrow) (hr : find? s.recs r.key = some r) :
    ∃ s', completeRecord s r = .ok s' := by
  obtain ⟨c1, c2, c3⟩ := pend_figures_cover hp hn hr
  have hrc := hn.rc (r.key, r) (find?_mem _ _ _ hr)
  simp only [] at hrc
  obtain ⟨row1, e1⟩ := updDeleg_ok_of s r.staker r.asset r.op Dec.zero (-r.amount) (by omega)
    (by simp [Dec.zero])
  obtain ⟨s2, e2, hp2⟩ := creditStaker_accepts { s with deleg := KV.set s.deleg (r.staker, r.asset, r.op) row1 } r
    hrc.1 (fun h => escrow_covers_record hn hc hr h) c3
  obtain ⟨pl, e3⟩ := updPool_ok_of s2 r.op r.asset 0 (-r.amount) Dec.zero Dec.zero (by omega)
    (by rw [hp2]; show ¬ (_ ∧ (getD s.pools (r.op, r.asset) zeroPool).pending < _); omega)
    (by simp [Dec.zero]) (by simp [Dec.zero])
  refine ⟨deleteRecord { s2 with pools := KV.set s2.pools (r.op, r.asset) pl } r, ?_⟩
  unfold completeRecord
  simp only [bind, Except.bind, pure, Except.pure, e1, e2, e3]

/-- through the EndBlock loop, under the invariants, every listed un-held record is released -/
theorem foldl_endBlockRecord_released (rs : List URec) (s : L) (hi : RecInv s) (hp : PendInv s) (hn : NN s)
    (hc : value s nativeAID ≤ s.escrow) (hl : ∀ r ∈ rs, Live s r)
    (hd : rs.Pairwise (fun r1 r2 => r1.key ≠ r2.key)) :
    ∀ r ∈ rs, getD s.holds r.key 0 = 0 → find? (rs.foldl endBlockRecord s).recs r.key = none := by
  induction rs generalizing s with
  | nil => intro r hr; cases hr
  | cons r0 rest ih =>
    intro r hr hh
    simp only [List.foldl_cons]
    have hr0 : Live s r0 := hl r0 (by simp)
    obtain ⟨v1, i1, oth1, hh1, _, _, hok, _⟩ := endBlockRecord_spec hi hr0
    have hd' := List.pairwise_cons.1 hd
    have hl' : ∀ r ∈ rest, Live (endBlockRecord s r0) r := by
      intro r hr
      have hne : r.key ≠ r0.key := fun e => (hd'.1 r hr) e.symm
      show find? (endBlockRecord s r0).recs r.key = some r
      rw [oth1 r.key hne]; exact hl r (by simp [hr])
    have p1 := pendInv_endBlockRecord hi hp hr0
    have n1 := (endBlockRecord_nn hn (hn.rc (r0.key, r0) (find?_mem _ _ _ hr0))).1
    have c1 : value (endBlockRecord s r0) nativeAID ≤ (endBlockRecord s r0).escrow := by
      have := v1.2; omega
    rcases List.mem_cons.1 hr with e | hin
    · subst e
      obtain ⟨_, _, oth2, _, _, _⟩ := foldl_endBlockRecord_spec rest (endBlockRecord s r) i1 hl' hd'.2
      rw [oth2 r.key (fun r2 hr2 => fun e => (hd'.1 r2 hr2) e.symm)]
      obtain ⟨s', hc'⟩ := completeRecord_accepts hp hn hc hr0
      rw [hok hh s' hc']
      exact (completeRecord_spec hi hr0 hc').2.2.1
    · exact ih (endBlockRecord s r0) i1 p1 n1 c1 hl' hd'.2 r hin (by rw [hh1]; exact hh)

/-- **a due, un-held record is released by the block's EndBlock** (state of the invariants) -/
theorem endBlock_releases {s : L} (hi : RecInv s) (hp : PendInv s) (hn : NN s)
    (hc : value s nativeAID ≤ s.escrow) (r : URec) (hl : Live s r) (hdue : r.completeBlock = s.height)
    (h0 : getD s.holds r.key 0 = 0) : find? (endBlock s).recs r.key = none := by
  obtain ⟨rs, hrs, hlive, hpair, hcomplete⟩ := pendingRecords_spec hi
  have hin := hcomplete r hl hdue
  have hf := foldl_endBlockRecord_released rs s hi hp hn hc (fun r hr => (hlive r hr).1) hpair r hin h0
  have e : endBlock s = rs.foldl endBlockRecord s := by unfold endBlock; rw [hrs]
  rw [e]; exact hf

end ExoVerif.Ledger
