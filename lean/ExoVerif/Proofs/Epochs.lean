import ExoVerif.Model.Epochs
/-! Helper lemmas for C15/C16 (case characterisation of `tick`). -/
namespace ExoVerif.Epochs

/-- An identifier as it is registered at genesis or mid-count: valid, and if counting has
started, the current epoch is ≥ 1 and began at `start + (n-1)·duration`. -/
def Wf (e : EpochInfo) : Prop :=
  valid e = true ∧
  (e.epochCountingStarted = true →
     1 ≤ e.currentEpoch ∧ e.currentEpochStartTime = e.startTime + (e.currentEpoch - 1) * e.duration)

theorem valid_iff (e : EpochInfo) : valid e = true ↔
    e.identifier ≠ "" ∧ 0 < e.duration ∧ 0 ≤ e.currentEpoch ∧ 0 ≤ e.currentEpochStartHeight := by
  simp [valid, and_assoc]

theorem tick_invalid (e : EpochInfo) (bt h : Int) (hv : ¬ valid e = true) : tick e bt h = (e, []) := by
  unfold tick; simp [hv]

theorem tick_before (e : EpochInfo) (bt h : Int) (hb : bt < e.startTime) : tick e bt h = (e, []) := by
  unfold tick; split <;> simp_all

theorem tick_first (e : EpochInfo) (bt h : Int) (hv : valid e = true)
    (hns : e.epochCountingStarted = false) (hb : e.startTime ≤ bt) :
    tick e bt h = (startFirst e h, [Ev.epochStart e.identifier 1]) := by
  have : ¬ bt < e.startTime := by omega
  simp [tick, hv, hns, this]

theorem tick_next (e : EpochInfo) (bt h : Int) (hv : valid e = true)
    (hs : e.epochCountingStarted = true) (hb : e.startTime ≤ bt)
    (hlt : e.currentEpochStartTime + e.duration < bt) :
    tick e bt h = (startNext e h, [Ev.epochEnd e.identifier e.currentEpoch,
                           Ev.epochStart e.identifier (e.currentEpoch + 1)]) := by
  have : ¬ bt < e.startTime := by omega
  simp [tick, hv, hs, this, hlt]

theorem tick_stay (e : EpochInfo) (bt h : Int) (hs : e.epochCountingStarted = true)
    (hlt : ¬ e.currentEpochStartTime + e.duration < bt) : tick e bt h = (e, []) := by
  unfold tick; split
  · rfl
  · split
    · rfl
    · simp [hs, hlt]

theorem wf_first (e : EpochInfo) (h : Int) (hw : Wf e) (hh : 0 ≤ h) : Wf (startFirst e h) := by
  obtain ⟨hv, _⟩ := hw
  obtain ⟨v1, v2, v3, v4⟩ := (valid_iff e).1 hv
  refine ⟨(valid_iff _).2 ⟨v1, v2, by simp [startFirst], hh⟩, fun _ => ?_⟩
  simp [startFirst]

theorem wf_next (e : EpochInfo) (h : Int) (hw : Wf e) (hs : e.epochCountingStarted = true)
    (hh : 0 ≤ h) : Wf (startNext e h) := by
  obtain ⟨hv, hf⟩ := hw
  obtain ⟨v1, v2, v3, v4⟩ := (valid_iff e).1 hv
  obtain ⟨h1e, hst⟩ := hf hs
  refine ⟨(valid_iff _).2 ⟨v1, v2, by simp [startNext]; omega, hh⟩, fun _ => ?_⟩
  simp only [startNext]
  refine ⟨by omega, ?_⟩
  rw [hst]
  have : e.currentEpoch + 1 - 1 = (e.currentEpoch - 1) + 1 := by omega
  rw [this, Int.add_mul]; omega

/-- the five mutually exclusive things a tick can do -/
theorem tick_cases (e : EpochInfo) (bt h : Int) :
    tick e bt h = (e, []) ∨
    (valid e = true ∧ e.epochCountingStarted = false ∧ e.startTime ≤ bt ∧
       tick e bt h = (startFirst e h, [Ev.epochStart e.identifier 1])) ∨
    (valid e = true ∧ e.epochCountingStarted = true ∧ e.startTime ≤ bt ∧
       e.currentEpochStartTime + e.duration < bt ∧
       tick e bt h = (startNext e h, [Ev.epochEnd e.identifier e.currentEpoch,
                           Ev.epochStart e.identifier (e.currentEpoch + 1)])) := by
  by_cases hv : valid e = true
  · by_cases hb : bt < e.startTime
    · exact Or.inl (tick_before e bt h hb)
    · have hb' : e.startTime ≤ bt := by omega
      cases hs : e.epochCountingStarted
      · exact Or.inr (Or.inl ⟨hv, rfl, hb', tick_first e bt h hv hs hb'⟩)
      · by_cases hlt : e.currentEpochStartTime + e.duration < bt
        · exact Or.inr (Or.inr ⟨hv, rfl, hb', hlt, tick_next e bt h hv hs hb' hlt⟩)
        · exact Or.inl (tick_stay e bt h hs hlt)
  · exact Or.inl (tick_invalid e bt h hv)

theorem tick_id (e : EpochInfo) (bt h : Int) : (tick e bt h).1.identifier = e.identifier := by
  rcases tick_cases e bt h with h1 | ⟨_, _, _, h1⟩ | ⟨_, _, _, _, h1⟩ <;> rw [h1] <;> rfl

theorem tick_started (e : EpochInfo) (bt h : Int) (hs : e.epochCountingStarted = true) :
    (tick e bt h).1.epochCountingStarted = true := by
  rcases tick_cases e bt h with h1 | ⟨_, h0, _, h1⟩ | ⟨_, _, _, _, h1⟩ <;> rw [h1]
  · exact hs
  · rfl
  · exact hs

end ExoVerif.Epochs
