import ExoVerif.Model.VotingPower
/-! Helper lemmas for C05. -/
namespace ExoVerif.VP
open ExoVerif ExoVerif.KV

theorem pow10_pos (n : Nat) : 0 < (1 : Int) * (10 : Int) ^ n := by
  have : (0 : Int) < 10 ^ n := Int.pow_pos (by decide)
  omega

theorem usdValue_eq (amount price adec pdec : Int) :
    usdValue amount price adec pdec = (amount * price * PREC).tdiv ((1 : Int) * (10 : Int) ^ (Int.toNat (adec + pdec))) := by
  simp [usdValue, Dec.quoInt, Dec.ofInt]

theorem usdValue_nonneg (amount price adec pdec : Int) (ha : 0 ≤ amount) (hp : 0 ≤ price) :
    0 ≤ usdValue amount price adec pdec := by
  rw [usdValue_eq]
  apply Int.tdiv_nonneg
  · exact Int.mul_nonneg (Int.mul_nonneg ha hp) (Int.le_of_lt PREC_pos)
  · exact Int.le_of_lt (pow10_pos _)

theorem usdValue_mono (a a' p p' adec pdec : Int) (ha : 0 ≤ a) (haa : a ≤ a') (hp : 0 ≤ p) (hpp : p ≤ p') :
    usdValue a p adec pdec ≤ usdValue a' p' adec pdec := by
  rw [usdValue_eq, usdValue_eq]
  have h1 : 0 ≤ a * p * PREC := Int.mul_nonneg (Int.mul_nonneg ha hp) (Int.le_of_lt PREC_pos)
  have h2 : a * p ≤ a' * p' := Int.mul_le_mul haa hpp hp (Int.le_trans ha haa)
  have h3 : a * p * PREC ≤ a' * p' * PREC := Int.mul_le_mul_of_nonneg_right h2 (Int.le_of_lt PREC_pos)
  rw [Int.tdiv_eq_ediv_of_nonneg h1, Int.tdiv_eq_ediv_of_nonneg (Int.le_trans h1 h3)]
  exact Int.ediv_le_ediv (pow10_pos _) h3

/-- the imperative accumulation of CalculateUSDValueForOperator computes the closed formulas -/
theorem opValue_spec (cfgs : List (String × AssetCfg)) :
    ∀ (assets : List (String × AssetState)) (t f : Int), opValue cfgs assets = .ok (t, f) →
      t = specTotal cfgs assets ∧ f = specSelf cfgs assets := by
  intro assets
  induction assets with
  | nil => intro t f h; simp only [opValue, Except.ok.injEq, Prod.mk.injEq] at h; simp [specTotal, specSelf, h.1.symm, h.2.symm]
  | cons p rest ih =>
    intro t f h
    obtain ⟨a, st⟩ := p
    simp only [opValue] at h
    split at h
    · rename_i hf
      obtain ⟨e1, e2⟩ := ih t f h
      simp only [specTotal, specSelf, hf]; omega
    · rename_i c hf
      split at h
      · cases h
      · rename_i selfAmt hs
        split at h
        · cases h
        · rename_i s0 f0 hr
          simp only [Except.ok.injEq, Prod.mk.injEq] at h
          obtain ⟨e1, e2⟩ := ih s0 f0 hr
          have hst : selfTokens st = selfAmt := by simp [selfTokens, hs]
          simp only [specTotal, specSelf, hf, hst]; omega

/-- the result of the operator loop: same operators in the same order, every entry by the
formulas, and the AVS accumulator is the sum of the active values -/
theorem updateLoop_spec (cfgs : List (String × AssetCfg)) (m : Int)
    (opAssets : List (String × List (String × AssetState))) :
    ∀ (es es' : List (String × Opted)) (v : Int), updateLoop cfgs m opAssets es = .ok (es', v) →
      es'.map (·.1) = es.map (·.1) ∧ v = sumActive es' ∧
      ∀ q ∈ es', q.2.total = specTotal cfgs (getD opAssets q.1 []) ∧
                 q.2.self = specSelf cfgs (getD opAssets q.1 []) ∧
                 q.2.active = (if m ≤ q.2.self then q.2.total else 0) := by
  intro es
  induction es with
  | nil =>
    intro es' v h
    simp only [updateLoop, Except.ok.injEq, Prod.mk.injEq] at h
    obtain ⟨h1, h2⟩ := h; subst h1; subst h2; simp [sumActive]
  | cons p rest ih =>
    intro es' v h
    obtain ⟨op, old⟩ := p
    simp only [updateLoop] at h
    split at h
    · cases h
    · rename_i staking self hv
      split at h
      · cases h
      · rename_i rest' v0 hr
        simp only [Except.ok.injEq, Prod.mk.injEq] at h
        obtain ⟨h1, h2⟩ := h; subst h1; subst h2
        obtain ⟨i1, i2, i3⟩ := ih rest' v0 hr
        obtain ⟨e1, e2⟩ := opValue_spec cfgs _ _ _ hv
        refine ⟨by simp [i1], ?_, ?_⟩
        · simp only [sumActive, i2]
        · intro q hq
          simp only [List.mem_cons] at hq
          rcases hq with hq | hq
          · subst hq
            refine ⟨e1, e2, ?_⟩
            by_cases hm : m ≤ self <;> simp [hm]
          · exact i3 q hq

theorem find?_of_mem_keys_none (m : List (String × Opted)) (k : String) (h : k ∉ m.map (·.1)) : find? m k = none :=
  find?_none_of_not_mem m k h

end ExoVerif.VP
