import ExoVerif.Model.VotingPower
import ExoVerif.Proofs.DecArith
/-! Helper lemmas for C05. -/
namespace ExoVerif.VP
open ExoVerif ExoVerif.KV

theorem pow10_pos (n : Nat) : 0 < (1 : Int) * (10 : Int) ^ n := by
  have : (0 : Int) < 10 ^ n := Int.pow_pos (by decide)
  omega

theorem usdValue_eq (amount price adec pdec : Int) :
    usdValue amount price adec pdec = (amount * price * PREC).tdiv ((1 : Int) * (10 : Int) ^ (Int.toNat (adec + pdec))) := by
  simp [usdValue, Dec.quoInt, Dec.ofInt]

theorem usdValue_nonneg (amount price adec pdec : Int) (ha : 0 ≤ amount) (hp : 0 ≤ price) :
    0 ≤ usdValue amount price adec pdec := by
  rw [usdValue_eq]
  apply Int.tdiv_nonneg
  · exact Int.mul_nonneg (Int.mul_nonneg ha hp) (Int.le_of_lt PREC_pos)
  · exact Int.le_of_lt (pow10_pos _)

theorem usdValue_mono (a a' p p' adec pdec : Int) (ha : 0 ≤ a) (haa : a ≤ a') (hp : 0 ≤ p) (hpp : p ≤ p') :
    usdValue a p adec pdec ≤ usdValue a' p' adec pdec := by
  rw [usdValue_eq, usdValue_eq]
  have h1 : 0 ≤ a * p * PREC := Int.mul_nonneg (Int.mul_nonneg ha hp) (Int.le_of_lt PREC_pos)
  have h2 : a * p ≤ a' * p' := Int.mul_le_mul haa hpp hp (Int.le_trans ha haa)
  have h3 : a * p * PREC ≤ a' * p' * PREC := Int.mul_le_mul_of_nonneg_right h2 (Int.le_of_lt PREC_pos)
  rw [Int.tdiv_eq_ediv_of_nonneg h1, Int.tdiv_eq_ediv_of_nonneg (Int.le_trans h1 h3)]
  exact Int.ediv_le_ediv (pow10_pos _) h3

/-- the imperative accumulation of CalculateUSDValueForOperator computes the closed formulas -/
theorem opValue_spec (cfgs : List (String × AssetCfg)) :
    ∀ (assets : List (String × AssetState)) (t f : Int), opValue cfgs assets = .ok (t, f) →
      t = specTotal cfgs assets ∧ f = specSelf cfgs assets := by
  intro assets
  induction assets with
  | nil => intro t f h; simp only [opValue, Except.ok.injEq, Prod.mk.injEq] at h; simp [specTotal, specSelf, h.1.symm, h.2.symm]
  | cons p rest ih =>
    intro t f h
    obtain ⟨a, st⟩ := p
    simp only [opValue] at h
    split at h
    · rename_i hf
      obtain ⟨e1, e2⟩ := ih t f h
      simp only [specTotal, specSelf, hf]; omega
    · rename_i c hf
      split at h
      · cases h
      · rename_i selfAmt hs
        split at h
        · cases h
        · rename_i s0 f0 hr
          simp only [Except.ok.injEq, Prod.mk.injEq] at h
          obtain ⟨e1, e2⟩ := ih s0 f0 hr
          have hst : selfTokens st = selfAmt := by simp [selfTokens, hs]
          simp only [specTotal, specSelf, hf, hst]; omega

/-- the result of the operator loop: same operators in the same order, every entry by the
formulas, and the AVS accumulator is the sum of the active values -/
theorem updateLoop_spec (cfgs : List (String × AssetCfg)) (m : Int)
    (opAssets : List (String × List (String × AssetState))) :
    ∀ (es es' : List (String × Opted)) (v : Int), updateLoop cfgs m opAssets es = .ok (es', v) →
      es'.map (·.1) = es.map (·.1) ∧ v = sumActive es' ∧
      ∀ q ∈ es', q.2.total = specTotal cfgs (getD opAssets q.1 []) ∧
                 q.2.self = specSelf cfgs (getD opAssets q.1 []) ∧
                 q.2.active = (if m ≤ q.2.self then q.2.total else 0) := by
  intro es
  induction es with
  | nil =>
    intro es' v h
    simp only [updateLoop, Except.ok.injEq, Prod.mk.injEq] at h
    obtain ⟨h1, h2⟩ := h; subst h1; subst h2; simp [sumActive]
  | cons p rest ih =>
    intro es' v h
    obtain ⟨op, old⟩ := p
    simp only [updateLoop] at h
    split at h
    · cases h
    · rename_i staking self hv
      split at h
      · cases h
      · rename_i rest' v0 hr
        simp only [Except.ok.injEq, Prod.mk.injEq] at h
        obtain ⟨h1, h2⟩ := h; subst h1; subst h2
        obtain ⟨i1, i2, i3⟩ := ih rest' v0 hr
        obtain ⟨e1, e2⟩ := opValue_spec cfgs _ _ _ hv
        refine ⟨by simp [i1], ?_, ?_⟩
        · simp only [sumActive, i2]
        · intro q hq
          simp only [List.mem_cons] at hq
          rcases hq with hq | hq
          · subst hq
            refine ⟨e1, e2, ?_⟩
            by_cases hm : m ≤ self <;> simp [hm]
          · exact i3 q hq

theorem find?_of_mem_keys_none (m : List (String × Opted)) (k : String) (h : k ∉ m.map (·.1)) : find? m k = none :=
  find?_none_of_not_mem m k h

/-! ### the per-AVS loop of the epoch hook -/

/-- `updateVotingPower` is `updateVotingPowerE` with the error swallowed (state unchanged) -/
theorem updateVotingPower_eq_E (s : St) (avs : String) (i : AvsIn) :
    updateVotingPower s avs i =
      (match updateVotingPowerE s avs i with
       | .ok s' => s'
       | .error _ => s) := by
  unfold updateVotingPower updateVotingPowerE
  by_cases hok : i.assetsOk = true
  · simp only [hok, Bool.not_true, Bool.false_eq_true, if_false]
    cases hc : i.cfgs with
    | none => cases hm : i.minSelf <;> rfl
    | some cfgs =>
      cases hm : i.minSelf with
      | none => rfl
      | some m =>
        simp only
        cases hl : updateLoop cfgs m i.opAssets (getD s.entries avs []) with
        | error e => rfl
        | ok r => obtain ⟨es, v⟩ := r; rfl
  · have hok' : i.assetsOk = false := by cases h : i.assetsOk <;> simp_all
    simp [hok']

/-- one iteration of the loop, in terms of `updateVotingPower` -/
theorem hookLoop_cons (inputs : List (String × AvsIn)) (s : St) (avs : String) (rest : List String) :
    hookLoop inputs s (avs :: rest) =
      hookLoop inputs (match find? inputs avs with
                       | some i => updateVotingPower s avs i
                       | none => s) rest := by
  unfold hookLoop
  rw [hookLoopWith]
  cases hf : find? inputs avs with
  | none => rfl
  | some i =>
    simp only [updateVotingPower_eq_E]
    cases hu : updateVotingPowerE s avs i <;> rfl

theorem hookLoop_nil (inputs : List (String × AvsIn)) (s : St) : hookLoop inputs s [] = s := by
  unfold hookLoop; rw [hookLoopWith]

/-- the loop is the left fold of the swallowed-error update over the AVS list -/
theorem hookLoop_eq_foldl (inputs : List (String × AvsIn)) (l : List String) (s : St) :
    hookLoop inputs s l =
      l.foldl (fun s avs =>
        match find? inputs avs with
        | some i => updateVotingPower s avs i
        | none => s) s := by
  induction l generalizing s with
  | nil => simp [hookLoop_nil]
  | cons avs rest ih => rw [hookLoop_cons, ih]; rfl

theorem getD_erase_other {α : Type} (m : List (String × α)) (k k2 : String) (d : α) (h : k2 ≠ k) :
    getD (erase m k) k2 d = getD m k2 d := by
  simp [getD, find?_erase_other m k k2 h]

/-- frame: UpdateVotingPower of one AVS does not touch the stored values of any other AVS -/
theorem updateVotingPower_frame (s : St) (avs a : String) (i : AvsIn) (h : a ≠ avs) :
    getD (updateVotingPower s avs i).entries a [] = getD s.entries a [] ∧
    getD (updateVotingPower s avs i).avsVal a 0 = getD s.avsVal a 0 := by
  unfold updateVotingPower
  by_cases hok : i.assetsOk = true
  · simp only [hok, Bool.not_true, Bool.false_eq_true, if_false]
    cases hc : i.cfgs with
    | none => cases hm : i.minSelf <;> exact ⟨rfl, rfl⟩
    | some cfgs =>
      cases hm : i.minSelf with
      | none => exact ⟨rfl, rfl⟩
      | some m =>
        simp only
        cases hl : updateLoop cfgs m i.opAssets (getD s.entries avs []) with
        | error e => exact ⟨rfl, rfl⟩
        | ok r =>
          obtain ⟨es, v⟩ := r
          exact ⟨getD_set_other _ _ _ _ _ h, getD_set_other _ _ _ _ _ h⟩
  · have hok' : i.assetsOk = false := by cases h : i.assetsOk <;> simp_all
    simp only [hok', Bool.not_false, if_true]
    exact ⟨getD_erase_other _ _ _ _ h, getD_erase_other _ _ _ _ h⟩

/-- the operator loop reads only the operator addresses of the stored entries, never their old
values (the closure starts by zeroing the entry) -/
theorem updateLoop_keys_only (cfgs : List (String × AssetCfg)) (m : Int)
    (opAssets : List (String × List (String × AssetState))) :
    ∀ (es es2 : List (String × Opted)), es.map (·.1) = es2.map (·.1) →
      updateLoop cfgs m opAssets es = updateLoop cfgs m opAssets es2 := by
  intro es
  induction es with
  | nil =>
    intro es2 h
    cases es2 with
    | nil => rfl
    | cons p r => simp at h
  | cons p rest ih =>
    intro es2 h
    cases es2 with
    | nil => simp at h
    | cons p2 rest2 =>
      obtain ⟨op, o⟩ := p
      obtain ⟨op2, o2⟩ := p2
      simp only [List.map_cons, List.cons.injEq] at h
      obtain ⟨h1, h2⟩ := h
      subst h1
      simp only [updateLoop, ih rest2 h2]

/-- Every AVS of the list whose own update does not fail ends the loop with the values of its own
successful update, whatever happens to the other AVSs of the list (before or after it, failing or
not, repeated or not). `K` is the operator set of the AVS when the loop starts. -/
theorem hookLoop_recomputes (inputs : List (String × AvsIn)) (a : String) (i : AvsIn)
    (cfgs : List (String × AssetCfg)) (m : Int)
    (hin : find? inputs a = some i) (hok : i.assetsOk = true) (hc : i.cfgs = some cfgs) (hm : i.minSelf = some m)
    (K : List String) (es' : List (String × Opted)) (v : Int)
    (hK : ∀ es : List (String × Opted), es.map (·.1) = K → updateLoop cfgs m i.opAssets es = .ok (es', v)) :
    ∀ (l : List String) (s : St), (getD s.entries a []).map (·.1) = K →
      (a ∈ l ∨ (getD s.entries a [] = es' ∧ getD s.avsVal a 0 = v)) →
      getD (hookLoop inputs s l).entries a [] = es' ∧ getD (hookLoop inputs s l).avsVal a 0 = v := by
  intro l
  induction l with
  | nil =>
    intro s _ h
    rw [hookLoop_nil]
    rcases h with h | h
    · cases h
    · exact h
  | cons x rest ih =>
    intro s hready h
    rw [hookLoop_cons]
    by_cases hx : x = a
    · subst hx
      simp only [hin]
      have hl := hK _ hready
      have hkeys := (updateLoop_spec cfgs m i.opAssets _ _ _ hl).1
      have hdone : getD (updateVotingPower s x i).entries x [] = es' ∧
                   getD (updateVotingPower s x i).avsVal x 0 = v := by
        simp [updateVotingPower, hok, hc, hm, hl, getD_set_same]
      apply ih
      · rw [hdone.1, hkeys, hready]
      · exact Or.inr hdone
    · have hne : a ≠ x := fun e => hx e.symm
      cases hf : find? inputs x with
      | none =>
        simp only
        apply ih _ hready
        rcases h with h | h
        · rcases List.mem_cons.1 h with h | h
          · exact absurd h hne
          · exact Or.inl h
        · exact Or.inr h
      | some j =>
        simp only
        obtain ⟨f1, f2⟩ := updateVotingPower_frame s x a j hne
        apply ih
        · rw [f1]; exact hready
        · rcases h with h | h
          · rcases List.mem_cons.1 h with h | h
            · exact absurd h hne
            · exact Or.inl h
          · exact Or.inr (by rw [f1, f2]; exact h)

/-- an AVS whose update fails before the cached block (prices / decimals / minimum self-delegation
cannot be resolved) keeps its stored values through the whole loop -/
theorem hookLoop_failing_keeps (inputs : List (String × AvsIn)) (a : String) (i : AvsIn)
    (hin : find? inputs a = some i) (hok : i.assetsOk = true) (hf : i.cfgs = none ∨ i.minSelf = none) :
    ∀ (l : List String) (s : St),
      getD (hookLoop inputs s l).entries a [] = getD s.entries a [] ∧
      getD (hookLoop inputs s l).avsVal a 0 = getD s.avsVal a 0 := by
  intro l
  induction l with
  | nil => intro s; rw [hookLoop_nil]; exact ⟨rfl, rfl⟩
  | cons x rest ih =>
    intro s
    rw [hookLoop_cons]
    by_cases hx : x = a
    · subst hx
      simp only [hin]
      have : updateVotingPower s x i = s := by
        rcases hf with h | h
        · simp [updateVotingPower, hok, h]
        · cases hc : i.cfgs <;> simp [updateVotingPower, hok, h, hc]
      rw [this]; exact ih s
    · have hne : a ≠ x := fun e => hx e.symm
      cases hfx : find? inputs x with
      | none => simp only; exact ih s
      | some j =>
        simp only
        obtain ⟨f1, f2⟩ := updateVotingPower_frame s x a j hne
        obtain ⟨g1, g2⟩ := ih (updateVotingPower s x j)
        exact ⟨by rw [g1, f1], by rw [g2, f2]⟩

/-! ### the self value after a slash: token equivalent of the self share -/

/-- TokensFromShares on a well-formed pool (0 ≤ operator share ≤ total share, total share > 0,
amount ≥ 0) is the floor of share × amount / total share -/
theorem selfTokens_eq_floor (st : AssetState) (h0 : 0 ≤ st.operatorShare) (h1 : st.operatorShare ≤ st.totalShare)
    (h2 : 0 < st.totalShare) (h3 : 0 ≤ st.totalAmount) :
    selfTokens st = (st.operatorShare * st.totalAmount) / st.totalShare := by
  have hgt : Dec.gt ⟨st.operatorShare⟩ ⟨st.totalShare⟩ = false := by
    simp only [Dec.gt, decide_eq_false_iff_not]; omega
  have hz : Dec.isZero ⟨st.totalShare⟩ = false := by
    simp only [Dec.isZero, beq_eq_false_iff_ne]; omega
  have := Dec.tok_eq ⟨st.operatorShare⟩ ⟨st.totalShare⟩ st.totalAmount h0 h2 h3
  simp only [selfTokens, tokensFromShares, hgt, hz, Bool.false_eq_true, if_false]
  exact this

theorem selfTokens_le_amount (st : AssetState) (h0 : 0 ≤ st.operatorShare) (h1 : st.operatorShare ≤ st.totalShare)
    (h2 : 0 < st.totalShare) (h3 : 0 ≤ st.totalAmount) :
    0 ≤ selfTokens st ∧ selfTokens st ≤ st.totalAmount := by
  rw [selfTokens_eq_floor st h0 h1 h2 h3]
  constructor
  · exact Int.ediv_nonneg (Int.mul_nonneg h0 h3) (Int.le_of_lt h2)
  · apply Int.ediv_le_of_le_mul h2
    nlinarith

end ExoVerif.VP
