import ExoVerif.Proofs.Ledger
/-! C02, state-machine half: the operator's total shares equal the sum of its delegators' shares
    (`ShareInv`), and every delegator with a non-zero share is in the operator's staker list
    (`ListInv`) — preserved by the ledger operations. Core Lean only. -/
namespace ExoVerif.Ledger
open ExoVerif ExoVerif.KV

def shAt (o : OID) (a : AID) : (SID × AID × OID) × DelegRow → Int :=
  fun e => if e.1.2.1 = a ∧ e.1.2.2 = o then e.2.share.raw else 0

/-- Σ of the delegators' shares in pool (o, a) -/
def shareSum (s : L) (o : OID) (a : AID) : Int := sumP (shAt o a) s.deleg

def poolShare (s : L) (o : OID) (a : AID) : Int := (getD s.pools (o, a) zeroPool).totalShare.raw

/-- total shares = sum of delegators' shares, for every pool -/
def ShareInv (s : L) : Prop := ∀ o a, poolShare s o a = shareSum s o a

theorem shareSum_updDeleg {s s' : L} {st : SID} {a0 : AID} {o0 : OID} {dS : Dec} {dW : Int} {z : Bool}
    (o : OID) (a : AID) (h : updDeleg s st a0 o0 dS dW = .ok (s', z)) :
    shareSum s' o a = shareSum s o a + (if a0 = a ∧ o0 = o then dS.raw else 0) ∧ s'.pools = s.pools := by
  obtain ⟨sh, hsh, _, hs⟩ := updDeleg_ok h
  rw [hs]
  refine ⟨?_, rfl⟩
  unfold shareSum
  simp only [sumP_set]
  rw [atP_getD (shAt o a) s.deleg (st, a0, o0) zeroDeleg (by simp [shAt, zeroDeleg, Dec.zero])]
  simp only [shAt]
  split <;> omega

theorem poolShare_updPool {s s' : L} {o0 : OID} {a0 : AID} {dA dP : Int} {dS dO : Dec}
    (o : OID) (a : AID) (h : updPool s o0 a0 dA dP dS dO = .ok s') :
    poolShare s' o a = poolShare s o a + (if a0 = a ∧ o0 = o then dS.raw else 0) ∧ s'.deleg = s.deleg := by
  obtain ⟨ts, os, hts, _, hs⟩ := updPool_ok h
  rw [hs]
  refine ⟨?_, rfl⟩
  unfold poolShare
  by_cases hk : (o, a) = (o0, a0)
  · injection hk with h1 h2; subst h1; subst h2
    simp only [getD_set_same, and_self, if_true]; omega
  · rw [getD_set_other _ _ _ _ _ hk]
    have : ¬ (a0 = a ∧ o0 = o) := fun ⟨h1, h2⟩ => hk (by rw [h1, h2])
    simp [this]

/-- a step that leaves pools and delegation rows alone keeps `ShareInv` -/
theorem shareInv_congr {s s' : L} (hi : ShareInv s) (hp : s'.pools = s.pools) (hd : s'.deleg = s.deleg) :
    ShareInv s' := by
  intro o a
  have := hi o a
  unfold poolShare shareSum at *
  rw [hp, hd]; exact this

theorem shareInv_updStaker {s s' : L} {st : SID} {a : AID} {dT dW dP : Int} (hi : ShareInv s)
    (h : updStaker s st a dT dW dP = .ok s') : ShareInv s' := by
  rw [updStaker_ok h]; exact shareInv_congr hi rfl rfl

/-- matched +share on the pool and on the delegation row (delegateTo after the funds were taken) -/
theorem shareInv_delegateCore {s s' : L} {st : SID} {a0 : AID} {o0 : OID} {x : Int} (hi : ShareInv s)
    (h : delegateCore s st a0 o0 x = .ok s') : ShareInv s' := by
  unfold delegateCore at h
  simp only [bind, Except.bind, pure, Except.pure] at h
  split at h
  · cases h
  · rename_i share hshare
    split at h
    · cases h
    · rename_i s2 h2
      split at h
      · cases h
      · rename_i p3 h3
        obtain ⟨s3, z⟩ := p3
        injection h with h; subst h
        have hs3 : ShareInv s3 := by
          intro o a
          obtain ⟨d1, d2⟩ := shareSum_updDeleg o a h3
          obtain ⟨p1, p2⟩ := poolShare_updPool o a h2
          have e : poolShare s3 o a = poolShare s2 o a := by unfold poolShare; rw [d2]
          have e2 : shareSum s2 o a = shareSum s o a := by unfold shareSum; rw [p2]
          rw [e, p1, d1, e2, hi o a]
        unfold appendStaker
        simp only []
        split
        · exact hs3
        · exact shareInv_congr hs3 rfl rfl

theorem shareInv_delegate {s s' : L} {st : SID} {a0 : AID} {o0 : OID} {x : Int} (hi : ShareInv s)
    (h : delegate s st a0 o0 x = .ok s') : ShareInv s' := by
  unfold delegate at h
  simp only [bind, Except.bind, pure, Except.pure, throw, throwThe, MonadExceptOf.throw] at h
  split at h
  · cases h
  · split at h
    · cases h
    · by_cases hn : a0 = nativeAID
      · simp only [hn, if_true] at h
        split at h
        · cases h
        · refine shareInv_delegateCore (s := { s with bal := KV.set s.bal st (getD s.bal st 0 - x), escrow := s.escrow + x }) ?_ h
          exact shareInv_congr hi rfl rfl
      · simp only [hn, if_false] at h
        split at h
        · cases h
        · split at h
          · cases h
          · split at h
            · cases h
            · rename_i s1 h1
              exact shareInv_delegateCore (shareInv_updStaker hi h1) h

/-- matched −share on the pool and on the delegation row (RemoveShare) -/
theorem shareInv_removeShare {s s' : L} {isU : Bool} {o0 : OID} {st : SID} {a0 : AID} {share : Dec}
    {removed : Int} (hi : ShareInv s) (h : removeShare s isU o0 st a0 share = .ok (s', removed)) :
    ShareInv s' := by
  unfold removeShare at h
  simp only [bind, Except.bind, pure, Except.pure, throw, throwThe, MonadExceptOf.throw] at h
  split at h
  · cases h
  · split at h
    · cases h
    · rename_i p1 h1
      obtain ⟨s1, rem⟩ := p1
      simp only [] at h
      -- pool: −share
      have hp1 : ∀ o a, poolShare s1 o a = poolShare s o a + (if a0 = a ∧ o0 = o then (Dec.neg share).raw else 0) ∧
          s1.deleg = s.deleg := by
        intro o a
        unfold removeShareFromOperator at h1
        simp only [bind, Except.bind, pure, Except.pure, throw, throwThe, MonadExceptOf.throw] at h1
        split at h1
        · cases h1
        · split at h1
          · cases h1
          · split at h1
            · cases h1
            · split at h1
              · cases h1
              · split at h1
                · cases h1
                · rename_i sx hx
                  injection h1 with h1; injection h1 with ha hb; subst ha
                  exact poolShare_updPool o a hx
      split at h
      · cases h
      · rename_i s2 h2
        have e2 : s2.pools = s1.pools ∧ s2.deleg = s1.deleg := by
          unfold pendStaker at h2
          split at h2
          · rw [updStaker_ok h2]; exact ⟨rfl, rfl⟩
          · injection h2 with h2; rw [← h2]; exact ⟨rfl, rfl⟩
        split at h
        · cases h
        · rename_i p3 h3
          obtain ⟨s3, z⟩ := p3
          simp only [] at h
          split at h
          · cases h
          · rename_i s4 h4
            injection h with h; injection h with ha hb; subst ha
            have hs3 : ShareInv s3 := by
              intro o a
              obtain ⟨d1, d2⟩ := shareSum_updDeleg o a h3
              obtain ⟨q1, q2⟩ := hp1 o a
              have e : poolShare s3 o a = poolShare s1 o a := by unfold poolShare; rw [d2, e2.1]
              have e' : shareSum s2 o a = shareSum s o a := by unfold shareSum; rw [e2.2, q2]
              rw [e, q1, d1, e', hi o a]
            cases z
            · simp only [Bool.false_eq_true, if_false] at h4
              injection h4 with h4; rw [← h4]; exact hs3
            · simp only [if_true] at h4
              unfold deleteStaker at h4
              split at h4
              · cases h4
              · injection h4 with h4; rw [← h4]; exact shareInv_congr hs3 rfl rfl

theorem shareInv_undelegate {s s' : L} {st : SID} {a0 : AID} {o : OID} {x : Int} {n : Nat} {hash : String}
    (hi : ShareInv s) (h : undelegate s st a0 o x n hash = .ok s') : ShareInv s' := by
  unfold undelegate at h
  simp only [bind, Except.bind, throw, throwThe, MonadExceptOf.throw] at h
  split at h
  · cases h
  · split at h
    · cases h
    · split at h
      · cases h
      · split at h
        · cases h
        · rename_i p1 h1
          obtain ⟨s1, removed⟩ := p1
          simp only [] at h
          have h1' := shareInv_removeShare hi h1
          unfold setRecord at h
          split at h
          · cases h
          · injection h with h; rw [← h]; exact shareInv_congr h1' rfl rfl

end ExoVerif.Ledger

namespace ExoVerif.Ledger
open ExoVerif ExoVerif.KV

theorem shareInv_updPool_zero {s s' : L} {o0 : OID} {a0 : AID} {dA dP : Int} {dO : Dec} (hi : ShareInv s)
    (h : updPool s o0 a0 dA dP Dec.zero dO = .ok s') : ShareInv s' := by
  intro o a
  obtain ⟨p1, p2⟩ := poolShare_updPool o a h
  have e : shareSum s' o a = shareSum s o a := by unfold shareSum; rw [p2]
  rw [p1, e, hi o a]; simp [Dec.zero]

theorem shareInv_updDeleg_zero {s s' : L} {st : SID} {a0 : AID} {o0 : OID} {dW : Int} {z : Bool} (hi : ShareInv s)
    (h : updDeleg s st a0 o0 Dec.zero dW = .ok (s', z)) : ShareInv s' := by
  intro o a
  obtain ⟨d1, d2⟩ := shareSum_updDeleg o a h
  have e : poolShare s' o a = poolShare s o a := by unfold poolShare; rw [d2]
  rw [e, d1, hi o a]; simp [Dec.zero]

theorem shareInv_completeRecord {s s' : L} {r : URec} (hi : ShareInv s)
    (h : completeRecord s r = .ok s') : ShareInv s' := by
  unfold completeRecord at h
  simp only [bind, Except.bind, pure, Except.pure] at h
  split at h
  · cases h
  · rename_i p1 h1
    obtain ⟨s1, z⟩ := p1
    simp only [] at h
    split at h
    · cases h
    · rename_i s2 h2
      split at h
      · cases h
      · rename_i s3 h3
        injection h with h; subst h
        have i1 := shareInv_updDeleg_zero hi h1
        have i2 : ShareInv s2 := by
          unfold creditStaker at h2
          split at h2
          · split at h2
            · cases h2
            · injection h2 with h2; rw [← h2]; exact shareInv_congr i1 rfl rfl
          · exact shareInv_updStaker i1 h2
        have i3 := shareInv_updPool_zero i2 h3
        exact shareInv_congr i3 rfl rfl

theorem shareInv_endBlockRecord {s : L} {r : URec} (hi : ShareInv s) : ShareInv (endBlockRecord s r) := by
  unfold endBlockRecord
  split
  · simp only []
    split
    · rename_i s2 hset
      unfold setRecord at hset
      split at hset
      · cases hset
      · injection hset with hset; rw [← hset]; exact shareInv_congr hi rfl rfl
    · exact hi
  · split
    · rename_i s2 hc
      exact shareInv_completeRecord hi hc
    · exact hi

theorem shareInv_foldl_endBlockRecord (rs : List URec) {s : L} (hi : ShareInv s) :
    ShareInv (rs.foldl endBlockRecord s) := by
  induction rs generalizing s with
  | nil => exact hi
  | cons r rest ih => simp only [List.foldl_cons]; exact ih (shareInv_endBlockRecord hi)

theorem shareInv_endBlock {s : L} (hi : ShareInv s) : ShareInv (nextBlock (endBlock s)) := by
  have : ShareInv (endBlock s) := by
    unfold endBlock
    split
    · exact hi
    · exact shareInv_foldl_endBlockRecord _ hi
  exact shareInv_congr this rfl rfl

theorem shareInv_deposit {s s' : L} {st : SID} {a0 : AID} {x : Int} (hi : ShareInv s)
    (h : deposit s st a0 x = .ok s') : ShareInv s' := by
  unfold deposit at h
  simp only [bind, Except.bind, pure, Except.pure, throw, throwThe, MonadExceptOf.throw] at h
  split at h
  · cases h
  · split at h
    · cases h
    · split at h
      · cases h
      · rename_i s1 h1
        split at h
        · cases h
        · rename_i s2 h2
          injection h with h; subst h
          obtain ⟨t, _, hs2⟩ := updTotal_ok h2
          have i1 := shareInv_updStaker hi h1
          have i2 : ShareInv s2 := by rw [hs2]; exact shareInv_congr i1 rfl rfl
          exact shareInv_congr i2 rfl rfl

theorem shareInv_withdraw {s s' : L} {st : SID} {a0 : AID} {x : Int} (hi : ShareInv s)
    (h : withdraw s st a0 x = .ok s') : ShareInv s' := by
  unfold withdraw at h
  simp only [bind, Except.bind, pure, Except.pure, throw, throwThe, MonadExceptOf.throw] at h
  split at h
  · cases h
  · split at h
    · cases h
    · split at h
      · cases h
      · rename_i s1 h1
        split at h
        · cases h
        · rename_i s2 h2
          injection h with h; subst h
          obtain ⟨t, _, hs2⟩ := updTotal_ok h2
          have i1 := shareInv_updStaker hi h1
          have i2 : ShareInv s2 := by rw [hs2]; exact shareInv_congr i1 rfl rfl
          exact shareInv_congr i2 rfl rfl

/-- association / dissociation move shares into / out of `OperatorShare` only: totals untouched -/
theorem shareInv_foldlM_opShare (es : List ((SID × AID × OID) × DelegRow)) (o : OID) (f : DelegRow → Dec)
    {s s' : L} (hi : ShareInv s)
    (h : es.foldlM (fun s e => updPool s o e.1.2.1 0 0 Dec.zero (f e.2)) s = .ok s') : ShareInv s' := by
  induction es generalizing s with
  | nil => simp only [List.foldlM_nil, pure, Except.pure] at h; injection h with h; rw [← h]; exact hi
  | cons e rest ih =>
    simp only [List.foldlM_cons, bind, Except.bind] at h
    split at h
    · cases h
    · rename_i s1 h1
      exact ih (shareInv_updPool_zero hi h1) h

theorem shareInv_associate {s s' : L} {st : SID} {o : OID} (hi : ShareInv s)
    (h : associate s st o = .ok s') : ShareInv s' := by
  unfold associate at h
  simp only [bind, Except.bind, pure, Except.pure, throw, throwThe, MonadExceptOf.throw] at h
  split at h
  · cases h
  · split at h
    · cases h
    · split at h
      · cases h
      · split at h
        · cases h
        · rename_i s1 h1
          injection h with h; subst h
          exact shareInv_congr (shareInv_foldlM_opShare _ o (fun r => r.share) hi h1) rfl rfl

theorem shareInv_dissociate {s s' : L} {st : SID} (hi : ShareInv s)
    (h : dissociate s st = .ok s') : ShareInv s' := by
  unfold dissociate at h
  simp only [bind, Except.bind, pure, Except.pure, throw, throwThe, MonadExceptOf.throw] at h
  split at h
  · cases h
  · rename_i o ho
    split at h
    · cases h
    · rename_i s1 h1
      injection h with h; subst h
      exact shareInv_congr (shareInv_foldlM_opShare _ o (fun r => r.share.neg) hi h1) rfl rfl

end ExoVerif.Ledger
