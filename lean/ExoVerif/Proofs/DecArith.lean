import ExoVerif.Basic.Dec
import Mathlib.Tactic.Linarith
import Mathlib.Tactic.Ring
import Mathlib.Tactic.SplitIfs
/-! Arithmetic facts about the exact `Dec` operations (rounding directions), for all integers. -/
namespace ExoVerif
namespace Dec

theorem PREC_pos' : (0 : Int) < PREC := by decide

theorem tdiv_nonneg_eq (a b : Int) (ha : 0 ≤ a) : a.tdiv b = a / b :=
  Int.tdiv_eq_ediv_of_nonneg ha

/-- floor division bounds for nonnegative numerator, positive divisor -/
theorem tdiv_mul_le (a b : Int) (ha : 0 ≤ a) (hb : 0 < b) : a.tdiv b * b ≤ a := by
  rw [tdiv_nonneg_eq a b ha]; exact Int.ediv_mul_le a (ne_of_gt hb)

theorem lt_tdiv_mul_add (a b : Int) (ha : 0 ≤ a) (hb : 0 < b) : a < a.tdiv b * b + b := by
  rw [tdiv_nonneg_eq a b ha]
  have := Int.lt_ediv_add_one_mul_self a hb
  linarith [this]

theorem tdiv_nonneg' (a b : Int) (ha : 0 ≤ a) (hb : 0 < b) : 0 ≤ a.tdiv b := by
  rw [tdiv_nonneg_eq a b ha]; exact Int.ediv_nonneg ha (le_of_lt hb)

theorem tdiv_le_of_le_mul (a b c : Int) (ha : 0 ≤ a) (hb : 0 < b) (h : a ≤ c * b) : a.tdiv b ≤ c := by
  rw [tdiv_nonneg_eq a b ha]; exact Int.ediv_le_of_le_mul hb h

theorem le_tdiv_of_mul_le (a b c : Int) (ha : 0 ≤ a) (hb : 0 < b) (h : c * b ≤ a) : c ≤ a.tdiv b := by
  rw [tdiv_nonneg_eq a b ha]; exact Int.le_ediv_of_mul_le hb h

theorem tdiv_mono (a a' b : Int) (ha : 0 ≤ a) (hb : 0 < b) (h : a ≤ a') : a.tdiv b ≤ a'.tdiv b := by
  rw [tdiv_nonneg_eq a b ha, tdiv_nonneg_eq a' b (le_trans ha h)]
  exact Int.ediv_le_ediv hb h

/-- truncateInt (p.mulInt x) for 0 ≤ p ≤ 1, x ≥ 0 lies in [0, x]: a slash never takes more than is
there and never gives anything back. -/
theorem truncate_mulInt_bounds (p : Dec) (x : Int) (hp0 : 0 ≤ p.raw) (hp1 : p.raw ≤ PREC) (hx : 0 ≤ x) :
    0 ≤ (p.mulInt x).truncateInt ∧ (p.mulInt x).truncateInt ≤ x := by
  unfold mulInt truncateInt
  have hnn : 0 ≤ p.raw * x := Int.mul_nonneg hp0 hx
  refine ⟨tdiv_nonneg' _ _ hnn PREC_pos', ?_⟩
  apply tdiv_le_of_le_mul _ _ _ hnn PREC_pos'
  nlinarith

/-- chopRoundNonneg is within one unit above the truncation and never below it -/
theorem chopRoundNonneg_bounds (d : Int) (hd : 0 ≤ d) :
    d.tdiv PREC ≤ chopRoundNonneg d ∧ chopRoundNonneg d ≤ d.tdiv PREC + 1 := by
  unfold chopRoundNonneg
  simp only []
  split
  · omega
  · split
    · omega
    · split
      · omega
      · split <;> omega

/-- banker's rounding of an exact multiple of 10^18 is exact -/
theorem chopRoundNonneg_mul (k : Int) (hk : 0 ≤ k) : chopRoundNonneg (k * PREC) = k := by
  unfold chopRoundNonneg
  have h1 : (k * PREC).tmod PREC = 0 := by
    rw [Int.tmod_eq_emod_of_nonneg (Int.mul_nonneg hk (le_of_lt PREC_pos'))]; simp
  have h2 : (k * PREC).tdiv PREC = k := by
    rw [tdiv_nonneg_eq _ _ (Int.mul_nonneg hk (le_of_lt PREC_pos'))]
    exact Int.mul_ediv_cancel k (ne_of_gt PREC_pos')
  simp [h1, h2]

/-- chopRoundNonneg is monotone against exact multiples from above: d ≤ k·10^18 ⇒ round d ≤ k -/
theorem chopRoundNonneg_le_of_le_mul (d k : Int) (hd : 0 ≤ d) (h : d ≤ k * PREC) :
    chopRoundNonneg d ≤ k := by
  have hq := tdiv_mul_le d PREC hd PREC_pos'
  have hq2 := lt_tdiv_mul_add d PREC hd PREC_pos'
  have hr : d.tmod PREC = d - d.tdiv PREC * PREC := by
    have := Int.tmod_def d PREC
    linarith [Int.mul_comm PREC (d.tdiv PREC)]
  by_cases he : d.tdiv PREC * PREC = d
  · -- exact multiple
    have hr0 : d.tmod PREC = 0 := by rw [hr]; omega
    unfold chopRoundNonneg; simp only [hr0]
    simp
    have : d.tdiv PREC * PREC ≤ k * PREC := by linarith
    exact Int.le_of_mul_le_mul_right this PREC_pos'
  · -- strictly between multiples: q*P < d ≤ k*P ⇒ q + 1 ≤ k
    have hlt : d.tdiv PREC * PREC < k * PREC := by
      have : d.tdiv PREC * PREC < d := lt_of_le_of_ne hq he
      linarith
    have hq1 : d.tdiv PREC + 1 ≤ k := by
      have := Int.lt_of_mul_lt_mul_right hlt (le_of_lt PREC_pos')
      omega
    have := (chopRoundNonneg_bounds d hd).2
    omega

/-- … and from below: k·10^18 ≤ d ⇒ k ≤ round d -/
theorem le_chopRoundNonneg_of_mul_le (d k : Int) (hd : 0 ≤ d) (h : k * PREC ≤ d) :
    k ≤ chopRoundNonneg d := by
  have h1 : k ≤ d.tdiv PREC := le_tdiv_of_mul_le d PREC k hd PREC_pos' h
  have := (chopRoundNonneg_bounds d hd).1
  omega

theorem chopRoundNonneg_nonneg (d : Int) (hd : 0 ≤ d) : 0 ≤ chopRoundNonneg d := by
  have := (chopRoundNonneg_bounds d hd).1
  have := tdiv_nonneg' d PREC hd PREC_pos'
  omega

theorem chopRound_of_nonneg (d : Int) (hd : 0 ≤ d) : chopRound d = chopRoundNonneg d := by
  unfold chopRound; simp [not_lt.mpr hd]

theorem chopRoundNonneg_eq (d : Int) (hd : 0 ≤ d) : chopRoundNonneg d =
    (if d % 1000000000000000000 = 0 then d / 1000000000000000000
     else if d % 1000000000000000000 < 500000000000000000 then d / 1000000000000000000
     else if 500000000000000000 < d % 1000000000000000000 then d / 1000000000000000000 + 1
     else if (d / 1000000000000000000) % 2 = 0 then d / 1000000000000000000 else d / 1000000000000000000 + 1) := by
  unfold chopRoundNonneg
  rw [Int.tdiv_eq_ediv_of_nonneg hd, Int.tmod_eq_emod_of_nonneg hd]
  simp only [PREC, beq_iff_eq]

theorem chopRoundNonneg_mono (d d' : Int) (hd : 0 ≤ d) (h : d ≤ d') :
    chopRoundNonneg d ≤ chopRoundNonneg d' := by
  rw [chopRoundNonneg_eq d hd, chopRoundNonneg_eq d' (le_trans hd h)]
  split_ifs <;> omega

theorem chopRoundNonneg_add_even (d m : Int) (hd : 0 ≤ d) (hm : 0 ≤ m) (he : m % 2 = 0) :
    chopRoundNonneg (d + m * PREC) = chopRoundNonneg d + m := by
  have h0 : 0 ≤ d + m * PREC := by
    have : 0 ≤ m * PREC := Int.mul_nonneg hm (by decide)
    omega
  rw [chopRoundNonneg_eq d hd, chopRoundNonneg_eq _ h0]
  simp only [PREC]
  split_ifs <;> omega

/-- the token value of `sh` shares of a pool (totalShare `tot`, amount `amt`): what
    TokensFromShares returns on its success path: truncateInt (quoTruncate (mulInt sh amt) tot) -/
def tok (sh tot : Dec) (amt : Int) : Int := (quoTruncate (mulInt sh amt) tot).truncateInt

/-- the two truncations compose to the floor of the exact ratio -/
theorem tok_eq (sh tot : Dec) (amt : Int) (hsh : 0 ≤ sh.raw) (htot : 0 < tot.raw) (hamt : 0 ≤ amt) :
    tok sh tot amt = (sh.raw * amt) / tot.raw := by
  unfold tok quoTruncate mulInt truncateInt chopTrunc
  have hn : 0 ≤ sh.raw * amt := Int.mul_nonneg hsh hamt
  have hpp : (0 : Int) < PREC * PREC := by decide
  have h1 : 0 ≤ sh.raw * amt * (PREC * PREC) := Int.mul_nonneg hn (le_of_lt hpp)
  have hq0 : 0 ≤ (sh.raw * amt * (PREC * PREC)).tdiv tot.raw := tdiv_nonneg' _ _ h1 htot
  have hq1 : 0 ≤ ((sh.raw * amt * (PREC * PREC)).tdiv tot.raw).tdiv PREC := tdiv_nonneg' _ _ hq0 PREC_pos'
  rw [tdiv_nonneg_eq _ _ hq1, tdiv_nonneg_eq _ _ hq0, tdiv_nonneg_eq _ _ h1]
  rw [Int.ediv_ediv_of_nonneg (le_of_lt htot), Int.ediv_ediv_of_nonneg (Int.mul_nonneg (le_of_lt htot) (le_of_lt PREC_pos'))]
  have e2 : sh.raw * amt * (PREC * PREC) = (PREC * PREC) * (sh.raw * amt) := by ring
  rw [show tot.raw * PREC * PREC = (PREC * PREC) * tot.raw by ring, e2]
  exact Int.mul_ediv_mul_of_pos _ _ hpp

/-- upper bound through the cross-multiplied ratio: sh·amt ≤ k·tot ⇒ tok ≤ k -/
theorem tok_le (sh tot : Dec) (amt k : Int) (hsh : 0 ≤ sh.raw) (htot : 0 < tot.raw) (hamt : 0 ≤ amt)
    (_hk : 0 ≤ k) (h : sh.raw * amt ≤ k * tot.raw) : tok sh tot amt ≤ k := by
  rw [tok_eq sh tot amt hsh htot hamt]
  exact Int.ediv_le_of_le_mul htot h

/-- lower bound: k·tot ≤ sh·amt ⇒ k ≤ tok -/
theorem le_tok (sh tot : Dec) (amt k : Int) (hsh : 0 ≤ sh.raw) (htot : 0 < tot.raw) (hamt : 0 ≤ amt)
    (_hk : 0 ≤ k) (h : k * tot.raw ≤ sh.raw * amt) : k ≤ tok sh tot amt := by
  rw [tok_eq sh tot amt hsh htot hamt]
  exact Int.le_ediv_of_mul_le htot h

theorem tok_nonneg (sh tot : Dec) (amt : Int) (hsh : 0 ≤ sh.raw) (htot : 0 < tot.raw) (hamt : 0 ≤ amt) :
    0 ≤ tok sh tot amt :=
  le_tok sh tot amt 0 hsh htot hamt (le_refl 0) (by simpa using Int.mul_nonneg hsh hamt)

/-- the truncated token value is the floor of the exact ratio sh·amt/tot -/
theorem tok_floor (sh tot : Dec) (amt : Int) (hsh : 0 ≤ sh.raw) (htot : 0 < tot.raw) (hamt : 0 ≤ amt) :
    tok sh tot amt * tot.raw ≤ sh.raw * amt ∧ sh.raw * amt < (tok sh tot amt + 1) * tot.raw := by
  rw [tok_eq sh tot amt hsh htot hamt]
  constructor
  · exact Int.ediv_mul_le _ (ne_of_gt htot)
  · have := Int.lt_ediv_add_one_mul_self (sh.raw * amt) htot
    linarith

/-- **the repaired property**: a staker that does not hold all the shares is never paid the whole pool -/
theorem tok_lt_amount (sh tot : Dec) (amt : Int) (hsh : 0 ≤ sh.raw) (hlt : sh.raw < tot.raw) (hamt : 0 < amt) :
    tok sh tot amt < amt := by
  have htot : 0 < tot.raw := by omega
  have hf := (tok_floor sh tot amt hsh htot (le_of_lt hamt)).1
  by_contra hc
  have hge : amt ≤ tok sh tot amt := by omega
  have : amt * tot.raw ≤ tok sh tot amt * tot.raw := Int.mul_le_mul_of_nonneg_right hge (le_of_lt htot)
  have : sh.raw * amt < tot.raw * amt := by nlinarith
  nlinarith

theorem tok_mono (sh1 tot1 : Dec) (amt1 : Int) (sh2 tot2 : Dec) (amt2 : Int)
    (h1 : 0 ≤ sh1.raw) (t1 : 0 < tot1.raw) (a1 : 0 ≤ amt1)
    (h2 : 0 ≤ sh2.raw) (t2 : 0 < tot2.raw) (a2 : 0 ≤ amt2)
    (h : sh1.raw * amt1 * tot2.raw ≤ sh2.raw * amt2 * tot1.raw) :
    tok sh1 tot1 amt1 ≤ tok sh2 tot2 amt2 := by
  have f1 := (tok_floor sh1 tot1 amt1 h1 t1 a1).1
  have n1 := tok_nonneg sh1 tot1 amt1 h1 t1 a1
  apply le_tok sh2 tot2 amt2 _ h2 t2 a2 n1
  -- tok1 * tot2 ≤ sh2*amt2  from  tok1*tot1 ≤ sh1*amt1 and the ratio hypothesis
  apply Int.le_of_mul_le_mul_right _ t1
  have : tok sh1 tot1 amt1 * tot1.raw * tot2.raw ≤ sh1.raw * amt1 * tot2.raw :=
    Int.mul_le_mul_of_nonneg_right f1 (le_of_lt t2)
  nlinarith

theorem tok_le_succ (sh1 tot1 : Dec) (amt1 : Int) (sh2 tot2 : Dec) (amt2 : Int)
    (h1 : 0 ≤ sh1.raw) (t1 : 0 < tot1.raw) (a1 : 0 ≤ amt1)
    (h2 : 0 ≤ sh2.raw) (t2 : 0 < tot2.raw) (a2 : 0 ≤ amt2)
    (h : sh2.raw * amt2 * tot1.raw ≤ (sh1.raw * amt1 + tot1.raw) * tot2.raw) :
    tok sh2 tot2 amt2 ≤ tok sh1 tot1 amt1 + 1 := by
  have f2 := (tok_floor sh2 tot2 amt2 h2 t2 a2).1
  have f1 := (tok_floor sh1 tot1 amt1 h1 t1 a1).2
  have n1 := tok_nonneg sh1 tot1 amt1 h1 t1 a1
  -- tok2*tot2*tot1 ≤ sh2*amt2*tot1 ≤ (sh1*amt1 + tot1)*tot2 < ((tok1+1)*tot1 + tot1)*tot2
  by_contra hc
  have hge : tok sh1 tot1 amt1 + 2 ≤ tok sh2 tot2 amt2 := by omega
  have hA : (tok sh1 tot1 amt1 + 2) * tot2.raw ≤ tok sh2 tot2 amt2 * tot2.raw :=
    Int.mul_le_mul_of_nonneg_right hge (le_of_lt t2)
  have hB : tok sh2 tot2 amt2 * tot2.raw * tot1.raw ≤ sh2.raw * amt2 * tot1.raw :=
    Int.mul_le_mul_of_nonneg_right f2 (le_of_lt t1)
  have hC : (sh1.raw * amt1 + tot1.raw) * tot2.raw < ((tok sh1 tot1 amt1 + 1) * tot1.raw + tot1.raw) * tot2.raw := by
    apply Int.mul_lt_mul_of_pos_right _ t2
    omega
  have hD : (tok sh1 tot1 amt1 + 2) * tot2.raw * tot1.raw ≤ tok sh2 tot2 amt2 * tot2.raw * tot1.raw :=
    Int.mul_le_mul_of_nonneg_right hA (le_of_lt t1)
  nlinarith

/-- the truncated token value is within one unit of the exact ratio sh·amt/tot -/
theorem tok_real_bounds (sh tot : Dec) (amt : Int) (hsh : 0 ≤ sh.raw) (htot : 0 < tot.raw) (hamt : 0 ≤ amt) :
    (tok sh tot amt - 1) * tot.raw < sh.raw * amt ∨ tok sh tot amt = 0 := by
  by_cases h0 : tok sh tot amt = 0
  · exact Or.inr h0
  · left
    have hnn := tok_nonneg sh tot amt hsh htot hamt
    by_contra hc
    have hc' : sh.raw * amt ≤ (tok sh tot amt - 1) * tot.raw := by omega
    have := tok_le sh tot amt (tok sh tot amt - 1) hsh htot hamt (by omega) hc'
    omega

theorem tok_real_upper (sh tot : Dec) (amt : Int) (hsh : 0 ≤ sh.raw) (htot : 0 < tot.raw) (hamt : 0 ≤ amt) :
    sh.raw * amt < (tok sh tot amt + 1) * tot.raw := (tok_floor sh tot amt hsh htot hamt).2

end Dec
end ExoVerif
