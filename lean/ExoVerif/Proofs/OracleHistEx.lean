import ExoVerif.Proofs.OracleHistRounds
import ExoVerif.Proofs.OracleHistNonces
import ExoVerif.Proofs.OracleHistFeeder
/-!
A concrete multi-block history shared by the non-vacuity examples and the F-09c witnesses of
`Props/C12Hist.lean` and `Props/C13Hist.lean`. Core Lean only.
-/
namespace ExoVerif.Oracle

def hFeeder : Feeder := { tokenID := 1, ruleID := 1, startRoundID := 2, startBaseBlock := 2, interval := 7, endBlock := 0 }

def hParams : Params :=
  { maxNonce := 3, thA := 2, thB := 3, maxDetID := 5, maxSizePrices := 100,
    sources := [{ valid := false, det := false }, { valid := true, det := true }],
    rules := [[], [1]], tokenDecimals := [0, 0], feeders := [default, hFeeder] }

def hAgc : Agc :=
  { params := some hParams, vals := [(0, 1), (1, 1), (2, 1)], total := 3,
    rounds := [(1, { basedBlock := 2, nextRoundID := 2, status := .open })], workers := [] }

/-- after EndBlock of block 3: three validators of power 1, feeder 1 (token 1) started at block 2 with
interval 7, its round 2 open, round 1 stored -/
def hState : State :=
  { store := { prices := [(1, { next := 2, rounds := [(1, { price := some 1, decimal := 0, ts := -1, roundID := 1 })] })],
               nonces := [((0, 1), 0), ((1, 1), 0), ((2, 1), 0)], recentMsgs := [], msgIndex := [], recentParams := [],
               paramsIndex := [], vuBlock := none, params := hParams },
    agc := some hAgc, cache := some { Cache.empty with vals := hAgc.vals }, dogfood := [(0, 1), (1, 1), (2, 1)], height := 3, blockTime := 100 }

def hMsg (v : Nat) (n : Int) (price : Int) : Msg :=
  { creator := v, feederID := 1, basedBlock := 2, nonce := n,
    prices := [{ sourceID := 1, prices := [{ price := price, decimal := 0, ts := 100, tsKind := 0, detID := "9" }] }] }

def hTx (v : Nat) : Tx := { size := 300, infos := [{ pubkeyMatches := true, sigValid := true }], msgs := [hMsg v 1 2] }

/-- blocks 4..10: the three validators report 2 in block 4 (the third report finalizes round 2), blocks
5..9 are empty (block 9 opens round 3), block 10 changes validator 1's power (forced seal of round 3) -/
def hBlocks : List Block :=
  [ { blockTime := 101, txs := [hTx 0, hTx 1, hTx 2], updates := [] },
    { blockTime := 102, txs := [], updates := [] },
    { blockTime := 103, txs := [], updates := [] },
    { blockTime := 104, txs := [], updates := [] },
    { blockTime := 105, txs := [], updates := [] },
    { blockTime := 106, txs := [], updates := [] },
    { blockTime := 107, txs := [], updates := [(1, 2)] } ]

theorem hPF : PF hParams hState := ⟨⟨hAgc, rfl, rfl⟩, by intro c hc hu; cases hc; cases hu⟩

theorem hHyp : FeederHyp hParams 1 hFeeder := by
  refine ⟨rfl, rfl, by decide, ?_⟩
  intro fid' hne
  unfold Params.feeder? hParams
  match fid' with
  | 0 => decide
  | 1 => exact absurd rfl hne
  | n + 2 => simp [hFeeder]; decide

theorem hWf : TokWf (hState.store.token 1) := TokWf_of_check _ (by decide)

theorem hInv : HInv hParams 1 hFeeder 2 hState := by
  refine ⟨hPF, hWf, Or.inr ⟨by decide, { basedBlock := 2, nextRoundID := 2, status := .open }, rfl, ?_, ?_, ?_, ?_⟩⟩
  all_goals decide

/-- validator 2's transaction carries its report twice (nonces 1 and 2) -/
def hTxTwo : Tx := { size := 300, infos := [{ pubkeyMatches := true, sigValid := true }], msgs := [hMsg 2 1 2, hMsg 2 2 2] }

/-- block 4: validators 0 and 1 report, then validator 2's two-message transaction: its first message
finalizes round 2 in memory, its second is refused ("round" closed), the transaction fails and the
price write is rolled back; block 5: empty -/
def hBlocksBad : List Block :=
  [ { blockTime := 101, txs := [hTx 0, hTx 1, hTxTwo], updates := [] },
    { blockTime := 102, txs := [], updates := [] } ]


theorem hOK : NonceOK hParams hState := by
  refine ⟨by intro g hg; cases hg; rfl, by decide, ?_⟩
  intro g hg k hk
  cases hg
  revert k
  decide

theorem hEInv : EHInv hParams 1 hFeeder 2 hState := by
  refine ⟨hInv, hOK, ?_, ?_⟩
  · intro k _ _
    exact ⟨{ basedBlock := 2, nextRoundID := 2, status := .open }, rfl, rfl⟩
  · intro g hg
    cases hg
    simp [hAgc, akeys]

theorem hXInv : XHInv hParams 1 hFeeder 2 hState := by
  refine ⟨hEInv, ?_, ?_⟩
  · intro g hg
    cases hg
    refine ⟨by decide, ?_⟩
    intro w hw
    simp [hAgc, alookup] at hw
  · intro g hg kw hkw
    cases hg
    simp [hAgc] at hkw

end ExoVerif.Oracle
