import ExoVerif.Proofs.Avs
/-!
Helper definitions and lemmas for Props/C20Sig.lean: WHAT the phase-two signature is verified over.

The model's `Submit` carries three derived inputs (`digest`, `respTaskId`, `blsOk`) that the harness computes from
the submitted bytes with the libraries the keeper uses. Here these libraries are three uninterpreted functions
(`Crypto`), `Submit.derived` says "the derived inputs of this submission are these functions of the SUBMITTED
response bytes, the SUBMITTED signature and the operator's REGISTERED key" (exactly what harness/dom_avs.go:
doSubmit computes), and `RecInv` is the invariant of the result store that follows: every stored phase-two record
is self-consistent (hash = keccak of the stored bytes, the bytes carry the record's task id, the stored signature
verifies over that hash with the registered key). Registered keys never change (RegisterBLSPublicKey refuses a
second registration), which is what lets the invariant speak about the key registered NOW.
-/
namespace ExoVerif.Avs
open ExoVerif

/-- keccak256 / BLS verification / the JSON parse of the task id, uninterpreted -/
structure Crypto where
  /-- crypto.Keccak256Hash(bytes).String() -/
  keccak : String → String
  /-- blst.VerifySignature(sig, digest, pubKey) -/
  verify : String → String → String → Bool
  /-- types.UnmarshalTaskResponse(bytes).TaskID; none = the bytes do not parse -/
  parseId : String → Option Nat
  /-- json.Unmarshal of no bytes at all is an error -/
  parse_empty : parseId "" = none

/-- harness/dom_avs.go doSubmit: `digest`, `respID`, `blsOk` of the op line, computed from the submitted bytes,
the submitted signature and the key registered for the operator (no key, or no signature: 0) -/
def Submit.derived (c : Crypto) (s : State) (i : Submit) : Bool :=
  match i.response with
  | none => true
  | some resp =>
    i.digest == c.keccak resp && i.respTaskId == c.parseId resp &&
    (match norm i.sig, KV.find? s.pubkeys i.op with
     | some sig, some pk => i.blsOk == c.verify sig (c.keccak resp) pk
     | _, _ => !i.blsOk)

def Op.derived (c : Crypto) (s : State) : Op → Bool
  | .submit i => i.derived c s
  | _ => true

/-- every submission of the history carries derived inputs computed in the state it is executed in -/
def DerivedRun (c : Crypto) : State → List Op → Prop
  | _, [] => True
  | s, o :: rest => o.derived c s = true ∧ DerivedRun c (step s o).1 rest

/-- a stored phase-two record is self-consistent; a phase-one record carries no response -/
def RecordOk (c : Crypto) (s : State) (r : Result) : Prop :=
  (r.stage = "1" ∧ r.response = none ∧ r.respHash = "") ∨
  (r.stage = "2" ∧ ∃ resp sig pk, r.response = some resp ∧ r.sig = some sig ∧ KV.find? s.pubkeys r.op = some pk ∧
    r.respHash = c.keccak resp ∧ c.parseId resp = some r.id ∧ c.verify sig (c.keccak resp) pk = true)

def RecInv (c : Crypto) (s : State) : Prop := ∀ p ∈ s.results, RecordOk c s p.2

theorem recordOk_congr (c : Crypto) {s s' : State} (r : Result)
    (hk : ∀ op pk, KV.find? s.pubkeys op = some pk → KV.find? s'.pubkeys op = some pk)
    (h : RecordOk c s r) : RecordOk c s' r := by
  rcases h with h | ⟨h1, resp, sig, pk, h2, h3, h4, h5⟩
  · exact Or.inl h
  · exact Or.inr ⟨h1, resp, sig, pk, h2, h3, hk _ _ h4, h5⟩

theorem recInv_congr (c : Crypto) {s s' : State} (h1 : s'.results = s.results) (h2 : s'.pubkeys = s.pubkeys)
    (hi : RecInv c s) : RecInv c s' := by
  intro p hp
  rw [h1] at hp
  exact recordOk_congr c p.2 (by intro op pk h; rw [h2]; exact h) (hi p hp)

/-- RegisterBLSPublicKey never replaces a registered key -/
theorem regBLS_keeps (s : State) (op pk : String) (ok : Bool) (o k : String)
    (h : KV.find? s.pubkeys o = some k) : KV.find? (regBLS s op pk ok).1.pubkeys o = some k := by
  unfold regBLS
  by_cases h1 : (!ok) = true
  · simp only [h1, if_true]; exact h
  by_cases h2 : KV.has s.pubkeys op = true
  · simp only [h1, h2, if_true]; simpa using h
  · simp only [h1, h2]
    by_cases ho : o = op
    · subst ho
      simp only [KV.has, h, Option.isSome_some] at h2
      exact absurd trivial h2
    · simp only [Bool.false_eq_true, if_false]
      rw [KV.find?_set_other _ _ _ _ ho]; exact h

/-- what `derived` says for a submission that reaches the BLS check -/
theorem derived_spec (c : Crypto) (s : State) (i : Submit) (hd : i.derived c s = true) (resp : String)
    (hr : i.response = some resp) :
    i.digest = c.keccak resp ∧ i.respTaskId = c.parseId resp ∧
    (i.blsOk = true → ∃ sig pk, norm i.sig = some sig ∧ KV.find? s.pubkeys i.op = some pk ∧
      c.verify sig (c.keccak resp) pk = true) := by
  unfold Submit.derived at hd
  simp only [hr, Bool.and_eq_true, beq_iff_eq] at hd
  obtain ⟨⟨h1, h2⟩, h3⟩ := hd
  refine ⟨h1, h2, ?_⟩
  intro hb
  cases hs : norm i.sig with
  | none => simp [hs, hb] at h3
  | some sig =>
    cases hp : KV.find? s.pubkeys i.op with
    | none => simp [hs, hp, hb] at h3
    | some pk =>
      simp only [hs, hp, hb, beq_iff_eq] at h3
      exact ⟨sig, pk, rfl, rfl, h3.symm⟩

/-- the phase-two write, for a derived submission: the record it stores is self-consistent -/
theorem afterTwo_record (c : Crypto) (s : State) (i : Submit) (hd : i.derived c s = true)
    (hsome : i.response.isSome = true) (hid : i.respTaskId = some i.id) (hb : i.blsOk = true) :
    ∃ resp sig pk, i.response = some resp ∧ norm i.response = some resp ∧ norm i.sig = some sig ∧
      KV.find? s.pubkeys i.op = some pk ∧ i.digest = c.keccak resp ∧ c.parseId resp = some i.id ∧
      c.verify sig (c.keccak resp) pk = true := by
  cases hr : i.response with
  | none => simp [hr] at hsome
  | some resp =>
    obtain ⟨h1, h2, h3⟩ := derived_spec c s i hd resp hr
    obtain ⟨sig, pk, h4, h5, h6⟩ := h3 hb
    have hne : resp ≠ "" := by
      intro h0
      rw [h0, c.parse_empty, hid] at h2
      exact absurd h2 (by simp)
    have hn : norm (some resp) = some resp := by
      unfold norm
      split
      · rename_i heq
        exact absurd (Option.some.inj heq) hne
      · rfl
    exact ⟨resp, sig, pk, rfl, hn, h4, h5, h1, by rw [← h2, hid], h6⟩

theorem recInv_submit (c : Crypto) (s : State) (i : Submit) (hr : ResInv s) (hi : RecInv c s)
    (hd : i.derived c s = true) : RecInv c (submit s i).1 := by
  rcases submit_spec s i with ⟨h, _⟩ | ⟨_, _, _, task, cur, _, _, h | h⟩
  · rw [h]; exact hi
  · rcases submitOne_spec s i task cur with ⟨h2, _⟩ | ⟨_, _, _, _, _, h2⟩
    · rw [h.2, h2]; exact hi
    · rw [h.2, h2]
      intro p hp
      rcases KV.mem_set _ _ _ _ hr.1 hp with hq | ⟨hq, _⟩
      · subst hq; exact Or.inl ⟨rfl, rfl, rfl⟩
      · exact recordOk_congr c p.2 (fun _ _ hk => hk) (hi p hq)
  · rcases submitTwo_spec s i task cur with ⟨h2, _⟩ | ⟨hsome, _, _, _, hid, hb, h2⟩
    · rw [h.2, h2]; exact hi
    · rw [h.2, h2]
      obtain ⟨resp, sig, pk, _, g2, g3, g4, g5, g6, g7⟩ := afterTwo_record c s i hd hsome hid hb
      intro p hp
      rcases KV.mem_set _ _ _ _ hr.1 hp with hq | ⟨hq, _⟩
      · subst hq
        exact Or.inr ⟨rfl, resp, sig, pk, g2, g3, g4, g5, g6, g7⟩
      · exact recordOk_congr c p.2 (fun _ _ hk => hk) (hi p hq)

theorem recInv_step (c : Crypto) (s : State) (o : Op) (hr : ResInv s) (hi : RecInv c s)
    (hd : o.derived c s = true) : RecInv c (step s o).1 := by
  unfold step
  split
  · exact hi
  · cases o with
    | setEpochs e => exact hi
    | setEnv a b => exact hi
    | update p => have h := updateAVS_frame s p; exact recInv_congr c h.2.2.1 h.2.2.2.2.2.2.2.2.1 hi
    | opt d a op avs u =>
      have h := optAction_frame s d a op avs u; exact recInv_congr c h.2.2.2.1 h.2.2.2.2.2.2.2.2.2.1 hi
    | task p => have h := createTask_frame s p; exact recInv_congr c h.2.1 h.2.2.2.2.2.2.1 hi
    | bls op pk ok =>
      have h := regBLS_frame s op pk ok
      intro p hp
      rw [show (regBLS s op pk ok).1.results = s.results from h.2.2.2.1] at hp
      exact recordOk_congr c p.2 (fun o k hk => regBLS_keeps s op pk ok o k hk) (hi p hp)
    | submit i => exact recInv_submit c s i hr hi hd
    | challenge ch => have h := challenge_frame s ch; exact recInv_congr c h.2.2.2.1 h.2.2.2.2.2.2.2.1 hi
    | epochEnd id n pw => have h := epochEnd_frame s id n pw; exact recInv_congr c h.2.2.2.1 h.2.2.2.2.2.2.2.1 hi

theorem recInv_init (c : Crypto) : RecInv c init := by
  intro p hp; simp [init] at hp

theorem recInv_run (c : Crypto) (ops : List Op) (s : State) (hr : ResInv s) (hi : RecInv c s)
    (hd : DerivedRun c s ops) : RecInv c (run s ops) := by
  induction ops generalizing s with
  | nil => exact hi
  | cons o rest ih =>
    simp only [run]
    exact ih _ (resInv_step s o hr) (recInv_step c s o hr hi hd.1) hd.2

end ExoVerif.Avs
