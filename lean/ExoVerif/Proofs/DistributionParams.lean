import ExoVerif.Proofs.DistributionHist
import ExoVerif.Model.DistributionParams
/-!
Helper lemmas for the parameter-update theorems of C17 (Props/C17Params.lean): one block step of an op history,
two-step histories, and the replay `sweep` of one block's notifications on the fee collector.
-/
namespace ExoVerif.Distr
open ExoVerif ExoVerif.KV ExoVerif.Epochs

theorem block_fst (c : Cfg) (es : List EpochInfo) (s : St) (b : BlockIn) :
    (block c es s b).1 = (beginBlocker es b.bt b.h).1 := by
  simp only [block]

/-- what one block step does -/
theorem stepOp_block (native : String) (h h' : HS) (b : BlockIn) (hs : stepOp native h (.block b) = some h') :
    h'.params = h.params ∧ h'.es = (beginBlocker h.es b.bt b.h).1 ∧
    onEvents (cfgOf native h.params) b.total b.vals (beginBlocker h.es b.bt b.h).2 h.st = some h'.st := by
  simp only [stepOp, block] at hs
  cases ho : onEvents (cfgOf native h.params) b.total b.vals (beginBlocker h.es b.bt b.h).2 h.st with
  | none => rw [ho] at hs; simp at hs
  | some s' =>
    rw [ho] at hs
    simp only [Option.some.injEq] at hs
    subst hs
    exact ⟨rfl, rfl, rfl⟩

theorem runOps_two (native : String) (h : HS) (a b : HOp) :
    runOps native h [a, b] = (stepOp native h a).bind (fun h1 => stepOp native h1 b) := by
  simp only [runOps]
  cases stepOp native h a with
  | none => rfl
  | some h1 =>
    simp only [Option.bind_some]
    cases stepOp native h1 b <;> rfl

/-- AllocateTokens empties the fee collector into the distribution account -/
theorem allocateTokens_moves (s : St) (total tax : Int) (vals : List ValIn) (s' : St)
    (h : allocateTokens s total tax vals = some s') : s'.fc = 0 ∧ s'.distr = s.distr + s.fc := by
  unfold allocateTokens allocateTokensWith at h
  simp only [] at h
  split at h
  · simp only [Option.some.injEq] at h; subst h; exact ⟨rfl, rfl⟩
  · split at h
    · cases h
    · simp only [Option.some.injEq] at h; subst h; exact ⟨rfl, rfl⟩

/-- replay of one block's notifications on (fee collector, amount moved so far): an end of the distribution
identifier moves the whole collector, an end of the mint identifier then puts the reward into it -/
def sweep (c : Cfg) : List Ev → Int × Int → Int × Int
  | [], x => x
  | .epochStart _ _ :: rest, x => sweep c rest x
  | .epochEnd id _ :: rest, x =>
    let y : Int × Int := if id == c.distrId then (0, x.2 + x.1) else x
    sweep c rest (y.1 + mintedBy c id, y.2)

theorem onEpochEnd_sweep (c : Cfg) (s : St) (id : String) (total : Int) (vals : List ValIn) (s' : St)
    (h : onEpochEnd c s id total vals = some s') :
    s'.fc = (if id == c.distrId then 0 else s.fc) + mintedBy c id ∧
    s'.distr = s.distr + (if id == c.distrId then s.fc else 0) ∧
    ((id == c.distrId) = false → s'.pool = s.pool) := by
  unfold onEpochEnd at h
  simp only [] at h
  split at h
  · cases h
  · rename_i s0 h0
    simp only [Option.some.injEq] at h
    subst h
    have hm : ∀ x : St, (if (id == c.mintId) = true then mintHook x c.reward else x).fc = x.fc + mintedBy c id ∧
        (if (id == c.mintId) = true then mintHook x c.reward else x).distr = x.distr ∧
        (if (id == c.mintId) = true then mintHook x c.reward else x).pool = x.pool := by
      intro x
      unfold mintedBy
      by_cases hid : (id == c.mintId) = true
      · simp only [hid, if_true]
        exact ⟨(mintHook_accounts x c.reward).2, (mintHook_pool x c.reward).2, (mintHook_pool x c.reward).1⟩
      · simp only [hid, Bool.false_eq_true, if_false, Int.add_zero]
        exact ⟨trivial, trivial, trivial⟩
    obtain ⟨m1, m2, m3⟩ := hm s0
    by_cases hd : (id == c.distrId) = true
    · simp only [hd, if_true] at h0 ⊢
      obtain ⟨a, b⟩ := allocateTokens_moves _ _ _ _ _ h0
      refine ⟨by rw [m1, a], by rw [m2, b], fun hc => by cases hc⟩
    · simp only [hd, Bool.false_eq_true, if_false, Option.some.injEq] at h0 ⊢
      subst h0
      refine ⟨m1, by rw [m2]; omega, fun _ => m3⟩

theorem countEnds_nonneg (id : String) : ∀ evs : List Ev, 0 ≤ countEnds id evs := by
  intro evs
  induction evs with
  | nil => simp [countEnds]
  | cons ev rest ih =>
    cases ev with
    | epochStart i n => simpa [countEnds] using ih
    | epochEnd i n => simp only [countEnds]; split <;> omega

end ExoVerif.Distr
