import ExoVerif.Proofs.EvmFee
/-!
Helper lemmas for the block- and chain-level C19 theorems (Props/C19Hist.lean): splitting `deliverAll` at a
position, what each outcome class does to the block gas meter, and the exhaustion of the meter.
-/
namespace ExoVerif.EvmFee
open ExoVerif

theorem deliverAll_cons (e : Env) (s : St) (t : Tx) (x : Exec) (rest : List (Tx × Exec)) :
    deliverAll e s ((t, x) :: rest) =
      ((deliverAll e (deliver e s t x).1 rest).1,
       ((deliver e s t x).2.1, (deliver e s t x).2.2) :: (deliverAll e (deliver e s t x).1 rest).2) := rfl

/-- the transactions of a block split at any position: the second part runs from the state the first part left -/
theorem deliverAll_append (e : Env) (pre post : List (Tx × Exec)) (s : St) :
    deliverAll e s (pre ++ post) =
      ((deliverAll e (deliverAll e s pre).1 post).1,
       (deliverAll e s pre).2 ++ (deliverAll e (deliverAll e s pre).1 post).2) := by
  induction pre generalizing s with
  | nil => simp [deliverAll]
  | cons p rest ih =>
    obtain ⟨t, x⟩ := p
    simp only [List.cons_append, deliverAll_cons, ih, List.cons_append]

theorem deliverAll_length (e : Env) (txs : List (Tx × Exec)) (s : St) :
    (deliverAll e s txs).2.length = txs.length := by
  induction txs generalizing s with
  | nil => rfl
  | cons p rest ih => obtain ⟨t, x⟩ := p; simp only [deliverAll_cons, List.length_cons, ih]

/-- a rejected transaction with no gas on the context's meter leaves the state as it is -/
theorem st_blockGas_add_zero (s : St) : ({ s with blockGas := s.blockGas + 0 } : St) = s := by
  cases s; simp

/-- every outcome class and what it does to the block gas meter -/
theorem deliver_meter (e : Env) (s : St) (t : Tx) (x : Exec) :
    ((deliver e s t x).2.1 = .rejected ∧ (deliver e s t x).2.2 = 0 ∧
        (deliver e s t x).1.blockGas = s.blockGas + x.rejGas) ∨
    ((deliver e s t x).2.1 = .applyErr ∧ (deliver e s t x).2.2 = t.gasLimit ∧
        (deliver e s t x).1.blockGas = s.blockGas + t.gasLimit ∧
        (0 < e.blockGasLimit → (deliver e s t x).1.blockGas ≤ e.blockGasLimit)) ∨
    ((deliver e s t x).2.1 = .blockGas ∧ (deliver e s t x).2.2 = t.gasLimit ∧
        0 < e.blockGasLimit ∧ e.blockGasLimit < (deliver e s t x).1.blockGas) ∨
    (∃ f, (deliver e s t x).2.1 = .executed f ∧ (deliver e s t x).2.2 = gasUsed e t x ∧
        (deliver e s t x).1.blockGas = s.blockGas + gasUsed e t x ∧
        (0 < e.blockGasLimit → (deliver e s t x).1.blockGas ≤ e.blockGasLimit)) := by
  by_cases hadm : admissible e s t = true
  · by_cases hi : t.gasLimit < t.intrinsic
    · by_cases hb : (decide (0 < e.blockGasLimit) && decide (e.blockGasLimit < s.blockGas + t.gasLimit)) = true
      · right; right; left
        have hd : deliver e s t x =
            ({ afterAnte e s t with blockGas := s.blockGas + t.gasLimit }, .blockGas, t.gasLimit) := by
          simp only [deliver, hadm, Bool.not_true, Bool.false_eq_true, if_false, hi, if_true, hb]
        rw [hd]
        simp only [Bool.and_eq_true, decide_eq_true_eq] at hb
        exact ⟨rfl, rfl, hb.1, hb.2⟩
      · right; left
        have hd : deliver e s t x =
            ({ afterAnte e s t with blockGas := s.blockGas + t.gasLimit }, .applyErr, t.gasLimit) := by
          simp only [deliver, hadm, Bool.not_true, Bool.false_eq_true, if_false, hi, if_true, hb]
        rw [hd]
        refine ⟨rfl, rfl, rfl, ?_⟩
        intro hl
        simp only [Bool.and_eq_true, decide_eq_true_eq, not_and] at hb
        have := hb hl
        show s.blockGas + t.gasLimit ≤ e.blockGasLimit
        omega
    · by_cases hb : (decide (0 < e.blockGasLimit) && decide (e.blockGasLimit < s.blockGas + gasUsed e t x)) = true
      · right; right; left
        have hd : deliver e s t x =
            ({ afterAnte e s t with blockGas := s.blockGas + gasUsed e t x }, .blockGas, t.gasLimit) := by
          simp only [deliver, hadm, Bool.not_true, Bool.false_eq_true, if_false, hi, hb, if_true]
        rw [hd]
        simp only [Bool.and_eq_true, decide_eq_true_eq] at hb
        exact ⟨rfl, rfl, hb.1, hb.2⟩
      · right; right; right
        have hd : deliver e s t x =
            ({ afterExec e (afterAnte e s t) t x (gasUsed e t x) with blockGas := s.blockGas + gasUsed e t x },
              .executed x.failed, gasUsed e t x) := by
          simp only [deliver, hadm, Bool.not_true, Bool.false_eq_true, if_false, hi, hb]
        rw [hd]
        refine ⟨x.failed, rfl, rfl, rfl, ?_⟩
        intro hl
        simp only [Bool.and_eq_true, decide_eq_true_eq, not_and] at hb
        have := hb hl
        show s.blockGas + gasUsed e t x ≤ e.blockGasLimit
        omega
  · left
    have hf : admissible e s t = false := by simpa using hadm
    have hd : deliver e s t x = ({ s with blockGas := s.blockGas + x.rejGas }, .rejected, 0) := by
      simp [deliver, hf]
    rw [hd]
    exact ⟨rfl, rfl, rfl⟩

/-- once the meter has reached the limit every further transaction is rejected, changes no balance and no nonce,
and the meter only grows -/
theorem deliver_exhausted (e : Env) (s : St) (t : Tx) (x : Exec)
    (hl : 0 < e.blockGasLimit) (hfull : e.blockGasLimit ≤ s.blockGas) :
    deliver e s t x = ({ s with blockGas := s.blockGas + x.rejGas }, .rejected, 0) := by
  have : admissible e s t = false := by simp [admissible, admissibleSeparate, hl, hfull]
  simp [deliver, this]

theorem deliverAll_exhausted (e : Env) (txs : List (Tx × Exec)) (s : St)
    (hl : 0 < e.blockGasLimit) (hfull : e.blockGasLimit ≤ s.blockGas) (hrj : ∀ p ∈ txs, 0 ≤ p.2.rejGas) :
    (∀ r ∈ (deliverAll e s txs).2, r = (Outcome.rejected, (0 : Int))) ∧
    (deliverAll e s txs).1.bal = s.bal ∧ (deliverAll e s txs).1.nonce = s.nonce ∧
    s.blockGas ≤ (deliverAll e s txs).1.blockGas := by
  induction txs generalizing s with
  | nil => exact ⟨by simp [deliverAll], rfl, rfl, Int.le_refl _⟩
  | cons p rest ih =>
    obtain ⟨t, x⟩ := p
    have h0 : 0 ≤ x.rejGas := hrj (t, x) (by simp)
    rw [deliverAll_cons, deliver_exhausted e s t x hl hfull]
    obtain ⟨i1, i2, i3, i4⟩ := ih { s with blockGas := s.blockGas + x.rejGas } (by simp only []; omega)
      (fun q hq => hrj q (by simp [hq]))
    refine ⟨?_, i2, i3, by simp only [] at i4 ⊢; omega⟩
    intro r hr
    simp only [List.mem_cons] at hr
    rcases hr with hr | hr
    · exact hr
    · exact i1 r hr

end ExoVerif.EvmFee
