import ExoVerif.Model.OracleCheckSide
/-! Helper lemmas for Props/C13CheckSide.lean: what `copyRounds` allocates, and that writes through a
context whose pointers all lie at or above `n` leave the cells below `n` alone. Core Lean only. -/
namespace ExoVerif.OracleCheckSide
open ExoVerif.Oracle

/-! ### the copy -/

theorem copyRounds_spec (l : List (Nat × Nat)) : ∀ (h : Heap),
    h.next ≤ (copyRounds h l).1.next ∧
    (∀ x, x < h.next → (copyRounds h l).1.cell x = h.cell x) ∧
    (∀ ka ∈ (copyRounds h l).2, h.next ≤ ka.2 ∧ ka.2 < (copyRounds h l).1.next) := by
  induction l with
  | nil => intro h; simp [copyRounds]
  | cons e rest ih =>
    intro h
    obtain ⟨k, a⟩ := e
    unfold copyRounds
    cases hc : h.cell a with
    | none => simpa using ih h
    | some r =>
      have := ih (h.alloc r).1
      simp only [Heap.alloc] at this ⊢
      obtain ⟨h1, h2, h3⟩ := this
      refine ⟨by omega, ?_, ?_⟩
      · intro x hx
        rw [h2 x (by omega)]
        have : x ≠ h.next := by omega
        simp [this]
      · intro ka hka
        simp only [List.mem_cons] at hka
        rcases hka with rfl | hka
        · exact ⟨Nat.le_refl _, by simp; omega⟩
        · have := h3 ka hka
          omega

theorem alookup_mem' (k v : Nat) (l : List (Nat × Nat)) (h : alookup k l = some v) : (k, v) ∈ l := by
  induction l with
  | nil => simp [alookup] at h
  | cons hd t ih =>
    obtain ⟨k', v'⟩ := hd
    by_cases hk : k' = k
    · simp only [alookup, hk, if_true, Option.some.injEq] at h
      rw [hk, h]; simp
    · simp only [alookup, hk, if_false] at h
      exact List.mem_cons_of_mem _ (ih h)

/-- a write through a context all of whose pointers are `≥ n` leaves every cell below `n` alone -/
theorem write_below (c : Ctx) (n : Nat) (hc : c.AtLeast n) (h : Heap) (fid : Nat) (f : Round → Round) :
    ∀ x, x < n → (c.write h fid f).cell x = h.cell x := by
  intro x hx
  unfold Ctx.write
  cases hl : alookup fid c.rounds with
  | none => rfl
  | some a =>
    cases hr : h.cell a with
    | none => simp only [hr]
    | some r =>
      have hge : n ≤ a := hc (fid, a) (alookup_mem' fid a c.rounds hl)
      have hne : x ≠ a := by omega
      simp only [hr, Heap.store, hne, if_false]

theorem writes_below (c : Ctx) (n : Nat) (hc : c.AtLeast n) (ws : List (Nat × (Round → Round))) :
    ∀ (h : Heap) x, x < n → (c.writes h ws).cell x = h.cell x := by
  induction ws with
  | nil => intro h x _; rfl
  | cons w rest ih =>
    intro h x hx
    obtain ⟨fid, f⟩ := w
    simp only [Ctx.writes]
    rw [ih _ x hx, write_below c n hc h fid f x hx]

theorem view_congr (d : Ctx) (h h' : Heap) (n : Nat) (hd : d.Below n) (heq : ∀ x, x < n → h'.cell x = h.cell x) :
    d.view h' = d.view h := by
  unfold Ctx.view
  apply List.map_congr_left
  intro ka hka
  rw [heq _ (hd ka hka)]

/-! ### a concrete heap for the non-vacuity examples -/

/-- two feeders, both rounds open -/
def exHeap : Heap :=
  { cell := fun x => if x = 0 then some { basedBlock := 2, nextRoundID := 2, status := .open }
                      else if x = 1 then some { basedBlock := 5, nextRoundID := 9, status := .open } else none,
    next := 2 }
def exCtx : Ctx := { rounds := [(1, 0), (2, 1)] }

theorem exCtx_below : exCtx.Below exHeap.next := by
  intro ka hka
  simp only [exCtx, List.mem_cons, List.not_mem_nil, or_false] at hka
  rcases hka with rfl | rfl <;> decide

end ExoVerif.OracleCheckSide
