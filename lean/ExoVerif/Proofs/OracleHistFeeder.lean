import ExoVerif.Proofs.OracleHistRounds
import ExoVerif.Proofs.OracleHistNonces
import ExoVerif.Proofs.OracleHistAgg
/-!
Part 7 of the history-level development (C12/C13): for the observed feeder, along the State-level run,
(a) nonce entries for the feeder exist only while its round is open, (b) the feeder's collecting worker
exists only while its round is open, was created under the current validator set and holds reports
weighted with the validators' current powers. Core Lean only.
-/
namespace ExoVerif.Oracle

/-! ### SealRound, seen on the feeder's worker and on the list of sealed feeders -/

theorem alookup_adel_same' {κ α} [DecidableEq κ] (k : κ) (l : List (κ × α)) (h : (akeys l).Nodup) :
    alookup k (adel k l) = none := alookup_adel_same k l h

/-- SealRound on the feeder itself: a worker of the feeder that is still there afterwards is the one
that was there before, it is not sealed unless the feeder has no round entry, the round entry is
untouched and — if open — was inside its window and the seal was not forced -/
theorem sealOne_self_worker (p : Params) (h : Nat) (force : Bool) (g : Agc) (fid : Nat) (w : Worker)
    (hn : (akeys g.workers).Nodup) (hw : alookup fid (sealOne p h force g fid).1.workers = some w) :
    alookup fid g.workers = some w ∧ (w.sealed = true → alookup fid g.rounds = none) ∧
    alookup fid (sealOne p h force g fid).1.rounds = alookup fid g.rounds ∧
    (sealOne p h force g fid).2.2 = false ∧
    (∀ r, alookup fid g.rounds = some r → r.status = .open → ¬ (h - r.basedBlock ≥ p.maxNonce) ∧ force = false ∧
      ¬ (((p.feeder? fid).getD default).endBlock > 0 ∧ h ≥ ((p.feeder? fid).getD default).endBlock)) := by
  have hdel : alookup fid (adel fid g.workers) = none := alookup_adel_same fid g.workers hn
  unfold sealOne at hw ⊢
  cases hr : alookup fid g.rounds with
  | none =>
    simp only [hr] at hw ⊢
    exact ⟨hw, fun _ => trivial, trivial, trivial, by intro r h'; cases h'⟩
  | some r =>
    simp only [hr] at hw ⊢
    by_cases h1 : r.status = Status.open
    · by_cases h2 : ((decide (((p.feeder? fid).getD default).endBlock > 0) && decide (h ≥ ((p.feeder? fid).getD default).endBlock)) || decide (h - r.basedBlock ≥ p.maxNonce) || force) = true
      · simp only [h1, h2, if_true, hdel] at hw
        cases hw
      · simp only [h1, h2, if_true, Bool.false_eq_true, if_false] at hw ⊢
        cases hl : alookup fid g.workers with
        | none => simp [hl] at hw
        | some w0 =>
          by_cases hs : w0.sealed = true
          · simp [hl, hs, hdel] at hw
          · simp only [hl, hs, Bool.false_eq_true, if_false, Option.some.injEq] at hw ⊢
            subst hw
            refine ⟨rfl, fun h' => absurd h' hs, hr, trivial, ?_⟩
            intro r' hr' _
            subst hr'
            simp only [Bool.or_eq_true, Bool.and_eq_true, decide_eq_true_eq, not_or] at h2
            refine ⟨h2.1.2, ?_, h2.1.1⟩
            cases force with
            | false => rfl
            | true => exact absurd rfl h2.2
    · simp only [h1, if_false] at hw ⊢
      cases hl : alookup fid g.workers with
      | none => simp [hl] at hw
      | some w0 =>
        by_cases hs : w0.sealed = true
        · simp [hl, hs, hdel] at hw
        · simp only [hl, hs, Bool.false_eq_true, if_false, Option.some.injEq] at hw ⊢
          subst hw
          exact ⟨rfl, fun h' => absurd h' hs, hr, trivial, by
            intro r' hr' ho
            subst hr'
            exact absurd ho h1⟩


theorem sealOne_workers_nodup (p : Params) (h : Nat) (force : Bool) (g : Agc) (x : Nat) (hn : (akeys g.workers).Nodup) :
    (akeys (sealOne p h force g x).1.workers).Nodup := by
  have hd1 : (akeys (adel x g.workers)).Nodup := akeys_adel_nodup _ _ hn
  have hd2 : (akeys (adel x (adel x g.workers))).Nodup := akeys_adel_nodup _ _ hd1
  unfold sealOne
  cases alookup x g.rounds with
  | none => exact hn
  | some r =>
    simp only
    by_cases h1 : r.status = Status.open
    · by_cases h2 : ((decide (((p.feeder? x).getD default).endBlock > 0) && decide (h ≥ ((p.feeder? x).getD default).endBlock)) || decide (h - r.basedBlock ≥ p.maxNonce) || force) = true
      · simp only [h1, h2, if_true]
        repeat' split
        all_goals first | exact hd1 | exact hd2
      · simp only [h1, h2, if_true, Bool.false_eq_true, if_false]
        repeat' split
        all_goals first | exact hn | exact hd1
    · simp only [h1, if_false]
      repeat' split
      all_goals first | exact hn | exact hd1

theorem sealOne_other_worker (p : Params) (h : Nat) (force : Bool) (g : Agc) (x fid : Nat) (hx : x ≠ fid) :
    alookup fid (sealOne p h force g x).1.workers = alookup fid g.workers := by
  have ha := alookup_adel_other x fid g.workers (Ne.symm hx)
  have ha2 := alookup_adel_other x fid (adel x g.workers) (Ne.symm hx)
  unfold sealOne
  cases alookup x g.rounds with
  | none => rfl
  | some r =>
    simp only
    by_cases h1 : r.status = Status.open
    · by_cases h2 : ((decide (((p.feeder? x).getD default).endBlock > 0) && decide (h ≥ ((p.feeder? x).getD default).endBlock)) || decide (h - r.basedBlock ≥ p.maxNonce) || force) = true
      · simp only [h1, h2, if_true]
        repeat' split
        all_goals simp [ha, ha2]
      · simp only [h1, h2, if_true, Bool.false_eq_true, if_false]
        repeat' split
        all_goals simp [ha]
    · simp only [h1, if_false]
      repeat' split
      all_goals simp [ha]

/-- if SealRound changes the feeder's round entry, the feeder is reported as sealed (module.go: EndBlock
then removes its nonce entries) -/
theorem sealOne_self_sealed (p : Params) (h : Nat) (force : Bool) (g : Agc) (fid : Nat)
    (hne : alookup fid (sealOne p h force g fid).1.rounds ≠ alookup fid g.rounds) :
    (sealOne p h force g fid).2.2 = true := by
  unfold sealOne at hne ⊢
  cases hr : alookup fid g.rounds with
  | none => simp [hr] at hne
  | some r =>
    simp only [hr] at hne ⊢
    by_cases h1 : r.status = Status.open
    · by_cases h2 : ((decide (((p.feeder? fid).getD default).endBlock > 0) && decide (h ≥ ((p.feeder? fid).getD default).endBlock)) || decide (h - r.basedBlock ≥ p.maxNonce) || force) = true
      · simp only [h1, h2, if_true]
        repeat' split
        all_goals rfl
      · simp only [h1, h2, if_true, Bool.false_eq_true, if_false] at hne
        exfalso; apply hne
        repeat' split
        all_goals exact hr
    · simp only [h1, if_false] at hne
      exfalso; apply hne
      repeat' split
      all_goals exact hr

theorem sealStep_fst (p : Params) (h : Nat) (force : Bool) (acc : Agc × List Nat × List Nat) (x : Nat) :
    (sealStep p h force acc x).1 = (sealOne p h force acc.1 x).1 ∧
    (sealStep p h force acc x).2.2 = (if (sealOne p h force acc.1 x).2.2 then acc.2.2 ++ [x] else acc.2.2) := by
  unfold sealStep
  exact ⟨rfl, rfl⟩

/-- the whole SealRound fold, seen on the observed feeder -/
theorem sealFold_feeder (p : Params) (h : Nat) (force : Bool) (fid : Nat) (l : List Nat) :
    ∀ (acc : Agc × List Nat × List Nat), (akeys acc.1.workers).Nodup →
    (akeys (l.foldl (sealStep p h force) acc).1.workers).Nodup ∧
    (fid ∉ (l.foldl (sealStep p h force) acc).2.2 →
      alookup fid (l.foldl (sealStep p h force) acc).1.rounds = alookup fid acc.1.rounds ∧ fid ∉ acc.2.2) ∧
    (∀ w, alookup fid (l.foldl (sealStep p h force) acc).1.workers = some w →
      alookup fid acc.1.workers = some w ∧
      alookup fid (l.foldl (sealStep p h force) acc).1.rounds = alookup fid acc.1.rounds ∧
      (fid ∈ l → (w.sealed = true → alookup fid acc.1.rounds = none) ∧
        ∀ r, alookup fid acc.1.rounds = some r → r.status = .open →
          ¬ (h - r.basedBlock ≥ p.maxNonce) ∧ force = false)) := by
  induction l with
  | nil =>
    intro acc hn
    exact ⟨hn, fun hnot => ⟨rfl, hnot⟩, fun w hw => ⟨hw, rfl, fun hm => by simp at hm⟩⟩
  | cons x t ih =>
    intro acc hn
    simp only [List.foldl_cons]
    obtain ⟨e1, e2⟩ := sealStep_fst p h force acc x
    have hn' : (akeys (sealStep p h force acc x).1.workers).Nodup := by
      rw [e1]; exact sealOne_workers_nodup p h force acc.1 x hn
    obtain ⟨i1, i2, i3⟩ := ih (sealStep p h force acc x) hn'
    by_cases hx : x = fid
    · subst hx
      refine ⟨i1, ?_, ?_⟩
      · intro hnot
        obtain ⟨j1, j2⟩ := i2 hnot
        rw [e2] at j2
        by_cases hs : (sealOne p h force acc.1 x).2.2 = true
        · simp [hs] at j2
        · simp only [hs, Bool.false_eq_true, if_false] at j2
          refine ⟨?_, j2⟩
          rw [j1, e1]
          cases hd : decide (alookup x (sealOne p h force acc.1 x).1.rounds = alookup x acc.1.rounds) with
          | true => simpa using hd
          | false =>
            have : alookup x (sealOne p h force acc.1 x).1.rounds ≠ alookup x acc.1.rounds := by simpa using hd
            exact absurd (sealOne_self_sealed p h force acc.1 x this) hs
      · intro w hw
        obtain ⟨k1, k2, _⟩ := i3 w hw
        rw [e1] at k1 k2
        obtain ⟨s1, s2, s3, _, s5⟩ := sealOne_self_worker p h force acc.1 x w hn k1
        refine ⟨s1, k2.trans s3, fun _ => ⟨s2, fun r hr ho => ⟨(s5 r hr ho).1, (s5 r hr ho).2.1⟩⟩⟩
    · refine ⟨i1, ?_, ?_⟩
      · intro hnot
        obtain ⟨j1, j2⟩ := i2 hnot
        rw [e1, (sealOne_other p h force acc.1 x fid hx).1] at j1
        refine ⟨j1, ?_⟩
        rw [e2] at j2
        intro hm
        apply j2
        split
        · simp [hm]
        · exact hm
      · intro w hw
        obtain ⟨k1, k2, k3⟩ := i3 w hw
        rw [e1, sealOne_other_worker p h force acc.1 x fid hx] at k1
        rw [e1, (sealOne_other p h force acc.1 x fid hx).1] at k2 k3
        refine ⟨k1, k2, fun hm => ?_⟩
        have hm' : fid ∈ t := by
          simp only [List.mem_cons] at hm
          rcases hm with e | e
          · exact absurd e.symm hx
          · exact e
        exact k3 hm'


theorem sealRound_feeder (g : Agc) (p : Params) (h : Nat) (force : Bool) (fid : Nat) (hn : (akeys g.workers).Nodup) :
    (akeys (g.sealRound p h force).1.workers).Nodup ∧
    (fid ∉ (g.sealRound p h force).2.2 → alookup fid (g.sealRound p h force).1.rounds = alookup fid g.rounds) ∧
    (∀ w, alookup fid (g.sealRound p h force).1.workers = some w →
      alookup fid g.workers = some w ∧
      alookup fid (g.sealRound p h force).1.rounds = alookup fid g.rounds ∧
      (w.sealed = true → alookup fid g.rounds = none) ∧
      ∀ r, alookup fid g.rounds = some r → r.status = .open → ¬ (h - r.basedBlock ≥ p.maxNonce) ∧ force = false) := by
  rw [sealRound_eq]
  obtain ⟨i1, i2, i3⟩ := sealFold_feeder p h force fid (g.rounds.map (·.1)) (g, [], []) hn
  refine ⟨i1, fun hnot => (i2 hnot).1, ?_⟩
  intro w hw
  obtain ⟨k1, k2, k3⟩ := i3 w hw
  refine ⟨k1, k2, ?_⟩
  by_cases hm : fid ∈ g.rounds.map (·.1)
  · exact k3 hm
  · have hnone : alookup fid g.rounds = none := (alookup_none_iff fid g.rounds).mpr hm
    exact ⟨fun _ => hnone, fun r hr => by rw [hnone] at hr; cases hr⟩

/-! ### PrepareRoundEndBlock, seen on the feeder's worker and on the list of opened feeders -/

theorem prepareOne_workers_nodup (p : Params) (block : Nat) (g : Agc) (i : Nat) (f : Feeder)
    (hn : (akeys g.workers).Nodup) : (akeys (prepareOne p block g i f).1.workers).Nodup := by
  have hd1 : (akeys (adel i g.workers)).Nodup := akeys_adel_nodup _ _ hn
  unfold prepareOne
  repeat' split
  all_goals first | exact hn | exact hd1

theorem prepareOne_other_worker (p : Params) (block : Nat) (g : Agc) (i fid : Nat) (f' : Feeder) (hne : fid ≠ i) :
    alookup fid (prepareOne p block g i f').1.workers = alookup fid g.workers := by
  have ha := alookup_adel_other i fid g.workers hne
  unfold prepareOne
  repeat' split
  all_goals first | rfl | exact ha

theorem prepareOne_self_worker (p : Params) (block : Nat) (g : Agc) (fid : Nat) (f : Feeder) (w : Worker)
    (hn : (akeys g.workers).Nodup) (hw : alookup fid (prepareOne p block g fid f).1.workers = some w) :
    alookup fid g.workers = some w ∧
    (∀ r, alookup fid g.rounds = some r → f.endBlock = 0 → f.startBaseBlock ≤ block → (roundArith f block).1 ≠ 0) := by
  have hdel : alookup fid (adel fid g.workers) = none := alookup_adel_same fid g.workers hn
  unfold prepareOne at hw
  split at hw
  · refine ⟨hw, ?_⟩
    rename_i hc
    intro r _ he hs
    simp only [he, Nat.lt_irrefl, decide_false, Bool.false_and, Bool.false_or, decide_eq_true_eq] at hc
    omega
  · generalize hra : roundArith f block = ra at hw
    obtain ⟨left, based, nrid⟩ := ra
    simp only at hw
    cases hr : alookup fid g.rounds with
    | none =>
      rw [hr] at hw
      simp only at hw
      refine ⟨?_, by intro r h'; cases h'⟩
      split at hw <;> exact hw
    | some r =>
      rw [hr] at hw
      simp only at hw
      by_cases hl0 : left = 0
      · rw [if_pos hl0] at hw
        simp only [hdel] at hw
        cases hw
      · rw [if_neg hl0] at hw
        refine ⟨by split at hw <;> exact hw, ?_⟩
        intro r' _ _ _
        exact hl0

theorem prepareOne_opened_round (p : Params) (block : Nat) (g : Agc) (fid : Nat) (f : Feeder)
    (h : (prepareOne p block g fid f).2 = true) :
    ∃ r, alookup fid (prepareOne p block g fid f).1.rounds = some r ∧ r.status = .open := by
  unfold prepareOne at h ⊢
  split
  · rename_i hc; simp [hc] at h
  · rename_i hc
    simp only [hc, Bool.false_eq_true, if_false] at h
    generalize hra : roundArith f block = ra at h ⊢
    obtain ⟨left, based, nrid⟩ := ra
    simp only at h ⊢
    cases hr : alookup fid g.rounds with
    | none =>
      rw [hr] at h
      simp only at h ⊢
      by_cases hl : left ≥ p.maxNonce
      · rw [if_pos hl] at h; cases h
      · rw [if_neg hl]
        exact ⟨_, alookup_aset_same _ _ _, rfl⟩
    | some r =>
      rw [hr] at h
      simp only at h ⊢
      by_cases hl0 : left = 0
      · rw [if_pos hl0]
        exact ⟨_, alookup_aset_same _ _ _, rfl⟩
      · rw [if_neg hl0] at h
        by_cases hc2 : (decide (r.status = Status.open) && decide (left ≥ p.maxNonce)) = true
        · rw [if_pos hc2] at h; cases h
        · rw [if_neg hc2] at h; cases h

theorem prepareLoop_feeder (p : Params) (block fid : Nat) (fs : List Feeder) : ∀ (g : Agc) (i : Nat) (acc : List Nat),
    (akeys g.workers).Nodup →
    (akeys (prepareLoop p block g i fs acc).1.workers).Nodup ∧
    (fid ∈ (prepareLoop p block g i fs acc).2 → fid ∈ acc ∨
      ∃ r, alookup fid (prepareLoop p block g i fs acc).1.rounds = some r ∧ r.status = .open) ∧
    (∀ w, alookup fid (prepareLoop p block g i fs acc).1.workers = some w →
      alookup fid g.workers = some w ∧
      (i ≤ fid → fid ≠ 0 → ∀ f, fs[fid - i]? = some f → ∀ r, alookup fid g.rounds = some r → f.endBlock = 0 →
        f.startBaseBlock ≤ block → (roundArith f block).1 ≠ 0)) := by
  induction fs with
  | nil =>
    intro g i acc hn
    exact ⟨hn, fun h => Or.inl h, fun w hw => ⟨hw, fun _ _ f hf => by simp at hf⟩⟩
  | cons f' fs ih =>
    intro g i acc hn
    unfold prepareLoop
    by_cases hi : i = 0
    · simp only [hi, if_true]
      obtain ⟨i1, i2, i3⟩ := ih g (0 + 1) acc hn
      refine ⟨i1, i2, ?_⟩
      intro w hw
      obtain ⟨k1, k2⟩ := i3 w hw
      refine ⟨k1, ?_⟩
      intro _ hf0 f hf
      have e : fid - 0 = (fid - (0 + 1)) + 1 := by omega
      rw [e, List.getElem?_cons_succ] at hf
      exact k2 (by omega) hf0 f hf
    · simp only [hi, if_false]
      have hn' := prepareOne_workers_nodup p block g i f' hn
      obtain ⟨i1, i2, i3⟩ := ih (prepareOne p block g i f').1 (i + 1)
        (if (prepareOne p block g i f').2 = true then acc ++ [i] else acc) hn'
      refine ⟨i1, ?_, ?_⟩
      · intro hm
        rcases i2 hm with h1 | h1
        · by_cases ho : (prepareOne p block g i f').2 = true
          · simp only [ho, if_true, List.mem_append, List.mem_singleton] at h1
            rcases h1 with h1 | h1
            · exact Or.inl h1
            · right
              subst h1
              obtain ⟨r, hr, hopen⟩ := prepareOne_opened_round p block g fid f' ho
              refine ⟨r, ?_, hopen⟩
              rw [prepareLoop_other p block fid fs _ _ _ (by omega)]
              exact hr
          · simp only [ho, Bool.false_eq_true, if_false] at h1
            exact Or.inl h1
        · exact Or.inr h1
      · intro w hw
        obtain ⟨k1, k2⟩ := i3 w hw
        by_cases he : i = fid
        · subst he
          obtain ⟨s1, s2⟩ := prepareOne_self_worker p block g i f' w hn k1
          refine ⟨s1, ?_⟩
          intro _ _ f hf
          simp only [Nat.sub_self, List.getElem?_cons_zero, Option.some.injEq] at hf
          subst hf
          exact s2
        · rw [prepareOne_other_worker p block g i fid f' (fun e => he e.symm)] at k1
          refine ⟨k1, ?_⟩
          intro hle hf0 f hf r hr
          have e : fid - i = (fid - (i + 1)) + 1 := by omega
          rw [e, List.getElem?_cons_succ] at hf
          have hr' : alookup fid (prepareOne p block g i f').1.rounds = some r := by
            rw [prepareOne_other p block g i fid f' (fun e => he e.symm)]; exact hr
          exact k2 (by omega) hf0 f hf r hr'

theorem prepareRound_feeder (g : Agc) (p : Params) (block fid : Nat) (f : Feeder) (hp : g.params = some p)
    (hf : p.feeder? fid = some f) (hfid : fid ≠ 0) (hb : 1 ≤ block) (hn : (akeys g.workers).Nodup) :
    (akeys (g.prepareRound block).1.workers).Nodup ∧
    (fid ∈ (g.prepareRound block).2 → ∃ r, alookup fid (g.prepareRound block).1.rounds = some r ∧ r.status = .open) ∧
    (∀ w, alookup fid (g.prepareRound block).1.workers = some w →
      alookup fid g.workers = some w ∧
      (∀ r, alookup fid g.rounds = some r → f.endBlock = 0 → f.startBaseBlock ≤ block → (roundArith f block).1 ≠ 0)) := by
  unfold Agc.prepareRound
  split
  · rename_i hb'; omega
  · simp only [hp]
    obtain ⟨i1, i2, i3⟩ := prepareLoop_feeder p block fid p.feeders g 0 [] hn
    refine ⟨i1, ?_, ?_⟩
    · intro hm
      rcases i2 hm with h1 | h1
      · simp at h1
      · exact h1
    · intro w hw
      obtain ⟨k1, k2⟩ := i3 w hw
      refine ⟨k1, k2 (by omega) hfid f ?_⟩
      unfold Params.feeder? at hf
      simpa using hf


/-! ### (a) nonce entries of the feeder exist only while its round is open -/

/-- every nonce entry for feeder `fid` belongs to an open round of `fid` -/
def EntOK (fid tok : Nat) (s : State) : Prop :=
  ∀ k ∈ akeys s.store.nonces, k.2 = fid → ∃ r, (slOf fid tok s).round = some r ∧ r.status = .open

/-- the keys of the in-memory worker table are duplicate-free -/
def WNodup (s : State) : Prop := ∀ g, s.agc = some g → (akeys g.workers).Nodup

theorem mem_akeys_filter {κ α} (P : (κ × α) → Bool) (l : List (κ × α)) (k : κ) (h : k ∈ akeys (l.filter P)) :
    ∃ c, (k, c) ∈ l ∧ P (k, c) = true := by
  simp only [akeys, List.mem_map, List.mem_filter] at h
  obtain ⟨x, ⟨hx1, hx2⟩, hx3⟩ := h
  refine ⟨x.2, ?_, ?_⟩
  · rw [← hx3]; exact hx1
  · rw [← hx3]; exact hx2

theorem mem_akeys_of_mem {κ α} (l : List (κ × α)) (k : κ) (c : α) (h : (k, c) ∈ l) : k ∈ akeys l := by
  simp only [akeys, List.mem_map]
  exact ⟨(k, c), h, rfl⟩

theorem fillPrice_workers_nodup (g : Agc) (p : Params) (m : Msg) (hn : (akeys g.workers).Nodup) :
    (akeys (g.fillPrice p m).1.workers).Nodup := by
  have h1 : ∀ w, (akeys (aset m.feederID w g.workers)).Nodup := fun w => akeys_aset_nodup _ _ _ hn
  have h2 : ∀ w w', (akeys (aset m.feederID w' (aset m.feederID w g.workers))).Nodup :=
    fun w w' => akeys_aset_nodup _ _ _ (h1 w)
  unfold Agc.fillPrice
  simp only
  repeat' split
  all_goals first | exact h1 _ | exact h2 _ _

theorem createPrice_wn (p : Params) (s : State) (m : Msg) (hpf : PF p s) (h : WNodup s) : WNodup (createPrice s m).1 := by
  obtain ⟨g, hg, hp⟩ := hpf.agc
  by_cases hts : checkTimestamp s.blockTime m = true
  · cases hc : g.checkMsg p m with
    | some e =>
      rw [createPrice_check_fail s m g p e hg hp hts hc]
      exact h
    | none =>
      rw [createPrice_fill s m g p hg hp hts hc]
      have hw := fillPrice_workers_nodup g p m (h g hg)
      rcases hf : g.fillPrice p m with ⟨g', res⟩
      rw [hf] at hw
      cases res with
      | ignored => intro g2 hg2; cases hg2; exact hw
      | cached it => intro g2 hg2; cases hg2; exact hw
      | final it => intro g2 hg2; cases hg2; exact hw
  · have hts' : checkTimestamp s.blockTime m = false := by simpa using hts
    rw [createPrice_bad_ts s m hts']
    exact h

theorem createPrice_ent (p : Params) (fid : Nat) (f : Feeder) (s : State) (m : Msg)
    (hpf : PF p s) (hok : NonceOK p s) (he : EntOK fid f.tokenID s) : EntOK fid f.tokenID (createPrice s m).1 := by
  obtain ⟨g, hg, hp⟩ := hpf.agc
  by_cases hts : checkTimestamp s.blockTime m = true
  · cases hc : g.checkMsg p m with
    | some e =>
      rw [createPrice_check_fail s m g p e hg hp hts hc]
      exact he
    | none =>
      rw [createPrice_fill s m g p hg hp hts hc]
      obtain ⟨_, r, hr, hopen, _⟩ := checkMsg_none g p m hc
      have hfr := fillPrice_rounds g p m r hr
      have hv := fillPrice_vals g p m
      rcases hf : g.fillPrice p m with ⟨g', res⟩
      rw [hf] at hfr hv
      simp only at hfr hv
      cases res with
      | ignored =>
        rcases hfr with ⟨_, h2⟩ | ⟨it, h1, _⟩
        · intro k hk hk2
          have := he k hk hk2
          simp only [slOf, hg] at this ⊢
          rw [h2]; exact this
        · cases h1
      | cached it =>
        rcases hfr with ⟨_, h2⟩ | ⟨it', h1, _⟩
        · intro k hk hk2
          have := he k hk hk2
          simp only [slOf, hg] at this ⊢
          rw [h2]; exact this
        · cases h1
      | final it =>
        rcases hfr with ⟨h1, _⟩ | ⟨it', h1, _, hrounds⟩
        · exact absurd rfl (h1 it)
        · intro k hk hk2
          have hk' : k ∈ akeys (s.store.nonces.filter (fun kv => !(kv.1.2 = m.feederID && (g'.vals.map (·.1)).contains kv.1.1))) := hk
          obtain ⟨c, hm, hP⟩ := mem_akeys_filter _ _ k hk'
          have hkm := mem_akeys_of_mem _ k c hm
          by_cases hfid : m.feederID = fid
          · exfalso
            have hcur := (hok.cur g hg k hkm).1
            have hcont : (g'.vals.map (·.1)).contains k.1 = true := by
              rw [hv]
              simp only [List.contains_iff_mem]
              exact hcur
            simp only [hk2, hfid, decide_true, hcont, Bool.and_self, Bool.not_true] at hP
            cases hP
          · have := he k hkm hk2
            simp only [slOf, hg] at this ⊢
            rw [hrounds, alookup_aset_other _ _ _ _ (Ne.symm hfid)]
            exact this
  · have hts' : checkTimestamp s.blockTime m = false := by simpa using hts
    rw [createPrice_bad_ts s m hts']
    exact he

theorem runMsgs_ent (p : Params) (fid : Nat) (f : Feeder) (ms : List Msg) : ∀ (s : State) (i : Nat),
    PF p s → NonceOK p s → EntOK fid f.tokenID s → WNodup s →
    EntOK fid f.tokenID (runMsgs s i ms).1 ∧ WNodup (runMsgs s i ms).1 := by
  induction ms with
  | nil => intro s i _ _ he hw; exact ⟨he, hw⟩
  | cons m ms ih =>
    intro s i hpf hok he hw
    have h1 := createPrice_ent p fid f s m hpf hok he
    have h2 := createPrice_pf p s m hpf
    have h3 := hok.step (createPrice_nstep p s m hpf)
    have h4 := createPrice_wn p s m hpf hw
    unfold runMsgs
    rcases hcp : createPrice s m with ⟨s', out⟩
    rw [hcp] at h1 h2 h3 h4
    cases out with
    | ok => exact ih s' (i + 1) h2.2.1 h3 h1 h4
    | err e => exact ⟨h1, h4⟩

theorem deliverTx_ent (p : Params) (fid : Nat) (f : Feeder) (H : FeederHyp p fid f) (s : State) (tx : Tx)
    (hpf : PF p s) (hwf : TokWf (s.store.token f.tokenID)) (hok : NonceOK p s) (he : EntOK fid f.tokenID s)
    (hw : WNodup s) (hnl : lateFail (deliverTx s tx).2 = false) :
    EntOK fid f.tokenID (deliverTx s tx).1 ∧ WNodup (deliverTx s tx).1 := by
  unfold deliverTx at hnl ⊢
  cases ha : anteHandle s tx with
  | error why => exact ⟨he, hw⟩
  | ok st =>
    rw [ha] at hnl
    simp only at hnl ⊢
    have hfr := anteHandle_frame s tx st ha
    have hk := anteNonces_keys _ _ _ _ (anteHandle_ok s tx st ha)
    have htok : ∀ tok, st.token tok = s.store.token tok := fun tok => token_of_prices _ _ tok hfr.1
    have h0 : PF p { s with store := st } := ⟨hpf.agc, hpf.cache⟩
    have hok0 : NonceOK p { s with store := st } :=
      hok.step ⟨rfl, rfl, by rw [hk]; exact List.Sublist.refl _⟩
    have he0 : EntOK fid f.tokenID { s with store := st } := by
      intro k hkm hk2
      have hkm' : k ∈ akeys s.store.nonces := by rw [← hk]; exact hkm
      have := he k hkm' hk2
      simp only [slOf] at this ⊢
      exact this
    have hwf0 : TokWf (({ s with store := st } : State).store.token f.tokenID) := by
      show TokWf (st.token f.tokenID); rw [htok]; exact hwf
    obtain ⟨e1, e2⟩ := runMsgs_ent p fid f tx.msgs { s with store := st } 0 h0 hok0 he0 hw
    obtain ⟨_, _, i3⟩ := runMsgs_sl p fid f H tx.msgs { s with store := st } 0 h0 hwf0
    rcases hr : runMsgs { s with store := st } 0 tx.msgs with ⟨s2, r⟩
    rw [hr] at e1 e2 i3 hnl
    cases r with
    | none => exact ⟨e1, e2⟩
    | some ie =>
      obtain ⟨i, e⟩ := ie
      simp only at hnl ⊢
      have hi := lateFail_zero _ hnl i e rfl
      subst hi
      have hrd := i3 e rfl
      refine ⟨?_, e2⟩
      intro k hkm hk2
      have hkm' : k ∈ akeys s.store.nonces := by rw [← hk]; exact hkm
      have := he k hkm' hk2
      simp only [slOf] at this hrd ⊢
      rw [hrd]; exact this

theorem runTxs_ent (p : Params) (fid : Nat) (f : Feeder) (H : FeederHyp p fid f) (txs : List Tx) : ∀ (s : State),
    PF p s → TokWf (s.store.token f.tokenID) → NonceOK p s → EntOK fid f.tokenID s → WNodup s →
    NoLateFailL (runTxs s txs).2 → EntOK fid f.tokenID (runTxs s txs).1 ∧ WNodup (runTxs s txs).1 := by
  induction txs with
  | nil => intro s _ _ _ he hw _; exact ⟨he, hw⟩
  | cons tx txs ih =>
    intro s hpf hwf hok he hw hnl
    simp only [runTxs] at hnl ⊢
    have h1 := deliverTx_pf p s tx hpf
    have h2 := deliverTx_ent p fid f H s tx hpf hwf hok he hw (hnl _ (by simp))
    exact ih _ h1.2.1 ((h1.1 f.tokenID).wf hwf) (hok.step (deliverTx_nstep p s tx hpf)) h2.1 h2.2
      (fun o ho => hnl o (by simp [ho]))


theorem prepare_keeps_open (f : Feeder) (mn n0 b : Nat) (y : Sl) (r : Round) (hiv : mn < f.interval)
    (hsb : f.startBaseBlock ≤ b) (hm : MidInv f mn n0 b y) (hr : y.round = some r) (ho : r.status = .open) :
    ∃ r', (slPrepare f mn (b + 1) y).round = some r' ∧ r'.status = .open := by
  obtain ⟨r0, hr0, _, _, hopen, _⟩ := hm
  rw [hr] at hr0
  simp only [Option.some.injEq] at hr0
  subst hr0
  have hw := hopen ho
  have hiv0 : 0 < f.interval := by omega
  have hd : b + 1 - f.startBaseBlock = (b - f.startBaseBlock) + 1 := by omega
  have hsm := succ_div_mod (b - f.startBaseBlock) f.interval hiv0
  unfold slPrepare
  have hns : ¬ f.startBaseBlock > b + 1 := by omega
  simp only [hns, if_false, roundArith, hr, hd]
  by_cases h0 : ((b - f.startBaseBlock) + 1) % f.interval = 0
  · simp only [h0, if_true]
    exact ⟨_, rfl, rfl⟩
  · obtain ⟨hl, _⟩ := hsm.2 h0
    simp only [h0, if_false]
    have hnot : ¬ ((b - f.startBaseBlock) + 1) % f.interval ≥ mn := by omega
    simp only [ho, decide_true, Bool.true_and, decide_eq_true_eq, hnot, if_false]
    exact ⟨r, hr, ho⟩

theorem removeFold_survivor (vals : List Nat) (l : List Nat) : ∀ (st : Store) (k : Nat × Nat),
    k ∈ akeys (l.foldl (fun st fid => st.removeNonces fid vals) st).nonces → vals.contains k.1 = true → k.2 ∉ l := by
  induction l with
  | nil => intro st k _ _ h; simp at h
  | cons a t ih =>
    intro st k hk hc
    simp only [List.foldl_cons] at hk
    have h1 := ih _ k hk hc
    have hk1 := (removeFold_keys vals t (st.removeNonces a vals)).subset hk
    have hk1' : k ∈ akeys (st.nonces.filter (fun kv => !(kv.1.2 = a && vals.contains kv.1.1))) := hk1
    obtain ⟨c, _, hP⟩ := mem_akeys_filter _ _ k hk1'
    intro hm
    simp only [List.mem_cons] at hm
    rcases hm with e | e
    · have hc' : k.1 ∈ vals := by simpa using hc
      simp [e, hc'] at hP
    · exact h1 e

theorem ent_core (p : Params) (fid : Nat) (f : Feeder) (H : FeederHyp p fid f) (n0 b h : Nat) (hh : h = b + 1)
    (hmn : 1 ≤ p.maxNonce) (hiv : p.maxNonce < f.interval)
    (g g2 g3 : Agc) (sealed : List Nat) (st0 st3 : Store) (n cnt : Nat) (force : Bool)
    (hsl : (⟨alookup fid g2.rounds, n + cnt⟩ : Sl) = slSeal p.maxNonce h force ⟨alookup fid g.rounds, n⟩)
    (sf2 : fid ∉ sealed → alookup fid g2.rounds = alookup fid g.rounds)
    (hv : g2.vals = g.vals)
    (hst3 : st3.nonces = (sealed.foldl (fun st fid => st.removeNonces fid (g2.vals.map (·.1))) st0).nonces)
    (hr3 : g3.rounds = g2.rounds) (hp3 : g3.params = some p) (hnd3 : (akeys g3.workers).Nodup)
    (hinv : FeederInv f p.maxNonce n0 b ⟨alookup fid g.rounds, n⟩)
    (hent : ∀ k ∈ akeys st0.nonces, k.2 = fid →
      (∃ r, alookup fid g.rounds = some r ∧ r.status = .open) ∧ k.1 ∈ akeys g.vals)
    (hn0 : (akeys st0.nonces).Nodup) :
    ∀ k ∈ akeys ((g3.prepareRound h).2.foldl
        (fun st fid => st.addZeroNonces fid ((g3.prepareRound h).1.vals.map (·.1))) st3).nonces,
      k.2 = fid → ∃ r, alookup fid (g3.prepareRound h).1.rounds = some r ∧ r.status = .open := by
  obtain ⟨_, pf2, _⟩ := prepareRound_feeder g3 p h fid f hp3 H.feeder H.fidPos (by omega) hnd3
  have hsub : (akeys st3.nonces).Sublist (akeys st0.nonces) := by
    rw [hst3]; exact removeFold_keys _ _ _
  obtain ⟨_, a2⟩ := addZeroFold_keys ((g3.prepareRound h).1.vals.map (·.1)) (g3.prepareRound h).2 st3 (hn0.sublist hsub)
  intro k hk hk2
  rcases a2 k hk with h1 | ⟨_, h2⟩
  · have hk0 : k ∈ akeys st0.nonces := hsub.subset h1
    obtain ⟨⟨r, hr, hopen⟩, hkv⟩ := hent k hk0 hk2
    have hcont : (g2.vals.map (·.1)).contains k.1 = true := by
      rw [hv]
      simp only [List.contains_iff_mem]
      exact hkv
    have hns : fid ∉ sealed := by
      have h1' := h1
      rw [hst3] at h1'
      have := removeFold_survivor _ _ _ k h1' hcont
      rw [hk2] at this; exact this
    have hr2 : alookup fid g2.rounds = some r := by rw [sf2 hns]; exact hr
    have hy : (slSeal p.maxNonce h force ⟨alookup fid g.rounds, n⟩).round = some r := by
      rw [← hsl]; exact hr2
    rcases hinv with ⟨_, hnone, _⟩ | ⟨hsb, hri⟩
    · simp only at hnone; rw [hnone] at hr; cases hr
    · have hmid := seal_gives_mid f p.maxNonce n0 b force _ hsb (by omega) hri
      rw [← hh] at hmid
      obtain ⟨r', hr', ho'⟩ := prepare_keeps_open f p.maxNonce n0 b _ r hiv hsb hmid hy hopen
      rw [← hh] at hr'
      refine ⟨r', ?_, ho'⟩
      have hps := prepareRound_sl p h fid f H g3 (n + cnt) hp3 (by omega)
      rw [hr3, hsl] at hps
      rw [← hr']
      have := congrArg Sl.round hps
      simpa using this
  · rw [hk2] at h2
    exact pf2 h2


theorem endTail_ent_aux (p : Params) (fid : Nat) (f : Feeder) (H : FeederHyp p fid f) (n0 b : Nat) (s : State) (g : Agc)
    (c : Cache) (updates : List (Nat × Int)) (force : Bool) (hg : g.params = some p)
    (hc : c.pUpdate = true → c.params = some p) (hmn : 1 ≤ p.maxNonce) (hiv : p.maxNonce < f.interval)
    (hh : s.height = b + 1)
    (hinv : FeederInv f p.maxNonce n0 b ⟨alookup fid g.rounds, (s.store.token f.tokenID).nextRoundID⟩)
    (hn : (akeys s.store.nonces).Nodup)
    (hent : ∀ k ∈ akeys s.store.nonces, k.2 = fid → ∃ r, alookup fid g.rounds = some r ∧ r.status = .open)
    (hkv : ∀ k ∈ akeys (dropLeavers s.store updates).nonces, k.1 ∈ akeys g.vals)
    (hwn : (akeys g.workers).Nodup)
    (sr : Agc × List Nat × List Nat) (hsr : g.sealRound p s.height force = sr)
    (ec : Store × Agc × Cache)
    (hec : endCommit (endStore1 s.store updates sr.2.2 sr.2.1 (sr.1.vals.map (·.1)) p.maxSizePrices) sr.1 c p s.height = ec) :
    (∀ k ∈ akeys ((ec.2.1.prepareRound s.height).2.foldl
        (fun st fid => st.addZeroNonces fid ((ec.2.1.prepareRound s.height).1.vals.map (·.1))) ec.1).nonces,
      k.2 = fid → ∃ r, alookup fid (ec.2.1.prepareRound s.height).1.rounds = some r ∧ r.status = .open) ∧
    (akeys (ec.2.1.prepareRound s.height).1.workers).Nodup := by
  have hsl := sealRound_sl p s.height force fid f H g (s.store.token f.tokenID).nextRoundID
  obtain ⟨sf1, sf2, _⟩ := sealRound_feeder g p s.height force fid hwn
  have hv := sealRound_vals g p s.height force
  have hpp := sealRound_params g p s.height force
  rw [hsr] at hsl sf1 sf2 hv hpp
  have hfr := endCommit_frame (endStore1 s.store updates sr.2.2 sr.2.1 (sr.1.vals.map (·.1)) p.maxSizePrices) sr.1 c p s.height
  rw [hec] at hfr
  have hpar : ec.2.1.params = some p := by
    rcases hfr.2.2.2.2.2.2.2.2 with h | ⟨h1, h2⟩
    · rw [h, hpp]; exact hg
    · rw [h2]; exact hc h1
  have hnd3 : (akeys ec.2.1.workers).Nodup := by rw [hfr.2.2.2.2.1]; exact sf1
  have hst3 : ec.1.nonces = (sr.2.2.foldl (fun st fid => st.removeNonces fid (sr.1.vals.map (·.1))) (dropLeavers s.store updates)).nonces := by
    rw [hfr.2.1, endStore1_eq, growFold_nonces]
  refine ⟨?_, (prepareRound_feeder ec.2.1 p s.height fid f hpar H.feeder H.fidPos (by omega) hnd3).1⟩
  exact ent_core p fid f H n0 b s.height hh hmn hiv g sr.1 ec.2.1 sr.2.2 (dropLeavers s.store updates) ec.1
    (s.store.token f.tokenID).nextRoundID (sr.2.1.count f.tokenID) force hsl sf2 hv hst3 hfr.2.2.2.1 hpar hnd3 hinv
    (fun k hk hk2 => ⟨hent k ((dropLeavers_keys updates s.store).1.subset hk) hk2, hkv k hk⟩)
    (hn.sublist (dropLeavers_keys updates s.store).1)

theorem endTail_ent (p : Params) (fid : Nat) (f : Feeder) (H : FeederHyp p fid f) (n0 b : Nat) (s : State) (g : Agc)
    (c : Cache) (updates : List (Nat × Int)) (force : Bool) (hg : g.params = some p)
    (hc : c.pUpdate = true → c.params = some p) (hmn : 1 ≤ p.maxNonce) (hiv : p.maxNonce < f.interval)
    (hh : s.height = b + 1)
    (hinv : FeederInv f p.maxNonce n0 b ⟨alookup fid g.rounds, (s.store.token f.tokenID).nextRoundID⟩)
    (hn : (akeys s.store.nonces).Nodup)
    (hent : ∀ k ∈ akeys s.store.nonces, k.2 = fid → ∃ r, alookup fid g.rounds = some r ∧ r.status = .open)
    (hkv : ∀ k ∈ akeys (dropLeavers s.store updates).nonces, k.1 ∈ akeys g.vals)
    (hwn : (akeys g.workers).Nodup) :
    EntOK fid f.tokenID (endTail s g c updates force p) ∧ WNodup (endTail s g c updates force p) := by
  obtain ⟨h1, h2⟩ := endTail_ent_aux p fid f H n0 b s g c updates force hg hc hmn hiv hh hinv hn hent hkv hwn _ rfl _ rfl
  constructor
  · intro k hk hk2
    exact h1 k hk hk2
  · intro g' hg'
    have e : (endTail s g c updates force p).agc = some ((endCommit (endStore1 s.store updates (g.sealRound p s.height force).2.2 (g.sealRound p s.height force).2.1
      ((g.sealRound p s.height force).1.vals.map (·.1)) p.maxSizePrices) (g.sealRound p s.height force).1 c p s.height).2.1.prepareRound s.height).1 := rfl
    rw [e] at hg'
    simp only [Option.some.injEq] at hg'
    rw [← hg']; exact h2


/-- the extended invariant of the observed feeder: rounds/counter (`MInv`), nonce table (`NonceOK`),
entries only while the round is open (`EntOK`), duplicate-free worker table -/
structure EInv (p : Params) (fid : Nat) (f : Feeder) (n0 b : Nat) (s : State) : Prop where
  m : MInv p fid f n0 b s
  ok : NonceOK p s
  ent : EntOK fid f.tokenID s
  wn : WNodup s

theorem runTxs_einv (p : Params) (fid : Nat) (f : Feeder) (H : FeederHyp p fid f) (n0 b : Nat) (txs : List Tx) (s : State)
    (h : EInv p fid f n0 b s) (hnl : NoLateFailL (runTxs s txs).2) : EInv p fid f n0 b (runTxs s txs).1 := by
  have h1 := runTxs_minv p fid f H n0 b txs s h.m hnl
  have h2 := h.ok.step (runTxs_nstep p txs s h.m.pf)
  have h3 := runTxs_ent p fid f H txs s h.m.pf h.m.wf h.ok h.ent h.wn hnl
  exact ⟨h1, h2, h3.1, h3.2⟩

theorem endBlock_einv (p : Params) (fid : Nat) (f : Feeder) (H : FeederHyp p fid f) (n0 b : Nat)
    (hmn : 1 ≤ p.maxNonce) (hiv : p.maxNonce < f.interval) (s s' : State) (updates : List (Nat × Int))
    (h : EInv p fid f n0 b s) (hh : s.height = b + 1) (he : endBlock s updates = some s') :
    EInv p fid f n0 (b + 1) s' ∧ s'.height = b + 1 := by
  obtain ⟨g, hg, hp⟩ := h.m.pf.agc
  -- rounds / counter / PF / TokWf
  obtain ⟨s1, he1, hs, hpf', hh', _⟩ := endBlock_pf p s updates h.m.pf
  rw [he] at he1
  simp only [Option.some.injEq] at he1
  subst he1
  obtain ⟨s2, he2, hsl⟩ := endBlock_sl p fid f H s updates h.m.pf h.m.wf (by omega)
  rw [he] at he2
  simp only [Option.some.injEq] at he2
  subst he2
  have hm' : MInv p fid f n0 (b + 1) s' := by
    refine ⟨hpf', (hs f.tokenID).wf h.m.wf, ?_⟩
    rw [hsl, hh]
    exact h.m.inv.block hmn hiv _
  have hok' := endBlock_nonceOK p s s' updates h.m.pf h.ok he
  -- entries / workers
  have hf := endVals_frame g s.cacheD updates
  have hvv := endVals_vals g s.cacheD updates
  have he' := he
  rw [endBlock_eq s updates g hg, hf.1, hp] at he'
  simp only [Option.some.injEq] at he'
  have hinv0 := h.m.inv
  simp only [slOf, hg] at hinv0
  have hE := endTail_ent p fid f H n0 b { s with cache := some s.cacheD, dogfood := endDog s.dogfood updates }
    (endVals g s.cacheD updates).1 (endVals g s.cacheD updates).2.1 updates (endVals g s.cacheD updates).2.2
    (by rw [hf.1]; exact hp) (by rw [hf.2.2.2.1, hf.2.2.2.2.1]; exact h.m.pf.cacheD) hmn hiv hh
    (by rw [hf.2.1]; exact hinv0) h.ok.nodup
    (by
      intro k hk hk2
      have := h.ent k hk hk2
      simp only [slOf, hg] at this
      rw [hf.2.1]; exact this)
    (by
      intro k hk
      obtain ⟨d1, d2⟩ := dropLeavers_keys updates s.store
      have hk0 := h.ok.cur g hg k (d1.subset hk)
      by_cases hu : updates.length > 0
      · rw [(hvv.1 hu).1]
        apply cacheAddVals_keeps k.1 updates (fun kv hkv h0 => d2 k hk kv hkv h0)
        rw [← h.ok.sync g hg]; exact hk0.1
      · rw [(hvv.2 hu).1]; exact hk0.1)
    (by rw [hf.2.2.1]; exact h.wn g hg)
  rw [he'] at hE
  exact ⟨⟨hm', hok', hE.1, hE.2⟩, by rw [hh', hh]⟩

/-- the extended invariant at a block boundary -/
def EHInv (p : Params) (fid : Nat) (f : Feeder) (n0 : Nat) (s : State) : Prop := EInv p fid f n0 s.height s

theorem runBlock_einv (p : Params) (fid : Nat) (f : Feeder) (H : FeederHyp p fid f) (n0 : Nat)
    (hmn : 1 ≤ p.maxNonce) (hiv : p.maxNonce < f.interval) (s : State) (b : Block) (s' : State) (outs : List TxOut)
    (hr : runBlock s b = some (s', outs)) (hnl : NoLateFailL outs) (h : EHInv p fid f n0 s) : EHInv p fid f n0 s' := by
  unfold runBlock at hr
  have h0 : EInv p fid f n0 s.height (beginBlock s b.blockTime) :=
    ⟨⟨⟨h.m.pf.agc, h.m.pf.cache⟩, h.m.wf, h.m.inv⟩, ⟨h.ok.sync, h.ok.nodup, h.ok.cur⟩, h.ent, h.wn⟩
  have hT := runTxs_pf p b.txs _ h0.m.pf
  cases he : endBlock (runTxs (beginBlock s b.blockTime) b.txs).1 b.updates with
  | none => simp [he] at hr
  | some s1 =>
    simp only [he, Option.some.injEq, Prod.mk.injEq] at hr
    obtain ⟨e1, e2⟩ := hr
    subst e1
    rw [← e2] at hnl
    have hM := runTxs_einv p fid f H n0 s.height b.txs _ h0 hnl
    have hhT : (runTxs (beginBlock s b.blockTime) b.txs).1.height = s.height + 1 := by rw [hT.2.2.1]; rfl
    obtain ⟨hE, hh⟩ := endBlock_einv p fid f H n0 s.height hmn hiv _ _ b.updates hM hhT he
    unfold EHInv
    rw [hh]; exact hE

theorem runBlocks_einv (p : Params) (fid : Nat) (f : Feeder) (H : FeederHyp p fid f) (n0 : Nat)
    (hmn : 1 ≤ p.maxNonce) (hiv : p.maxNonce < f.interval) (bs : List Block) :
    ∀ (s s' : State) (outs : List (List TxOut)), runBlocks s bs = some (s', outs) → NoLateFail outs →
      EHInv p fid f n0 s → EHInv p fid f n0 s' := by
  induction bs with
  | nil =>
    intro s s' outs hr _ h
    simp only [runBlocks, Option.some.injEq, Prod.mk.injEq] at hr
    rw [← hr.1]; exact h
  | cons b bs ih =>
    intro s s' outs hr hnl h
    simp only [runBlocks] at hr
    cases hb : runBlock s b with
    | none => rw [hb] at hr; cases hr
    | some r1 =>
      obtain ⟨s1, o1⟩ := r1
      rw [hb] at hr
      simp only at hr
      cases hbs : runBlocks s1 bs with
      | none => rw [hbs] at hr; cases hr
      | some r2 =>
        obtain ⟨s2, o2⟩ := r2
        rw [hbs] at hr
        simp only [Option.some.injEq, Prod.mk.injEq] at hr
        obtain ⟨e1, e2⟩ := hr
        subst e1
        rw [← e2] at hnl
        have h1 := runBlock_einv p fid f H n0 hmn hiv s b s1 o1 hb (hnl o1 (by simp)) h
        exact ih s1 s2 o2 hbs (fun l hl => hnl l (by simp [hl])) h1


/-! ### (b) the feeder's collecting worker: only while the round is open, weighted with current powers -/

def totalOf (vals : List (Nat × Int)) : Int := vals.foldl (fun s kv => s + kv.2) 0

/-- the aggregator was created under the current total power and every report carries its
validator's current power -/
def ReportsCur (g : Agc) (a : Aggregator) : Prop :=
  a.total = g.total ∧ ∀ r ∈ a.reports, alookup r.validator g.vals = some r.power

structure WKInv (fid : Nat) (g : Agc) : Prop where
  total : g.total = totalOf g.vals
  live : ∀ w, alookup fid g.workers = some w → w.sealed = false →
    (∃ r, alookup fid g.rounds = some r ∧ r.status = .open) ∧ ∀ a, w.a = some a → ReportsCur g a

theorem fillPrice_total (g : Agc) (p : Params) (m : Msg) : (g.fillPrice p m).1.total = g.total := by
  unfold Agc.fillPrice
  simp only
  repeat' split
  all_goals rfl

theorem sealOne_total (p : Params) (h : Nat) (force : Bool) (g : Agc) (fid : Nat) :
    (sealOne p h force g fid).1.total = g.total := by
  unfold sealOne
  cases alookup fid g.rounds with
  | none => rfl
  | some r =>
    simp only
    by_cases h1 : r.status = Status.open
    · by_cases h2 : ((decide (((p.feeder? fid).getD default).endBlock > 0) && decide (h ≥ ((p.feeder? fid).getD default).endBlock)) || decide (h - r.basedBlock ≥ p.maxNonce) || force) = true
      · simp only [h1, h2, if_true]
        repeat' split
        all_goals rfl
      · simp only [h1, h2, if_true, Bool.false_eq_true, if_false]
        repeat' split
        all_goals rfl
    · simp only [h1, if_false]
      repeat' split
      all_goals rfl

theorem sealRound_total (g : Agc) (p : Params) (h : Nat) (force : Bool) :
    (g.sealRound p h force).1.total = g.total := by
  rw [sealRound_eq]
  generalize (g.rounds.map (·.1)) = l
  have key : ∀ (l : List Nat) (acc : Agc × List Nat × List Nat),
      (l.foldl (sealStep p h force) acc).1.total = acc.1.total := by
    intro l
    induction l with
    | nil => intro acc; rfl
    | cons fid t ih =>
      intro acc
      rw [List.foldl_cons, ih]
      exact sealOne_total p h force acc.1 fid
  exact key l (g, [], [])

theorem prepareOne_total (p : Params) (block : Nat) (g : Agc) (fid : Nat) (f : Feeder) :
    (prepareOne p block g fid f).1.total = g.total := by
  unfold prepareOne
  repeat' split
  all_goals rfl

theorem prepareLoop_total (p : Params) (block : Nat) (fs : List Feeder) : ∀ (g : Agc) (i : Nat) (acc : List Nat),
    (prepareLoop p block g i fs acc).1.total = g.total := by
  induction fs with
  | nil => intro g i acc; rfl
  | cons f fs ih =>
    intro g i acc
    unfold prepareLoop
    by_cases hi : i = 0
    · simp only [hi, if_true]; exact ih _ _ _
    · simp only [hi, if_false]
      rw [ih]
      exact prepareOne_total _ _ _ _ _

theorem prepareRound_total (g : Agc) (block : Nat) : (g.prepareRound block).1.total = g.total := by
  unfold Agc.prepareRound
  repeat' split
  · rfl
  · rfl
  · exact prepareLoop_total _ _ _ _ _ _

theorem mem_replaceReport (rep : Report) (l : List Report) (r : Report) (h : r ∈ replaceReport rep l) :
    r = rep ∨ r ∈ l := by
  induction l with
  | nil => simp [replaceReport] at h
  | cons x t ih =>
    unfold replaceReport at h
    by_cases hx : x.validator = rep.validator
    · simp only [hx, if_true, List.mem_cons] at h
      rcases h with h | h
      · exact Or.inl h
      · exact Or.inr (by simp [h])
    · simp only [hx, if_false, List.mem_cons] at h
      rcases h with h | h
      · exact Or.inr (by simp [h])
      · rcases ih h with h1 | h1
        · exact Or.inl h1
        · exact Or.inr (by simp [h1])

theorem Aggregator.fillPrice_cur (a : Aggregator) (srcs : List PSource) (v : Nat) (power : Int)
    (vals : List (Nat × Int)) (hv : alookup v vals = some power)
    (h : ∀ r ∈ a.reports, alookup r.validator vals = some r.power) :
    ∀ r ∈ (a.fillPrice srcs v power).reports, alookup r.validator vals = some r.power := by
  unfold Aggregator.fillPrice
  cases hf : a.reports.find? (fun r => decide (r.validator = v)) with
  | some r0 =>
    simp only
    have hfr := fillSlots_frame a.ds a.reports srcs r0
    have hm0 : r0 ∈ a.reports := List.mem_of_find?_eq_some hf
    intro r hr
    rcases mem_replaceReport _ _ r hr with e | e
    · rw [e, hfr.1, hfr.2.1]; exact h r0 hm0
    · exact h r e
  | none =>
    simp only
    have hfr := fillSlots_frame a.ds (a.reports ++ [{ validator := v, price := none, prices := [], power := power }]) srcs
      { validator := v, price := none, prices := [], power := power }
    intro r hr
    rcases mem_replaceReport _ _ r hr with e | e
    · rw [e, hfr.1, hfr.2.1]; exact hv
    · simp only [List.mem_append, List.mem_singleton] at e
      rcases e with e | e
      · exact h r e
      · rw [e]; exact hv

theorem Aggregator.confirmDS_cur (vals : List (Nat × Int)) (confs : List Confirmed) : ∀ (a : Aggregator),
    (∀ r ∈ a.reports, alookup r.validator vals = some r.power) →
    ∀ r ∈ (a.confirmDS confs).reports, alookup r.validator vals = some r.power := by
  induction confs with
  | nil => intro a h; exact h
  | cons c cs ih =>
    intro a h
    unfold Aggregator.confirmDS
    simp only
    split
    · apply ih
      intro r hr
      simp only [List.mem_map] at hr
      obtain ⟨r0, hr0, e⟩ := hr
      rw [← e, (confirmReport_frame c r0).1, (confirmReport_frame c r0).2]
      exact h r0 hr0
    · exact ih a h

theorem Worker.run_cur (w : Worker) (p : Params) (power : Int) (m : Msg) (g : Agc)
    (hv : alookup m.creator g.vals = some power)
    (h : ∀ a, w.a = some a → ReportsCur g a) : ∀ a2, (w.run p power m).1.a = some a2 → ReportsCur g a2 := by
  intro a2 h2
  unfold Worker.run at h2
  cases hf : w.f with
  | none => simp only [hf] at h2; exact h a2 h2
  | some f =>
    cases hc : w.c with
    | none => simp only [hf, hc] at h2; exact h a2 h2
    | some c =>
      cases ha : w.a with
      | none => simp only [hf, hc, ha] at h2; exact h a2 (by rw [ha]; exact h2)
      | some a =>
        simp only [hf, hc, ha] at h2
        have hok := h a ha
        split at h2
        · simp only [Option.some.injEq] at h2
          rw [← h2]
          have h1 := Aggregator.fillPrice_cur a (f.filtrate m).2.2 m.creator power g.vals hv hok.2
          have ht : (a.fillPrice (f.filtrate m).2.2 m.creator power).total = a.total := by
            unfold Aggregator.fillPrice
            cases a.reports.find? (fun r => decide (r.validator = m.creator)) with
            | some r0 => rfl
            | none => rfl
          split
          · refine ⟨?_, Aggregator.confirmDS_cur g.vals _ _ h1⟩
            have : ∀ (confs : List Confirmed) (x : Aggregator), (x.confirmDS confs).total = x.total := by
              intro confs
              induction confs with
              | nil => intro x; rfl
              | cons c cs ih =>
                intro x
                unfold Aggregator.confirmDS
                simp only
                split
                · rw [ih]
                · exact ih x
            rw [this, ht]; exact hok.1
          · exact ⟨by rw [ht]; exact hok.1, h1⟩
        · simp only [Option.some.injEq] at h2
          rw [← h2]; exact hok


theorem fillPrice_workers_other (g : Agc) (p : Params) (m : Msg) (fid : Nat) (hne : m.feederID ≠ fid) :
    alookup fid (g.fillPrice p m).1.workers = alookup fid g.workers := by
  have h1 : ∀ w, alookup fid (aset m.feederID w g.workers) = alookup fid g.workers :=
    fun w => alookup_aset_other _ _ _ _ (Ne.symm hne)
  have h2 : ∀ w w', alookup fid (aset m.feederID w' (aset m.feederID w g.workers)) = alookup fid g.workers :=
    fun w w' => by rw [alookup_aset_other _ _ _ _ (Ne.symm hne)]; exact h1 w
  unfold Agc.fillPrice
  simp only
  repeat' split
  all_goals first | exact h1 _ | exact h2 _ _

theorem Worker.run_sealed (w : Worker) (p : Params) (power : Int) (m : Msg) : (w.run p power m).1.sealed = w.sealed := by
  unfold Worker.run
  repeat' split
  all_goals rfl

theorem ReportsCur_congr (g g' : Agc) (a : Aggregator) (hv : g'.vals = g.vals) (ht : g'.total = g.total)
    (h : ReportsCur g a) : ReportsCur g' a := by
  unfold ReportsCur at h ⊢
  rw [hv, ht]; exact h

theorem Agc.fillPrice_wk (fid : Nat) (g : Agc) (p : Params) (m : Msg) (pw : Int)
    (hv : alookup m.creator g.vals = some pw) (r0 : Round) (hr0 : alookup m.feederID g.rounds = some r0)
    (ho : r0.status = .open) (h : WKInv fid g) : WKInv fid (g.fillPrice p m).1 := by
  have hvals := fillPrice_vals g p m
  have htot := fillPrice_total g p m
  refine ⟨by rw [htot, hvals]; exact h.total, ?_⟩
  intro w' hw' hs'
  by_cases hfid : m.feederID = fid
  · -- the message addresses the observed feeder
    have hpw : (alookup m.creator g.vals).getD 0 = pw := by rw [hv]; rfl
    have hw0 : ∀ a, ((alookup m.feederID g.workers).getD (newWorker p g m.feederID)).a = some a →
        ((alookup m.feederID g.workers).getD (newWorker p g m.feederID)).sealed = false → ReportsCur g a := by
      intro a ha hsl
      cases hl : alookup m.feederID g.workers with
      | some w =>
        rw [hl] at ha hsl
        simp only [Option.getD_some] at ha hsl
        rw [hfid] at hl
        exact (h.live w hl hsl).2 a ha
      | none =>
        rw [hl] at ha
        simp only [Option.getD_none, newWorker, Option.some.injEq] at ha
        rw [← ha]
        exact ⟨rfl, by intro r hr; simp at hr⟩
    have hrounds := fillPrice_rounds g p m r0 hr0
    rw [← hfid] at hw' ⊢
    unfold Agc.fillPrice at hw' hrounds ⊢
    simp only at hw' hrounds ⊢
    generalize (alookup m.feederID g.workers).getD (newWorker p g m.feederID) = w at hw0 hw' hrounds ⊢
    by_cases hs : w.sealed = true
    · simp only [hs, if_true] at hw'
      rw [alookup_aset_same] at hw'
      simp only [Option.some.injEq] at hw'
      rw [← hw', hs] at hs'; cases hs'
    · have hsf : w.sealed = false := by simpa using hs
      simp only [hsf, Bool.false_eq_true, if_false] at hw' hrounds ⊢
      have hrun := Worker.run_cur w p pw m g hv (fun a ha => hw0 a ha hsf)
      have hrs := Worker.run_sealed w p pw m
      rw [hpw] at hw' hrounds ⊢
      rcases hr : w.run p pw m with ⟨w1, filled⟩
      rw [hr] at hrun hrs hw' hrounds
      simp only at hrun hrs hw' hrounds ⊢
      by_cases hfl : filled.length > 0
      · simp only [hfl, if_true] at hw' hrounds ⊢
        cases ha : w1.a with
        | none =>
          rw [ha] at hw' hrounds
          simp only at hw' hrounds ⊢
          rw [alookup_aset_same] at hw'
          simp only [Option.some.injEq] at hw'
          subst hw'
          rcases hrounds with ⟨_, h2⟩ | ⟨it, h1, _⟩
          · exact ⟨⟨r0, hr0, ho⟩, fun a ha' => by rw [ha] at ha'; cases ha'⟩
          · cases h1
        | some a =>
          rw [ha] at hw' hrounds
          simp only at hw' hrounds ⊢
          cases hfin : (a.aggregate p.thA p.thB).final with
          | some fp =>
            rw [hfin] at hw'
            simp only at hw'
            rw [alookup_aset_same] at hw'
            simp only [Option.some.injEq] at hw'
            rw [← hw'] at hs'; cases hs'
          | none =>
            rw [hfin] at hw' hrounds
            simp only at hw' hrounds ⊢
            rw [alookup_aset_same] at hw'
            simp only [Option.some.injEq] at hw'
            subst hw'
            rcases hrounds with ⟨_, h2⟩ | ⟨it, h1, _⟩
            · refine ⟨⟨r0, hr0, ho⟩, ?_⟩
              intro a' ha'
              simp only [Option.some.injEq] at ha'
              have hca := hrun a ha
              rw [← ha']
              unfold Aggregator.aggregate at hfin ⊢
              split
              · exact hca
              · split
                · rename_i hc1 hc2
                  simp [hc1, hc2] at hfin
                · exact hca
            · cases h1
      · simp only [hfl, if_false] at hw' hrounds ⊢
        rw [alookup_aset_same] at hw'
        simp only [Option.some.injEq] at hw'
        subst hw'
        rcases hrounds with ⟨_, h2⟩ | ⟨it, h1, _⟩
        · exact ⟨⟨r0, hr0, ho⟩, fun a ha => hrun a ha⟩
        · cases h1
  · -- another feeder's message
    rw [fillPrice_workers_other g p m fid hfid] at hw'
    obtain ⟨⟨r, hr, hopen⟩, hcur⟩ := h.live w' hw' hs'
    refine ⟨⟨r, ?_, hopen⟩, fun a ha => ReportsCur_congr g _ a hvals htot (hcur a ha)⟩
    rcases fillPrice_rounds g p m r0 hr0 with ⟨_, h2⟩ | ⟨it, _, _, h3⟩
    · rw [h2]; exact hr
    · rw [h3, alookup_aset_other _ _ _ _ (Ne.symm hfid)]; exact hr


/-- the State-level form -/
def SWK (fid : Nat) (s : State) : Prop := ∀ g, s.agc = some g → WKInv fid g

theorem createPrice_wk (p : Params) (fid : Nat) (s : State) (m : Msg) (hpf : PF p s) (h : SWK fid s) :
    SWK fid (createPrice s m).1 := by
  obtain ⟨g, hg, hp⟩ := hpf.agc
  by_cases hts : checkTimestamp s.blockTime m = true
  · cases hc : g.checkMsg p m with
    | some e =>
      rw [createPrice_check_fail s m g p e hg hp hts hc]
      exact h
    | none =>
      rw [createPrice_fill s m g p hg hp hts hc]
      obtain ⟨hsan, r, hr, hopen, _⟩ := checkMsg_none g p m hc
      obtain ⟨hv, _, _⟩ := sanityCheck_none g p m hsan
      cases hpw : alookup m.creator g.vals with
      | none => rw [hpw] at hv; cases hv
      | some pw =>
        have hw := Agc.fillPrice_wk fid g p m pw hpw r hr hopen (h g hg)
        rcases hf : g.fillPrice p m with ⟨g', res⟩
        rw [hf] at hw
        cases res with
        | ignored => intro g2 hg2; cases hg2; exact hw
        | cached it => intro g2 hg2; cases hg2; exact hw
        | final it => intro g2 hg2; cases hg2; exact hw
  · have hts' : checkTimestamp s.blockTime m = false := by simpa using hts
    rw [createPrice_bad_ts s m hts']
    exact h

theorem runMsgs_wk (p : Params) (fid : Nat) (ms : List Msg) : ∀ (s : State) (i : Nat), PF p s → SWK fid s →
    SWK fid (runMsgs s i ms).1 := by
  induction ms with
  | nil => intro s i _ h; exact h
  | cons m ms ih =>
    intro s i hpf h
    have h1 := createPrice_wk p fid s m hpf h
    have h2 := createPrice_pf p s m hpf
    unfold runMsgs
    rcases hcp : createPrice s m with ⟨s', out⟩
    rw [hcp] at h1 h2
    cases out with
    | ok => exact ih s' (i + 1) h2.2.1 h1
    | err e => exact h1

theorem deliverTx_wk (p : Params) (fid : Nat) (s : State) (tx : Tx) (hpf : PF p s) (h : SWK fid s) :
    SWK fid (deliverTx s tx).1 := by
  unfold deliverTx
  cases ha : anteHandle s tx with
  | error why => exact h
  | ok st =>
    simp only
    have h0 : PF p { s with store := st } := ⟨hpf.agc, hpf.cache⟩
    have h1 := runMsgs_wk p fid tx.msgs { s with store := st } 0 h0 h
    rcases hr : runMsgs { s with store := st } 0 tx.msgs with ⟨s2, r⟩
    rw [hr] at h1
    cases r with
    | none => exact h1
    | some ie => exact h1

theorem runTxs_wk (p : Params) (fid : Nat) (txs : List Tx) : ∀ (s : State), PF p s → SWK fid s →
    SWK fid (runTxs s txs).1 := by
  induction txs with
  | nil => intro s _ h; exact h
  | cons tx txs ih =>
    intro s hpf h
    simp only [runTxs]
    exact ih _ (deliverTx_pf p s tx hpf).2.1 (deliverTx_wk p fid s tx hpf h)

/-- an open round that SealRound leaves alone is still open (possibly as the next round) after
PrepareRoundEndBlock -/
theorem open_after_prepare (p : Params) (fid : Nat) (f : Feeder) (H : FeederHyp p fid f) (n0 b h : Nat) (hh : h = b + 1)
    (hiv : p.maxNonce < f.interval) (g g2 g3 : Agc) (n cnt : Nat) (force : Bool) (r : Round)
    (hsl : (⟨alookup fid g2.rounds, n + cnt⟩ : Sl) = slSeal p.maxNonce h force ⟨alookup fid g.rounds, n⟩)
    (hr2 : alookup fid g2.rounds = some r) (hopen : r.status = .open)
    (hr3 : g3.rounds = g2.rounds) (hp3 : g3.params = some p)
    (hinv : FeederInv f p.maxNonce n0 b ⟨alookup fid g.rounds, n⟩) :
    ∃ r', alookup fid (g3.prepareRound h).1.rounds = some r' ∧ r'.status = .open := by
  have hy : (slSeal p.maxNonce h force ⟨alookup fid g.rounds, n⟩).round = some r := by
    rw [← hsl]; exact hr2
  rcases hinv with ⟨_, hnone, _⟩ | ⟨hsb, hri⟩
  · exfalso
    simp only at hnone
    have : slSeal p.maxNonce h force ⟨alookup fid g.rounds, n⟩ = ⟨alookup fid g.rounds, n⟩ := by
      simp [slSeal, hnone]
    rw [this] at hy
    simp only at hy
    rw [hnone] at hy; cases hy
  · have hmid := seal_gives_mid f p.maxNonce n0 b force _ hsb (by omega) hri
    rw [← hh] at hmid
    obtain ⟨r', hr', ho'⟩ := prepare_keeps_open f p.maxNonce n0 b _ r hiv hsb hmid hy hopen
    rw [← hh] at hr'
    refine ⟨r', ?_, ho'⟩
    have hps := prepareRound_sl p h fid f H g3 (n + cnt) hp3 (by omega)
    rw [hr3, hsl] at hps
    rw [← hr']
    have := congrArg Sl.round hps
    simpa using this

theorem endTail_wk_aux (p : Params) (fid : Nat) (f : Feeder) (H : FeederHyp p fid f) (n0 b : Nat) (s : State) (g : Agc)
    (c : Cache) (updates : List (Nat × Int)) (force : Bool) (hg : g.params = some p)
    (hc : c.pUpdate = true → c.params = some p) (hiv : p.maxNonce < f.interval)
    (hh : s.height = b + 1)
    (hinv : FeederInv f p.maxNonce n0 b ⟨alookup fid g.rounds, (s.store.token f.tokenID).nextRoundID⟩)
    (hwn : (akeys g.workers).Nodup) (ht : g.total = totalOf g.vals)
    (hl : ∀ w, alookup fid g.workers = some w → w.sealed = false →
      (∃ r, alookup fid g.rounds = some r ∧ r.status = .open) ∧ (force = false → ∀ a, w.a = some a → ReportsCur g a))
    (sr : Agc × List Nat × List Nat) (hsr : g.sealRound p s.height force = sr)
    (ec : Store × Agc × Cache)
    (hec : endCommit (endStore1 s.store updates sr.2.2 sr.2.1 (sr.1.vals.map (·.1)) p.maxSizePrices) sr.1 c p s.height = ec) :
    WKInv fid (ec.2.1.prepareRound s.height).1 := by
  have hsl := sealRound_sl p s.height force fid f H g (s.store.token f.tokenID).nextRoundID
  obtain ⟨sf1, _, sf3⟩ := sealRound_feeder g p s.height force fid hwn
  have hv := sealRound_vals g p s.height force
  have htt := sealRound_total g p s.height force
  have hpp := sealRound_params g p s.height force
  rw [hsr] at hsl sf1 sf3 hv htt hpp
  have hfr := endCommit_frame (endStore1 s.store updates sr.2.2 sr.2.1 (sr.1.vals.map (·.1)) p.maxSizePrices) sr.1 c p s.height
  rw [hec] at hfr
  have hpar : ec.2.1.params = some p := by
    rcases hfr.2.2.2.2.2.2.2.2 with h | ⟨h1, h2⟩
    · rw [h, hpp]; exact hg
    · rw [h2]; exact hc h1
  have hnd3 : (akeys ec.2.1.workers).Nodup := by rw [hfr.2.2.2.2.1]; exact sf1
  obtain ⟨_, _, pf3⟩ := prepareRound_feeder ec.2.1 p s.height fid f hpar H.feeder H.fidPos (by omega) hnd3
  have hv4 : (ec.2.1.prepareRound s.height).1.vals = g.vals := by
    rw [prepareRound_vals, hfr.2.2.2.2.2.1, hv]
  have ht4 : (ec.2.1.prepareRound s.height).1.total = g.total := by
    rw [prepareRound_total, hfr.2.2.2.2.2.2.1, htt]
  refine ⟨by rw [ht4, hv4]; exact ht, ?_⟩
  intro w hw hs
  obtain ⟨k1, _⟩ := pf3 w hw
  rw [hfr.2.2.2.2.1] at k1
  obtain ⟨j1, j2, _, j4⟩ := sf3 w k1
  obtain ⟨⟨r, hr, hopen⟩, hcur⟩ := hl w j1 hs
  have hforce := (j4 r hr hopen).2
  have hr2 : alookup fid sr.1.rounds = some r := by rw [j2]; exact hr
  refine ⟨?_, fun a ha => ReportsCur_congr g _ a hv4 ht4 (hcur hforce a ha)⟩
  exact open_after_prepare p fid f H n0 b s.height hh hiv g sr.1 ec.2.1 _ (sr.2.1.count f.tokenID) force r hsl hr2 hopen
    hfr.2.2.2.1 hpar hinv

theorem endVals_total (g : Agc) (c : Cache) (updates : List (Nat × Int)) (h : updates.length > 0) :
    (endVals g c updates).1.total = totalOf (endVals g c updates).1.vals := by
  unfold endVals
  simp [h, Agc.setValidators, totalOf]

theorem endBlock_wk (p : Params) (fid : Nat) (f : Feeder) (H : FeederHyp p fid f) (n0 b : Nat)
    (hiv : p.maxNonce < f.interval) (s s' : State) (updates : List (Nat × Int))
    (h : EInv p fid f n0 b s) (hk : SWK fid s) (hh : s.height = b + 1) (he : endBlock s updates = some s') :
    SWK fid s' := by
  obtain ⟨g, hg, hp⟩ := h.m.pf.agc
  have hf := endVals_frame g s.cacheD updates
  have hvv := endVals_vals g s.cacheD updates
  have hfo := endVals_force g s.cacheD updates
  rw [endBlock_eq s updates g hg, hf.1, hp] at he
  simp only [Option.some.injEq] at he
  have hinv0 := h.m.inv
  simp only [slOf, hg] at hinv0
  have hw := hk g hg
  have hA := endTail_wk_aux p fid f H n0 b { s with cache := some s.cacheD, dogfood := endDog s.dogfood updates }
    (endVals g s.cacheD updates).1 (endVals g s.cacheD updates).2.1 updates (endVals g s.cacheD updates).2.2
    (by rw [hf.1]; exact hp) (by rw [hf.2.2.2.1, hf.2.2.2.2.1]; exact h.m.pf.cacheD) hiv hh
    (by rw [hf.2.1]; exact hinv0)
    (by rw [hf.2.2.1]; exact h.wn g hg)
    (by
      by_cases hu : updates.length > 0
      · exact endVals_total g s.cacheD updates hu
      · rw [(hvv.2 hu).1]; exact hw.total)
    (by
      intro w hlw hsw
      rw [hf.2.2.1] at hlw
      obtain ⟨hro, hcur⟩ := hw.live w hlw hsw
      refine ⟨by rw [hf.2.1]; exact hro, ?_⟩
      intro hfalse a ha
      rw [hfo] at hfalse
      have hu : ¬ updates.length > 0 := by simpa using hfalse
      rw [(hvv.2 hu).1]; exact hcur a ha)
    _ rfl _ rfl
  intro g' hg'
  rw [← he] at hg'
  have e : (endTail { s with cache := some s.cacheD, dogfood := endDog s.dogfood updates }
      (endVals g s.cacheD updates).1 (endVals g s.cacheD updates).2.1 updates (endVals g s.cacheD updates).2.2 p).agc =
      some ((endCommit (endStore1 s.store updates
        ((endVals g s.cacheD updates).1.sealRound p s.height (endVals g s.cacheD updates).2.2).2.2
        ((endVals g s.cacheD updates).1.sealRound p s.height (endVals g s.cacheD updates).2.2).2.1
        (((endVals g s.cacheD updates).1.sealRound p s.height (endVals g s.cacheD updates).2.2).1.vals.map (·.1)) p.maxSizePrices)
        ((endVals g s.cacheD updates).1.sealRound p s.height (endVals g s.cacheD updates).2.2).1
        (endVals g s.cacheD updates).2.1 p s.height).2.1.prepareRound s.height).1 := rfl
  rw [e] at hg'
  simp only [Option.some.injEq] at hg'
  rw [← hg']; exact hA

/-- both extended invariants at a block boundary -/
def XHInv (p : Params) (fid : Nat) (f : Feeder) (n0 : Nat) (s : State) : Prop :=
  EHInv p fid f n0 s ∧ SWK fid s ∧ SWInv s

theorem runBlock_xinv (p : Params) (fid : Nat) (f : Feeder) (H : FeederHyp p fid f) (n0 : Nat)
    (hmn : 1 ≤ p.maxNonce) (hiv : p.maxNonce < f.interval) (s : State) (b : Block) (s' : State) (outs : List TxOut)
    (hr : runBlock s b = some (s', outs)) (hnl : NoLateFailL outs) (h : XHInv p fid f n0 s) : XHInv p fid f n0 s' := by
  obtain ⟨h1, h2, h3⟩ := h
  refine ⟨runBlock_einv p fid f H n0 hmn hiv s b s' outs hr hnl h1, ?_, runBlock_swinv p s s' b outs h1.m.pf h3 hr⟩
  unfold runBlock at hr
  have h0 : EInv p fid f n0 s.height (beginBlock s b.blockTime) :=
    ⟨⟨⟨h1.m.pf.agc, h1.m.pf.cache⟩, h1.m.wf, h1.m.inv⟩, ⟨h1.ok.sync, h1.ok.nodup, h1.ok.cur⟩, h1.ent, h1.wn⟩
  have hT := runTxs_pf p b.txs _ h0.m.pf
  cases he : endBlock (runTxs (beginBlock s b.blockTime) b.txs).1 b.updates with
  | none => simp [he] at hr
  | some s1 =>
    simp only [he, Option.some.injEq, Prod.mk.injEq] at hr
    obtain ⟨e1, e2⟩ := hr
    subst e1
    rw [← e2] at hnl
    have hM := runTxs_einv p fid f H n0 s.height b.txs _ h0 hnl
    have hK := runTxs_wk p fid b.txs (beginBlock s b.blockTime) h0.m.pf h2
    have hhT : (runTxs (beginBlock s b.blockTime) b.txs).1.height = s.height + 1 := by rw [hT.2.2.1]; rfl
    exact endBlock_wk p fid f H n0 s.height hiv _ _ b.updates hM hK hhT he

theorem runBlocks_xinv (p : Params) (fid : Nat) (f : Feeder) (H : FeederHyp p fid f) (n0 : Nat)
    (hmn : 1 ≤ p.maxNonce) (hiv : p.maxNonce < f.interval) (bs : List Block) :
    ∀ (s s' : State) (outs : List (List TxOut)), runBlocks s bs = some (s', outs) → NoLateFail outs →
      XHInv p fid f n0 s → XHInv p fid f n0 s' := by
  induction bs with
  | nil =>
    intro s s' outs hr _ h
    simp only [runBlocks, Option.some.injEq, Prod.mk.injEq] at hr
    rw [← hr.1]; exact h
  | cons b bs ih =>
    intro s s' outs hr hnl h
    simp only [runBlocks] at hr
    cases hb : runBlock s b with
    | none => rw [hb] at hr; cases hr
    | some r1 =>
      obtain ⟨s1, o1⟩ := r1
      rw [hb] at hr
      simp only at hr
      cases hbs : runBlocks s1 bs with
      | none => rw [hbs] at hr; cases hr
      | some r2 =>
        obtain ⟨s2, o2⟩ := r2
        rw [hbs] at hr
        simp only [Option.some.injEq, Prod.mk.injEq] at hr
        obtain ⟨e1, e2⟩ := hr
        subst e1
        rw [← e2] at hnl
        have h1 := runBlock_xinv p fid f H n0 hmn hiv s b s1 o1 hb (hnl o1 (by simp)) h
        exact ih s1 s2 o2 hbs (fun l hl => hnl l (by simp [hl])) h1


/-- a message that finalizes the observed feeder's round: the aggregator it finalizes was created
under the current total power and weighs every reporting validator with its current power -/
theorem fillPrice_final_cur (fid : Nat) (g : Agc) (p : Params) (m : Msg) (g' : Agc) (it : FinalItem)
    (hfid : m.feederID = fid) (hw : WInv g) (hk : WKInv fid g) (hc : g.checkMsg p m = none)
    (hf : g.fillPrice p m = (g', .final it)) :
    ∃ a, AggOK a ∧ it.price = median (a.reports.map Report.aggregate) ∧
      exceedsThreshold (sumPower a.reports) (totalOf g.vals) p.thA p.thB = true ∧ a.ds ≠ [] ∧
      ∀ r ∈ a.reports, alookup r.validator g.vals = some r.power := by
  obtain ⟨a, ha, hok, h1, h2, h3⟩ := Agc.fillPrice_final_ok g p m g' it hw hf
  obtain ⟨hsan, _⟩ := checkMsg_none g p m hc
  obtain ⟨hv, _, _⟩ := sanityCheck_none g p m hsan
  cases hpw : alookup m.creator g.vals with
  | none => rw [hpw] at hv; cases hv
  | some pw =>
    have hni : (g.fillPrice p m).2 ≠ .ignored := by rw [hf]; intro h'; cases h'
    obtain ⟨hsl, _⟩ := fillPrice_not_ignored g p m hni
    have hw0 : ∀ a0, ((alookup m.feederID g.workers).getD (newWorker p g m.feederID)).a = some a0 → ReportsCur g a0 := by
      intro a0 ha0
      cases hl : alookup m.feederID g.workers with
      | some w =>
        rw [hl] at ha0 hsl
        simp only [Option.getD_some] at ha0 hsl
        rw [hfid] at hl
        exact (hk.live w hl hsl).2 a0 ha0
      | none =>
        rw [hl] at ha0
        simp only [Option.getD_none, newWorker, Option.some.injEq] at ha0
        rw [← ha0]
        exact ⟨rfl, by intro r hr; simp at hr⟩
    have hpw' : (alookup m.creator g.vals).getD 0 = pw := by rw [hpw]; rfl
    rw [hpw'] at ha
    have hcur := Worker.run_cur _ p pw m g hpw hw0 a ha
    refine ⟨a, hok, h1, ?_, h3, hcur.2⟩
    rw [← hk.total, ← hcur.1]; exact h2

end ExoVerif.Oracle
