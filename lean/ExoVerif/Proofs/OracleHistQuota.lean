import ExoVerif.Proofs.OracleHist
/-!
Part 4 of the history-level development (C13): the nonce entries as a *remaining quota* that only
shrinks between two openings of the feeder's round, along the State-level run. Core Lean only.
-/
namespace ExoVerif.Oracle

/-- sender and feeder of a create-price message: the key of its nonce entry (nonce.go) -/
def msgKey (m : Msg) : Nat × Nat := (m.creator, m.feederID)

/-- how many messages of a list carry the key `k` -/
def msgCount (k : Nat × Nat) : List Msg → Nat
  | [] => 0
  | m :: ms => (if msgKey m = k then 1 else 0) + msgCount k ms

/-- the remaining quota of key `k` = (validator, feeder): `MaxNonce − stored nonce` if there is an
entry, nothing otherwise (nonce.go: CheckAndIncreaseNonce refuses without an entry and past MaxNonce) -/
def quotaLeft (mn : Nat) (ns : List ((Nat × Nat) × Nat)) (k : Nat × Nat) : Nat :=
  match alookup k ns with
  | some c => mn - c
  | none => 0

theorem quotaLeft_le (mn : Nat) (ns : List ((Nat × Nat) × Nat)) (k : Nat × Nat) : quotaLeft mn ns k ≤ mn := by
  unfold quotaLeft; split <;> omega

/-! ### association-list facts -/

theorem alookup_filter_key {κ α} [DecidableEq κ] (p : κ → Bool) (k : κ) (l : List (κ × α)) :
    alookup k (l.filter (fun kv => p kv.1)) = if p k then alookup k l else none := by
  induction l with
  | nil => simp [alookup]
  | cons hd t ih =>
    obtain ⟨k', v'⟩ := hd
    by_cases hp : p k' = true
    · simp only [List.filter_cons, hp, if_true, alookup]
      by_cases hk : k' = k
      · subst hk; simp [hp]
      · simp only [hk, if_false]; exact ih
    · have hp' : p k' = false := by simpa using hp
      simp only [List.filter_cons, hp', Bool.false_eq_true, if_false, alookup]
      by_cases hk : k' = k
      · subst hk; simp [hp', ih]
      · simp only [hk, if_false]; exact ih

theorem alookup_append_other {κ α} [DecidableEq κ] (k k2 : κ) (v : α) (l : List (κ × α)) (h : k2 ≠ k) :
    alookup k (l ++ [(k2, v)]) = alookup k l := by
  induction l with
  | nil => simp [alookup, h]
  | cons hd t ih =>
    obtain ⟨k', v'⟩ := hd
    by_cases hk : k' = k
    · simp [alookup, hk]
    · simp only [List.cons_append, alookup, hk, if_false]; exact ih

theorem quotaLeft_filter_le (mn : Nat) (p : (Nat × Nat) → Bool) (ns : List ((Nat × Nat) × Nat)) (k : Nat × Nat) :
    quotaLeft mn (ns.filter (fun kv => p kv.1)) k ≤ quotaLeft mn ns k := by
  unfold quotaLeft
  rw [alookup_filter_key]
  by_cases hp : p k = true
  · simp [hp]
  · simp [hp]

/-! ### the ante handler spends quota: one unit per admitted message -/

theorem checkNonce_quota (st st' : Store) (mn v f : Nat) (n : Int) (h : st.checkNonce mn v f n = some st')
    (k : Nat × Nat) :
    quotaLeft mn st'.nonces k + (if (v, f) = k then 1 else 0) = quotaLeft mn st.nonces k := by
  obtain ⟨cur, h1, _, h3, h4⟩ := checkNonce_some st st' mn v f n h
  rw [h4]
  unfold quotaLeft
  simp only
  rw [alookup_aset]
  by_cases hk : k = (v, f)
  · subst hk
    simp only [if_true, h1]
    omega
  · have hk' : ¬ (v, f) = k := fun e => hk e.symm
    simp [hk, hk']

theorem anteNonces_quota (mn : Nat) (ms : List Msg) : ∀ (st st' : Store), anteNonces mn st ms = some st' →
    ∀ k, quotaLeft mn st'.nonces k + msgCount k ms = quotaLeft mn st.nonces k := by
  induction ms with
  | nil =>
    intro st st' h k
    simp only [anteNonces, Option.some.injEq] at h
    rw [← h]; simp [msgCount]
  | cons m ms ih =>
    intro st st' h k
    simp only [anteNonces] at h
    cases hc : st.checkNonce mn m.creator m.feederID m.nonce with
    | none => rw [hc] at h; simp at h
    | some st1 =>
      rw [hc] at h
      have h1 := checkNonce_quota st st1 mn _ _ _ hc k
      have h2 := ih st1 st' h k
      simp only [msgCount, msgKey]
      by_cases hk : (m.creator, m.feederID) = k
      · simp only [hk, if_true] at h1 ⊢; omega
      · simp only [hk, if_false] at h1 ⊢; omega

/-! ### CreatePrice never adds quota -/

theorem createPrice_quota (mn : Nat) (p : Params) (s : State) (m : Msg) (hpf : PF p s) (k : Nat × Nat) :
    quotaLeft mn (createPrice s m).1.store.nonces k ≤ quotaLeft mn s.store.nonces k ∧
    (createPrice s m).1.store.params = s.store.params := by
  obtain ⟨g, hg, hp⟩ := hpf.agc
  by_cases hts : checkTimestamp s.blockTime m = true
  · cases hc : g.checkMsg p m with
    | some e =>
      rw [createPrice_check_fail s m g p e hg hp hts hc]
      exact ⟨Nat.le_refl _, rfl⟩
    | none =>
      rw [createPrice_fill s m g p hg hp hts hc]
      rcases hf : g.fillPrice p m with ⟨g', res⟩
      cases res with
      | ignored => exact ⟨Nat.le_refl _, rfl⟩
      | cached it => exact ⟨Nat.le_refl _, rfl⟩
      | final it =>
        refine ⟨?_, rfl⟩
        exact quotaLeft_filter_le mn (fun key => !(key.2 = m.feederID && (g'.vals.map (·.1)).contains key.1)) _ k
  · have hts' : checkTimestamp s.blockTime m = false := by simpa using hts
    rw [createPrice_bad_ts s m hts']
    exact ⟨Nat.le_refl _, rfl⟩

theorem runMsgs_quota (mn : Nat) (p : Params) (k : Nat × Nat) (ms : List Msg) : ∀ (s : State) (i : Nat), PF p s →
    quotaLeft mn (runMsgs s i ms).1.store.nonces k ≤ quotaLeft mn s.store.nonces k ∧
    (runMsgs s i ms).1.store.params = s.store.params := by
  induction ms with
  | nil => intro s i _; exact ⟨Nat.le_refl _, rfl⟩
  | cons m ms ih =>
    intro s i hpf
    have h1 := createPrice_quota mn p s m hpf k
    have h2 := createPrice_pf p s m hpf
    unfold runMsgs
    rcases hcp : createPrice s m with ⟨s', out⟩
    rw [hcp] at h1 h2
    cases out with
    | ok =>
      have h3 := ih s' (i + 1) h2.2.1
      exact ⟨Nat.le_trans h3.1 h1.1, h3.2.trans h1.2⟩
    | err e => exact h1

/-- the messages a transaction gets admitted: all of them if it passes the ante chain, none otherwise -/
def admittedOf (k : Nat × Nat) (tx : Tx) (o : TxOut) : Nat :=
  match o with
  | .ante _ => 0
  | _ => msgCount k tx.msgs

/-- one transaction: what it gets admitted under key `k` is paid from `k`'s remaining quota -/
theorem deliverTx_quota (p : Params) (s : State) (tx : Tx) (hpf : PF p s) (k : Nat × Nat) :
    quotaLeft s.store.params.maxNonce (deliverTx s tx).1.store.nonces k + admittedOf k tx (deliverTx s tx).2 ≤
      quotaLeft s.store.params.maxNonce s.store.nonces k ∧
    (deliverTx s tx).1.store.params = s.store.params := by
  unfold deliverTx
  cases ha : anteHandle s tx with
  | error why => exact ⟨by simp [admittedOf], rfl⟩
  | ok st =>
    simp only
    have hq := anteNonces_quota _ _ _ _ (anteHandle_ok s tx st ha) k
    have hfr := anteHandle_frame s tx st ha
    have h0 : PF p { s with store := st } := ⟨hpf.agc, hpf.cache⟩
    have h1 := runMsgs_quota s.store.params.maxNonce p k tx.msgs { s with store := st } 0 h0
    rcases hr : runMsgs { s with store := st } 0 tx.msgs with ⟨s2, r⟩
    rw [hr] at h1
    cases r with
    | none =>
      simp only [admittedOf]
      exact ⟨by have := h1.1; simp only at this; omega, h1.2.trans hfr.2⟩
    | some ie =>
      simp only [admittedOf]
      exact ⟨by omega, hfr.2⟩

/-- the messages admitted under key `k` among the transactions of one block -/
def admittedTxs (k : Nat × Nat) : List Tx → List TxOut → Nat
  | tx :: txs, o :: os => admittedOf k tx o + admittedTxs k txs os
  | _, _ => 0

theorem runTxs_quota (p : Params) (k : Nat × Nat) (txs : List Tx) : ∀ (s : State), PF p s →
    quotaLeft s.store.params.maxNonce (runTxs s txs).1.store.nonces k + admittedTxs k txs (runTxs s txs).2 ≤
      quotaLeft s.store.params.maxNonce s.store.nonces k ∧
    (runTxs s txs).1.store.params = s.store.params := by
  induction txs with
  | nil => intro s _; exact ⟨by simp [runTxs, admittedTxs], rfl⟩
  | cons tx txs ih =>
    intro s hpf
    have h1 := deliverTx_quota p s tx hpf k
    have h2 := ih _ (deliverTx_pf p s tx hpf).2.1
    simp only [runTxs, admittedTxs]
    have h3 := h2.2.trans h1.2
    rw [h1.2] at h2
    exact ⟨by omega, h3⟩


/-! ### EndBlock refills quota only for the feeders whose round opens in that block -/

theorem dropLeavers_quota (mn : Nat) (k : Nat × Nat) (updates : List (Nat × Int)) : ∀ (st : Store),
    quotaLeft mn (dropLeavers st updates).nonces k ≤ quotaLeft mn st.nonces k := by
  induction updates with
  | nil => intro st; exact Nat.le_refl _
  | cons kv t ih =>
    intro st
    simp only [dropLeavers, List.foldl_cons]
    by_cases h : kv.2 = 0
    · simp only [h, if_true]
      refine Nat.le_trans (ih _) ?_
      exact quotaLeft_filter_le mn (fun key => !(key.1 = kv.1)) st.nonces k
    · simp only [h, if_false]
      exact ih st

theorem removeFold_quota (mn : Nat) (k : Nat × Nat) (vals : List Nat) (l : List Nat) : ∀ (st : Store),
    quotaLeft mn (l.foldl (fun st fid => st.removeNonces fid vals) st).nonces k ≤ quotaLeft mn st.nonces k := by
  induction l with
  | nil => intro st; exact Nat.le_refl _
  | cons a t ih =>
    intro st
    simp only [List.foldl_cons]
    refine Nat.le_trans (ih _) ?_
    exact quotaLeft_filter_le mn (fun key => !(key.2 = a && vals.contains key.1)) st.nonces k

theorem growFold_nonces (m : Nat) (l : List Nat) : ∀ (st : Store),
    (l.foldl (fun st tok => st.setToken tok ((st.token tok).grow m)) st).nonces = st.nonces := by
  induction l with
  | nil => intro st; rfl
  | cons a t ih => intro st; simp only [List.foldl_cons]; exact ih _

theorem addZeroNonces_other (st : Store) (fid : Nat) (vals : List Nat) (k : Nat × Nat) (h : fid ≠ k.2) :
    alookup k (st.addZeroNonces fid vals).nonces = alookup k st.nonces := by
  unfold Store.addZeroNonces
  simp only
  generalize st.nonces = ns
  induction vals generalizing ns with
  | nil => rfl
  | cons v t ih =>
    simp only [List.foldl_cons]
    rw [ih]
    split
    · rfl
    · apply alookup_append_other
      intro e
      apply h
      rw [← e]

theorem addZeroFold_other (vals : List Nat) (k : Nat × Nat) (l : List Nat) : ∀ (st : Store), k.2 ∉ l →
    alookup k (l.foldl (fun st fid => st.addZeroNonces fid vals) st).nonces = alookup k st.nonces := by
  induction l with
  | nil => intro st _; rfl
  | cons a t ih =>
    intro st h
    simp only [List.foldl_cons]
    rw [ih _ (fun hm => h (by simp [hm]))]
    exact addZeroNonces_other st a vals k (fun e => h (by simp [e]))

/-- feeder `fid` opens a round in EndBlock of block `h` (context.go: PrepareRoundEndBlock, `left == 0`) -/
def opensAt (p : Params) (fid h : Nat) : Prop :=
  ∃ f, p.feeder? fid = some f ∧ f.startBaseBlock ≤ h ∧ (h - f.startBaseBlock) % f.interval = 0

theorem prepareOne_opened (p : Params) (block : Nat) (g : Agc) (fid : Nat) (f : Feeder)
    (h : (prepareOne p block g fid f).2 = true) :
    f.startBaseBlock ≤ block ∧ (block - f.startBaseBlock) % f.interval = 0 := by
  unfold prepareOne at h
  split at h
  · cases h
  · rename_i hc
    simp only [Bool.or_eq_true, decide_eq_true_eq, not_or] at hc
    refine ⟨by omega, ?_⟩
    generalize hra : roundArith f block = ra at h
    obtain ⟨left, based, nrid⟩ := ra
    have hleft : left = (block - f.startBaseBlock) % f.interval := by
      have := congrArg (fun x => x.1) hra
      simp only [roundArith] at this
      exact this.symm
    rw [← hleft]
    simp only at h
    cases hr : alookup fid g.rounds with
    | none =>
      rw [hr] at h
      simp only at h
      by_cases hl : left ≥ p.maxNonce
      · rw [if_pos hl] at h; cases h
      · rw [if_neg hl] at h
        simpa using h
    | some r =>
      rw [hr] at h
      simp only at h
      by_cases hl0 : left = 0
      · exact hl0
      · rw [if_neg hl0] at h
        by_cases hc2 : (decide (r.status = Status.open) && decide (left ≥ p.maxNonce)) = true
        · rw [if_pos hc2] at h; cases h
        · rw [if_neg hc2] at h; cases h

theorem prepareLoop_opened (p : Params) (block fid : Nat) (fs : List Feeder) : ∀ (g : Agc) (i : Nat) (acc : List Nat),
    fid ∈ (prepareLoop p block g i fs acc).2 →
    fid ∈ acc ∨ (i ≤ fid ∧ ∃ f, fs[fid - i]? = some f ∧ f.startBaseBlock ≤ block ∧ (block - f.startBaseBlock) % f.interval = 0) := by
  induction fs with
  | nil => intro g i acc h; left; exact h
  | cons f' fs ih =>
    intro g i acc h
    unfold prepareLoop at h
    by_cases hi : i = 0
    · simp only [hi, if_true] at h
      rcases ih _ _ _ h with h1 | ⟨h1, f, h2, h3⟩
      · left; exact h1
      · right
        refine ⟨by omega, f, ?_, h3⟩
        have e : fid - i = (fid - (0 + 1)) + 1 := by omega
        rw [e, List.getElem?_cons_succ]; exact h2
    · simp only [hi, if_false] at h
      rcases ih _ _ _ h with h1 | ⟨h1, f, h2, h3⟩
      · by_cases ho : (prepareOne p block g i f').2 = true
        · simp only [ho, if_true, List.mem_append, List.mem_singleton] at h1
          rcases h1 with h1 | h1
          · left; exact h1
          · right
            subst h1
            exact ⟨Nat.le_refl _, f', by simp, prepareOne_opened p block g fid f' ho⟩
        · simp only [ho, Bool.false_eq_true, if_false] at h1
          left; exact h1
      · right
        refine ⟨by omega, f, ?_, h3⟩
        have e : fid - i = (fid - (i + 1)) + 1 := by omega
        rw [e, List.getElem?_cons_succ]; exact h2

theorem prepareRound_opened (g : Agc) (p : Params) (block fid : Nat) (hp : g.params = some p)
    (h : fid ∈ (g.prepareRound block).2) : opensAt p fid block := by
  unfold Agc.prepareRound at h
  split at h
  · simp at h
  · simp only [hp] at h
    rcases prepareLoop_opened p block fid p.feeders g 0 [] h with h1 | ⟨_, f, h2, h3⟩
    · simp at h1
    · exact ⟨f, by simpa [Params.feeder?] using h2, h3⟩

theorem endTail_quota (mn : Nat) (s : State) (g : Agc) (c : Cache) (updates : List (Nat × Int)) (force : Bool)
    (p : Params) (hg : g.params = some p) (hc : c.pUpdate = true → c.params = some p) (k : Nat × Nat)
    (hno : ¬ opensAt p k.2 s.height) :
    quotaLeft mn (endTail s g c updates force p).store.nonces k ≤ quotaLeft mn s.store.nonces k ∧
    (endTail s g c updates force p).store.params = s.store.params := by
  unfold endTail
  simp only
  generalize hsr : g.sealRound p s.height force = sr
  obtain ⟨g2, failed, sealed⟩ := sr
  simp only
  have hfr := endCommit_frame (endStore1 s.store updates sealed failed (g2.vals.map (·.1)) p.maxSizePrices) g2 c p s.height
  have hpar : (endCommit (endStore1 s.store updates sealed failed (g2.vals.map (·.1)) p.maxSizePrices) g2 c p s.height).2.1.params = some p := by
    rcases hfr.2.2.2.2.2.2.2.2 with h | ⟨h1, h2⟩
    · rw [h]
      have := sealRound_params g p s.height force
      rw [hsr] at this
      rw [this]; exact hg
    · rw [h2]; exact hc h1
  constructor
  · unfold quotaLeft
    rw [addZeroFold_other _ k _ _ (fun hm => hno (prepareRound_opened _ p _ _ hpar hm)), hfr.2.1, endStore1_eq,
      growFold_nonces]
    exact Nat.le_trans (removeFold_quota mn k _ _ _) (dropLeavers_quota mn k _ _)
  · rw [(addZeroFold_frame _ _ _).2, hfr.2.2.1, endStore1_params]

theorem endBlock_quota (mn : Nat) (p : Params) (s s' : State) (updates : List (Nat × Int)) (hpf : PF p s)
    (he : endBlock s updates = some s') (k : Nat × Nat) (hno : ¬ opensAt p k.2 s.height) :
    quotaLeft mn s'.store.nonces k ≤ quotaLeft mn s.store.nonces k ∧ s'.store.params = s.store.params := by
  obtain ⟨g, hg, hp⟩ := hpf.agc
  have hf := endVals_frame g s.cacheD updates
  rw [endBlock_eq s updates g hg, hf.1, hp] at he
  simp only [Option.some.injEq] at he
  rw [← he]
  exact endTail_quota mn { s with cache := some s.cacheD, dogfood := endDog s.dogfood updates } _ _ _ _ p
    (by rw [hf.1]; exact hp) (by rw [hf.2.2.2.1, hf.2.2.2.2.1]; exact hpf.cacheD) k hno

/-! ### whole histories -/

/-- the messages admitted under key `k` in a list of blocks -/
def admittedBlocks (k : Nat × Nat) : List Block → List (List TxOut) → Nat
  | b :: bs, o :: os => admittedTxs k b.txs o + admittedBlocks k bs os
  | _, _ => 0

theorem runBlock_quota (p : Params) (k : Nat × Nat) (s s' : State) (b : Block) (outs : List TxOut) (hpf : PF p s)
    (hr : runBlock s b = some (s', outs)) (hno : ¬ opensAt p k.2 (s.height + 1)) :
    quotaLeft s.store.params.maxNonce s'.store.nonces k + admittedTxs k b.txs outs ≤
      quotaLeft s.store.params.maxNonce s.store.nonces k ∧
    s'.store.params = s.store.params := by
  unfold runBlock at hr
  have h0 : PF p (beginBlock s b.blockTime) := ⟨hpf.agc, hpf.cache⟩
  have hT := runTxs_pf p b.txs _ h0
  have hq := runTxs_quota p k b.txs _ h0
  cases he : endBlock (runTxs (beginBlock s b.blockTime) b.txs).1 b.updates with
  | none => simp [he] at hr
  | some s1 =>
    simp only [he, Option.some.injEq, Prod.mk.injEq] at hr
    obtain ⟨e1, e2⟩ := hr
    subst e1
    rw [← e2]
    have hh : (runTxs (beginBlock s b.blockTime) b.txs).1.height = s.height + 1 := by rw [hT.2.2.1]; rfl
    have hE := endBlock_quota s.store.params.maxNonce p _ _ b.updates hT.2.1 he k (by rw [hh]; exact hno)
    have e0 : (beginBlock s b.blockTime).store = s.store := rfl
    rw [e0] at hq
    exact ⟨by omega, hE.2.trans hq.2⟩

/-- **the quota over a whole stretch of blocks.** As long as no EndBlock of the stretch opens a round
of the feeder, everything admitted under key `k` = (validator, feeder) in all its blocks together is
paid from the quota `k` had at the start (at most MaxNonce) -/
theorem runBlocks_quota (p : Params) (k : Nat × Nat) (bs : List Block) : ∀ (s s' : State) (outs : List (List TxOut)),
    PF p s → runBlocks s bs = some (s', outs) →
    (∀ h, s.height < h → h ≤ s.height + bs.length → ¬ opensAt p k.2 h) →
    quotaLeft s.store.params.maxNonce s'.store.nonces k + admittedBlocks k bs outs ≤
      quotaLeft s.store.params.maxNonce s.store.nonces k ∧
    s'.store.params = s.store.params := by
  induction bs with
  | nil =>
    intro s s' outs _ hr _
    simp only [runBlocks, Option.some.injEq, Prod.mk.injEq] at hr
    rw [← hr.1]; exact ⟨by simp [admittedBlocks], rfl⟩
  | cons b bs ih =>
    intro s s' outs hpf hr hno
    simp only [runBlocks] at hr
    cases hb : runBlock s b with
    | none => rw [hb] at hr; cases hr
    | some r1 =>
      obtain ⟨s1, o1⟩ := r1
      rw [hb] at hr
      simp only at hr
      cases hbs : runBlocks s1 bs with
      | none => rw [hbs] at hr; cases hr
      | some r2 =>
        obtain ⟨s2, o2⟩ := r2
        rw [hbs] at hr
        simp only [Option.some.injEq, Prod.mk.injEq] at hr
        obtain ⟨e1, e2⟩ := hr
        subst e1
        rw [← e2]
        obtain ⟨s1', o1', hb', _, hpf1, hh1⟩ := runBlock_pf p s b hpf
        rw [hb] at hb'
        simp only [Option.some.injEq, Prod.mk.injEq] at hb'
        obtain ⟨e3, _⟩ := hb'
        subst e3
        have h1 := runBlock_quota p k s s1 b o1 hpf hb (hno (s.height + 1) (by omega) (by simp only [List.length_cons]; omega))
        have h2 := ih s1 s2 o2 hpf1 hbs (fun h hl hu => hno h (by omega) (by simp only [List.length_cons]; omega))
        have h3 := h2.2.trans h1.2
        rw [h1.2] at h2
        simp only [admittedBlocks]
        exact ⟨by omega, h3⟩


/-! ### all senders together: the fee-less traffic of one block -/

/-- the total remaining quota of a nonce table -/
def phi (mn : Nat) : List ((Nat × Nat) × Nat) → Nat
  | [] => 0
  | kv :: t => (mn - kv.2) + phi mn t

theorem phi_le (mn : Nat) (ns : List ((Nat × Nat) × Nat)) : phi mn ns ≤ ns.length * mn := by
  induction ns with
  | nil => simp [phi]
  | cons kv t ih =>
    simp only [phi, List.length_cons, Nat.succ_mul]
    omega

theorem phi_aset (mn : Nat) (k : Nat × Nat) (c : Nat) (ns : List ((Nat × Nat) × Nat))
    (h : alookup k ns = some c) (hc : c + 1 ≤ mn) : phi mn (aset k (c + 1) ns) + 1 = phi mn ns := by
  induction ns with
  | nil => simp [alookup] at h
  | cons hd t ih =>
    obtain ⟨k', c'⟩ := hd
    by_cases hk : k' = k
    · simp only [alookup, hk, if_true, Option.some.injEq] at h
      subst h
      simp only [aset, hk, if_true, phi]
      omega
    · simp only [alookup, hk, if_false] at h
      simp only [aset, hk, if_false, phi]
      have := ih h
      omega

theorem phi_filter_le (mn : Nat) (P : ((Nat × Nat) × Nat) → Bool) (ns : List ((Nat × Nat) × Nat)) :
    phi mn (ns.filter P) ≤ phi mn ns := by
  induction ns with
  | nil => simp [phi]
  | cons hd t ih =>
    by_cases hp : P hd = true
    · simp only [List.filter_cons, hp, if_true, phi]; omega
    · have hp' : P hd = false := by simpa using hp
      simp only [List.filter_cons, hp', Bool.false_eq_true, if_false, phi]; omega

theorem anteNonces_phi (mn : Nat) (ms : List Msg) : ∀ (st st' : Store), anteNonces mn st ms = some st' →
    phi mn st'.nonces + ms.length = phi mn st.nonces := by
  induction ms with
  | nil =>
    intro st st' h
    simp only [anteNonces, Option.some.injEq] at h
    rw [← h]; simp
  | cons m ms ih =>
    intro st st' h
    simp only [anteNonces] at h
    cases hc : st.checkNonce mn m.creator m.feederID m.nonce with
    | none => rw [hc] at h; simp at h
    | some st1 =>
      rw [hc] at h
      obtain ⟨cur, h1, _, h3, h4⟩ := checkNonce_some st st1 mn _ _ _ hc
      have h5 := phi_aset mn _ cur st.nonces h1 h3
      have h2 := ih st1 st' h
      rw [h4] at h2
      simp only at h2
      simp only [List.length_cons]
      omega

theorem createPrice_phi (mn : Nat) (p : Params) (s : State) (m : Msg) (hpf : PF p s) :
    phi mn (createPrice s m).1.store.nonces ≤ phi mn s.store.nonces := by
  obtain ⟨g, hg, hp⟩ := hpf.agc
  by_cases hts : checkTimestamp s.blockTime m = true
  · cases hc : g.checkMsg p m with
    | some e =>
      rw [createPrice_check_fail s m g p e hg hp hts hc]
      exact Nat.le_refl _
    | none =>
      rw [createPrice_fill s m g p hg hp hts hc]
      rcases hf : g.fillPrice p m with ⟨g', res⟩
      cases res with
      | ignored => exact Nat.le_refl _
      | cached it => exact Nat.le_refl _
      | final it => exact phi_filter_le mn _ _
  · have hts' : checkTimestamp s.blockTime m = false := by simpa using hts
    rw [createPrice_bad_ts s m hts']
    exact Nat.le_refl _

theorem runMsgs_phi (mn : Nat) (p : Params) (ms : List Msg) : ∀ (s : State) (i : Nat), PF p s →
    phi mn (runMsgs s i ms).1.store.nonces ≤ phi mn s.store.nonces := by
  induction ms with
  | nil => intro s i _; exact Nat.le_refl _
  | cons m ms ih =>
    intro s i hpf
    have h1 := createPrice_phi mn p s m hpf
    have h2 := createPrice_pf p s m hpf
    unfold runMsgs
    rcases hcp : createPrice s m with ⟨s', out⟩
    rw [hcp] at h1 h2
    cases out with
    | ok => exact Nat.le_trans (ih s' (i + 1) h2.2.1) h1
    | err e => exact h1

/-- the number of messages a transaction gets admitted, whoever sent them -/
def admittedLen (tx : Tx) (o : TxOut) : Nat :=
  match o with
  | .ante _ => 0
  | _ => tx.msgs.length

def admittedAll : List Tx → List TxOut → Nat
  | tx :: txs, o :: os => admittedLen tx o + admittedAll txs os
  | _, _ => 0

theorem deliverTx_phi (p : Params) (s : State) (tx : Tx) (hpf : PF p s) :
    phi s.store.params.maxNonce (deliverTx s tx).1.store.nonces + admittedLen tx (deliverTx s tx).2 ≤
      phi s.store.params.maxNonce s.store.nonces := by
  unfold deliverTx
  cases ha : anteHandle s tx with
  | error why => simp [admittedLen]
  | ok st =>
    simp only
    have hq := anteNonces_phi _ _ _ _ (anteHandle_ok s tx st ha)
    have h0 : PF p { s with store := st } := ⟨hpf.agc, hpf.cache⟩
    have h1 := runMsgs_phi s.store.params.maxNonce p tx.msgs { s with store := st } 0 h0
    rcases hr : runMsgs { s with store := st } 0 tx.msgs with ⟨s2, r⟩
    rw [hr] at h1
    cases r with
    | none => simp only [admittedLen]; simp only at h1; omega
    | some ie => simp only [admittedLen]; omega

theorem runTxs_phi (p : Params) (txs : List Tx) : ∀ (s : State), PF p s →
    phi s.store.params.maxNonce (runTxs s txs).1.store.nonces + admittedAll txs (runTxs s txs).2 ≤
      phi s.store.params.maxNonce s.store.nonces := by
  induction txs with
  | nil => intro s _; simp [runTxs, admittedAll]
  | cons tx txs ih =>
    intro s hpf
    have h1 := deliverTx_phi p s tx hpf
    have hp1 := (deliverTx_quota p s tx hpf (0, 0)).2
    have h2 := ih _ (deliverTx_pf p s tx hpf).2.1
    simp only [runTxs, admittedAll]
    rw [hp1] at h2
    omega


/-! ### the stored parameters never change along the run -/

theorem endTail_store_params (s : State) (g : Agc) (c : Cache) (updates : List (Nat × Int)) (force : Bool) (p : Params) :
    (endTail s g c updates force p).store.params = s.store.params := by
  unfold endTail
  simp only
  rw [(addZeroFold_frame _ _ _).2, (endCommit_frame _ _ _ _ _).2.2.1, endStore1_params]

theorem runBlock_store_params (p : Params) (s s' : State) (b : Block) (outs : List TxOut) (hpf : PF p s)
    (hr : runBlock s b = some (s', outs)) : s'.store.params = s.store.params := by
  unfold runBlock at hr
  have h0 : PF p (beginBlock s b.blockTime) := ⟨hpf.agc, hpf.cache⟩
  have hT := runTxs_pf p b.txs _ h0
  have hq := (runTxs_quota p (0, 0) b.txs _ h0).2
  obtain ⟨g, hg, hp⟩ := hT.2.1.agc
  cases he : endBlock (runTxs (beginBlock s b.blockTime) b.txs).1 b.updates with
  | none => simp [he] at hr
  | some s1 =>
    simp only [he, Option.some.injEq, Prod.mk.injEq] at hr
    rw [← hr.1]
    have hf := endVals_frame g (runTxs (beginBlock s b.blockTime) b.txs).1.cacheD b.updates
    rw [endBlock_eq _ b.updates g hg, hf.1, hp] at he
    simp only [Option.some.injEq] at he
    rw [← he, endTail_store_params]
    exact hq

theorem runBlocks_store_params (p : Params) (bs : List Block) : ∀ (s s' : State) (outs : List (List TxOut)),
    PF p s → runBlocks s bs = some (s', outs) → s'.store.params = s.store.params := by
  induction bs with
  | nil =>
    intro s s' outs _ hr
    simp only [runBlocks, Option.some.injEq, Prod.mk.injEq] at hr
    rw [← hr.1]
  | cons b bs ih =>
    intro s s' outs hpf hr
    simp only [runBlocks] at hr
    cases hb : runBlock s b with
    | none => rw [hb] at hr; cases hr
    | some r1 =>
      obtain ⟨s1, o1⟩ := r1
      rw [hb] at hr
      simp only at hr
      cases hbs : runBlocks s1 bs with
      | none => rw [hbs] at hr; cases hr
      | some r2 =>
        obtain ⟨s2, o2⟩ := r2
        rw [hbs] at hr
        simp only [Option.some.injEq, Prod.mk.injEq] at hr
        rw [← hr.1]
        obtain ⟨s1', o1', hb', _, hpf1, _⟩ := runBlock_pf p s b hpf
        rw [hb] at hb'
        simp only [Option.some.injEq, Prod.mk.injEq] at hb'
        rw [← hb'.1] at hpf1
        exact (ih s1 s2 o2 hpf1 hbs).trans (runBlock_store_params p s s1 b o1 hpf hb)

end ExoVerif.Oracle
