import ExoVerif.Proofs.OracleHist
/-!
Part 3 of the history-level development (C12): one feeder's in-memory round entry and the stored
NextRoundID of its token along the State-level run `runBlocks`. Core Lean only.
-/
namespace ExoVerif.Oracle

/-- the slice (Proofs/Oracle.lean: `Sl`) of feeder `fid` / token `tok` in an application state -/
def slOf (fid tok : Nat) (s : State) : Sl :=
  { round := match s.agc with
      | some g => alookup fid g.rounds
      | none => none,
    next := (s.store.token tok).nextRoundID }

/-- what is assumed of the feeder under observation: it exists under id `fid ≥ 1` with parameters
`f`, has no end block, and no other feeder id maps to its token -/
structure FeederHyp (p : Params) (fid : Nat) (f : Feeder) : Prop where
  feeder : p.feeder? fid = some f
  noEnd : f.endBlock = 0
  fidPos : fid ≠ 0
  alone : ∀ fid', fid' ≠ fid → ((p.feeder? fid').getD default).tokenID ≠ f.tokenID

/-! ### FillPrice and the round entries -/

theorem fillPrice_rounds (g : Agc) (p : Params) (m : Msg) (r : Round) (hr : alookup m.feederID g.rounds = some r) :
    ((∀ it, (g.fillPrice p m).2 ≠ .final it) ∧ (g.fillPrice p m).1.rounds = g.rounds) ∨
    (∃ it, (g.fillPrice p m).2 = .final it ∧ it.tokenID = ((p.feeder? m.feederID).getD default).tokenID ∧
      (g.fillPrice p m).1.rounds = aset m.feederID { r with status := .closed } g.rounds) := by
  unfold Agc.fillPrice
  simp only [hr]
  repeat' split
  all_goals first
    | exact Or.inl ⟨(by intro it h; cases h), rfl⟩
    | exact Or.inr ⟨_, rfl, rfl, rfl⟩

theorem checkMsg_none (g : Agc) (p : Params) (m : Msg) (h : g.checkMsg p m = none) :
    g.sanityCheck p m = none ∧
    ∃ r, alookup m.feederID g.rounds = some r ∧ r.status = .open ∧ m.basedBlock = r.basedBlock ∧
      checkRules p m.feederID m.prices = true ∧
      (m.prices.any (fun s => s.prices.any (fun d => d.decimal ≠ p.tokenDecimal m.feederID))) = false := by
  unfold Agc.checkMsg at h
  cases hs : g.sanityCheck p m with
  | some e => rw [hs] at h; cases h
  | none =>
    rw [hs] at h
    simp only at h
    cases hr : alookup m.feederID g.rounds with
    | none => rw [hr] at h; cases h
    | some r =>
      rw [hr] at h
      simp only at h
      by_cases h1 : r.status ≠ .open
      · rw [if_pos h1] at h; cases h
      · rw [if_neg h1] at h
        by_cases h2 : m.basedBlock ≠ r.basedBlock
        · rw [if_pos h2] at h; cases h
        · rw [if_neg h2] at h
          by_cases h3 : (!(checkRules p m.feederID m.prices)) = true
          · rw [if_pos h3] at h; cases h
          · rw [if_neg h3] at h
            by_cases h4 : (m.prices.any (fun s => s.prices.any (fun d => d.decimal ≠ p.tokenDecimal m.feederID))) = true
            · rw [if_pos h4] at h; cases h
            · refine ⟨rfl, r, rfl, ?_, ?_, ?_, ?_⟩
              · simpa using h1
              · simpa using h2
              · simpa using h3
              · simpa using h4

/-! ### token counters -/

theorem grow_next (t : TokenStore) (m : Nat) (hw : TokWf t) : (t.grow m).nextRoundID = t.nextRoundID + 1 := by
  unfold TokenStore.grow
  cases hl : t.latest with
  | some q =>
    simp only
    apply append_nextRoundID_ok
    unfold TokenStore.latest at hl
    by_cases h1 : t.next ≤ 1
    · simp [h1] at hl
    · simp only [h1, if_false] at hl
      have := hw.own _ _ hl
      simp only [TokenStore.nextRoundID]
      have h0 : ¬ t.next = 0 := by omega
      simp only [h0, if_false]
      omega
  | none =>
    simp only
    exact append_nextRoundID_ok t m _ rfl

theorem finalTok_next (t : TokenStore) (m : Nat) (it : FinalItem) (hw : TokWf t) :
    (finalTok t m it).nextRoundID = t.nextRoundID + 1 := by
  unfold finalTok
  split
  · rename_i h
    exact append_nextRoundID_ok t m _ ((append_ok_iff t m _).mp h)
  · exact grow_next t m hw

theorem growFold_next (m tok : Nat) (failed : List Nat) : ∀ (st : Store), TokWf (st.token tok) →
    ((failed.foldl (fun st tok => st.setToken tok ((st.token tok).grow m)) st).token tok).nextRoundID =
      (st.token tok).nextRoundID + failed.count tok := by
  induction failed with
  | nil => intro st _; simp
  | cons x t ih =>
    intro st hw
    simp only [List.foldl_cons]
    by_cases hx : x = tok
    · subst hx
      have e : (st.setToken x ((st.token x).grow m)).token x = (st.token x).grow m := by
        rw [token_setToken]; simp
      rw [ih _ (by rw [e]; exact (TokSteps.grow m _).wf hw), e, grow_next _ _ hw]
      simp only [List.count_cons_self]; omega
    · have e : (st.setToken x ((st.token x).grow m)).token tok = st.token tok := by
        rw [token_setToken]; simp [Ne.symm hx]
      rw [ih _ (by rw [e]; exact hw), e]
      have : List.count tok (x :: t) = List.count tok t := by
        rw [List.count_cons]; simp [hx]
      rw [this]

/-! ### SealRound on the feeder's entry -/

theorem slSeal_idem (mn h : Nat) (force : Bool) (x : Sl) : slSeal mn h force (slSeal mn h force x) = slSeal mn h force x := by
  unfold slSeal
  cases hr : x.round with
  | none => simp [hr]
  | some r =>
    by_cases hc : (decide (r.status = Status.open) && (decide (h - r.basedBlock ≥ mn) || force)) = true
    · have : ¬ (Status.closed = Status.open) := by intro h'; cases h'
      simp [hc, this]
    · simp [hc, hr]

theorem sealOne_self (p : Params) (h : Nat) (force : Bool) (g : Agc) (fid : Nat) (f : Feeder) (n : Nat)
    (hf : p.feeder? fid = some f) (hend : f.endBlock = 0) :
    (⟨alookup fid (sealOne p h force g fid).1.rounds,
      n + (if (sealOne p h force g fid).2.1.isSome then 1 else 0)⟩ : Sl) =
      slSeal p.maxNonce h force ⟨alookup fid g.rounds, n⟩ ∧
    ((sealOne p h force g fid).2.1 = none ∨ (sealOne p h force g fid).2.1 = some f.tokenID) := by
  unfold sealOne slSeal
  cases hr : alookup fid g.rounds with
  | none => simp [hr]
  | some r =>
    simp only [hf, Option.getD_some, hend, Nat.lt_irrefl, decide_false, Bool.false_and, Bool.false_or]
    rcases status_cases r.status with hs | hs
    · by_cases hc : (decide (h - r.basedBlock ≥ p.maxNonce) || force) = true
      · simp only [hs, hc, if_true, decide_true, Bool.and_self, Bool.false_eq_true, if_false]
        cases hw : alookup fid (adel fid g.workers) with
        | none =>
          simp only [Option.isSome_some, if_true]
          exact ⟨by rw [alookup_aset_same], Or.inr trivial⟩
        | some w =>
          by_cases hsd : w.sealed = true
          · simp only [hsd, if_true, Option.isSome_some]
            exact ⟨by rw [alookup_aset_same], Or.inr trivial⟩
          · simp only [hsd, Bool.false_eq_true, if_false, Option.isSome_some, if_true]
            exact ⟨by rw [alookup_aset_same], Or.inr trivial⟩
      · have hc' : (decide (h - r.basedBlock ≥ p.maxNonce) || force) = false := by simpa using hc
        simp only [hs, hc', if_true, decide_true, Bool.and_false, Bool.false_eq_true, if_false]
        cases hw : alookup fid g.workers with
        | none => simp [hr]
        | some w => by_cases hsd : w.sealed = true <;> simp [hsd, hr]
    · have hno : ¬ (Status.closed = Status.open) := by intro h'; cases h'
      simp only [hs, hno, if_false, decide_false, Bool.false_and, Bool.false_eq_true]
      cases hw : alookup fid g.workers with
      | none => simp [hr]
      | some w => by_cases hsd : w.sealed = true <;> simp [hsd, hr]

theorem sealOne_other (p : Params) (h : Nat) (force : Bool) (g : Agc) (x fid : Nat) (hx : x ≠ fid) :
    alookup fid (sealOne p h force g x).1.rounds = alookup fid g.rounds ∧
    ((sealOne p h force g x).2.1 = none ∨
      (sealOne p h force g x).2.1 = some ((p.feeder? x).getD default).tokenID) := by
  unfold sealOne
  cases hr : alookup x g.rounds with
  | none => simp
  | some r =>
    simp only
    have ha := alookup_adel_other x fid g.rounds (Ne.symm hx)
    have hs := fun v => alookup_aset_other x fid v g.rounds (Ne.symm hx)
    repeat' split
    all_goals simp [ha, hs]


/-- the fold of `Agc.sealRound`, seen on one feeder: its entry is sealed as in the slice (once, however
often its id occurs), and its token is reported as failed exactly when the slice's counter advances -/
theorem sealFold_sl (p : Params) (h : Nat) (force : Bool) (fid : Nat) (f : Feeder) (H : FeederHyp p fid f)
    (l : List Nat) : ∀ (acc : Agc × List Nat × List Nat) (n : Nat),
    (⟨alookup fid (l.foldl (sealStep p h force) acc).1.rounds,
      n + (l.foldl (sealStep p h force) acc).2.1.count f.tokenID⟩ : Sl) =
      if fid ∈ l then slSeal p.maxNonce h force ⟨alookup fid acc.1.rounds, n + acc.2.1.count f.tokenID⟩
      else ⟨alookup fid acc.1.rounds, n + acc.2.1.count f.tokenID⟩ := by
  induction l with
  | nil => intro acc n; simp
  | cons x t ih =>
    intro acc n
    simp only [List.foldl_cons]
    rw [ih]
    by_cases hx : x = fid
    · subst hx
      have h1 := sealOne_self p h force acc.1 x f (n + acc.2.1.count f.tokenID) H.feeder H.noEnd
      have hst : (⟨alookup x (sealStep p h force acc x).1.rounds, n + (sealStep p h force acc x).2.1.count f.tokenID⟩ : Sl) =
          slSeal p.maxNonce h force ⟨alookup x acc.1.rounds, n + acc.2.1.count f.tokenID⟩ := by
        rw [← h1.1]
        unfold sealStep
        simp only
        rcases h1.2 with e | e
        · simp [e]
        · simp [e, List.count_append]; omega
      rw [hst]
      by_cases ht : x ∈ t
      · simp [ht, slSeal_idem]
      · simp [ht]
    · have h1 := sealOne_other p h force acc.1 x fid hx
      have hst : (⟨alookup fid (sealStep p h force acc x).1.rounds, n + (sealStep p h force acc x).2.1.count f.tokenID⟩ : Sl) =
          ⟨alookup fid acc.1.rounds, n + acc.2.1.count f.tokenID⟩ := by
        unfold sealStep
        simp only
        rw [h1.1]
        rcases h1.2 with e | e
        · simp [e]
        · have := H.alone x hx
          simp [e, List.count_append, this]
      rw [hst]
      have hne : ¬ fid = x := fun e => hx e.symm
      simp [hne]

theorem sealRound_sl (p : Params) (h : Nat) (force : Bool) (fid : Nat) (f : Feeder) (H : FeederHyp p fid f)
    (g : Agc) (n : Nat) :
    (⟨alookup fid (g.sealRound p h force).1.rounds, n + (g.sealRound p h force).2.1.count f.tokenID⟩ : Sl) =
      slSeal p.maxNonce h force ⟨alookup fid g.rounds, n⟩ := by
  rw [sealRound_eq]
  have := sealFold_sl p h force fid f H (g.rounds.map (·.1)) (g, [], []) n
  simp only [List.count_nil, Nat.add_zero] at this
  rw [this]
  by_cases hm : fid ∈ g.rounds.map (·.1)
  · simp [hm]
  · simp only [hm, if_false]
    have hn : alookup fid g.rounds = none := (alookup_none_iff fid g.rounds).mpr hm
    simp [slSeal, hn]

/-! ### PrepareRoundEndBlock on the feeder's entry -/

theorem prepareOne_self (p : Params) (block : Nat) (g : Agc) (fid : Nat) (f : Feeder) (n : Nat)
    (hend : f.endBlock = 0) :
    alookup fid (prepareOne p block g fid f).1.rounds =
      (slPrepare f p.maxNonce block { round := alookup fid g.rounds, next := n }).round := by
  unfold prepareOne slPrepare
  simp only [hend, Nat.lt_irrefl, decide_false, Bool.false_and, Bool.false_or, decide_eq_true_eq]
  by_cases hs : f.startBaseBlock > block
  · simp [hs]
  · simp only [hs, if_false]
    cases hr : alookup fid g.rounds with
    | none =>
      simp only
      by_cases hl : (roundArith f block).1 ≥ p.maxNonce
      · simp only [hl, if_true]
        exact alookup_aset_same _ _ _
      · simp only [hl, if_false]
        exact alookup_aset_same _ _ _
    | some r =>
      simp only
      by_cases hl0 : (roundArith f block).1 = 0
      · simp only [hl0, if_true]
        exact alookup_aset_same _ _ _
      · simp only [hl0, if_false]
        by_cases hc : (decide (r.status = Status.open) && decide ((roundArith f block).1 ≥ p.maxNonce)) = true
        · simp only [hc, if_true]
          exact alookup_aset_same _ _ _
        · simp only [hc]
          exact hr

theorem prepareOne_other (p : Params) (block : Nat) (g : Agc) (i fid : Nat) (f' : Feeder) (hne : fid ≠ i) :
    alookup fid (prepareOne p block g i f').1.rounds = alookup fid g.rounds := by
  unfold prepareOne
  have hs := fun v => alookup_aset_other i fid v g.rounds hne
  repeat' split
  all_goals first | rfl | (simp [hs])

theorem slPrepare_next (f : Feeder) (mn block : Nat) (x : Sl) : (slPrepare f mn block x).next = x.next := by
  unfold slPrepare
  repeat' split
  all_goals rfl

theorem prepareLoop_other (p : Params) (block fid : Nat) (fs : List Feeder) : ∀ (g : Agc) (i : Nat) (acc : List Nat),
    fid < i → alookup fid (prepareLoop p block g i fs acc).1.rounds = alookup fid g.rounds := by
  induction fs with
  | nil => intro g i acc _; rfl
  | cons f' fs ih =>
    intro g i acc hlt
    unfold prepareLoop
    have hi : ¬ i = 0 := by omega
    simp only [hi, if_false]
    rw [ih _ _ _ (by omega)]
    exact prepareOne_other p block g i fid f' (by omega)

theorem prepareLoop_self (p : Params) (block fid : Nat) (f : Feeder) (hend : f.endBlock = 0) (hfid : fid ≠ 0)
    (n : Nat) (fs : List Feeder) : ∀ (g : Agc) (i : Nat) (acc : List Nat), i ≤ fid → fs[fid - i]? = some f →
    alookup fid (prepareLoop p block g i fs acc).1.rounds =
      (slPrepare f p.maxNonce block { round := alookup fid g.rounds, next := n }).round := by
  induction fs with
  | nil => intro g i acc _ hf; simp at hf
  | cons f' fs ih =>
    intro g i acc hle hf
    unfold prepareLoop
    by_cases hi : i = 0
    · simp only [hi, if_true]
      apply ih _ _ _ (by omega)
      have e : fid - i = (fid - (0 + 1)) + 1 := by omega
      rw [e, List.getElem?_cons_succ] at hf
      exact hf
    · simp only [hi, if_false]
      by_cases he : i = fid
      · subst he
        simp only [Nat.sub_self, List.getElem?_cons_zero, Option.some.injEq] at hf
        subst hf
        rw [prepareLoop_other p block i fs _ _ _ (by omega)]
        exact prepareOne_self p block g i f' n hend
      · have e : fid - i = (fid - (i + 1)) + 1 := by omega
        rw [e, List.getElem?_cons_succ] at hf
        rw [ih _ _ _ (by omega) hf, prepareOne_other p block g i fid f' (by omega)]

theorem prepareRound_sl (p : Params) (block fid : Nat) (f : Feeder) (H : FeederHyp p fid f) (g : Agc) (n : Nat)
    (hp : g.params = some p) (hb : 1 ≤ block) :
    (⟨alookup fid (g.prepareRound block).1.rounds, n⟩ : Sl) = slPrepare f p.maxNonce block ⟨alookup fid g.rounds, n⟩ := by
  unfold Agc.prepareRound
  have hb' : ¬ block < 1 := by omega
  simp only [hb', if_false, hp]
  have hf : p.feeders[fid - 0]? = some f := by
    have := H.feeder
    unfold Params.feeder? at this
    simpa using this
  rw [prepareLoop_self p block fid f H.noEnd H.fidPos n p.feeders g 0 [] (by omega) hf]
  have := slPrepare_next f p.maxNonce block ⟨alookup fid g.rounds, n⟩
  cases hx : slPrepare f p.maxNonce block ⟨alookup fid g.rounds, n⟩ with
  | mk r nx => rw [hx] at this; simp only at this; rw [this]


/-! ### one CreatePrice call, one transaction, seen on the feeder's slice -/

theorem token_of_prices (st st' : Store) (tok : Nat) (h : st'.prices = st.prices) : st'.token tok = st.token tok := by
  unfold Store.token; rw [h]

theorem token_removeNonces (st : Store) (fid : Nat) (vs : List Nat) (tok : Nat) :
    (st.removeNonces fid vs).token tok = st.token tok := rfl

theorem slFinal_idem (a : Sl) : slFinal (slFinal a) = slFinal a := by
  unfold slFinal
  cases hr : a.round with
  | none => simp [hr]
  | some r =>
    rcases status_cases r.status with hs | hs
    · have : ¬ (Status.closed = Status.open) := by intro h'; cases h'
      simp [hs, this]
    · have : ¬ (Status.closed = Status.open) := by intro h'; cases h'
      simp [hs, hr, this]

/-- nothing happened to the slice, or the round was finalized (`slFinal`) -/
def SlF (a b : Sl) : Prop := b = a ∨ b = slFinal a

theorem SlF.trans {a b c : Sl} (h1 : SlF a b) (h2 : SlF b c) : SlF a c := by
  rcases h1 with h1 | h1 <;> rcases h2 with h2 | h2
  · left; rw [h2, h1]
  · right; rw [h2, h1]
  · right; rw [h2, h1]
  · right; rw [h2, h1, slFinal_idem]

theorem createPrice_sl (p : Params) (fid : Nat) (f : Feeder) (H : FeederHyp p fid f) (s : State) (m : Msg)
    (hpf : PF p s) (hwf : TokWf (s.store.token f.tokenID)) :
    slOf fid f.tokenID (createPrice s m).1 = slOf fid f.tokenID s ∨
    ((createPrice s m).2 = .ok ∧ slOf fid f.tokenID (createPrice s m).1 = slFinal (slOf fid f.tokenID s)) := by
  obtain ⟨g, hg, hp⟩ := hpf.agc
  by_cases hts : checkTimestamp s.blockTime m = true
  · cases hc : g.checkMsg p m with
    | some e =>
      rw [createPrice_check_fail s m g p e hg hp hts hc]
      left; rfl
    | none =>
      rw [createPrice_fill s m g p hg hp hts hc]
      obtain ⟨_, r, hr, hopen, _⟩ := checkMsg_none g p m hc
      have hfr := fillPrice_rounds g p m r hr
      rcases hf : g.fillPrice p m with ⟨g', res⟩
      rw [hf] at hfr
      simp only at hfr
      cases res with
      | ignored =>
        left
        rcases hfr with ⟨_, h2⟩ | ⟨it, h1, _⟩
        · simp only [slOf, hg, h2]
        · cases h1
      | cached it =>
        left
        rcases hfr with ⟨_, h2⟩ | ⟨it', h1, _⟩
        · simp only [slOf, hg, h2]
        · cases h1
      | final it =>
        rcases hfr with ⟨h1, _⟩ | ⟨it', h1, htok, hrounds⟩
        · exact absurd rfl (h1 it)
        · cases h1
          by_cases hfid : m.feederID = fid
          · right
            refine ⟨rfl, ?_⟩
            have htk : it.tokenID = f.tokenID := by rw [htok, hfid, H.feeder]; rfl
            simp only [slOf, hg, hrounds, htk, token_removeNonces, token_setToken, if_true]
            rw [hfid, alookup_aset_same, finalTok_next _ _ _ hwf]
            rw [hfid] at hr
            simp [slFinal, hr, hopen]
          · left
            have htk : ¬ f.tokenID = it.tokenID := by
              rw [htok]; exact fun e => H.alone m.feederID hfid e.symm
            simp only [slOf, hg, hrounds, token_removeNonces, token_setToken, htk, if_false]
            rw [alookup_aset_other _ _ _ _ (Ne.symm hfid)]
  · have hts' : checkTimestamp s.blockTime m = false := by simpa using hts
    rw [createPrice_bad_ts s m hts']
    left; rfl

theorem runMsgs_sl (p : Params) (fid : Nat) (f : Feeder) (H : FeederHyp p fid f) (ms : List Msg) :
    ∀ (s : State) (i : Nat), PF p s → TokWf (s.store.token f.tokenID) →
    (∀ j e, (runMsgs s i ms).2 = some (j, e) → i ≤ j) ∧
    ((runMsgs s i ms).2 = none → SlF (slOf fid f.tokenID s) (slOf fid f.tokenID (runMsgs s i ms).1)) ∧
    (∀ e, (runMsgs s i ms).2 = some (i, e) →
      (slOf fid f.tokenID (runMsgs s i ms).1).round = (slOf fid f.tokenID s).round) := by
  induction ms with
  | nil =>
    intro s i _ _
    refine ⟨?_, ?_, ?_⟩
    · intro j e h; simp [runMsgs] at h
    · intro _; left; rfl
    · intro e h; simp [runMsgs] at h
  | cons m ms ih =>
    intro s i hpf hwf
    have h1 := createPrice_sl p fid f H s m hpf hwf
    have h2 := createPrice_pf p s m hpf
    unfold runMsgs
    rcases hcp : createPrice s m with ⟨s', out⟩
    rw [hcp] at h1 h2
    cases out with
    | ok =>
      simp only
      have hwf' : TokWf (s'.store.token f.tokenID) := (h2.1 f.tokenID).wf hwf
      obtain ⟨i1, i2, i3⟩ := ih s' (i + 1) h2.2.1 hwf'
      refine ⟨?_, ?_, ?_⟩
      · intro j e h; have := i1 j e h; omega
      · intro h
        have hs : SlF (slOf fid f.tokenID s) (slOf fid f.tokenID s') := by
          rcases h1 with h1 | ⟨_, h1⟩
          · left; exact h1
          · right; exact h1
        exact hs.trans (i2 h)
      · intro e h; have := i1 i e h; omega
    | err e =>
      simp only
      refine ⟨?_, ?_, ?_⟩
      · intro j e' h; simp only [Option.some.injEq, Prod.mk.injEq] at h; omega
      · intro h; cases h
      · intro e' _
        rcases h1 with h1 | ⟨h1, _⟩
        · rw [h1]
        · cases h1

theorem deliverTx_sl (p : Params) (fid : Nat) (f : Feeder) (H : FeederHyp p fid f) (s : State) (tx : Tx)
    (hpf : PF p s) (hwf : TokWf (s.store.token f.tokenID))
    (hnl : ∀ i e, (deliverTx s tx).2 = .msg i e → i = 0) :
    SlF (slOf fid f.tokenID s) (slOf fid f.tokenID (deliverTx s tx).1) := by
  unfold deliverTx at hnl ⊢
  cases ha : anteHandle s tx with
  | error why => left; rfl
  | ok st =>
    rw [ha] at hnl
    simp only at hnl ⊢
    have hfr := anteHandle_frame s tx st ha
    have htok : ∀ tok, st.token tok = s.store.token tok := fun tok => token_of_prices _ _ tok hfr.1
    have h0 : PF p { s with store := st } := ⟨hpf.agc, hpf.cache⟩
    have hwf0 : TokWf (({ s with store := st } : State).store.token f.tokenID) := by
      show TokWf (st.token f.tokenID); rw [htok]; exact hwf
    have hsl0 : slOf fid f.tokenID { s with store := st } = slOf fid f.tokenID s := by
      simp only [slOf, htok]
    obtain ⟨_, i2, i3⟩ := runMsgs_sl p fid f H tx.msgs { s with store := st } 0 h0 hwf0
    rcases hr : runMsgs { s with store := st } 0 tx.msgs with ⟨s2, r⟩
    rw [hr] at hnl i2 i3
    cases r with
    | none =>
      simp only
      have := i2 rfl
      rw [hsl0] at this
      exact this
    | some ie =>
      obtain ⟨i, e⟩ := ie
      simp only at hnl ⊢
      have hi := hnl i e rfl
      subst hi
      have := i3 e rfl
      left
      rw [hsl0] at this
      simp only [slOf, htok] at this ⊢
      rw [this]

/-! ### EndBlock on the feeder's slice -/

theorem endVals_force (g : Agc) (c : Cache) (updates : List (Nat × Int)) :
    (endVals g c updates).2.2 = decide (updates.length > 0) := by
  unfold endVals
  split
  · rename_i h; simp [h]
  · rename_i h; simp [h]

theorem endTail_sl (p : Params) (fid : Nat) (f : Feeder) (H : FeederHyp p fid f) (s : State) (g : Agc) (c : Cache)
    (updates : List (Nat × Int)) (force : Bool) (hg : g.params = some p)
    (hc : c.pUpdate = true → c.params = some p) (hwf : TokWf (s.store.token f.tokenID)) (hh : 1 ≤ s.height) :
    slOf fid f.tokenID (endTail s g c updates force p) =
      slPrepare f p.maxNonce s.height
        (slSeal p.maxNonce s.height force ⟨alookup fid g.rounds, (s.store.token f.tokenID).nextRoundID⟩) := by
  rw [← sealRound_sl p s.height force fid f H g]
  unfold endTail
  simp only [slOf]
  generalize hsr : g.sealRound p s.height force = sr
  obtain ⟨g2, failed, sealed⟩ := sr
  simp only
  have hfr := endCommit_frame (endStore1 s.store updates sealed failed (g2.vals.map (·.1)) p.maxSizePrices) g2 c p s.height
  have hpar : (endCommit (endStore1 s.store updates sealed failed (g2.vals.map (·.1)) p.maxSizePrices) g2 c p s.height).2.1.params = some p := by
    rcases hfr.2.2.2.2.2.2.2.2 with h | ⟨h1, h2⟩
    · rw [h]
      have := sealRound_params g p s.height force
      rw [hsr] at this
      rw [this]; exact hg
    · rw [h2]; exact hc h1
  have hnext : ((List.foldl (fun st fid => st.addZeroNonces fid
        (((endCommit (endStore1 s.store updates sealed failed (g2.vals.map (·.1)) p.maxSizePrices) g2 c p s.height).2.1.prepareRound s.height).1.vals.map (·.1)))
      (endCommit (endStore1 s.store updates sealed failed (g2.vals.map (·.1)) p.maxSizePrices) g2 c p s.height).1
      ((endCommit (endStore1 s.store updates sealed failed (g2.vals.map (·.1)) p.maxSizePrices) g2 c p s.height).2.1.prepareRound s.height).2).token f.tokenID).nextRoundID =
      (s.store.token f.tokenID).nextRoundID + failed.count f.tokenID := by
    rw [token_of_prices _ _ _ (addZeroFold_frame _ _ _).1, token_of_prices _ _ _ hfr.1, endStore1_eq]
    have e0 : (sealed.foldl (fun st fid => st.removeNonces fid (g2.vals.map (·.1))) (dropLeavers s.store updates)).token f.tokenID =
        s.store.token f.tokenID := by
      apply token_of_prices
      rw [(removeFold_frame _ _ _).1, (dropLeavers_frame _ _).1]
    rw [growFold_next _ _ _ _ (by rw [e0]; exact hwf), e0]
  rw [hnext]
  rw [prepareRound_sl p s.height fid f H _ _ hpar hh, hfr.2.2.2.1]

theorem endBlock_sl (p : Params) (fid : Nat) (f : Feeder) (H : FeederHyp p fid f) (s : State)
    (updates : List (Nat × Int)) (hpf : PF p s) (hwf : TokWf (s.store.token f.tokenID)) (hh : 1 ≤ s.height) :
    ∃ s', endBlock s updates = some s' ∧
      slOf fid f.tokenID s' =
        slPrepare f p.maxNonce s.height (slSeal p.maxNonce s.height (decide (updates.length > 0)) (slOf fid f.tokenID s)) := by
  obtain ⟨g, hg, hp⟩ := hpf.agc
  have hf := endVals_frame g s.cacheD updates
  rw [endBlock_eq s updates g hg, hf.1, hp]
  refine ⟨_, rfl, ?_⟩
  rw [endTail_sl p fid f H { s with cache := some s.cacheD, dogfood := endDog s.dogfood updates } _ _ _ _ (by rw [hf.1]; exact hp)
    (by rw [hf.2.2.2.1, hf.2.2.2.2.1]; exact hpf.cacheD) hwf hh]
  rw [hf.2.1, endVals_force]
  simp only [slOf, hg]


/-! ### the invariant along the run -/

/-- the feeder's slice after EndBlock of block `b`: before the feeder's start block there is no round
entry and the token's counter is untouched; from the start block on, `RoundInv` (Proofs/Oracle.lean):
the entry is the round of base `b − (b−start) mod interval` with id `StartRoundID + (b−start) div interval`,
open only inside its window, and the stored NextRoundID is `n0 + (b−start) div interval + [closed]` -/
def FeederInv (f : Feeder) (mn n0 b : Nat) (x : Sl) : Prop :=
  (b < f.startBaseBlock ∧ x.round = none ∧ x.next = n0) ∨ (f.startBaseBlock ≤ b ∧ RoundInv f mn n0 b x)

theorem FeederInv.final {f : Feeder} {mn n0 b : Nat} {x : Sl} (h : FeederInv f mn n0 b x) :
    FeederInv f mn n0 b (slFinal x) := by
  rcases h with ⟨h1, h2, h3⟩ | ⟨h1, h2⟩
  · left
    have : slFinal x = x := by simp [slFinal, h2]
    rw [this]; exact ⟨h1, h2, h3⟩
  · right; exact ⟨h1, final_keeps f mn n0 b x h2⟩

theorem FeederInv.slF {f : Feeder} {mn n0 b : Nat} {x y : Sl} (h : FeederInv f mn n0 b x) (hs : SlF x y) :
    FeederInv f mn n0 b y := by
  rcases hs with e | e
  · rw [e]; exact h
  · rw [e]; exact h.final

theorem FeederInv.block {f : Feeder} {mn n0 b : Nat} {x : Sl} (hmn : 1 ≤ mn) (hiv : mn < f.interval) (force : Bool)
    (h : FeederInv f mn n0 b x) :
    FeederInv f mn n0 (b + 1) (slPrepare f mn (b + 1) (slSeal mn (b + 1) force x)) := by
  rcases h with ⟨h1, h2, h3⟩ | ⟨h1, h2⟩
  · have hs : slSeal mn (b + 1) force x = x := by simp [slSeal, h2]
    rw [hs]
    by_cases hb : b + 1 < f.startBaseBlock
    · left
      have : slPrepare f mn (b + 1) x = x := by
        unfold slPrepare
        have : f.startBaseBlock > b + 1 := hb
        simp [this]
      rw [this]; exact ⟨hb, h2, h3⟩
    · right
      have hb' : b + 1 = f.startBaseBlock := by omega
      refine ⟨by omega, ?_⟩
      have hx : x = { round := none, next := n0 } := by
        cases x with
        | mk r n => simp only at h2 h3; rw [h2, h3]
      rw [hx, hb']
      exact start_inv f mn n0 hmn
  · right
    refine ⟨by omega, ?_⟩
    apply prepare_from_mid f mn n0 b _ h1 hiv hmn
    exact seal_gives_mid f mn n0 b force x h1 (by omega) h2

/-- the transactions' outcomes contain no failure at a message after the first one of its
transaction (F-09c: such a failure rolls the store back but leaves what the earlier messages did to
the in-memory rounds) -/
def lateFail : TxOut → Bool
  | .msg (_ + 1) _ => true
  | _ => false

def NoLateFailL (outs : List TxOut) : Prop := ∀ o ∈ outs, lateFail o = false

theorem lateFail_zero (o : TxOut) (h : lateFail o = false) (i : Nat) (e : MsgErr) (ho : o = TxOut.msg i e) : i = 0 := by
  subst ho
  cases i with
  | zero => rfl
  | succ n => simp [lateFail] at h

def NoLateFail (outs : List (List TxOut)) : Prop := ∀ l ∈ outs, NoLateFailL l

/-- the invariant inside block `b + 1` (after its BeginBlock, between its transactions) -/
structure MInv (p : Params) (fid : Nat) (f : Feeder) (n0 b : Nat) (s : State) : Prop where
  pf : PF p s
  wf : TokWf (s.store.token f.tokenID)
  inv : FeederInv f p.maxNonce n0 b (slOf fid f.tokenID s)

/-- the invariant at a block boundary (after EndBlock of block `s.height`) -/
def HInv (p : Params) (fid : Nat) (f : Feeder) (n0 : Nat) (s : State) : Prop := MInv p fid f n0 s.height s

theorem runTxs_minv (p : Params) (fid : Nat) (f : Feeder) (H : FeederHyp p fid f) (n0 b : Nat) (txs : List Tx) :
    ∀ (s : State), MInv p fid f n0 b s → NoLateFailL (runTxs s txs).2 → MInv p fid f n0 b (runTxs s txs).1 := by
  induction txs with
  | nil => intro s h _; exact h
  | cons tx txs ih =>
    intro s h hnl
    simp only [runTxs] at hnl ⊢
    have h1 := deliverTx_pf p s tx h.pf
    have hsl := deliverTx_sl p fid f H s tx h.pf h.wf (fun i e he => lateFail_zero _ (hnl _ (by simp)) i e he)
    apply ih
    · exact ⟨h1.2.1, (h1.1 f.tokenID).wf h.wf, h.inv.slF hsl⟩
    · intro o ho; exact hnl o (by simp [ho])

theorem runBlock_hinv (p : Params) (fid : Nat) (f : Feeder) (H : FeederHyp p fid f) (n0 : Nat)
    (hmn : 1 ≤ p.maxNonce) (hiv : p.maxNonce < f.interval) (s : State) (b : Block) (s' : State) (outs : List TxOut)
    (hr : runBlock s b = some (s', outs)) (hnl : NoLateFailL outs) (h : HInv p fid f n0 s) : HInv p fid f n0 s' := by
  unfold runBlock at hr
  have h0 : MInv p fid f n0 s.height (beginBlock s b.blockTime) := ⟨⟨h.pf.agc, h.pf.cache⟩, h.wf, h.inv⟩
  have hT := runTxs_pf p b.txs _ h0.pf
  obtain ⟨s1, he, hs, hpf, hh, _⟩ := endBlock_pf p _ b.updates hT.2.1
  simp only [he, Option.some.injEq, Prod.mk.injEq] at hr
  obtain ⟨e1, e2⟩ := hr
  subst e1
  rw [← e2] at hnl
  have hM := runTxs_minv p fid f H n0 s.height b.txs _ h0 hnl
  have hhT : (runTxs (beginBlock s b.blockTime) b.txs).1.height = s.height + 1 := by rw [hT.2.2.1]; rfl
  obtain ⟨s2, he2, hsl⟩ := endBlock_sl p fid f H _ b.updates hM.pf hM.wf (by rw [hhT]; omega)
  rw [he] at he2
  simp only [Option.some.injEq] at he2
  subst he2
  refine ⟨hpf, (hs f.tokenID).wf hM.wf, ?_⟩
  rw [hsl, hh, hhT]
  exact hM.inv.block hmn hiv _

theorem runBlocks_hinv (p : Params) (fid : Nat) (f : Feeder) (H : FeederHyp p fid f) (n0 : Nat)
    (hmn : 1 ≤ p.maxNonce) (hiv : p.maxNonce < f.interval) (bs : List Block) :
    ∀ (s s' : State) (outs : List (List TxOut)), runBlocks s bs = some (s', outs) → NoLateFail outs →
      HInv p fid f n0 s → HInv p fid f n0 s' := by
  induction bs with
  | nil =>
    intro s s' outs hr _ h
    simp only [runBlocks, Option.some.injEq, Prod.mk.injEq] at hr
    rw [← hr.1]; exact h
  | cons b bs ih =>
    intro s s' outs hr hnl h
    simp only [runBlocks] at hr
    cases hb : runBlock s b with
    | none => rw [hb] at hr; cases hr
    | some r1 =>
      obtain ⟨s1, o1⟩ := r1
      rw [hb] at hr
      simp only at hr
      cases hbs : runBlocks s1 bs with
      | none => rw [hbs] at hr; cases hr
      | some r2 =>
        obtain ⟨s2, o2⟩ := r2
        rw [hbs] at hr
        simp only [Option.some.injEq, Prod.mk.injEq] at hr
        obtain ⟨e1, e2⟩ := hr
        subst e1
        rw [← e2] at hnl
        have h1 := runBlock_hinv p fid f H n0 hmn hiv s b s1 o1 hb (hnl o1 (by simp)) h
        exact ih s1 s2 o2 hbs (fun l hl => hnl l (by simp [hl])) h1


/-! ### transactions with a single message never fail late -/

theorem runMsgs_single (s : State) (m : Msg) (j : Nat) (e : MsgErr) (h : (runMsgs s 0 [m]).2 = some (j, e)) : j = 0 := by
  unfold runMsgs at h
  rcases hcp : createPrice s m with ⟨s', out⟩
  rw [hcp] at h
  cases out with
  | ok => simp [runMsgs] at h
  | err e' => simp only [Option.some.injEq, Prod.mk.injEq] at h; exact h.1.symm

theorem deliverTx_single (s : State) (tx : Tx) (h : tx.msgs.length ≤ 1) : lateFail (deliverTx s tx).2 = false := by
  unfold deliverTx
  cases ha : anteHandle s tx with
  | error why => rfl
  | ok st =>
    simp only
    match hm : tx.msgs with
    | [] => simp [runMsgs, lateFail]
    | [m] =>
      rcases hr : runMsgs { s with store := st } 0 [m] with ⟨s2, r⟩
      cases r with
      | none => rfl
      | some ie =>
        obtain ⟨j, e⟩ := ie
        have := runMsgs_single { s with store := st } m j e (by rw [hr])
        subst this
        rfl
    | _ :: _ :: _ => rw [hm] at h; simp at h

theorem runTxs_single (txs : List Tx) : ∀ (s : State), (∀ tx ∈ txs, tx.msgs.length ≤ 1) → NoLateFailL (runTxs s txs).2 := by
  induction txs with
  | nil => intro s _ o ho; simp [runTxs] at ho
  | cons tx txs ih =>
    intro s h o ho
    simp only [runTxs, List.mem_cons] at ho
    rcases ho with e | ho
    · rw [e]; exact deliverTx_single s tx (h tx (by simp))
    · exact ih _ (fun t ht => h t (by simp [ht])) o ho

/-- every transaction of the history carries at most one message -/
def SingleMsg (bs : List Block) : Prop := ∀ b ∈ bs, ∀ tx ∈ b.txs, tx.msgs.length ≤ 1

theorem runBlocks_single (bs : List Block) : ∀ (s s' : State) (outs : List (List TxOut)),
    runBlocks s bs = some (s', outs) → SingleMsg bs → NoLateFail outs := by
  induction bs with
  | nil =>
    intro s s' outs hr _
    simp only [runBlocks, Option.some.injEq, Prod.mk.injEq] at hr
    rw [← hr.2]; intro l hl; simp at hl
  | cons b bs ih =>
    intro s s' outs hr hs
    simp only [runBlocks] at hr
    cases hb : runBlock s b with
    | none => rw [hb] at hr; cases hr
    | some r1 =>
      obtain ⟨s1, o1⟩ := r1
      rw [hb] at hr
      simp only at hr
      cases hbs : runBlocks s1 bs with
      | none => rw [hbs] at hr; cases hr
      | some r2 =>
        obtain ⟨s2, o2⟩ := r2
        rw [hbs] at hr
        simp only [Option.some.injEq, Prod.mk.injEq] at hr
        rw [← hr.2]
        intro l hl
        simp only [List.mem_cons] at hl
        rcases hl with e | hl
        · rw [e]
          unfold runBlock at hb
          cases he : endBlock (runTxs (beginBlock s b.blockTime) b.txs).1 b.updates with
          | none => simp [he] at hb
          | some s3 =>
            simp only [he, Option.some.injEq, Prod.mk.injEq] at hb
            rw [← hb.2]
            exact runTxs_single b.txs _ (hs b (by simp))
        · exact ih s1 s2 o2 hbs (fun b' hb' => hs b' (by simp [hb'])) l hl

/-! ### decidable checks for concrete states (non-vacuity examples) -/

def tokWfB (t : TokenStore) : Bool :=
  decide (akeys t.rounds).Nodup &&
  t.rounds.all (fun kv => decide (kv.2.roundID = kv.1) && decide (1 ≤ kv.1) && decide (kv.1 < t.nextRoundID))

theorem TokWf_of_check (t : TokenStore) (h : tokWfB t = true) : TokWf t := by
  unfold tokWfB at h
  simp only [Bool.and_eq_true, decide_eq_true_eq, List.all_eq_true] at h
  refine ⟨h.1, ?_, ?_⟩
  · intro k q hq
    exact (h.2 (k, q) (alookup_mem k q _ hq)).1.1
  · intro k q hq
    have := h.2 (k, q) (alookup_mem k q _ hq)
    exact ⟨this.1.2, this.2⟩

end ExoVerif.Oracle
