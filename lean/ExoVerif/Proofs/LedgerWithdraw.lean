import ExoVerif.Proofs.LedgerNst
import ExoVerif.Proofs.LedgerAccept
/-! Helper lemmas for C03's withdrawal clause: how every ledger operation moves the SUM OF THE STAKERS'
    TOTAL DEPOSITS of an asset (`depo`), so that it can be compared with the asset's published staking
    total. Core Lean only.

    `depo s a` = Σ over staker rows of `TotalDepositAmount` for asset `a`. Only `UpdateStakerAssetState`
    writes staker rows, and only deposit (+x), withdraw (−x) and the native-restaking adjustment pass it a
    non-zero `TotalDepositAmount` delta: every other operation leaves `depo` alone. -/
namespace ExoVerif.Ledger
open ExoVerif ExoVerif.KV

def tAt (a : AID) : (SID × AID) × StakerRow → Int := fun e => if e.1.2 = a then e.2.total else 0

/-- Σ stakers' TotalDepositAmount for asset `a` -/
def depo (s : L) (a : AID) : Int := sumP (tAt a) s.stakers

theorem depo_congr {s s' : L} (h : s'.stakers = s.stakers) (a : AID) : depo s' a = depo s a := by
  unfold depo; rw [h]

theorem depo_updStaker {s s' : L} {st : SID} {a0 : AID} {dT dW dP : Int} (a : AID)
    (h : updStaker s st a0 dT dW dP = .ok s') :
    depo s' a = depo s a + (if a0 = a then dT else 0) := by
  rw [updStaker_ok h]
  unfold depo
  simp only [sumP_set]
  rw [atP_getD (tAt a) s.stakers (st, a0) zeroStaker (by simp [tAt, zeroStaker])]
  simp only [tAt]
  split <;> omega

theorem depo_updStaker0 {s s' : L} {st : SID} {a0 : AID} {dW dP : Int} (a : AID)
    (h : updStaker s st a0 0 dW dP = .ok s') : depo s' a = depo s a := by
  rw [depo_updStaker a h]; split <;> omega

theorem stakers_of_core {s s' : L} (h : nstCore s' = nstCore s) : s'.stakers = s.stakers := by
  unfold nstCore at h; injection h

/-- one staker's total deposit is at most the sum over all stakers (all totals being non-negative) -/
theorem total_le_depo {s : L} (hn : NN s) {st : SID} {a : AID} {row : StakerRow}
    (hrow : find? s.stakers (st, a) = some row) : row.total ≤ depo s a := by
  have h := atP_le_sumP (tAt a) s.stakers (st, a) (fun p hp => by
    have := (hn.st p hp).1
    unfold tAt; split
    · exact this
    · exact Int.le_refl _)
  rw [atP_of_find _ _ _ _ hrow] at h
  unfold depo
  simpa [tAt] using h

/-! ## the operations that do not touch the total deposits -/

theorem delegateCore_stakers {s s' : L} {st : SID} {a0 : AID} {o : OID} {x : Int}
    (h : delegateCore s st a0 o x = .ok s') : s'.stakers = s.stakers := by
  unfold delegateCore at h
  simp only [bind, Except.bind, pure, Except.pure] at h
  split at h
  · cases h
  · split at h
    · cases h
    · rename_i s2 h2
      split at h
      · cases h
      · rename_i p3 h3
        obtain ⟨s3, z⟩ := p3
        injection h with h; subst h
        have g : (appendStaker s3 o a0 st).stakers = s3.stakers := by
          unfold appendStaker; simp only []; split <;> rfl
        rw [g, stakers_of_core (updDeleg_core h3), stakers_of_core (updPool_core h2)]

theorem delegate_depo {s s' : L} {st : SID} {a0 : AID} {o : OID} {x : Int} (a : AID)
    (h : delegate s st a0 o x = .ok s') : depo s' a = depo s a := by
  unfold delegate at h
  simp only [bind, Except.bind, throw, throwThe, MonadExceptOf.throw] at h
  split at h
  · cases h
  · split at h
    · cases h
    · by_cases hn : a0 = nativeAID
      · simp only [hn, if_true] at h
        split at h
        · cases h
        · exact depo_congr (delegateCore_stakers h) a
      · simp only [hn, if_false] at h
        split at h
        · cases h
        · split at h
          · cases h
          · split at h
            · cases h
            · rename_i s1 h1
              rw [depo_congr (delegateCore_stakers h) a, depo_updStaker0 a h1]

theorem removeShare_depo {s s' : L} {isU : Bool} {o : OID} {st : SID} {a0 : AID} {share : Dec}
    {removed : Int} (a : AID) (h : removeShare s isU o st a0 share = .ok (s', removed)) :
    depo s' a = depo s a := by
  unfold removeShare at h
  simp only [bind, Except.bind, pure, Except.pure, throw, throwThe, MonadExceptOf.throw] at h
  split at h
  · cases h
  · split at h
    · cases h
    · rename_i p1 h1
      obtain ⟨s1, rem⟩ := p1
      simp only [] at h
      have e1 : depo s1 a = depo s a := depo_congr (stakers_of_core (removeShareFromOperator_core h1)) a
      split at h
      · cases h
      · rename_i s2 h2
        have e2 : depo s2 a = depo s1 a := by
          unfold pendStaker at h2
          split at h2
          · exact depo_updStaker0 a h2
          · injection h2 with h2; rw [← h2]
        split at h
        · cases h
        · rename_i p3 h3
          obtain ⟨s3, z⟩ := p3
          simp only [] at h
          have e3 : depo s3 a = depo s2 a := depo_congr (stakers_of_core (updDeleg_core h3)) a
          split at h
          · cases h
          · rename_i s4 h4
            injection h with h; injection h with ha hb; subst ha
            have e4 : depo s4 a = depo s3 a := by
              cases z
              · simp only [Bool.false_eq_true, if_false] at h4
                injection h4 with h4; rw [← h4]
              · simp only [if_true] at h4
                exact depo_congr (stakers_of_core (deleteStaker_core h4)) a
            rw [e4, e3, e2, e1]

theorem undelegate_depo {s s' : L} {st : SID} {a0 : AID} {o : OID} {x : Int} {n : Nat} {hash : String}
    (a : AID) (h : undelegate s st a0 o x n hash = .ok s') : depo s' a = depo s a := by
  unfold undelegate at h
  simp only [bind, Except.bind, throw, throwThe, MonadExceptOf.throw] at h
  split at h
  · cases h
  · split at h
    · cases h
    · split at h
      · cases h
      · split at h
        · cases h
        · rename_i p1 h1
          obtain ⟨s1, removed⟩ := p1
          simp only [] at h
          have e1 := removeShare_depo a h1
          unfold setRecord at h
          split at h
          · cases h
          · injection h with h; rw [← h]; exact e1

theorem completeRecord_depo {s s' : L} {r : URec} (a : AID) (h : completeRecord s r = .ok s') :
    depo s' a = depo s a := by
  unfold completeRecord at h
  simp only [bind, Except.bind, pure, Except.pure] at h
  split at h
  · cases h
  · rename_i p1 h1
    obtain ⟨s1, z⟩ := p1
    simp only [] at h
    split at h
    · cases h
    · rename_i s2 h2
      split at h
      · cases h
      · rename_i s3 h3
        injection h with h; subst h
        have e2 : depo s2 a = depo s1 a := by
          unfold creditStaker at h2
          split at h2
          · split at h2
            · cases h2
            · injection h2 with h2; rw [← h2]; rfl
          · exact depo_updStaker0 a h2
        show depo (deleteRecord s3 r) a = _
        have : depo (deleteRecord s3 r) a = depo s3 a := rfl
        rw [this, depo_congr (stakers_of_core (updPool_core h3)) a, e2,
          depo_congr (stakers_of_core (updDeleg_core h1)) a]

theorem endBlockRecord_depo (s : L) (r : URec) (a : AID) : depo (endBlockRecord s r) a = depo s a := by
  unfold endBlockRecord
  split
  · simp only []
    split
    · rename_i s2 hset
      unfold setRecord at hset
      split at hset
      · cases hset
      · injection hset with hset; rw [← hset]; rfl
    · rfl
  · split
    · rename_i s2 hc; exact completeRecord_depo a hc
    · rfl

theorem endBlock_depo (s : L) (a : AID) : depo (nextBlock (endBlock s)) a = depo s a := by
  have : depo (endBlock s) a = depo s a := by
    unfold endBlock
    split
    · rfl
    · rename_i rs _
      clear * -
      induction rs generalizing s with
      | nil => rfl
      | cons r rest ih => simp only [List.foldl_cons]; rw [ih, endBlockRecord_depo]
  exact this

/-- association / dissociation only touch `OperatorShare` -/
theorem foldlM_opShare_core (es : List ((SID × AID × OID) × DelegRow)) (o : OID) (f : DelegRow → Dec)
    {s s' : L} (h : es.foldlM (fun s e => updPool s o e.1.2.1 0 0 Dec.zero (f e.2)) s = .ok s') :
    nstCore s' = nstCore s := by
  induction es generalizing s with
  | nil =>
    simp only [List.foldlM_nil, pure, Except.pure] at h; injection h with h; subst h; rfl
  | cons e rest ih =>
    simp only [List.foldlM_cons, bind, Except.bind] at h
    split at h
    · cases h
    · rename_i s1 h1
      rw [ih h, updPool_core h1]

theorem associate_depo {s s' : L} {st : SID} {o : OID} (a : AID) (h : associate s st o = .ok s') :
    depo s' a = depo s a := by
  unfold associate at h
  simp only [bind, Except.bind, pure, Except.pure, throw, throwThe, MonadExceptOf.throw] at h
  split at h
  · cases h
  · split at h
    · cases h
    · split at h
      · cases h
      · split at h
        · cases h
        · rename_i s1 h1
          injection h with h; subst h
          exact depo_congr (stakers_of_core (foldlM_opShare_core _ o (fun r => r.share) h1)) a

theorem dissociate_depo {s s' : L} {st : SID} (a : AID) (h : dissociate s st = .ok s') :
    depo s' a = depo s a := by
  unfold dissociate at h
  simp only [bind, Except.bind, pure, Except.pure, throw, throwThe, MonadExceptOf.throw] at h
  split at h
  · cases h
  · rename_i o ho
    split at h
    · cases h
    · rename_i s1 h1
      injection h with h; subst h
      exact depo_congr (stakers_of_core (foldlM_opShare_core _ o (fun r => r.share.neg) h1)) a

theorem slashAssets_stakers (s : L) (o : OID) (inf : Nat) (p : Dec) :
    (slashAssets s o inf p).stakers = s.stakers ∧ (slashAssets s o inf p).totals = s.totals ∧
    (slashAssets s o inf p).gDep = s.gDep ∧ (slashAssets s o inf p).gWd = s.gWd := by
  unfold slashAssets
  simp

/-! ## deposit and withdrawal: the total deposits move with the ghost counters -/

/-- Σ total deposits − cumulative deposits + cumulative withdrawals (ghost counters) -/
def dnet (s : L) (a : AID) : Int := depo s a - getD s.gDep a 0 + getD s.gWd a 0

theorem dnet_congr {s s' : L} (a : AID) (hd : depo s' a = depo s a) (hg : ghosts s' = ghosts s) :
    dnet s' a = dnet s a := by
  unfold ghosts at hg; injection hg with g1 g23; injection g23 with g2 g3
  unfold dnet; rw [hd, g1, g2]

theorem deposit_dnet {s s' : L} {st : SID} {a0 : AID} {x : Int} (a : AID)
    (h : deposit s st a0 x = .ok s') : dnet s' a = dnet s a := by
  unfold deposit at h
  simp only [bind, Except.bind, pure, Except.pure, throw, throwThe, MonadExceptOf.throw] at h
  split at h
  · cases h
  · split at h
    · cases h
    · split at h
      · cases h
      · rename_i s1 h1
        split at h
        · cases h
        · rename_i s2 h2
          injection h with h
          obtain ⟨t, _, hs2⟩ := updTotal_ok h2
          have g : ghosts s2 = ghosts s := by have g0 := updStaker_ghosts h1; rw [hs2]; exact g0
          have d2 : depo s2 a = depo s1 a := by rw [hs2]; rfl
          have d1 := depo_updStaker a h1
          unfold ghosts at g; injection g with g1 g23; injection g23 with g2 g3
          have d' : depo s' a = depo s2 a := by rw [← h]; rfl
          unfold dnet
          rw [d', d2, d1, ← h]
          simp only [getD_ghostAdd, g1, g2]; split <;> omega

theorem withdraw_dnet {s s' : L} {st : SID} {a0 : AID} {x : Int} (a : AID)
    (h : withdraw s st a0 x = .ok s') : dnet s' a = dnet s a := by
  unfold withdraw at h
  simp only [bind, Except.bind, pure, Except.pure, throw, throwThe, MonadExceptOf.throw] at h
  split at h
  · cases h
  · split at h
    · cases h
    · split at h
      · cases h
      · rename_i s1 h1
        split at h
        · cases h
        · rename_i s2 h2
          injection h with h
          obtain ⟨t, _, hs2⟩ := updTotal_ok h2
          have g : ghosts s2 = ghosts s := by have g0 := updStaker_ghosts h1; rw [hs2]; exact g0
          have d2 : depo s2 a = depo s1 a := by rw [hs2]; rfl
          have d1 := depo_updStaker a h1
          unfold ghosts at g; injection g with g1 g23; injection g23 with g2 g3
          have d' : depo s' a = depo s2 a := by rw [← h]; rfl
          unfold dnet
          rw [d', d2, d1, ← h]
          simp only [getD_ghostAdd, g1, g2]; split <;> omega

/-! ## the native-restaking adjustment: the total deposits move by what the adjusted row's total moves by -/

/-- between `s` and `s'` the sum of total deposits moved exactly as the total deposit of row (st, a) did -/
def DepEff (st : SID) (a : AID) (s s' : L) : Prop :=
  ∀ a', depo s' a' - depo s a' = if a = a' then totOf s' st a - totOf s st a else 0

theorem DepEff.refl (st : SID) (a : AID) (s : L) : DepEff st a s s := by
  intro a'; split <;> omega

theorem DepEff.trans {st : SID} {a : AID} {s1 s2 s3 : L} (h12 : DepEff st a s1 s2) (h23 : DepEff st a s2 s3) :
    DepEff st a s1 s3 := by
  intro a'
  have e1 := h12 a'; have e2 := h23 a'
  split at e1 <;> split at e2 <;> split <;> first | omega | (exfalso; simp_all)

theorem DepEff.of_stakers {st : SID} {a : AID} {s s' : L} (h : s'.stakers = s.stakers) : DepEff st a s s' := by
  intro a'
  have : totOf s' st a = totOf s st a := by unfold totOf; rw [h]
  rw [depo_congr h a', this]; split <;> omega

theorem DepEff.of_updStaker {s s' : L} {st : SID} {a : AID} {dT dW dP : Int}
    (h : updStaker s st a dT dW dP = .ok s') : DepEff st a s s' := by
  intro a'
  have ht : totOf s' st a = totOf s st a + dT := by
    rw [updStaker_ok h]; unfold totOf; simp only [getD_set_same]
  rw [depo_updStaker a' h, ht]; split <;> omega

theorem nstSlashRecords_depEff (st : SID) (a : AID) (ks : List RecKey) :
    ∀ (s : L) (p : Int) (s' : L) (p' : Int), nstSlashRecords st a ks s p = .ok (s', p') → DepEff st a s s' := by
  induction ks with
  | nil =>
    intro s p s' p' h
    unfold nstSlashRecords at h
    injection h with h; injection h with h1 h2; subst h1
    exact DepEff.refl _ _ _
  | cons k ks ih =>
    intro s p s' p' h
    unfold nstSlashRecords at h
    split at h
    · cases h
    · rename_i r hf
      simp only [] at h
      split at h
      · cases h
      · rename_i s1 h1
        have e1 : DepEff st a s s1 := DepEff.of_updStaker h1
        by_cases hgo : 0 < p - r.actual
        · simp only [hgo, if_true] at h
          have e2 := ih _ _ _ _ h
          exact e1.trans ((DepEff.of_stakers rfl).trans e2)
        · simp only [hgo, if_false] at h
          injection h with h; injection h with ha hb; subst ha
          exact e1.trans (DepEff.of_stakers rfl)

theorem nstSlashShares_depEff (st : SID) (a : AID) (prop : Dec) (es : List ((SID × AID × OID) × DelegRow)) :
    ∀ (s : L) (p : Int) (s' : L) (p' : Int), nstSlashShares st a prop es s p = .ok (s', p') →
      DepEff st a s s' := by
  induction es with
  | nil =>
    intro s p s' p' h
    unfold nstSlashShares at h
    injection h with h; injection h with h1 h2; subst h1
    exact DepEff.refl _ _ _
  | cons e es ih =>
    intro s p s' p' h
    unfold nstSlashShares at h
    split at h
    · cases h
    · rename_i s1 actual h1
      split at h
      · cases h
      · rename_i s2 h2
        exact ((DepEff.of_stakers (stakers_of_core (removeShare_false_core h1))).trans
          (DepEff.of_updStaker h2)).trans (ih _ _ _ _ h)

theorem nstSlashDelegated_depEff {s s' : L} {st : SID} {a : AID} {p : Int}
    (h : nstSlashDelegated s st a p = .ok s') : DepEff st a s s' := by
  unfold nstSlashDelegated at h
  simp only [] at h
  split at h
  · cases h
  · split at h
    · injection h with h; subst h; exact DepEff.refl _ _ _
    · split at h
      · cases h
      · rename_i s2 p2 h2
        injection h with h; subst h
        exact nstSlashShares_depEff st a _ _ _ _ _ _ h2

theorem nstDecrease_depEff {s s' : L} {st : SID} {a : AID} {x : Int}
    (h : nstDecrease s st a x = .ok s') : DepEff st a s s' := by
  unfold nstDecrease at h
  split at h
  · cases h
  · rename_i row hrow
    simp only [] at h
    split at h
    · cases h
    · rename_i s1 h1
      have e1 : DepEff st a s s1 := DepEff.of_updStaker h1
      split at h
      · cases h
      · rename_i s2 p1 h2
        have e2 : DepEff st a s1 s2 := by
          by_cases hgo : 0 < -x - row.withdrawable
          · simp only [hgo, if_true] at h2
            exact nstSlashRecords_depEff st a _ _ _ _ _ h2
          · simp only [hgo, if_false] at h2
            injection h2 with h2; injection h2 with ha hb; subst ha
            exact DepEff.refl _ _ _
        split at h
        · exact (e1.trans e2).trans (nstSlashDelegated_depEff h)
        · injection h with h; subst h
          exact e1.trans e2

/-- UpdateNSTBalance moves Σ total deposits of the adjusted asset by exactly what the adjusted staker's total
deposit moves by, and nothing for any other asset -/
theorem nstUpdate_depEff {s s' : L} {st : SID} {a : AID} {x : Int}
    (h : nstUpdate s st a x = .ok s') : DepEff st a s s' := by
  unfold nstUpdate at h
  split at h
  · cases h
  · split at h
    · exact DepEff.of_updStaker h
    · split at h
      · exact nstDecrease_depEff h
      · injection h with h; subst h; exact DepEff.refl _ _ _

end ExoVerif.Ledger
