import ExoVerif.Proofs.LedgerNN
/-! Helper lemmas for the native-restaking balance adjustment (`nstUpdate`, the model of
    x/delegation/keeper/update_native_restaking_balance.go: UpdateNSTBalance): what the three phases do
    to the per-asset value, to the adjusted staker's total deposit, and what they leave alone. -/
namespace ExoVerif.Ledger
open ExoVerif ExoVerif.KV

/-! ## store iteration order: only membership matters for the proofs -/

theorem mem_insertByKey {α : Type} (key : α → String) (x y : α) (l : List α) :
    y ∈ insertByKey key x l ↔ y = x ∨ y ∈ l := by
  induction l with
  | nil => simp [insertByKey]
  | cons z zs ih =>
    unfold insertByKey
    split
    · simp
    · simp only [List.mem_cons, ih]
      constructor
      · rintro (h | h | h)
        · exact Or.inr (Or.inl h)
        · exact Or.inl h
        · exact Or.inr (Or.inr h)
      · rintro (h | h | h)
        · exact Or.inr (Or.inl h)
        · exact Or.inl h
        · exact Or.inr (Or.inr h)

theorem mem_sortByKey {α : Type} (key : α → String) (l : List α) (y : α) :
    y ∈ sortByKey key l ↔ y ∈ l := by
  unfold sortByKey
  induction l with
  | nil => simp
  | cons z zs ih => simp only [List.foldr_cons, mem_insertByKey, ih, List.mem_cons]

/-! ## the quantities -/

/-- Σ withdrawable + Σ owed by pending undelegations, for asset `a` -/
def wrAt (s : L) (a : AID) : Int := sumP (wAt a) s.stakers + sumP (rAt a) s.recs
/-- Σ operator pool amounts, for asset `a` -/
def plAt (s : L) (a : AID) : Int := sumP (pAt a) s.pools

theorem value_split (s : L) (a : AID) : value s a = wrAt s a + plAt s a := by
  unfold value wrAt plAt; omega

/-- the staker's TotalDepositAmount of the asset (0 when there is no row) -/
def totOf (s : L) (st : SID) (a : AID) : Int := (getD s.stakers (st, a) zeroStaker).total

/-! ## records that differ in `actual` only -/

/-- `recs'` has the same keys as `recs`; every record keeps all its fields except `actual`, which never
grows, stays non-negative if it was, and is untouched unless the record is one of staker `st` in asset `a` -/
def NstRecs (st : SID) (a : AID) (recs recs' : List (RecKey × URec)) : Prop :=
  keys recs' = keys recs ∧
  ∀ k, (find? recs k = none → find? recs' k = none) ∧
    (∀ r, find? recs k = some r → ∃ x, find? recs' k = some { r with actual := x } ∧ x ≤ r.actual ∧
      (0 ≤ r.actual → 0 ≤ x) ∧ (¬ (r.staker = st ∧ r.asset = a) → x = r.actual))

theorem NstRecs.refl (st : SID) (a : AID) (recs : List (RecKey × URec)) : NstRecs st a recs recs :=
  ⟨rfl, fun _ => ⟨fun h => h, fun r h => ⟨r.actual, by rw [h], Int.le_refl _, fun h => h, fun _ => rfl⟩⟩⟩

theorem NstRecs.trans {st : SID} {a : AID} {r1 r2 r3 : List (RecKey × URec)}
    (h12 : NstRecs st a r1 r2) (h23 : NstRecs st a r2 r3) : NstRecs st a r1 r3 := by
  refine ⟨h23.1.trans h12.1, fun k => ⟨fun h => (h23.2 k).1 ((h12.2 k).1 h), fun r h => ?_⟩⟩
  obtain ⟨x, hx, l1, n1, o1⟩ := (h12.2 k).2 r h
  obtain ⟨y, hy, l2, n2, o2⟩ := (h23.2 k).2 _ hx
  refine ⟨y, hy, ?_, ?_, ?_⟩
  · simp only [] at l2; omega
  · intro h0; exact n2 (n1 h0)
  · intro hne
    have := o1 hne
    have := o2 hne
    simp only [] at *; omega

/-- the other direction: a record of `recs'` comes from one of `recs` -/
theorem NstRecs.back {st : SID} {a : AID} {recs recs' : List (RecKey × URec)} (h : NstRecs st a recs recs')
    {k : RecKey} {r' : URec} (hf : find? recs' k = some r') :
    ∃ r x, find? recs k = some r ∧ r' = { r with actual := x } ∧ x ≤ r.actual ∧ (0 ≤ r.actual → 0 ≤ x) ∧
      (¬ (r.staker = st ∧ r.asset = a) → x = r.actual) := by
  cases hk : find? recs k with
  | none => rw [(h.2 k).1 hk] at hf; cases hf
  | some r =>
    obtain ⟨x, hx, l, n, o⟩ := (h.2 k).2 r hk
    rw [hx] at hf; injection hf with hf
    exact ⟨r, x, rfl, hf.symm, l, n, o⟩

theorem keys_set_of_find {κ α : Type} [DecidableEq κ] (m : List (κ × α)) (k : κ) (v v' : α)
    (h : find? m k = some v) : keys (KV.set m k v') = keys m := by
  induction m with
  | nil => simp [find?] at h
  | cons p rest ih =>
    obtain ⟨k', w⟩ := p
    by_cases hk : k' = k
    · subst hk; simp [KV.set, keys]
    · simp only [find?, hk, if_false] at h
      simp only [KV.set, hk, if_false, keys, List.map_cons]
      have := ih h
      unfold keys at this
      rw [this]

/-- lowering `actual` of one live record of (st, a) -/
theorem NstRecs.set_one {st : SID} {a : AID} {recs : List (RecKey × URec)} {k : RecKey} {r : URec} {c : Int}
    (hf : find? recs k = some r) (hr : r.staker = st ∧ r.asset = a) (h0 : 0 ≤ c) (h1 : c ≤ r.actual) :
    NstRecs st a recs (KV.set recs k { r with actual := r.actual - c }) := by
  refine ⟨keys_set_of_find _ _ _ _ hf, fun k2 => ?_⟩
  by_cases hk : k2 = k
  · subst hk
    refine ⟨fun h => (by rw [hf] at h; cases h), fun r0 h => ?_⟩
    rw [hf] at h; injection h with h; subst h
    exact ⟨r.actual - c, find?_set_same _ _ _, by omega, fun _ => by omega, fun hne => absurd hr hne⟩
  · rw [find?_set_other _ _ _ _ hk]
    exact ⟨fun h => h, fun r0 h => ⟨r0.actual, by rw [h], Int.le_refl _, fun h => h, fun _ => rfl⟩⟩

/-- the three undelegation stores stay consistent when only `actual` figures move -/
theorem recInv_nstRecs {s s' : L} {st : SID} {a : AID} (hi : RecInv s) (hr : NstRecs st a s.recs s'.recs)
    (hs : s'.sidx = s.sidx) (hp : s'.pidx = s.pidx) : RecInv s' := by
  constructor
  · unfold NoDup; rw [hr.1]; exact hi.ndR
  · rw [hs]; exact hi.ndS
  · rw [hp]; exact hi.ndP
  · intro k r' h
    obtain ⟨r, x, hf, he, _⟩ := hr.back h
    obtain ⟨a1, a2, a3⟩ := hi.keyed k r hf
    subst he
    rw [hs, hp]
    exact ⟨a1, a2, a3⟩
  · intro pk k h
    rw [hp] at h
    obtain ⟨r, hf, he⟩ := hi.pback pk k h
    obtain ⟨x, hx, _⟩ := (hr.2 k).2 r hf
    exact ⟨_, hx, he⟩
  · intro sk k h
    rw [hs] at h
    obtain ⟨r, hf, he⟩ := hi.sback sk k h
    obtain ⟨x, hx, _⟩ := (hr.2 k).2 r hf
    exact ⟨_, hx, he⟩
  · intro k1 k2 r1 r2 h1 h2 hn
    obtain ⟨q1, x1, hq1, e1, _⟩ := hr.back h1
    obtain ⟨q2, x2, hq2, e2, _⟩ := hr.back h2
    subst e1; subst e2
    exact hi.uniq k1 k2 q1 q2 hq1 hq2 hn

/-! ## the frame of an adjustment of (st, a) -/

structure NstFrame (st : SID) (a : AID) (s s' : L) : Prop where
  stakers : ∀ k, k ≠ (st, a) → find? s'.stakers k = find? s.stakers k
  pend : (getD s'.stakers (st, a) zeroStaker).pending = (getD s.stakers (st, a) zeroStaker).pending
  totals : s'.totals = s.totals
  sidx : s'.sidx = s.sidx
  pidx : s'.pidx = s.pidx
  holds : s'.holds = s.holds
  height : s'.height = s.height
  unbonding : s'.unbonding = s.unbonding
  ghosts : ghosts s' = ghosts s
  escrow : s'.escrow = s.escrow
  bal : s'.bal = s.bal
  recs : NstRecs st a s.recs s'.recs

theorem NstFrame.refl (st : SID) (a : AID) (s : L) : NstFrame st a s s :=
  ⟨fun _ _ => rfl, rfl, rfl, rfl, rfl, rfl, rfl, rfl, rfl, rfl, rfl, NstRecs.refl _ _ _⟩

theorem NstFrame.trans {st : SID} {a : AID} {s1 s2 s3 : L} (h12 : NstFrame st a s1 s2)
    (h23 : NstFrame st a s2 s3) : NstFrame st a s1 s3 :=
  ⟨fun k hk => (h23.stakers k hk).trans (h12.stakers k hk), h23.pend.trans h12.pend,
   h23.totals.trans h12.totals, h23.sidx.trans h12.sidx, h23.pidx.trans h12.pidx, h23.holds.trans h12.holds,
   h23.height.trans h12.height, h23.unbonding.trans h12.unbonding, h23.ghosts.trans h12.ghosts,
   h23.escrow.trans h12.escrow, h23.bal.trans h12.bal, h12.recs.trans h23.recs⟩

/-- the effect of (a part of) an adjustment: `cWR` leaves withdrawable balances + pending records,
`cP` leaves the operator pools, both of asset `a` only, and the staker's total deposit falls by the sum -/
structure NstEff (st : SID) (a : AID) (s s' : L) (cWR cP : Int) : Prop where
  frame : NstFrame st a s s'
  wr : ∀ a', wrAt s' a' = wrAt s a' - (if a = a' then cWR else 0)
  pl : ∀ a', plAt s' a' = plAt s a' - (if a = a' then cP else 0)
  tot : totOf s' st a = totOf s st a - (cWR + cP)

theorem NstEff.refl (st : SID) (a : AID) (s : L) : NstEff st a s s 0 0 :=
  ⟨NstFrame.refl _ _ _, fun _ => by simp, fun _ => by simp, by simp⟩

theorem NstEff.trans {st : SID} {a : AID} {s1 s2 s3 : L} {c1 p1 c2 p2 : Int}
    (h12 : NstEff st a s1 s2 c1 p1) (h23 : NstEff st a s2 s3 c2 p2) :
    NstEff st a s1 s3 (c1 + c2) (p1 + p2) := by
  refine ⟨h12.frame.trans h23.frame, fun a' => ?_, fun a' => ?_, ?_⟩
  · rw [h23.wr a', h12.wr a']; split <;> omega
  · rw [h23.pl a', h12.pl a']; split <;> omega
  · rw [h23.tot, h12.tot]; omega

/-! ## primitive steps -/

/-- UpdateStakerAssetState on the adjusted row (no pending delta) -/
theorem updStaker_nst {s s' : L} {st : SID} {a : AID} {dT dW : Int}
    (h : updStaker s st a dT dW 0 = .ok s') :
    NstFrame st a s s' ∧ s'.recs = s.recs ∧ s'.pools = s.pools ∧
    (∀ a', sumP (wAt a') s'.stakers = sumP (wAt a') s.stakers + (if a = a' then dW else 0)) ∧
    totOf s' st a = totOf s st a + dT := by
  have hs := updStaker_ok h
  subst hs
  refine ⟨⟨fun k hk => find?_set_other _ _ _ _ hk, ?_, rfl, rfl, rfl, rfl, rfl, rfl, rfl, rfl, rfl,
    NstRecs.refl _ _ _⟩, rfl, rfl, fun a' => ?_, ?_⟩
  · simp only [getD_set_same]; omega
  · simp only [sumP_set]
    rw [atP_getD (wAt a') s.stakers (st, a) zeroStaker (by simp [wAt, zeroStaker])]
    simp only [wAt]
    split <;> omega
  · unfold totOf; simp only [getD_set_same]

/-- first phase / positive adjustment: total deposit and withdrawable balance move together -/
theorem updStaker_nstEff {s s' : L} {st : SID} {a : AID} {c : Int}
    (h : updStaker s st a (-c) (-c) 0 = .ok s') : NstEff st a s s' c 0 := by
  obtain ⟨f, hr, hp, hw, ht⟩ := updStaker_nst h
  refine ⟨f, fun a' => ?_, fun a' => ?_, by rw [ht]; omega⟩
  · unfold wrAt; rw [hw a', hr]; split <;> omega
  · unfold plAt; rw [hp]; simp

/-- one iteration of the second phase: the record at `k` owes `c` less, the total deposit falls by `c` -/
theorem nstRecordStep {s s1 : L} {st : SID} {a : AID} {k : RecKey} {r : URec} {c : Int}
    (hn : NN s) (hf : find? s.recs k = some r) (hr : r.staker = st ∧ r.asset = a) (h0 : 0 ≤ c)
    (h1 : c ≤ r.actual) (h : updStaker s st a (-c) 0 0 = .ok s1) :
    NstEff st a s { s1 with recs := KV.set s1.recs k { r with actual := r.actual - c } } c 0 ∧
    NN { s1 with recs := KV.set s1.recs k { r with actual := r.actual - c } } := by
  obtain ⟨f, hrec, hp, hw, ht⟩ := updStaker_nst h
  have hf1 : find? s1.recs k = some r := by rw [hrec]; exact hf
  have hrc := hn.rc (k, r) (find?_mem _ _ _ hf)
  have n1 := (updStaker_nn hn h).1
  refine ⟨⟨?_, fun a' => ?_, fun a' => ?_, ?_⟩, ?_⟩
  · exact ⟨f.stakers, f.pend, f.totals, f.sidx, f.pidx, f.holds, f.height, f.unbonding, f.ghosts, f.escrow, f.bal,
      by rw [← hrec]; exact NstRecs.set_one hf1 hr h0 h1⟩
  · unfold wrAt
    simp only [sumP_set, hw a', hrec, atP_of_find _ _ _ _ hf, rAt, hr.2]
    split <;> omega
  · unfold plAt; simp only [hp]; simp
  · show totOf s1 st a = _
    rw [ht]; omega
  · refine ⟨n1.st, n1.pl, n1.dl, ?_, n1.tt, n1.bl, n1.es⟩
    simp only [] at hrc
    exact all_set (P := RcP) n1.rc ⟨by simp only []; omega, by simp only []; omega⟩

/-! ## second phase -/

theorem nstSlashRecords_spec (st : SID) (a : AID) (ks : List RecKey) :
    ∀ (s : L) (p : Int) (s' : L) (p' : Int), NN s → 0 < p →
      (∀ k ∈ ks, ∀ r, find? s.recs k = some r → r.staker = st ∧ r.asset = a) →
      nstSlashRecords st a ks s p = .ok (s', p') →
      ∃ c, NstEff st a s s' c 0 ∧ NN s' ∧ 0 ≤ c ∧ (0 < p' → c + p' = p) ∧ (p' ≤ 0 → c = p) := by
  induction ks with
  | nil =>
    intro s p s' p' hn hp _ h
    unfold nstSlashRecords at h
    injection h with h; injection h with h1 h2; subst h1; subst h2
    exact ⟨0, NstEff.refl _ _ _, hn, Int.le_refl _, fun _ => by omega, fun h => by omega⟩
  | cons k ks ih =>
    intro s p s' p' hn hp hown h
    unfold nstSlashRecords at h
    split at h
    · cases h
    · rename_i r hf
      have hr := hown k (by simp) r hf
      have hrc := hn.rc (k, r) (find?_mem _ _ _ hf)
      simp only [] at hrc
      simp only [] at h
      split at h
      · cases h
      · rename_i s1 h1
        by_cases hgo : 0 < p - r.actual
        · simp only [hgo, if_true] at h h1
          obtain ⟨e1, n1⟩ := nstRecordStep hn hf hr hrc.1 (Int.le_refl _) h1
          have hown' : ∀ k' ∈ ks, ∀ r', find? (KV.set s1.recs k { r with actual := r.actual - r.actual }) k' = some r' →
              r'.staker = st ∧ r'.asset = a := by
            intro k' hk' r' hf'
            obtain ⟨r0, x, hf0, he, _⟩ := e1.frame.recs.back hf'
            have := hown k' (by simp [hk']) r0 hf0
            subst he; exact this
          obtain ⟨c2, e2, n2, c0, ca, cb⟩ := ih _ _ _ _ n1 hgo hown' h
          refine ⟨r.actual + c2, e1.trans e2, n2, by omega, fun hp' => ?_, fun hp' => ?_⟩
          · have := ca hp'; omega
          · have := cb hp'; omega
        · simp only [hgo, if_false] at h h1
          injection h with h; injection h with ha hb; subst ha; subst hb
          obtain ⟨e1, n1⟩ := nstRecordStep hn hf hr (by omega) (by omega) h1
          exact ⟨p, by simpa using e1.trans (NstEff.refl _ _ _), n1, by omega, fun hp' => by omega, fun _ => rfl⟩

/-! ## third phase -/

/-- the fields RemoveShare(isUndelegation = false) never writes -/
def nstCore (s : L) :=
  (s.stakers, s.totals, s.bal, s.escrow, ghosts s, s.recs, s.sidx, s.pidx, s.holds, s.height, s.unbonding)

theorem updPool_core {s s' : L} {o : OID} {a : AID} {dA dP : Int} {dS dO : Dec}
    (h : updPool s o a dA dP dS dO = .ok s') : nstCore s' = nstCore s := by
  obtain ⟨_, _, _, _, hs⟩ := updPool_ok h; rw [hs]; rfl

theorem updDeleg_core {s s' : L} {st : SID} {a : AID} {o : OID} {dS : Dec} {dW : Int} {z : Bool}
    (h : updDeleg s st a o dS dW = .ok (s', z)) : nstCore s' = nstCore s := by
  obtain ⟨_, _, _, hs⟩ := updDeleg_ok h; rw [hs]; rfl

theorem deleteStaker_core {s s' : L} {o : OID} {a : AID} {st : SID} (h : deleteStaker s o a st = .ok s') :
    nstCore s' = nstCore s := by
  unfold deleteStaker at h
  split at h
  · cases h
  · injection h with h; rw [← h]; rfl

theorem removeShareFromOperator_core {s s' : L} {isU : Bool} {o : OID} {st : SID} {a : AID} {share : Dec}
    {removed : Int} (h : removeShareFromOperator s isU o st a share = .ok (s', removed)) :
    nstCore s' = nstCore s := by
  unfold removeShareFromOperator at h
  simp only [bind, Except.bind, pure, Except.pure, throw, throwThe, MonadExceptOf.throw] at h
  split at h
  · cases h
  · split at h
    · cases h
    · split at h
      · cases h
      · split at h
        · cases h
        · split at h
          · cases h
          · rename_i sx hx
            injection h with h; injection h with ha hb; subst ha
            exact updPool_core hx

theorem removeShare_false_core {s s' : L} {o : OID} {st : SID} {a : AID} {share : Dec} {removed : Int}
    (h : removeShare s false o st a share = .ok (s', removed)) : nstCore s' = nstCore s := by
  unfold removeShare at h
  simp only [bind, Except.bind, pure, Except.pure, throw, throwThe, MonadExceptOf.throw] at h
  split at h
  · cases h
  · split at h
    · cases h
    · rename_i p1 h1
      obtain ⟨s1, rem⟩ := p1
      simp only [] at h
      have e1 := removeShareFromOperator_core h1
      split at h
      · cases h
      · rename_i s2 h2
        have e2 : s2 = s1 := by
          unfold pendStaker at h2
          simp only [Bool.false_and, Bool.false_eq_true, if_false, pure, Except.pure] at h2
          injection h2 with h2; exact h2.symm
        subst e2
        split at h
        · cases h
        · rename_i p3 h3
          obtain ⟨s3, z⟩ := p3
          simp only [] at h
          have e3 := updDeleg_core h3
          split at h
          · cases h
          · rename_i s4 h4
            injection h with h; injection h with ha hb; subst ha
            have e4 : nstCore s4 = nstCore s3 := by
              cases z
              · simp only [Bool.false_eq_true, if_false] at h4
                injection h4 with h4; rw [← h4]
              · simp only [if_true] at h4
                exact deleteStaker_core h4
            rw [e4, e3, e1]

theorem NstFrame.of_core {st : SID} {a : AID} {s s' : L} (h : nstCore s' = nstCore s) : NstFrame st a s s' := by
  unfold nstCore at h
  injection h with h1 h; injection h with h2 h; injection h with h3 h; injection h with h4 h
  injection h with h5 h; injection h with h6 h; injection h with h7 h; injection h with h8 h
  injection h with h9 h; injection h with h10 h11
  exact ⟨fun k _ => by rw [h1], by rw [h1], h2, h7, h8, h9, h10, h11, h5, h4, h3, by rw [h6]; exact NstRecs.refl _ _ _⟩

/-- one iteration of the third phase: RemoveShare(false) takes `actual` tokens out of one pool of asset `a`,
the total deposit falls by as much -/
theorem nstShareStep {s s1 s2 : L} {st : SID} {a : AID} {o : OID} {share : Dec} {actual : Int}
    (hn : NN s) (h1 : removeShare s false o st a share = .ok (s1, actual))
    (h2 : updStaker s1 st a (-actual) 0 0 = .ok s2) :
    NstEff st a s s2 0 actual ∧ NN s2 ∧ 0 ≤ actual := by
  have hc := removeShare_false_core h1
  obtain ⟨n1, _, hpos⟩ := removeShare_nn hn h1
  obtain ⟨f2, hrec2, hp2, hw2, ht2⟩ := updStaker_nst h2
  have f1 : NstFrame st a s s1 := NstFrame.of_core hc
  have hst : s1.stakers = s.stakers := by
    unfold nstCore at hc; injection hc
  have hrc : s1.recs = s.recs := by
    unfold nstCore at hc
    injection hc with _ h; injection h with _ h; injection h with _ h; injection h with _ h
    injection h with _ h; injection h with h6 _
  refine ⟨⟨f1.trans f2, fun a' => ?_, fun a' => ?_, ?_⟩, (updStaker_nn n1 h2).1, hpos⟩
  · unfold wrAt; rw [hw2 a', hrec2, hst, hrc]; simp
  · have v := (removeShare_spec a' h1).1
    rw [value_split, value_split] at v
    have hwr : wrAt s1 a' = wrAt s a' := by unfold wrAt; rw [hst, hrc]
    unfold plAt at *; rw [hp2]; omega
  · rw [ht2]; unfold totOf; rw [hst]; omega

theorem nstSlashShares_spec (st : SID) (a : AID) (prop : Dec) (es : List ((SID × AID × OID) × DelegRow)) :
    ∀ (s : L) (p : Int) (s' : L) (p' : Int), NN s →
      nstSlashShares st a prop es s p = .ok (s', p') →
      ∃ c, NstEff st a s s' 0 c ∧ NN s' ∧ 0 ≤ c := by
  induction es with
  | nil =>
    intro s p s' p' hn h
    unfold nstSlashShares at h
    injection h with h; injection h with h1 h2; subst h1
    exact ⟨0, NstEff.refl _ _ _, hn, Int.le_refl _⟩
  | cons e es ih =>
    intro s p s' p' hn h
    unfold nstSlashShares at h
    split at h
    · cases h
    · rename_i s1 actual h1
      split at h
      · cases h
      · rename_i s2 h2
        obtain ⟨e1, n2, hpos⟩ := nstShareStep hn h1 h2
        obtain ⟨c2, e2, n3, hc2⟩ := ih _ _ _ _ n2 h
        exact ⟨actual + c2, by simpa using e1.trans e2, n3, by omega⟩

theorem nstSlashDelegated_spec {s s' : L} {st : SID} {a : AID} {p : Int} (hn : NN s)
    (h : nstSlashDelegated s st a p = .ok s') : ∃ c, NstEff st a s s' 0 c ∧ NN s' ∧ 0 ≤ c := by
  unfold nstSlashDelegated at h
  simp only [] at h
  split at h
  · cases h
  · rename_i total _
    split at h
    · injection h with h; subst h
      exact ⟨0, NstEff.refl _ _ _, hn, Int.le_refl _⟩
    · split at h
      · cases h
      · rename_i s2 p2 h2
        injection h with h; subst h
        exact nstSlashShares_spec st a _ _ _ _ _ _ hn h2

/-! ## the whole adjustment -/

/-- the records reached through the staker index of (st, a) are records of (st, a) -/
theorem nstRecordKeys_own {s : L} (hi : RecInv s) (st : SID) (a : AID) :
    ∀ k ∈ nstRecordKeys s st a, ∀ r, find? s.recs k = some r → r.staker = st ∧ r.asset = a := by
  intro k hk r hf
  unfold nstRecordKeys at hk
  obtain ⟨e, he, rfl⟩ := List.mem_map.1 hk
  rw [mem_sortByKey] at he
  obtain ⟨hmem, hflt⟩ := List.mem_filter.1 he
  have hfind : find? s.sidx e.1 = some e.2 := find?_of_mem _ _ _ hi.ndS (by simpa using hmem)
  obtain ⟨r0, hr0, hk0⟩ := hi.sback _ _ hfind
  rw [hf] at hr0; injection hr0 with hr0; subst hr0
  simp only [decide_eq_true_eq] at hflt
  rw [← hk0] at hflt
  exact hflt

theorem nstDecrease_spec {s s' : L} {st : SID} {a : AID} {x : Int} (hi : RecInv s) (hn : NN s) (hx : x < 0)
    (h : nstDecrease s st a x = .ok s') :
    ∃ cWR cP, NstEff st a s s' cWR cP ∧ NN s' ∧ 0 ≤ cWR ∧ cWR ≤ -x ∧ 0 ≤ cP := by
  unfold nstDecrease at h
  split at h
  · cases h
  · rename_i row hrow
    have hrw : StP row := hn.st ((st, a), row) (find?_mem _ _ _ hrow)
    simp only [] at h
    split at h
    · cases h
    · rename_i s1 h1
      have e1 := updStaker_nstEff (c := if 0 < -x - row.withdrawable then row.withdrawable else -x)
        (by simpa using h1)
      have n1 := (updStaker_nn hn h1).1
      have hi1 : RecInv s1 := recInv_nstRecs hi e1.frame.recs e1.frame.sidx e1.frame.pidx
      split at h
      · cases h
      · rename_i s2 p1 h2
        by_cases hgo : 0 < -x - row.withdrawable
        · simp only [hgo, if_true] at h2 e1
          obtain ⟨c2, e2, n2, c0, ca, cb⟩ := nstSlashRecords_spec st a _ _ _ _ _ n1 hgo
            (nstRecordKeys_own hi1 st a) h2
          have e12 := e1.trans e2
          split at h
          · rename_i hp1
            obtain ⟨c3, e3, n3, hc3⟩ := nstSlashDelegated_spec n2 h
            have := ca hp1
            exact ⟨row.withdrawable + c2 + 0, 0 + 0 + c3, e12.trans e3, n3, by have := hrw.2.1; omega,
              by have := hrw.2.1; omega, by omega⟩
          · rename_i hp1
            injection h with h; subst h
            have := cb (by omega)
            exact ⟨row.withdrawable + c2, 0 + 0, e12, n2, by have := hrw.2.1; omega, by omega, by omega⟩
        · simp only [hgo, if_false] at h2 e1
          injection h2 with h2; injection h2 with ha hb; subst ha; subst hb
          simp only [hgo, if_false] at h
          injection h with h; subst h
          exact ⟨-x, 0, e1, n1, by omega, by omega, by omega⟩

/-- UpdateNSTBalance as a whole: `cWR` leaves withdrawable + pending records, `cP` the pools; a positive
amount is a pure credit; for a decrease the first two buckets give at most what was reported -/
theorem nstUpdate_spec {s s' : L} {st : SID} {a : AID} {x : Int} (hi : RecInv s) (hn : NN s)
    (h : nstUpdate s st a x = .ok s') :
    ∃ cWR cP, NstEff st a s s' cWR cP ∧ NN s' ∧ RecInv s' ∧
      (0 < x → cWR = -x ∧ cP = 0) ∧ (x ≤ 0 → 0 ≤ cWR ∧ cWR ≤ -x ∧ 0 ≤ cP) := by
  unfold nstUpdate at h
  split at h
  · cases h
  · split at h
    · rename_i hx
      have e := updStaker_nstEff (c := -x) (by simpa using h)
      exact ⟨-x, 0, e, (updStaker_nn hn h).1, recInv_nstRecs hi e.frame.recs e.frame.sidx e.frame.pidx,
        fun _ => ⟨rfl, rfl⟩, fun h0 => by omega⟩
    · split at h
      · rename_i hx
        obtain ⟨cWR, cP, e, n, c1, c2, c3⟩ := nstDecrease_spec hi hn hx h
        exact ⟨cWR, cP, e, n, recInv_nstRecs hi e.frame.recs e.frame.sidx e.frame.pidx,
          fun h0 => by omega, fun _ => ⟨c1, c2, c3⟩⟩
      · injection h with h; subst h
        exact ⟨0, 0, NstEff.refl _ _ _, hn, hi, fun h0 => by omega, fun _ => by omega⟩

/-- a decidable sufficient condition for `FreshNonce` on a concrete state -/
theorem freshNonce_of_all {s : L} {n : Nat} (h : (s.recs.all fun e => e.2.nonce != n) = true) : FreshNonce s n := by
  intro k r hf
  have := List.all_eq_true.1 h (k, r) (find?_mem _ _ _ hf)
  simpa using this

/-! ## order of the phases: the pools are reached only after the first two buckets are empty -/

/-- the staker's WithdrawableAmount of the asset (0 when there is no row) -/
def wdOf (s : L) (st : SID) (a : AID) : Int := (getD s.stakers (st, a) zeroStaker).withdrawable

theorem updStaker_wdOf {s s' : L} {st : SID} {a : AID} {dT dW : Int} (h : updStaker s st a dT dW 0 = .ok s') :
    wdOf s' st a = wdOf s st a + dW := by
  rw [updStaker_ok h]; unfold wdOf; simp only [getD_set_same]

/-- a record that owes nothing keeps owing nothing along an adjustment -/
theorem NstRecs.zero_stays {st : SID} {a : AID} {recs recs' : List (RecKey × URec)} (h : NstRecs st a recs recs')
    {k : RecKey} (h0 : ∀ r, find? recs k = some r → r.actual = 0) :
    ∀ r', find? recs' k = some r' → r'.actual = 0 := by
  intro r' hf
  obtain ⟨r, x, hr, he, l, n, _⟩ := h.back hf
  have := h0 r hr
  subst he
  have := n (by omega)
  show x = 0
  omega

theorem nstSlashRecords_exhaust (st : SID) (a : AID) (ks : List RecKey) :
    ∀ (s : L) (p : Int) (s' : L) (p' : Int), NN s → 0 < p →
      (∀ k ∈ ks, ∀ r, find? s.recs k = some r → r.staker = st ∧ r.asset = a) →
      nstSlashRecords st a ks s p = .ok (s', p') →
      wdOf s' st a = wdOf s st a ∧
      (0 < p' → ∀ k ∈ ks, ∀ r', find? s'.recs k = some r' → r'.actual = 0) := by
  induction ks with
  | nil =>
    intro s p s' p' hn hp _ h
    unfold nstSlashRecords at h
    injection h with h; injection h with h1 h2; subst h1
    exact ⟨rfl, fun _ k hk => by cases hk⟩
  | cons k ks ih =>
    intro s p s' p' hn hp hown h
    have hspec := nstSlashRecords_spec st a (k :: ks) s p s' p' hn hp hown h
    unfold nstSlashRecords at h
    split at h
    · cases h
    · rename_i r hf
      have hr := hown k (by simp) r hf
      have hrc := hn.rc (k, r) (find?_mem _ _ _ hf)
      simp only [] at hrc
      simp only [] at h
      split at h
      · cases h
      · rename_i s1 h1
        have w1 : wdOf s1 st a = wdOf s st a := by have := updStaker_wdOf h1; omega
        by_cases hgo : 0 < p - r.actual
        · simp only [hgo, if_true] at h h1
          obtain ⟨e1, n1⟩ := nstRecordStep hn hf hr hrc.1 (Int.le_refl _) h1
          have hown' : ∀ k' ∈ ks, ∀ r', find? (KV.set s1.recs k { r with actual := r.actual - r.actual }) k' = some r' →
              r'.staker = st ∧ r'.asset = a := by
            intro k' hk' r' hf'
            obtain ⟨r0, x, hf0, he, _⟩ := e1.frame.recs.back hf'
            have := hown k' (by simp [hk']) r0 hf0
            subst he; exact this
          obtain ⟨c2, e2, _⟩ := nstSlashRecords_spec st a ks _ _ _ _ n1 hgo hown' h
          obtain ⟨w2, z2⟩ := ih _ _ _ _ n1 hgo hown' h
          refine ⟨by rw [w2]; exact w1, fun hp' k' hk' => ?_⟩
          rcases List.mem_cons.1 hk' with e | e
          · subst e
            refine e2.frame.recs.zero_stays (fun r0 hr0 => ?_)
            have : find? (KV.set s1.recs k' { r with actual := r.actual - r.actual }) k' = some { r with actual := r.actual - r.actual } := find?_set_same _ _ _
            rw [this] at hr0; injection hr0 with hr0; subst hr0
            show r.actual - r.actual = 0
            omega
          · exact z2 hp' k' e
        · simp only [hgo, if_false] at h h1
          injection h with h; injection h with ha hb; subst ha; subst hb
          exact ⟨w1, fun hp' => by omega⟩

theorem nstSlashShares_wdOf (st : SID) (a : AID) (prop : Dec) (es : List ((SID × AID × OID) × DelegRow)) :
    ∀ (s : L) (p : Int) (s' : L) (p' : Int), nstSlashShares st a prop es s p = .ok (s', p') →
      wdOf s' st a = wdOf s st a := by
  induction es with
  | nil =>
    intro s p s' p' h
    unfold nstSlashShares at h
    injection h with h; injection h with h1 h2; subst h1; rfl
  | cons e es ih =>
    intro s p s' p' h
    unfold nstSlashShares at h
    split at h
    · cases h
    · rename_i s1 actual h1
      split at h
      · cases h
      · rename_i s2 h2
        have hc := removeShare_false_core h1
        have hst : s1.stakers = s.stakers := by unfold nstCore at hc; injection hc
        have w2 := updStaker_wdOf h2
        rw [ih _ _ _ _ h, w2]; unfold wdOf; rw [hst]; omega

/-- if an accepted decrease takes anything out of the operator pools, the staker's withdrawable balance is
empty and every pending undelegation reachable through its index owes nothing any more -/
theorem nstDecrease_order {s s' : L} {st : SID} {a : AID} {x : Int} (hi : RecInv s) (hn : NN s)
    (h : nstDecrease s st a x = .ok s') (hp : plAt s' a ≠ plAt s a) :
    wdOf s' st a = 0 ∧ ∀ k ∈ nstRecordKeys s st a, ∀ r', find? s'.recs k = some r' → r'.actual = 0 := by
  unfold nstDecrease at h
  split at h
  · cases h
  · rename_i row hrow
    have hrw : StP row := hn.st ((st, a), row) (find?_mem _ _ _ hrow)
    have hw0 : wdOf s st a = row.withdrawable := by unfold wdOf getD; rw [hrow]; rfl
    simp only [] at h
    split at h
    · cases h
    · rename_i s1 h1
      have e1 := updStaker_nstEff (c := if 0 < -x - row.withdrawable then row.withdrawable else -x)
        (by simpa using h1)
      have n1 := (updStaker_nn hn h1).1
      have hi1 : RecInv s1 := recInv_nstRecs hi e1.frame.recs e1.frame.sidx e1.frame.pidx
      have hkeys : nstRecordKeys s1 st a = nstRecordKeys s st a := by unfold nstRecordKeys; rw [e1.frame.sidx]
      have w1 := updStaker_wdOf h1
      split at h
      · cases h
      · rename_i s2 p1 h2
        by_cases hgo : 0 < -x - row.withdrawable
        · simp only [hgo, if_true] at h2 e1 w1
          obtain ⟨c2, e2, n2, _⟩ := nstSlashRecords_spec st a _ _ _ _ _ n1 hgo (nstRecordKeys_own hi1 st a) h2
          obtain ⟨w2, z2⟩ := nstSlashRecords_exhaust st a _ _ _ _ _ n1 hgo (nstRecordKeys_own hi1 st a) h2
          split at h
          · rename_i hp1
            obtain ⟨c3, e3, _⟩ := nstSlashDelegated_spec n2 h
            have w3 : wdOf s' st a = wdOf s2 st a := by
              unfold nstSlashDelegated at h
              simp only [] at h
              split at h
              · cases h
              · split at h
                · injection h with h; subst h; rfl
                · split at h
                  · cases h
                  · rename_i s3 p3 h3
                    injection h with h; subst h
                    exact nstSlashShares_wdOf st a _ _ _ _ _ _ h3
            refine ⟨by rw [w3, w2, w1, hw0]; omega, fun k hk => ?_⟩
            rw [← hkeys] at hk
            exact e3.frame.recs.zero_stays (z2 hp1 k hk)
          · injection h with h; subst h
            have := (e1.trans e2).pl a
            simp only [if_true] at this
            omega
        · simp only [hgo, if_false] at h2 e1
          injection h2 with h2; injection h2 with ha hb; subst ha; subst hb
          simp only [hgo, if_false] at h
          injection h with h; subst h
          have := e1.pl a
          simp only [if_true] at this
          omega

end ExoVerif.Ledger
