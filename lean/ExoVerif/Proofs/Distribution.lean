import ExoVerif.Model.Distribution
import ExoVerif.Proofs.Epochs
/-! Helper lemmas for C17: what each loop of allocation.go does to the sums of the books. -/
namespace ExoVerif.Distr
open ExoVerif ExoVerif.KV

theorem getD_eq_at0 (b : Book) (k : String) : getD b k 0 = at0 (fun x => x) b k := by
  unfold getD at0; cases find? b k <;> rfl

theorem bookSum_bookAdd (b : Book) (k : String) (x : Int) : bookSum (bookAdd b k x) = bookSum b + x := by
  unfold bookSum bookAdd; rw [sumBy_set, getD_eq_at0]; omega

theorem getD_bookAdd_same (b : Book) (k : String) (x : Int) : getD (bookAdd b k x) k 0 = getD b k 0 + x := by
  unfold bookAdd; rw [getD_set_same]

theorem getD_bookAdd_other (b : Book) (k k2 : String) (x : Int) (h : k2 ≠ k) :
    getD (bookAdd b k x) k2 0 = getD b k2 0 := by
  unfold bookAdd; rw [getD_set_other _ _ _ _ _ h]

/-- the staker loop moves amounts from `remaining` to the staker book, one for one -/
theorem stakerLoop_sum (total R : Int) :
    ∀ (l : List (String × Int)) (rw : Book) (rem : Int) (rw' : Book) (rem' : Int),
      stakerLoop total R l rw rem = some (rw', rem') →
      bookSum rw' + rem' = bookSum rw + rem ∧ (0 ≤ rem → 0 ≤ rem') := by
  intro l
  induction l with
  | nil =>
    intro rw rem rw' rem' h
    simp only [stakerLoop, Option.some.injEq, Prod.mk.injEq] at h
    obtain ⟨h1, h2⟩ := h; subst h1; subst h2; exact ⟨rfl, fun h => h⟩
  | cons o rest ih =>
    intro rw rem rw' rem' h
    obtain ⟨s, p⟩ := o
    simp only [stakerLoop] at h
    split at h
    · cases h
    · rename_i hneg
      obtain ⟨h1, h2⟩ := ih _ _ _ _ h
      rw [bookSum_bookAdd] at h1
      exact ⟨by omega, fun _ => h2 (by omega)⟩

/-- AllocateTokensToStakers: community pool + staker book grow by exactly `R` -/
theorem allocStakers_spec (rw : Book) (c : Int) (occ : List (String × Int)) (R : Int) (rw' : Book) (c' : Int)
    (h : allocStakers rw c occ R = some (rw', c')) :
    c' + bookSum rw' = c + bookSum rw + R ∧ (0 ≤ R → c ≤ c') := by
  unfold allocStakers at h
  simp only [] at h
  split at h
  · split at h
    · cases h
    · rename_i rw2 rem2 heq
      simp only [Option.some.injEq, Prod.mk.injEq] at h
      obtain ⟨h1, h2⟩ := h; subst h1; subst h2
      obtain ⟨e1, e2⟩ := stakerLoop_sum _ _ _ _ _ _ _ heq
      exact ⟨by omega, fun hR => by have := e2 hR; omega⟩
  · simp only [Option.some.injEq, Prod.mk.injEq] at h
    obtain ⟨h1, h2⟩ := h; subst h1; subst h2
    exact ⟨by omega, fun hR => by omega⟩

/-- community + commissions, the part of the claims that is not staker rewards -/
def nonStaker (p : Pool) : Int := p.community + bookSum p.commission

/-- AllocateTokensToValidator: the claims grow by exactly the validator's portion -/
theorem allocValidator_spec (p : Pool) (v : ValIn) (tokens : Int) (p' : Pool)
    (h : allocValidator p v tokens = some p') :
    claims p' = claims p + tokens ∧
    bookSum p'.outstanding = bookSum p.outstanding + tokens ∧
    getD p'.outstanding v.op 0 = getD p.outstanding v.op 0 + tokens ∧
    getD p'.commission v.op 0 = getD p.commission v.op 0 + (Dec.mul ⟨tokens⟩ ⟨v.rate⟩).raw := by
  unfold allocValidator allocValidatorWith at h
  simp only [] at h
  split at h
  · cases h
  · split at h
    · cases h
    · rename_i rw comm heq
      simp only [Option.some.injEq] at h
      subst h
      obtain ⟨e1, _⟩ := allocStakers_spec _ _ _ _ _ _ heq
      refine ⟨?_, ?_, ?_, ?_⟩
      · simp only [claims, bookSum_bookAdd]; omega
      · simp only [bookSum_bookAdd]
      · simp only [getD_bookAdd_same]
      · simp only [getD_bookAdd_same]

/-- the validator loop: `claims + remaining` is constant; the outstanding book grows by what
left `remaining` -/
theorem valLoop_spec (fm total : Int) :
    ∀ (vals : List ValIn) (p : Pool) (rem : Int) (p' : Pool) (rem' : Int),
      valLoop fm total vals p rem = some (p', rem') →
      claims p' + rem' = claims p + rem ∧
      bookSum p'.outstanding + rem' = bookSum p.outstanding + rem ∧ (0 ≤ rem → 0 ≤ rem') := by
  intro vals
  induction vals with
  | nil =>
    intro p rem p' rem' h
    simp only [valLoop, valLoopWith, Option.some.injEq, Prod.mk.injEq] at h
    obtain ⟨h1, h2⟩ := h; subst h1; subst h2; exact ⟨rfl, rfl, fun h => h⟩
  | cons v rest ih =>
    intro p rem p' rem' h
    simp only [valLoop, valLoopWith] at h
    split at h
    · exact ih _ _ _ _ h
    · split at h
      · cases h
      · rename_i p1 heq
        split at h
        · cases h
        · obtain ⟨e1, e2, _⟩ := allocValidator_spec _ _ _ _ heq
          obtain ⟨i1, i2, i3⟩ := ih _ _ _ _ h
          exact ⟨by omega, by omega, fun _ => i3 (by omega)⟩

/-- the mint hook never touches the claims or the distribution account -/
theorem mintHook_pool (s : St) (r : Int) : (mintHook s r).pool = s.pool ∧ (mintHook s r).distr = s.distr := by
  unfold mintHook; split <;> exact ⟨rfl, rfl⟩

theorem mintHook_supply (s : St) (r : Int) : (mintHook s r).supply = s.supply + r := by
  unfold mintHook; split
  · rename_i h; simp at h; subst h; simp
  · rfl

theorem mintHook_accounts (s : St) (r : Int) :
    (mintHook s r).mint = s.mint ∧ (mintHook s r).fc = s.fc + r := by
  unfold mintHook; split
  · rename_i h; simp at h; subst h; simp
  · simp


/-! ## arithmetic of the truncated shares -/

/-- ⌊R·⌊⌊p·P²/T⌋/P⌋/P⌋ · T ≤ R·p -/
theorem frac_chain (P R p T : Int) (hP : 0 < P) (hR : 0 ≤ R) (hT : 0 < T) :
    (R * ((p * (P * P)) / T / P)) / P * T ≤ R * p := by
  have hx := Int.ediv_mul_le (p * (P * P)) (Int.ne_of_gt hT)
  have hq := Int.ediv_mul_le ((p * (P * P)) / T) (Int.ne_of_gt hP)
  have hr := Int.ediv_mul_le (R * ((p * (P * P)) / T / P)) (Int.ne_of_gt hP)
  generalize (p * (P * P)) / T = x at *
  generalize x / P = q at *
  generalize (R * q) / P = r at *
  have h1 : q * T ≤ p * P := by
    have a : q * P * T ≤ p * (P * P) := Int.le_trans (Int.mul_le_mul_of_nonneg_right hq (Int.le_of_lt hT)) hx
    have e1 : q * P * T = (q * T) * P := by simp only [Int.mul_assoc, Int.mul_comm, Int.mul_left_comm]
    have e2 : p * (P * P) = (p * P) * P := by simp only [Int.mul_assoc]
    rw [e1, e2] at a
    exact Int.le_of_mul_le_mul_right a hP
  have h3 : r * T * P ≤ R * p * P := by
    have a : r * P * T ≤ R * q * T := Int.mul_le_mul_of_nonneg_right hr (Int.le_of_lt hT)
    have b : R * (q * T) ≤ R * (p * P) := Int.mul_le_mul_of_nonneg_left h1 hR
    have e1 : r * T * P = r * P * T := by simp only [Int.mul_assoc, Int.mul_comm, Int.mul_left_comm]
    have e2 : R * q * T = R * (q * T) := by simp only [Int.mul_assoc]
    have e3 : R * p * P = R * (p * P) := by simp only [Int.mul_assoc]
    rw [e1, e3]; rw [e2] at a; exact Int.le_trans a b
  exact Int.le_of_mul_le_mul_right h3 hP

/-- R·p < (⌊R·⌊⌊p·P²/T⌋/P⌋/P⌋ + 1)·T + R·T/P, stated without division:
    R·p·P < (r·P + P + R)·T  — the truncated share is within one unit plus R/P of the exact one -/
theorem frac_chain_lower (P R p T : Int) (hP : 0 < P) (hR : 0 ≤ R) (hT : 0 < T) :
    R * p * P < ((R * ((p * (P * P)) / T / P)) / P * P + P + R) * T := by
  have hx := Int.lt_ediv_add_one_mul_self (p * (P * P)) hT
  have hq := Int.lt_ediv_add_one_mul_self ((p * (P * P)) / T) hP
  have hr := Int.lt_ediv_add_one_mul_self (R * ((p * (P * P)) / T / P)) hP
  generalize (p * (P * P)) / T = x at *
  generalize x / P = q at *
  generalize (R * q) / P = r at *
  -- p·P < (q+1)·T
  have h1 : p * P < (q + 1) * T := by
    have a : x + 1 ≤ (q + 1) * P := hq
    have b : (x + 1) * T ≤ (q + 1) * P * T := Int.mul_le_mul_of_nonneg_right a (Int.le_of_lt hT)
    have c : p * (P * P) < (q + 1) * P * T := Int.lt_of_lt_of_le hx b
    have e1 : p * (P * P) = (p * P) * P := by simp only [Int.mul_assoc]
    have e2 : (q + 1) * P * T = ((q + 1) * T) * P := by simp only [Int.mul_assoc, Int.mul_comm, Int.mul_left_comm]
    rw [e1, e2] at c
    exact Int.lt_of_mul_lt_mul_right c (Int.le_of_lt hP)
  -- R·p·P ≤ R·(q+1)·T = (R·q + R)·T < ((r+1)·P + R)·T
  have h2 : R * (p * P) ≤ R * ((q + 1) * T) := Int.mul_le_mul_of_nonneg_left (Int.le_of_lt h1) hR
  have h3 : (R * q + R) * T < ((r + 1) * P + R) * T :=
    Int.mul_lt_mul_of_pos_right (by omega) hT
  have e1 : R * p * P = R * (p * P) := by simp only [Int.mul_assoc]
  have e2 : R * ((q + 1) * T) = (R * q + R) * T := by rw [← Int.mul_assoc, Int.mul_add, Int.mul_one]
  have e3 : (r * P + P + R) = ((r + 1) * P + R) := by rw [Int.add_mul, Int.one_mul]
  rw [e1, e3]; rw [e2] at h2
  exact Int.lt_of_le_of_lt h2 h3

/-- the share of one staker -/
def stakerReward (R p total : Int) : Int := (Dec.mulTruncate ⟨R⟩ (Dec.quoTruncate ⟨p⟩ ⟨total⟩)).raw

theorem stakerReward_eq (R p total : Int) (hR : 0 ≤ R) (hp : 0 ≤ p) (ht : 0 < total) :
    stakerReward R p total = (R * ((p * (PREC * PREC)) / total / PREC)) / PREC := by
  have hP := PREC_pos
  have hA : 0 ≤ p * (PREC * PREC) := Int.mul_nonneg hp (Int.le_of_lt (Int.mul_pos hP hP))
  have hx : 0 ≤ (p * (PREC * PREC)) / total := Int.ediv_nonneg hA (Int.le_of_lt ht)
  have hq : 0 ≤ (p * (PREC * PREC)) / total / PREC := Int.ediv_nonneg hx (Int.le_of_lt hP)
  simp only [stakerReward, Dec.mulTruncate, Dec.quoTruncate, Dec.chopTrunc]
  rw [Int.tdiv_eq_ediv_of_nonneg hA, Int.tdiv_eq_ediv_of_nonneg hx, Int.tdiv_eq_ediv_of_nonneg (Int.mul_nonneg hR hq)]

theorem stakerReward_bounds (R p total : Int) (hR : 0 ≤ R) (hp : 0 ≤ p) (ht : 0 < total) :
    0 ≤ stakerReward R p total ∧ stakerReward R p total * total ≤ R * p := by
  have hP := PREC_pos
  have hA : 0 ≤ p * (PREC * PREC) := Int.mul_nonneg hp (Int.le_of_lt (Int.mul_pos hP hP))
  have hx : 0 ≤ (p * (PREC * PREC)) / total := Int.ediv_nonneg hA (Int.le_of_lt ht)
  have hq : 0 ≤ (p * (PREC * PREC)) / total / PREC := Int.ediv_nonneg hx (Int.le_of_lt hP)
  rw [stakerReward_eq R p total hR hp ht]
  exact ⟨Int.ediv_nonneg (Int.mul_nonneg hR hq) (Int.le_of_lt hP), frac_chain PREC R p total hP hR ht⟩

/-- valReward is the staker formula on whole-number powers -/
theorem valReward_eq_stakerReward (fm total power : Int) :
    valReward fm total power = stakerReward fm (power * PREC) (total * PREC) := rfl

/-! ## no panic -/

def AllNonneg (m : Book) : Prop := ∀ e ∈ m, 0 ≤ e.2

theorem getD_nonneg (m : Book) (k : String) (h : AllNonneg m) : 0 ≤ getD m k 0 := by
  unfold getD
  cases hf : find? m k with
  | none => simp
  | some v => exact h (k, v) (find?_mem m k v hf)

theorem set_allNonneg (m : Book) (k : String) (v : Int) (h : AllNonneg m) (hv : 0 ≤ v) : AllNonneg (KV.set m k v) := by
  induction m with
  | nil => intro e he; simp only [KV.set, List.mem_singleton] at he; subst he; exact hv
  | cons q rest ih =>
    obtain ⟨k', v'⟩ := q
    have hrest : AllNonneg rest := fun e he => h e (by simp [he])
    by_cases hk : k' = k
    · intro e he
      rw [show KV.set ((k', v') :: rest) k v = (k, v) :: rest by simp [KV.set, hk]] at he
      simp only [List.mem_cons] at he
      rcases he with he | he
      · subst he; exact hv
      · exact hrest e he
    · intro e he
      rw [show KV.set ((k', v') :: rest) k v = (k', v') :: KV.set rest k v by simp [KV.set, hk]] at he
      simp only [List.mem_cons] at he
      rcases he with he | he
      · subst he; exact h (k', v') (by simp)
      · exact ih hrest e he

theorem powerAcc_nonneg : ∀ (occ : List (String × Int)) (m : Book), AllNonneg m → (∀ o ∈ occ, 0 ≤ o.2) →
    AllNonneg (powerAcc occ m) := by
  intro occ
  induction occ with
  | nil => intro m hm _; exact hm
  | cons o rest ih =>
    intro m hm ho
    obtain ⟨s, p⟩ := o
    simp only [powerAcc]
    apply ih
    · unfold bookAdd
      exact set_allNonneg m s _ hm (by have := getD_nonneg m s hm; have := ho (s, p) (by simp); simp at this; omega)
    · intro o' ho'; exact ho o' (by simp [ho'])

theorem powerAcc_sum : ∀ (occ : List (String × Int)) (m : Book), bookSum (powerAcc occ m) = bookSum m + occTotal occ := by
  intro occ
  induction occ with
  | nil => intro m; simp [powerAcc, occTotal]
  | cons o rest ih =>
    intro m
    obtain ⟨s, p⟩ := o
    simp only [powerAcc, occTotal, ih, bookSum_bookAdd]; omega

theorem bookSum_cons (k : String) (v : Int) (rest : Book) : bookSum ((k, v) :: rest) = v + bookSum rest := rfl

theorem bookSum_nonneg (m : Book) (h : AllNonneg m) : 0 ≤ bookSum m :=
  sumBy_nonneg (fun x => x) m h

/-- the pay-out loop cannot overdraw `remaining`: R·(powers still to pay) ≤ remaining·total is
an invariant -/
theorem stakerLoop_some (total R : Int) (hR : 0 ≤ R) (ht : 0 < total) :
    ∀ (l : List (String × Int)) (rw : Book) (rem : Int), AllNonneg l → R * bookSum l ≤ rem * total →
      (stakerLoop total R l rw rem).isSome = true := by
  intro l
  induction l with
  | nil => intro rw rem _ _; simp [stakerLoop]
  | cons o rest ih =>
    intro rw rem hl hinv
    obtain ⟨s, p⟩ := o
    have hp : 0 ≤ p := hl (s, p) (by simp)
    have hrest : AllNonneg rest := fun e he => hl e (by simp [he])
    obtain ⟨_, hb⟩ := stakerReward_bounds R p total hR hp ht
    have hsum := bookSum_nonneg rest hrest
    rw [bookSum_cons, Int.mul_add] at hinv
    have hnew : R * bookSum rest ≤ (rem - stakerReward R p total) * total := by
      rw [Int.sub_mul]; omega
    have hge : 0 ≤ rem - stakerReward R p total := by
      have h0 : 0 * total ≤ (rem - stakerReward R p total) * total := by
        have := Int.mul_nonneg hR hsum; omega
      exact Int.le_of_mul_le_mul_right h0 ht
    simp only [stakerLoop]
    have : ¬ (rem - (Dec.mulTruncate ⟨R⟩ (Dec.quoTruncate ⟨p⟩ ⟨total⟩)).raw < 0) := by
      have e : (Dec.mulTruncate ⟨R⟩ (Dec.quoTruncate ⟨p⟩ ⟨total⟩)).raw = stakerReward R p total := rfl
      rw [e]; omega
    rw [if_neg this]
    exact ih _ _ hrest hnew

theorem allocStakers_some (rw : Book) (c : Int) (occ : List (String × Int)) (R : Int) (hR : 0 ≤ R)
    (ho : ∀ o ∈ occ, 0 ≤ o.2) : (allocStakers rw c occ R).isSome = true := by
  unfold allocStakers
  simp only []
  split
  · rename_i ht
    have hnn := powerAcc_nonneg occ [] (fun e he => by simp at he) ho
    have hs : bookSum (powerAcc occ []) = occTotal occ := by
      rw [powerAcc_sum]; simp [bookSum, sumBy]
    have h := stakerLoop_some (occTotal occ) R hR ht (powerAcc occ []) rw R hnn (by rw [hs]; exact Int.le_refl _)
    cases hh : stakerLoop (occTotal occ) R (powerAcc occ []) rw R with
    | none => rw [hh] at h; simp at h
    | some x => rfl
  · rfl

/-- round(tokens × rate) ≤ tokens for a rate in [0,1] -/
theorem commission_le (tokens rate : Int) (ht : 0 ≤ tokens) (hr0 : 0 ≤ rate) (hr1 : rate ≤ PREC) :
    (Dec.mul ⟨tokens⟩ ⟨rate⟩).raw ≤ tokens := by
  have hd0 : 0 ≤ tokens * rate := Int.mul_nonneg ht hr0
  have hd1 : tokens * rate ≤ tokens * PREC := Int.mul_le_mul_of_nonneg_left hr1 ht
  simp only [Dec.mul]
  generalize tokens * rate = d at *
  have hP : PREC = 1000000000000000000 := rfl
  rw [hP] at hd1
  unfold Dec.chopRound Dec.chopRoundNonneg
  rw [if_neg (by omega)]
  simp only [hP]
  rw [Int.tdiv_eq_ediv_of_nonneg hd0, Int.tmod_eq_emod_of_nonneg hd0]
  split
  · omega
  · split
    · omega
    · split
      · omega
      · split <;> omega

/-- validator portion: non-negative, at most the exact proportional share, and short of it by
less than one raw unit plus fm/10^18 -/
theorem valReward_bounds (fm total power : Int) (hfm : 0 ≤ fm) (hp : 0 ≤ power) (ht : 0 < total) :
    0 ≤ valReward fm total power ∧ valReward fm total power * total ≤ fm * power ∧
    fm * power * PREC < (valReward fm total power * PREC + PREC + fm) * total := by
  have hP := PREC_pos
  have hpP : 0 ≤ power * PREC := Int.mul_nonneg hp (Int.le_of_lt hP)
  have htP : 0 < total * PREC := Int.mul_pos ht hP
  rw [valReward_eq_stakerReward]
  obtain ⟨b0, b1⟩ := stakerReward_bounds fm (power * PREC) (total * PREC) hfm hpP htP
  have low := frac_chain_lower PREC fm (power * PREC) (total * PREC) hP hfm htP
  rw [← stakerReward_eq fm (power * PREC) (total * PREC) hfm hpP htP] at low
  generalize stakerReward fm (power * PREC) (total * PREC) = r at *
  refine ⟨b0, ?_, ?_⟩
  · have e1 : r * (total * PREC) = (r * total) * PREC := by simp only [Int.mul_assoc]
    have e2 : fm * (power * PREC) = (fm * power) * PREC := by simp only [Int.mul_assoc]
    rw [e1, e2] at b1
    exact Int.le_of_mul_le_mul_right b1 hP
  · have e1 : fm * (power * PREC) * PREC = (fm * power * PREC) * PREC := by simp only [Int.mul_assoc]
    have e2 : (r * PREC + PREC + fm) * (total * PREC) = ((r * PREC + PREC + fm) * total) * PREC := by
      simp only [Int.mul_assoc]
    rw [e1, e2] at low
    exact Int.lt_of_mul_lt_mul_right low (Int.le_of_lt hP)

theorem allocValidator_some (p : Pool) (v : ValIn) (tokens : Int) (ht : 0 ≤ tokens)
    (hr0 : 0 ≤ v.rate) (hr1 : v.rate ≤ PREC) (ho : ∀ o ∈ v.stakers, 0 ≤ o.2) :
    (allocValidator p v tokens).isSome = true := by
  unfold allocValidator allocValidatorWith
  simp only []
  have hc := commission_le tokens v.rate ht hr0 hr1
  rw [if_neg (by omega)]
  have h := allocStakers_some p.rewards p.community v.stakers (tokens - (Dec.mul ⟨tokens⟩ ⟨v.rate⟩).raw) (by omega) ho
  cases hh : allocStakers p.rewards p.community v.stakers (tokens - (Dec.mul ⟨tokens⟩ ⟨v.rate⟩).raw) with
  | none => rw [hh] at h; simp at h
  | some x => rfl

/-- Σ power over the validators that are found -/
def foundPower : List ValIn → Int
  | [] => 0
  | v :: rest => (if v.found then v.power else 0) + foundPower rest

def SaneVal (v : ValIn) : Prop :=
  0 ≤ v.power ∧ 0 ≤ v.rate ∧ v.rate ≤ PREC ∧ ∀ o ∈ v.stakers, 0 ≤ o.2

theorem foundPower_nonneg (vals : List ValIn) (h : ∀ v ∈ vals, SaneVal v) : 0 ≤ foundPower vals := by
  induction vals with
  | nil => simp [foundPower]
  | cons v rest ih =>
    have := ih (fun x hx => h x (by simp [hx]))
    have hv := (h v (by simp)).1
    simp only [foundPower]; split <;> omega

theorem valLoop_some (fm total : Int) (hfm : 0 ≤ fm) (ht : 0 < total) :
    ∀ (vals : List ValIn) (p : Pool) (rem : Int), (∀ v ∈ vals, SaneVal v) →
      fm * foundPower vals ≤ rem * total → (valLoop fm total vals p rem).isSome = true := by
  intro vals
  induction vals with
  | nil => intro p rem _ _; simp [valLoop, valLoopWith]
  | cons v rest ih =>
    intro p rem hs hinv
    have hrest : ∀ x ∈ rest, SaneVal x := fun x hx => hs x (by simp [hx])
    obtain ⟨hp, hr0, hr1, ho⟩ := hs v (by simp)
    simp only [valLoop, valLoopWith]
    by_cases hf : v.found = true
    · simp only [hf, Bool.not_true, Bool.false_eq_true, if_false]
      obtain ⟨b0, b1, _⟩ := valReward_bounds fm total v.power hfm hp ht
      have hv := allocValidator_some p v (valReward fm total v.power) b0 hr0 hr1 ho
      simp only [allocValidator] at hv
      cases hh : allocValidatorWith allocStakers p v (valReward fm total v.power) with
      | none => rw [hh] at hv; simp at hv
      | some p1 =>
        simp only []
        simp only [foundPower, hf, if_true, Int.mul_add] at hinv
        have hfp := foundPower_nonneg rest hrest
        have hnew : fm * foundPower rest ≤ (rem - valReward fm total v.power) * total := by
          rw [Int.sub_mul]; omega
        have hge : 0 ≤ rem - valReward fm total v.power := by
          have h0 : 0 * total ≤ (rem - valReward fm total v.power) * total := by
            have := Int.mul_nonneg hfm hfp; omega
          exact Int.le_of_mul_le_mul_right h0 ht
        rw [if_neg (by omega)]
        exact ih p1 _ hrest hnew
    · have hf' : v.found = false := by cases h : v.found <;> simp_all
      simp only [hf', Bool.not_false, if_true]
      simp only [foundPower, hf', Bool.false_eq_true, if_false, Int.zero_add] at hinv
      exact ih p rem hrest hinv

theorem feeMultiplier_bounds (feesDec tax : Int) (hf : 0 ≤ feesDec) (h0 : 0 ≤ tax) (h1 : tax ≤ PREC) :
    0 ≤ feeMultiplier feesDec tax ∧ feeMultiplier feesDec tax ≤ feesDec := by
  have hP := PREC_pos
  have hm : 0 ≤ feesDec * (PREC - tax) := Int.mul_nonneg hf (by omega)
  have e : feeMultiplier feesDec tax = (feesDec * (PREC - tax)) / PREC := by
    simp only [feeMultiplier, Dec.mulTruncate, Dec.sub, Dec.one, Dec.chopTrunc]
    rw [Int.tdiv_eq_ediv_of_nonneg hm]
  rw [e]
  refine ⟨Int.ediv_nonneg hm (Int.le_of_lt hP), ?_⟩
  apply Int.ediv_le_of_le_mul hP
  exact Int.mul_le_mul_of_nonneg_left (by omega) hf

end ExoVerif.Distr
