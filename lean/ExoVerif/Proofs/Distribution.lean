import ExoVerif.Model.Distribution
import ExoVerif.Proofs.Epochs
/-! Helper lemmas for C17: what each loop of allocation.go does to the sums of the books. -/
namespace ExoVerif.Distr
open ExoVerif ExoVerif.KV

theorem getD_eq_at0 (b : Book) (k : String) : getD b k 0 = at0 (fun x => x) b k := by
  unfold getD at0; cases find? b k <;> rfl

theorem bookSum_bookAdd (b : Book) (k : String) (x : Int) : bookSum (bookAdd b k x) = bookSum b + x := by
  unfold bookSum bookAdd; rw [sumBy_set, getD_eq_at0]; omega

theorem getD_bookAdd_same (b : Book) (k : String) (x : Int) : getD (bookAdd b k x) k 0 = getD b k 0 + x := by
  unfold bookAdd; rw [getD_set_same]

theorem getD_bookAdd_other (b : Book) (k k2 : String) (x : Int) (h : k2 ≠ k) :
    getD (bookAdd b k x) k2 0 = getD b k2 0 := by
  unfold bookAdd; rw [getD_set_other _ _ _ _ _ h]

/-- the staker loop moves amounts from `remaining` to the staker book, one for one -/
theorem stakerLoop_sum (pm : Book) (total R : Int) :
    ∀ (occ : List (String × Int)) (rw : Book) (rem : Int) (rw' : Book) (rem' : Int),
      stakerLoop pm total R occ rw rem = some (rw', rem') →
      bookSum rw' + rem' = bookSum rw + rem ∧ (0 ≤ rem → 0 ≤ rem') := by
  intro occ
  induction occ with
  | nil =>
    intro rw rem rw' rem' h
    simp only [stakerLoop, Option.some.injEq, Prod.mk.injEq] at h
    obtain ⟨h1, h2⟩ := h; subst h1; subst h2; exact ⟨rfl, fun h => h⟩
  | cons o rest ih =>
    intro rw rem rw' rem' h
    obtain ⟨s, p⟩ := o
    simp only [stakerLoop] at h
    split at h
    · cases h
    · rename_i hneg
      obtain ⟨h1, h2⟩ := ih _ _ _ _ h
      rw [bookSum_bookAdd] at h1
      exact ⟨by omega, fun _ => h2 (by omega)⟩

/-- AllocateTokensToStakers as it is: the community pool receives ALL of `R`, and the staker book
receives `R - rem` on top of that. -/
theorem allocStakers_spec (rw : Book) (c : Int) (occ : List (String × Int)) (R : Int) (rw' : Book) (c' : Int)
    (h : allocStakers rw c occ R = some (rw', c')) :
    c' = c + R ∧ ∃ rem, bookSum rw' + rem = bookSum rw + R ∧ (0 ≤ R → 0 ≤ rem) := by
  unfold allocStakers at h
  simp only [] at h
  split at h
  · split at h
    · cases h
    · rename_i rw2 rem2 heq
      simp only [Option.some.injEq, Prod.mk.injEq] at h
      obtain ⟨h1, h2⟩ := h; subst h1; subst h2
      obtain ⟨e1, e2⟩ := stakerLoop_sum _ _ _ _ _ _ _ _ heq
      exact ⟨rfl, rem2, e1, e2⟩
  · simp only [Option.some.injEq, Prod.mk.injEq] at h
    obtain ⟨h1, h2⟩ := h; subst h1; subst h2
    exact ⟨rfl, R, rfl, fun h => h⟩

/-- the repaired variant books `remaining` -/
theorem allocStakersFixed_spec (rw : Book) (c : Int) (occ : List (String × Int)) (R : Int) (rw' : Book) (c' : Int)
    (h : allocStakersFixed rw c occ R = some (rw', c')) :
    c' + bookSum rw' = c + bookSum rw + R := by
  unfold allocStakersFixed at h
  simp only [] at h
  split at h
  · split at h
    · cases h
    · rename_i rw2 rem2 heq
      simp only [Option.some.injEq, Prod.mk.injEq] at h
      obtain ⟨h1, h2⟩ := h; subst h1; subst h2
      obtain ⟨e1, _⟩ := stakerLoop_sum _ _ _ _ _ _ _ _ heq
      omega
  · simp only [Option.some.injEq, Prod.mk.injEq] at h
    obtain ⟨h1, h2⟩ := h; subst h1; subst h2
    omega

/-- community + commissions, the part of the claims that is not staker rewards -/
def nonStaker (p : Pool) : Int := p.community + bookSum p.commission

/-- AllocateTokensToValidator as it is -/
theorem allocValidator_spec (p : Pool) (v : ValIn) (tokens : Int) (p' : Pool)
    (h : allocValidator p v tokens = some p') :
    nonStaker p' = nonStaker p + tokens ∧
    bookSum p'.outstanding = bookSum p.outstanding + tokens ∧
    getD p'.outstanding v.op 0 = getD p.outstanding v.op 0 + tokens ∧
    getD p'.commission v.op 0 = getD p.commission v.op 0 + (Dec.mul ⟨tokens⟩ ⟨v.rate⟩).raw ∧
    (∃ rem, bookSum p'.rewards + rem = bookSum p.rewards + (tokens - (Dec.mul ⟨tokens⟩ ⟨v.rate⟩).raw) ∧
            (0 ≤ tokens - (Dec.mul ⟨tokens⟩ ⟨v.rate⟩).raw → 0 ≤ rem)) := by
  unfold allocValidator allocValidatorWith at h
  simp only [] at h
  split at h
  · cases h
  · split at h
    · cases h
    · rename_i rw comm heq
      simp only [Option.some.injEq] at h
      subst h
      obtain ⟨e1, rem, e2, e3⟩ := allocStakers_spec _ _ _ _ _ _ heq
      refine ⟨?_, ?_, ?_, ?_, rem, e2, e3⟩
      · simp only [nonStaker, bookSum_bookAdd, e1]; omega
      · simp only [bookSum_bookAdd]
      · simp only [getD_bookAdd_same]
      · simp only [getD_bookAdd_same]

theorem allocValidatorFixed_spec (p : Pool) (v : ValIn) (tokens : Int) (p' : Pool)
    (h : allocValidatorWith allocStakersFixed p v tokens = some p') :
    claims p' = claims p + tokens := by
  unfold allocValidatorWith at h
  simp only [] at h
  split at h
  · cases h
  · split at h
    · cases h
    · rename_i rw comm heq
      simp only [Option.some.injEq] at h
      subst h
      have e := allocStakersFixed_spec _ _ _ _ _ _ heq
      simp only [claims, bookSum_bookAdd]; omega

/-- the validator loop: `nonStaker + remaining` is constant; the outstanding book grows by what
left `remaining` -/
theorem valLoop_spec (fm total : Int) :
    ∀ (vals : List ValIn) (p : Pool) (rem : Int) (p' : Pool) (rem' : Int),
      valLoop fm total vals p rem = some (p', rem') →
      nonStaker p' + rem' = nonStaker p + rem ∧
      bookSum p'.outstanding + rem' = bookSum p.outstanding + rem ∧ (0 ≤ rem → 0 ≤ rem') := by
  intro vals
  induction vals with
  | nil =>
    intro p rem p' rem' h
    simp only [valLoop, valLoopWith, Option.some.injEq, Prod.mk.injEq] at h
    obtain ⟨h1, h2⟩ := h; subst h1; subst h2; exact ⟨rfl, rfl, fun h => h⟩
  | cons v rest ih =>
    intro p rem p' rem' h
    simp only [valLoop, valLoopWith] at h
    split at h
    · exact ih _ _ _ _ h
    · split at h
      · cases h
      · rename_i p1 heq
        split at h
        · cases h
        · obtain ⟨e1, e2, _⟩ := allocValidator_spec _ _ _ _ heq
          obtain ⟨i1, i2, i3⟩ := ih _ _ _ _ h
          exact ⟨by omega, by omega, fun _ => i3 (by omega)⟩

theorem valLoopFixed_spec (fm total : Int) :
    ∀ (vals : List ValIn) (p : Pool) (rem : Int) (p' : Pool) (rem' : Int),
      valLoopWith allocStakersFixed fm total vals p rem = some (p', rem') →
      claims p' + rem' = claims p + rem := by
  intro vals
  induction vals with
  | nil =>
    intro p rem p' rem' h
    simp only [valLoopWith, Option.some.injEq, Prod.mk.injEq] at h
    obtain ⟨h1, h2⟩ := h; subst h1; subst h2; rfl
  | cons v rest ih =>
    intro p rem p' rem' h
    simp only [valLoopWith] at h
    split at h
    · exact ih _ _ _ _ h
    · split at h
      · cases h
      · rename_i p1 heq
        split at h
        · cases h
        · have e1 := allocValidatorFixed_spec _ _ _ _ heq
          have i1 := ih _ _ _ _ h
          omega

/-- the mint hook never touches the claims or the distribution account -/
theorem mintHook_pool (s : St) (r : Int) : (mintHook s r).pool = s.pool ∧ (mintHook s r).distr = s.distr := by
  unfold mintHook; split <;> exact ⟨rfl, rfl⟩

theorem mintHook_supply (s : St) (r : Int) : (mintHook s r).supply = s.supply + r := by
  unfold mintHook; split
  · rename_i h; simp at h; subst h; simp
  · rfl

theorem mintHook_accounts (s : St) (r : Int) :
    (mintHook s r).mint = s.mint ∧ (mintHook s r).fc = s.fc + r := by
  unfold mintHook; split
  · rename_i h; simp at h; subst h; simp
  · simp

end ExoVerif.Distr
