import ExoVerif.Model.Avs
/-!
Helper lemmas for C20 (association-list facts that Basic/KV.lean does not have, sorting,
frame lemmas of the x/avs operations, and the invariants the property theorems are inductions of).
-/
namespace ExoVerif.KV
variable {κ : Type} {α : Type} [DecidableEq κ]

theorem mem_keys_of_mem (m : List (κ × α)) (q : κ × α) (h : q ∈ m) : q.1 ∈ keys m := by
  simp only [keys, List.mem_map]; exact ⟨q, h, rfl⟩

theorem mem_set (m : List (κ × α)) (k : κ) (v : α) (q : κ × α) (hnd : NoDup m) (h : q ∈ set m k v) :
    q = (k, v) ∨ (q ∈ m ∧ q.1 ≠ k) := by
  induction m with
  | nil => simp [set] at h; exact Or.inl h
  | cons p rest ih =>
    obtain ⟨k', v'⟩ := p
    simp only [NoDup, keys, List.map_cons, List.nodup_cons] at hnd
    by_cases h1 : k' = k
    · subst h1
      simp only [set, if_true, List.mem_cons] at h
      rcases h with h | h
      · exact Or.inl h
      · refine Or.inr ⟨by simp [h], ?_⟩
        intro hq
        exact hnd.1 (hq ▸ mem_keys_of_mem rest q h)
    · simp only [set, h1, if_false, List.mem_cons] at h
      rcases h with h | h
      · subst h; exact Or.inr ⟨by simp, h1⟩
      · rcases ih hnd.2 h with h2 | ⟨h2, h3⟩
        · exact Or.inl h2
        · exact Or.inr ⟨by simp [h2], h3⟩

theorem mem_erase (m : List (κ × α)) (k : κ) (q : κ × α) (h : q ∈ erase m k) : q ∈ m := by
  induction m with
  | nil => simp [erase] at h
  | cons p rest ih =>
    obtain ⟨k', v'⟩ := p
    by_cases h1 : k' = k
    · simp only [erase, h1, if_true] at h; simp [h]
    · simp only [erase, h1, if_false, List.mem_cons] at h
      rcases h with h | h
      · simp [h]
      · simp [ih h]

theorem noDup_eraseA (m : List (κ × α)) (k : κ) (h : NoDup m) : NoDup (erase m k) := by
  induction m with
  | nil => simpa [erase]
  | cons p rest ih =>
    obtain ⟨k', v'⟩ := p
    simp only [NoDup, keys, List.map_cons, List.nodup_cons] at h
    by_cases h1 : k' = k
    · simp only [erase, h1, if_true]; exact h.2
    · simp only [erase, h1, if_false, NoDup, keys, List.map_cons, List.nodup_cons]
      refine ⟨?_, ih h.2⟩
      intro hm
      obtain ⟨q, hq, hq1⟩ := List.mem_map.1 hm
      exact h.1 (hq1 ▸ mem_keys_of_mem rest q (mem_erase rest k q hq))

theorem has_set (m : List (κ × α)) (k k2 : κ) (v : α) :
    has (set m k v) k2 = (decide (k2 = k) || has m k2) := by
  by_cases h : k2 = k
  · subst h; simp [has, find?_set_same]
  · simp [has, find?_set_other m k k2 v h, h]

theorem has_iff_mem_keys (m : List (κ × α)) (k : κ) : has m k = true ↔ k ∈ keys m := by
  induction m with
  | nil => simp [has, find?, keys]
  | cons p rest ih =>
    obtain ⟨k', v'⟩ := p
    by_cases h1 : k' = k
    · simp [has, find?, keys, h1]
    · have : ¬ k = k' := fun e => h1 e.symm
      simp only [has, find?, h1, if_false, keys, List.map_cons, List.mem_cons, this, false_or] at ih ⊢
      exact ih

theorem find?_of_memA (m : List (κ × α)) (q : κ × α) (hnd : NoDup m) (h : q ∈ m) : find? m q.1 = some q.2 := by
  induction m with
  | nil => simp at h
  | cons p rest ih =>
    obtain ⟨k', v'⟩ := p
    simp only [NoDup, keys, List.map_cons, List.nodup_cons] at hnd
    simp only [List.mem_cons] at h
    rcases h with h | h
    · subst h; simp [find?]
    · have hne : ¬ k' = q.1 := fun e => hnd.1 (e ▸ mem_keys_of_mem rest q h)
      simp only [find?, hne, if_false]; exact ih hnd.2 h

end ExoVerif.KV

namespace ExoVerif.Avs
open ExoVerif

/-! ## sorting -/

theorem mem_insertStr (x y : String) (l : List String) : y ∈ insertStr x l ↔ y = x ∨ y ∈ l := by
  induction l with
  | nil => simp [insertStr]
  | cons z zs ih =>
    simp only [insertStr]
    split
    · simp
    · simp only [List.mem_cons, ih]
      constructor
      · rintro (h | h | h)
        · exact Or.inr (Or.inl h)
        · exact Or.inl h
        · exact Or.inr (Or.inr h)
      · rintro (h | h | h)
        · exact Or.inr (Or.inl h)
        · exact Or.inl h
        · exact Or.inr (Or.inr h)

theorem mem_sortStr (y : String) (l : List String) : y ∈ sortStr l ↔ y ∈ l := by
  induction l with
  | nil => simp [sortStr]
  | cons z zs ih => simp [sortStr, mem_insertStr, ih]

theorem insertStr_ne_nil (x : String) (l : List String) : insertStr x l ≠ [] := by
  cases l with
  | nil => simp [insertStr]
  | cons z zs => simp only [insertStr]; split <;> simp

theorem sortStr_eq_nil (l : List String) (h : sortStr l = []) : l = [] := by
  cases l with
  | nil => rfl
  | cons z zs => simp only [sortStr] at h; exact absurd h (insertStr_ne_nil _ _)

end ExoVerif.Avs

namespace ExoVerif.Avs
open ExoVerif

/-! ## the registry invariant (C20: AVS address / task address registered to at most one AVS) -/

/-- well-formed operations: an AVS address handed to the keeper is never the empty string (the
precompile passes `contract.CallerAddress.String()`). -/
def Op.wf : Op → Prop
  | .update p => p.avsAddr ≠ ""
  | _ => True

instance (o : Op) : Decidable o.wf := by cases o <;> simp only [Op.wf] <;> infer_instance

def RegInv (s : State) : Prop :=
  KV.NoDup s.avss ∧ (∀ p ∈ s.avss, p.2.addr = p.1 ∧ p.1 ≠ "") ∧
  (∀ p ∈ s.avss, ∀ q ∈ s.avss, p.2.taskAddr = q.2.taskAddr → p.2.taskAddr ≠ "" → p.1 = q.1)

theorem avsByTaskAddr_none (s : State) (t : Addr) (ht : t ≠ "") (h : avsByTaskAddr s t = none) :
    ∀ p ∈ s.avss, p.2.taskAddr ≠ t := by
  intro p hp he
  simp only [avsByTaskAddr, ht, if_false, Option.map_eq_none_iff] at h
  have := List.find?_eq_none.1 h p hp
  simp [he] at this

theorem avsByTaskAddr_some (s : State) (t : Addr) (a : AVS) (h : avsByTaskAddr s t = some a) :
    t ≠ "" ∧ a.taskAddr = t ∧ ∃ k, (k, a) ∈ s.avss := by
  by_cases ht : t = ""
  · simp [avsByTaskAddr, ht] at h
  · simp only [avsByTaskAddr, ht, if_false, Option.map_eq_some_iff] at h
    obtain ⟨p, hp, rfl⟩ := h
    have h1 := List.find?_some hp
    have h2 := List.mem_of_find?_eq_some hp
    refine ⟨ht, by simpa using h1, p.1, h2⟩

/-- under the invariant, `GetAVSInfoByTaskAddress(t).AvsAddress == ""` means no AVS uses `t` -/
theorem avsAddrOfTask_empty (s : State) (t : Addr) (hi : RegInv s) (ht : t ≠ "") (h : avsAddrOfTask s t = "") :
    ∀ p ∈ s.avss, p.2.taskAddr ≠ t := by
  unfold avsAddrOfTask at h
  cases hb : avsByTaskAddr s t with
  | none => exact avsByTaskAddr_none s t ht hb
  | some a =>
    rw [hb] at h
    obtain ⟨_, _, k, hk⟩ := avsByTaskAddr_some s t a hb
    have := hi.2.1 (k, a) hk
    simp at h this
    exact absurd (this.1 ▸ h) this.2

/-- under the invariant, every AVS that uses `t` has the address `avsAddrOfTask s t` -/
theorem avsAddrOfTask_unique (s : State) (t : Addr) (hi : RegInv s) (ht : t ≠ "") :
    ∀ p ∈ s.avss, p.2.taskAddr = t → p.1 = avsAddrOfTask s t := by
  intro p hp he
  unfold avsAddrOfTask
  cases hb : avsByTaskAddr s t with
  | none => exact absurd he (avsByTaskAddr_none s t ht hb p hp)
  | some a =>
    obtain ⟨_, ha, k, hk⟩ := avsByTaskAddr_some s t a hb
    have h1 := hi.2.2 p hp (k, a) hk (by simp [he, ha]) (by simp [he, ht])
    have h2 := (hi.2.1 (k, a) hk).1
    simp at h1 h2 ⊢
    rw [h2, h1]

theorem regInv_set (s : State) (k : Addr) (a : AVS) (hi : RegInv s) (hk : k ≠ "") (ha : a.addr = k)
    (hu : a.taskAddr ≠ "" → ∀ p ∈ s.avss, p.2.taskAddr = a.taskAddr → p.1 = k) :
    RegInv { s with avss := KV.set s.avss k a } := by
  refine ⟨KV.noDup_set _ _ _ hi.1, ?_, ?_⟩
  · intro p hp
    rcases KV.mem_set _ _ _ _ hi.1 hp with h | ⟨h, _⟩
    · subst h; exact ⟨ha, hk⟩
    · exact hi.2.1 p h
  · intro p hp q hq he hne
    rcases KV.mem_set _ _ _ _ hi.1 hp with h1 | ⟨h1, h1'⟩ <;>
      rcases KV.mem_set _ _ _ _ hi.1 hq with h2 | ⟨h2, h2'⟩
    · rw [h1, h2]
    · subst h1
      exact (hu hne q h2 he.symm).symm
    · subst h2
      exact hu (he ▸ hne) p h1 he
    · exact hi.2.2 p h1 q h2 he hne

theorem regInv_erase (s : State) (k : Addr) (hi : RegInv s) :
    RegInv { s with avss := KV.erase s.avss k } := by
  refine ⟨KV.noDup_eraseA _ _ hi.1, ?_, ?_⟩
  · intro p hp; exact hi.2.1 p (KV.mem_erase _ _ _ hp)
  · intro p hp q hq; exact hi.2.2 p (KV.mem_erase _ _ _ hp) q (KV.mem_erase _ _ _ hq)

theorem regInv_updateAVS (s : State) (p : AvsParams) (hi : RegInv s) (hw : p.avsAddr ≠ "") :
    RegInv (updateAVS s p).1 := by
  unfold updateAVS
  simp only []
  split
  · exact hi
  · rename_i cur _
    split
    · -- register
      split
      · exact hi
      · split
        · exact hi
        · rename_i hta
          split
          · exact hi
          · apply regInv_set s p.avsAddr _ hi hw rfl
            intro hne q hq he
            simp only [ne_eq, Decidable.not_not] at hta
            exact absurd he (avsAddrOfTask_empty s p.taskAddr hi hne hta q hq)
    · split
      · -- deregister
        split
        · exact hi
        · split
          · exact hi
          · split
            · exact hi
            · split
              · exact hi
              · exact regInv_erase s p.avsAddr hi
      · split
        · -- update
          split
          · exact hi
          · rename_i a hfind
            split
            · exact hi
            · rename_i hta
              split
              · exact hi
              · have hmem : (p.avsAddr, a) ∈ s.avss := KV.find?_mem _ _ _ hfind
                have haddr : a.addr = p.avsAddr := (hi.2.1 _ hmem).1
                apply regInv_set s p.avsAddr _ hi hw rfl
                intro hne q hq he
                simp only [mergeAVS] at hne he
                by_cases hpt : p.taskAddr = ""
                · simp only [hpt, ne_eq, not_true_eq_false, if_false] at hne he
                  exact hi.2.2 q hq (p.avsAddr, a) hmem he (he ▸ hne)
                · simp only [hpt, ne_eq, not_false_eq_true, if_true] at hne he
                  have hq1 := avsAddrOfTask_unique s p.taskAddr hi hpt q hq he
                  simp only [Bool.and_eq_true, bne_iff_ne, ne_eq, not_and, Decidable.not_not,
                    decide_eq_true_eq] at hta
                  by_cases h0 : avsAddrOfTask s p.taskAddr = ""
                  · exact absurd he (avsAddrOfTask_empty s p.taskAddr hi hpt h0 q hq)
                  · rw [hq1, hta h0, haddr]
        · exact hi

end ExoVerif.Avs

namespace ExoVerif.Avs
open ExoVerif

/-! ## frame lemmas: which operation touches which store -/

macro "frame_tac" f:ident : tactic =>
  `(tactic| (unfold $f; (repeat' split) <;> first | rfl | (simp only []) ))

theorem optInCore_frame (s : State) (op : String) (avs : Addr) (u : Option Int) (a b : String) :
    let s' := (optInCore s op avs u a b).1
    s'.avss = s.avss ∧ s'.taskNum = s.taskNum ∧ s'.created = s.created ∧ s'.results = s.results ∧
    s'.accepted1 = s.accepted1 ∧ s'.challenges = s.challenges ∧ s'.challenged = s.challenged ∧
    s'.halted = s.halted ∧ s'.tasks = s.tasks ∧ s'.pubkeys = s.pubkeys ∧ s'.operators = s.operators := by
  unfold optInCore; (repeat' split) <;> simp

theorem optOutCore_frame (s : State) (op : String) (avs : Addr) (a b : String) :
    let s' := (optOutCore s op avs a b).1
    s'.avss = s.avss ∧ s'.taskNum = s.taskNum ∧ s'.created = s.created ∧ s'.results = s.results ∧
    s'.accepted1 = s.accepted1 ∧ s'.challenges = s.challenges ∧ s'.challenged = s.challenged ∧
    s'.halted = s.halted ∧ s'.tasks = s.tasks ∧ s'.pubkeys = s.pubkeys ∧ s'.operators = s.operators := by
  unfold optOutCore; (repeat' split) <;> simp

theorem optAction_frame (s : State) (d : Bool) (act : Nat) (op : String) (avs : Addr) (u : Option Int) :
    let s' := (optAction s d act op avs u).1
    s'.avss = s.avss ∧ s'.taskNum = s.taskNum ∧ s'.created = s.created ∧ s'.results = s.results ∧
    s'.accepted1 = s.accepted1 ∧ s'.challenges = s.challenges ∧ s'.challenged = s.challenged ∧
    s'.halted = s.halted ∧ s'.tasks = s.tasks ∧ s'.pubkeys = s.pubkeys ∧ s'.operators = s.operators := by
  unfold optAction
  (repeat' split) <;> first | exact optInCore_frame _ _ _ _ _ _ | exact optOutCore_frame _ _ _ _ _ | simp

theorem updateAVS_frame (s : State) (p : AvsParams) :
    let s' := (updateAVS s p).1
    s'.taskNum = s.taskNum ∧ s'.created = s.created ∧ s'.results = s.results ∧
    s'.accepted1 = s.accepted1 ∧ s'.challenges = s.challenges ∧ s'.challenged = s.challenged ∧
    s'.halted = s.halted ∧ s'.tasks = s.tasks ∧ s'.pubkeys = s.pubkeys ∧ s'.operators = s.operators ∧ s'.opted = s.opted := by
  unfold updateAVS; simp only []; (repeat' split) <;> simp

theorem createTask_frame (s : State) (p : TaskParams) :
    let s' := (createTask s p).1
    s'.avss = s.avss ∧ s'.results = s.results ∧
    s'.accepted1 = s.accepted1 ∧ s'.challenges = s.challenges ∧ s'.challenged = s.challenged ∧
    s'.halted = s.halted ∧ s'.pubkeys = s.pubkeys ∧ s'.operators = s.operators ∧ s'.opted = s.opted := by
  unfold createTask; (repeat' split) <;> simp

theorem regBLS_frame (s : State) (op pk : String) (ok : Bool) :
    let s' := (regBLS s op pk ok).1
    s'.avss = s.avss ∧ s'.taskNum = s.taskNum ∧ s'.created = s.created ∧ s'.results = s.results ∧
    s'.accepted1 = s.accepted1 ∧ s'.challenges = s.challenges ∧ s'.challenged = s.challenged ∧
    s'.halted = s.halted ∧ s'.tasks = s.tasks ∧ s'.operators = s.operators ∧ s'.opted = s.opted := by
  unfold regBLS; (repeat' split) <;> simp

/-- the state written by an accepted phase-one submission -/
def afterOne (s : State) (i : Submit) : State :=
  { s with results := KV.set s.results (i.op, i.taskAddr, i.id)
             { op := i.op, taskAddr := i.taskAddr, id := i.id, stage := "1", sig := norm i.sig, response := none, respHash := "" }
           accepted1 := s.accepted1 ++ [((i.op, i.taskAddr, i.id), norm i.sig)] }

/-- the state written by an accepted phase-two submission -/
def afterTwo (s : State) (i : Submit) : State :=
  { s with results := KV.set s.results (i.op, i.taskAddr, i.id)
             { op := i.op, taskAddr := i.taskAddr, id := i.id, stage := "2", sig := norm i.sig,
               response := norm i.response, respHash := i.digest } }

theorem submitOne_spec (s : State) (i : Submit) (t : Task) (cur : Int) :
    ((submitOne s i t cur).1 = s ∧ (submitOne s i t cur).2 ≠ "ok") ∨
    (KV.has s.results (i.op, i.taskAddr, i.id) = false ∧ (norm i.sig).isSome = true ∧ i.respHash = "" ∧
      i.response = none ∧ phase1TooLate cur t.startingEpoch t.resp = false ∧
      submitOne s i t cur = (afterOne s i, "ok")) := by
  unfold submitOne
  by_cases h1 : KV.has s.results (i.op, i.taskAddr, i.id) = true
  · left; simp [h1]
  by_cases h2 : (norm i.sig).isNone = true
  · left; simp [h1, h2]
  by_cases h3 : (decide (i.respHash ≠ "") || i.response.isSome) = true
  · left; simp only [h1, h2, h3]; simp [*]
  by_cases h4 : phase1TooLate cur t.startingEpoch t.resp = true
  · left; simp only [h1, h2, h3, h4]; simp [*]
  right
  have h3' : i.respHash = "" ∧ i.response = none := by
    simp only [Bool.or_eq_true, decide_eq_true_eq, not_or, ne_eq, Decidable.not_not, Bool.not_eq_true,
      Option.isSome_eq_false_iff, Option.isNone_iff_eq_none] at h3
    exact h3
  refine ⟨by simpa using h1, ?_, h3'.1, h3'.2, by simpa using h4, ?_⟩
  · cases hs : norm i.sig <;> simp_all
  · simp only [h1, h2, h3, h4]; simp [afterOne]

theorem submitTwo_spec (s : State) (i : Submit) (t : Task) (cur : Int) :
    ((submitTwo s i t cur).1 = s ∧ (submitTwo s i t cur).2 ≠ "ok") ∨
    (i.response.isSome = true ∧ (∃ res, KV.find? s.results (i.op, i.taskAddr, i.id) = some res ∧ res.sig = norm i.sig) ∧
      phase2TooSoon cur t.startingEpoch t.resp = false ∧ phase2TooLate cur t.startingEpoch t.resp t.stat = false ∧
      i.respTaskId = some i.id ∧ i.blsOk = true ∧
      submitTwo s i t cur = (afterTwo s i, "ok")) := by
  unfold submitTwo
  by_cases h1 : i.response.isNone = true
  · left; simp [h1]
  cases hres : KV.find? s.results (i.op, i.taskAddr, i.id) with
  | none => left; simp only [h1, hres]; simp [*]
  | some res =>
    by_cases h2 : res.sig ≠ norm i.sig
    · left; simp only [h1, hres, h2]; simp [*]
    by_cases h3 : phase2TooSoon cur t.startingEpoch t.resp = true
    · left; simp only [h1, hres, h2, h3]; simp [*]
    by_cases h4 : phase2TooLate cur t.startingEpoch t.resp t.stat = true
    · left; simp only [h1, hres, h2, h3, h4]; simp [*]
    by_cases h5 : i.respTaskId ≠ some i.id
    · left; simp only [h1, hres, h2, h3, h4, h5]; simp [*]
    by_cases h6 : (!i.blsOk) = true
    · left; simp only [h1, hres, h2, h3, h4, h5, h6]; simp [*]
    right
    refine ⟨?_, ⟨res, rfl, by simpa using h2⟩, by simpa using h3, by simpa using h4, by simpa using h5, by simpa using h6, ?_⟩
    · cases hr : i.response <;> simp_all
    · have h2' : res.sig = norm i.sig := by simpa using h2
      simp only [h1, hres, h3, h4, h5, h6]; simp [afterTwo, h2']

/-- inversion of SetTaskResultInfo: either nothing was written and an error came back, or all
pre-checks held and one of the two phase bodies ran -/
theorem submit_spec (s : State) (i : Submit) :
    ((submit s i).1 = s ∧ (submit s i).2 ≠ "ok") ∨
    (i.fromAddr = i.op ∧ i.op ∈ s.operators ∧ (∃ pk, KV.find? s.pubkeys i.op = some pk ∧ pk ≠ "") ∧
      ∃ task cur, KV.find? s.tasks (i.taskAddr, i.id) = some task ∧ epochOfTaskAddr s i.taskAddr = some cur ∧
        ((i.stage = "1" ∧ submit s i = submitOne s i task cur) ∨
         (i.stage = "2" ∧ submit s i = submitTwo s i task cur))) := by
  unfold submit
  by_cases h1 : i.fromAddr ≠ i.op
  · left; simp [h1]
  by_cases h2 : (!s.operators.contains i.op) = true
  · left; simp only [h1, h2]; simp [*]
  cases hpk : KV.find? s.pubkeys i.op with
  | none => left; simp only [h1, h2]; simp [*]
  | some pk =>
    by_cases h3 : pk = ""
    · left; simp only [h1, h2, h3]; simp [*]
    cases ht : KV.find? s.tasks (i.taskAddr, i.id) with
    | none => left; simp only [h1, h2, h3]; simp [*]
    | some task =>
      by_cases h4 : task.taskAddr = ""
      · left; simp only [h1, h2, h3, h4]; simp [*]
      cases he : epochOfTaskAddr s i.taskAddr with
      | none => left; simp only [h1, h2, h3, h4]; simp [*]
      | some cur =>
        by_cases h5 : i.stage = "1"
        · right
          refine ⟨by simpa using h1, by simpa using h2, ⟨pk, rfl, h3⟩, task, cur, rfl, rfl, Or.inl ⟨h5, ?_⟩⟩
          simp only [h1, h2, h3, h4, submitStage, h5]; simp
        by_cases h6 : i.stage = "2"
        · right
          refine ⟨by simpa using h1, by simpa using h2, ⟨pk, rfl, h3⟩, task, cur, rfl, rfl, Or.inr ⟨h6, ?_⟩⟩
          simp only [h1, h2, h3, h4, submitStage, h5, h6]; simp
        · left; simp only [h1, h2, h3, h4, submitStage, h5, h6]; simp [*]

/-- every outcome of SetTaskResultInfo: unchanged state, or the phase-one write, or the phase-two write -/
theorem submit_cases (s : State) (i : Submit) :
    (submit s i).1 = s ∨ (submit s i = (afterOne s i, "ok") ∧ i.stage = "1") ∨ (submit s i = (afterTwo s i, "ok") ∧ i.stage = "2") := by
  rcases submit_spec s i with ⟨h, _⟩ | ⟨_, _, _, task, cur, _, _, h | h⟩
  · left; exact h
  · obtain ⟨hs, h⟩ := h
    rcases submitOne_spec s i task cur with ⟨h2, _⟩ | ⟨_, _, _, _, _, h2⟩
    · left; rw [h, h2]
    · right; left; exact ⟨by rw [h, h2], hs⟩
  · obtain ⟨hs, h⟩ := h
    rcases submitTwo_spec s i task cur with ⟨h2, _⟩ | ⟨_, _, _, _, _, _, h2⟩
    · left; rw [h, h2]
    · right; right; exact ⟨by rw [h, h2], hs⟩

theorem submit_frame (s : State) (i : Submit) :
    let s' := (submit s i).1
    s'.avss = s.avss ∧ s'.taskNum = s.taskNum ∧ s'.created = s.created ∧
    s'.challenges = s.challenges ∧ s'.challenged = s.challenged ∧
    s'.halted = s.halted ∧ s'.tasks = s.tasks ∧ s'.pubkeys = s.pubkeys ∧ s'.operators = s.operators ∧ s'.opted = s.opted := by
  rcases submit_cases s i with h | ⟨h, _⟩ | ⟨h, _⟩ <;> simp [h, afterOne, afterTwo]

/-- the state written by a recorded challenge -/
def afterChallenge (s : State) (c : Challenge) : State :=
  { s with challenges := KV.set s.challenges (c.op, c.taskAddr, c.id) c.caller
           challenged := s.challenged ++ [(c.op, c.taskAddr, c.id)] }

theorem challengeCore_spec (s : State) (c : Challenge) (t : Task) :
    ((challengeCore s c t).1 = s ∧ (challengeCore s c t).2 ≠ "ok") ∨
    (c.abiHashOk = true ∧ KV.has s.challenges (c.op, c.taskAddr, c.id) = false ∧
      (∃ cur, epochOfTaskAddr s t.taskAddr = some cur ∧
        challengeTooSoon cur t.startingEpoch t.resp t.stat = false ∧
        challengeTooLate cur t.startingEpoch t.resp t.stat t.chal = false) ∧
      challengeCore s c t = (afterChallenge s c, "ok")) := by
  unfold challengeCore
  by_cases h0 : c.abiPanics = true
  · left; simp [h0]
  by_cases h1 : (!c.abiHashOk) = true
  · left; simp only [h0, h1]; simp [*]
  by_cases h2 : KV.has s.challenges (c.op, c.taskAddr, c.id) = true
  · left; simp only [h0, h1, h2]; simp [*]
  cases he : epochOfTaskAddr s t.taskAddr with
  | none => left; simp only [h0, h1, h2]; simp [*]
  | some cur =>
    by_cases h3 : challengeTooSoon cur t.startingEpoch t.resp t.stat = true
    · left; simp only [h0, h1, h2, h3]; simp [*]
    by_cases h4 : challengeTooLate cur t.startingEpoch t.resp t.stat t.chal = true
    · left; simp only [h0, h1, h2, h3, h4]; simp [*]
    by_cases h5 : (!c.callerOk) = true
    · left; simp only [h0, h1, h2, h3, h4, h5]; simp [*]
    right
    refine ⟨by simpa using h1, by simpa using h2, ⟨cur, rfl, by simpa using h3, by simpa using h4⟩, ?_⟩
    simp only [h0, h1, h2, h3, h4, h5]; simp [afterChallenge]

/-- inversion of RaiseAndResolveChallenge -/
theorem challenge_spec (s : State) (c : Challenge) :
    ((challenge s c).1 = s ∧ (challenge s c).2 ≠ "ok") ∨
    (∃ task res resp, KV.find? s.tasks (c.taskAddr, c.id) = some task ∧ task.hash = c.taskHash ∧
      KV.find? s.results (c.op, c.taskAddr, c.id) = some res ∧ res.response = some resp ∧
      challenge s c = challengeCore s c task) := by
  unfold challenge
  cases ht : KV.find? s.tasks (c.taskAddr, c.id) with
  | none => left; simp
  | some task =>
    by_cases h1 : task.hash ≠ c.taskHash
    · left; simp [h1]
    cases hr : KV.find? s.results (c.op, c.taskAddr, c.id) with
    | none => left; simp only [h1]; simp [*]
    | some res =>
      cases hresp : res.response with
      | none => left; simp only [h1, hresp]; simp [*]
      | some resp =>
        right
        exact ⟨task, res, resp, rfl, by simpa using h1, rfl, hresp, by simp only [h1, hresp]; simp⟩

theorem challenge_cases (s : State) (c : Challenge) :
    (challenge s c).1 = s ∨ challenge s c = (afterChallenge s c, "ok") := by
  rcases challenge_spec s c with ⟨h, _⟩ | ⟨task, _, _, _, _, _, _, h⟩
  · left; exact h
  · rcases challengeCore_spec s c task with ⟨h2, _⟩ | ⟨_, _, _, h2⟩
    · left; rw [h, h2]
    · right; rw [h, h2]

theorem challenge_frame (s : State) (c : Challenge) :
    let s' := (challenge s c).1
    s'.avss = s.avss ∧ s'.taskNum = s.taskNum ∧ s'.created = s.created ∧ s'.results = s.results ∧
    s'.accepted1 = s.accepted1 ∧
    s'.halted = s.halted ∧ s'.tasks = s.tasks ∧ s'.pubkeys = s.pubkeys ∧ s'.operators = s.operators ∧ s'.opted = s.opted := by
  rcases challenge_cases s c with h | h <;> simp [h, afterChallenge]

theorem epochEnd_frame (s : State) (id : String) (n : Int) (pw : Powers) :
    let s' := (epochEnd s id n pw).1
    s'.avss = s.avss ∧ s'.taskNum = s.taskNum ∧ s'.created = s.created ∧ s'.results = s.results ∧
    s'.accepted1 = s.accepted1 ∧ s'.challenges = s.challenges ∧ s'.challenged = s.challenged ∧
    s'.pubkeys = s.pubkeys ∧ s'.operators = s.operators ∧ s'.opted = s.opted := by
  unfold epochEnd; simp

end ExoVerif.Avs

namespace ExoVerif.Avs
open ExoVerif

/-! ## registry invariant over steps -/

theorem regInv_congr {s s' : State} (h : s'.avss = s.avss) (hi : RegInv s) : RegInv s' := by
  unfold RegInv at *; rw [h]; exact hi

theorem regInv_step (s : State) (o : Op) (hi : RegInv s) (hw : o.wf) : RegInv (step s o).1 := by
  unfold step
  split
  · exact hi
  · cases o with
    | setEpochs e => exact hi
    | setEnv a b => exact hi
    | update p => exact regInv_updateAVS s p hi hw
    | opt d a op avs u => exact regInv_congr (optAction_frame s d a op avs u).1 hi
    | task p => exact regInv_congr (createTask_frame s p).1 hi
    | bls op pk ok => exact regInv_congr (regBLS_frame s op pk ok).1 hi
    | submit i => exact regInv_congr (submit_frame s i).1 hi
    | challenge c => exact regInv_congr (challenge_frame s c).1 hi
    | epochEnd id n pw => exact regInv_congr (epochEnd_frame s id n pw).1 hi

theorem regInv_init : RegInv init := by
  refine ⟨by simp [init, KV.NoDup, KV.keys], ?_, ?_⟩ <;> simp [init]

theorem regInv_run (ops : List Op) (s : State) (hi : RegInv s) (hw : ∀ o ∈ ops, o.wf) : RegInv (run s ops) := by
  induction ops generalizing s with
  | nil => exact hi
  | cons o rest ih =>
    simp only [run]
    exact ih _ (regInv_step s o hi (hw o (by simp))) (fun o' ho' => hw o' (by simp [ho']))

/-! ## task identifiers -/

def counter (s : State) (a : Addr) : Nat := (KV.find? s.taskNum a).getD 0

def TaskInv (s : State) : Prop :=
  ∀ a, (s.created.filter (fun p => p.1 == a)).map (·.2) = List.range' 1 (counter s a)

theorem nextTaskId_eq (s : State) (a : Addr) : nextTaskId s a = counter s a + 1 := by
  unfold nextTaskId counter; cases KV.find? s.taskNum a <;> simp

/-- the state written by an accepted CreateAVSTask -/
def afterCreate (s : State) (p : TaskParams) (t : Task) : State :=
  { s with taskNum := KV.set s.taskNum p.taskAddr (nextTaskId s p.taskAddr)
           tasks := KV.set s.tasks (p.taskAddr, nextTaskId s p.taskAddr) t
           created := s.created ++ [(p.taskAddr, nextTaskId s p.taskAddr)] }

def newTask (s : State) (p : TaskParams) (a : AVS) (cur : Int) : Task :=
  { taskAddr := p.taskAddr, id := nextTaskId s p.taskAddr, name := p.name, hash := p.hash,
    resp := p.resp, stat := p.stat, chal := p.chal, startingEpoch := cur + 1, optIn := optedOps s a.addr, signed := [],
    noSigned := [], powers := [], totalPower := 0, actualThreshold := 0 }

theorem createTask_spec (s : State) (p : TaskParams) :
    ((createTask s p).1 = s ∧ (createTask s p).2 ≠ "ok") ∨
    (∃ a cur t, avsByTaskAddr s p.taskAddr = some a ∧ a.addr ≠ "" ∧ p.caller ∈ a.owners ∧ p.powerOk = true ∧
      curEpoch s a.epochId = some cur ∧ t.id = nextTaskId s p.taskAddr ∧ t.taskAddr = p.taskAddr ∧
      t.startingEpoch = cur + 1 ∧ t.optIn = optedOps s a.addr ∧ t.resp = p.resp ∧ t.stat = p.stat ∧ t.chal = p.chal ∧
      createTask s p = (afterCreate s p t, "ok")) := by
  unfold createTask
  cases ha : avsByTaskAddr s p.taskAddr with
  | none => left; simp
  | some a =>
    by_cases h1 : a.addr = ""
    · left; simp [h1]
    by_cases h2 : (!a.owners.contains p.caller) = true
    · left; simp only [h1, h2]; simp [*]
    by_cases h3 : (!p.powerOk) = true
    · left; simp only [h1, h2, h3]; simp [*]
    cases hc : curEpoch s a.epochId with
    | none => left; simp only [h1, h2, h3]; simp [*]
    | some cur =>
      by_cases h4 : KV.has s.tasks (p.taskAddr, p.givenId) = true
      · left; simp only [h1, h2, h3, h4]; simp [*]
      right
      refine ⟨a, cur, newTask s p a cur, by first | rfl | exact ha, h1, by simpa using h2, by simpa using h3, by first | rfl | exact hc, ?_, ?_, ?_, ?_, ?_, ?_, ?_, ?_⟩
      case refine_8 => simp only [h1, h2, h3, h4]; simp [afterCreate, newTask, hc]
      all_goals rfl

theorem createTask_cases (s : State) (p : TaskParams) :
    (createTask s p).1 = s ∨ ∃ t, t.id = nextTaskId s p.taskAddr ∧ t.taskAddr = p.taskAddr ∧ createTask s p = (afterCreate s p t, "ok") := by
  rcases createTask_spec s p with ⟨h, _⟩ | ⟨_, _, t, _, _, _, _, _, h1, h2, _, _, _, _, _, h⟩
  · exact Or.inl h
  · exact Or.inr ⟨t, h1, h2, h⟩

theorem taskInv_congr {s s' : State} (h1 : s'.taskNum = s.taskNum) (h2 : s'.created = s.created) (hi : TaskInv s) : TaskInv s' := by
  unfold TaskInv counter at *; rw [h1, h2]; exact hi

theorem taskInv_create (s : State) (p : TaskParams) (t : Task) (hi : TaskInv s) : TaskInv (afterCreate s p t) := by
  intro a
  have hn := nextTaskId_eq s p.taskAddr
  by_cases ha : p.taskAddr = a
  · subst ha
    have h0 := hi p.taskAddr
    simp only [afterCreate, List.filter_append, List.map_append, counter, KV.find?_set_same, Option.getD_some]
    rw [hn, List.range'_concat]
    simp only [counter] at h0 ⊢
    simp [h0]; omega
  · have h0 := hi a
    have hne : a ≠ p.taskAddr := fun e => ha e.symm
    simp only [afterCreate, List.filter_append, List.map_append, counter, KV.find?_set_other _ _ _ _ hne]
    simp only [counter] at h0
    simp [h0, ha]

theorem taskInv_step (s : State) (o : Op) (hi : TaskInv s) : TaskInv (step s o).1 := by
  unfold step
  split
  · exact hi
  · cases o with
    | setEpochs e => exact hi
    | setEnv a b => exact hi
    | update p => have h := updateAVS_frame s p; exact taskInv_congr h.1 h.2.1 hi
    | opt d a op avs u => have h := optAction_frame s d a op avs u; exact taskInv_congr h.2.1 h.2.2.1 hi
    | task p =>
      rcases createTask_cases s p with h | ⟨t, _, _, h⟩
      · show TaskInv (createTask s p).1; rw [h]; exact hi
      · show TaskInv (createTask s p).1; rw [h]; exact taskInv_create s p t hi
    | bls op pk ok => have h := regBLS_frame s op pk ok; exact taskInv_congr h.2.1 h.2.2.1 hi
    | submit i => have h := submit_frame s i; exact taskInv_congr h.2.1 h.2.2.1 hi
    | challenge c => have h := challenge_frame s c; exact taskInv_congr h.2.1 h.2.2.1 hi
    | epochEnd id n pw => have h := epochEnd_frame s id n pw; exact taskInv_congr h.2.1 h.2.2.1 hi

theorem taskInv_run (ops : List Op) (s : State) (hi : TaskInv s) : TaskInv (run s ops) := by
  induction ops generalizing s with
  | nil => exact hi
  | cons o rest ih => simp only [run]; exact ih _ (taskInv_step s o hi)

theorem taskInv_init : TaskInv init := by intro a; simp [init, counter]

end ExoVerif.Avs

namespace ExoVerif.Avs
open ExoVerif

/-! ## results: once per (operator, task); the stored signature is the phase-one signature -/

def ResInv (s : State) : Prop :=
  KV.NoDup s.results ∧
  (∀ p ∈ s.results, p.2.op = p.1.1 ∧ p.2.taskAddr = p.1.2.1 ∧ p.2.id = p.1.2.2) ∧
  (s.accepted1.map (·.1)).Nodup ∧
  (∀ e ∈ s.accepted1, KV.has s.results e.1 = true) ∧
  (∀ p ∈ s.results, (p.1, p.2.sig) ∈ s.accepted1)

theorem resInv_congr {s s' : State} (h1 : s'.results = s.results) (h2 : s'.accepted1 = s.accepted1) (hi : ResInv s) : ResInv s' := by
  unfold ResInv at *; rw [h1, h2]; exact hi

theorem resInv_afterOne (s : State) (i : Submit) (hi : ResInv s)
    (hn : KV.has s.results (i.op, i.taskAddr, i.id) = false) : ResInv (afterOne s i) := by
  obtain ⟨h1, h2, h3, h4, h5⟩ := hi
  refine ⟨KV.noDup_set _ _ _ h1, ?_, ?_, ?_, ?_⟩
  · intro p hp
    rcases KV.mem_set _ _ _ _ h1 hp with h | ⟨h, _⟩
    · subst h; simp
    · exact h2 p h
  · simp only [afterOne, List.map_append, List.map_cons, List.map_nil]
    rw [List.nodup_append]
    refine ⟨h3, by simp, ?_⟩
    intro a ha b hb
    simp only [List.mem_singleton] at hb
    subst hb
    intro hab
    obtain ⟨e, he, he1⟩ := List.mem_map.1 ha
    have := h4 e he
    rw [he1, hab, hn] at this
    exact absurd this (by simp)
  · intro e he
    simp only [afterOne, List.mem_append, List.mem_singleton] at he ⊢
    rw [KV.has_set]
    rcases he with he | he
    · simp [h4 e he]
    · subst he; simp
  · intro p hp
    simp only [afterOne, List.mem_append, List.mem_singleton]
    rcases KV.mem_set _ _ _ _ h1 hp with h | ⟨h, _⟩
    · subst h; exact Or.inr rfl
    · exact Or.inl (h5 p h)

theorem resInv_afterTwo (s : State) (i : Submit) (hi : ResInv s) (res : Result)
    (hf : KV.find? s.results (i.op, i.taskAddr, i.id) = some res) (hs : res.sig = norm i.sig) : ResInv (afterTwo s i) := by
  obtain ⟨h1, h2, h3, h4, h5⟩ := hi
  refine ⟨KV.noDup_set _ _ _ h1, ?_, h3, ?_, ?_⟩
  · intro p hp
    rcases KV.mem_set _ _ _ _ h1 hp with h | ⟨h, _⟩
    · subst h; simp
    · exact h2 p h
  · intro e he
    simp only [afterTwo]
    rw [KV.has_set]
    simp [h4 e he]
  · intro p hp
    simp only [afterTwo]
    rcases KV.mem_set _ _ _ _ h1 hp with h | ⟨h, _⟩
    · subst h
      have := h5 _ (KV.find?_mem _ _ _ hf)
      simpa [hs] using this
    · exact h5 p h

theorem resInv_submit (s : State) (i : Submit) (hi : ResInv s) : ResInv (submit s i).1 := by
  rcases submit_spec s i with ⟨h, _⟩ | ⟨_, _, _, task, cur, _, _, h | h⟩
  · rw [h]; exact hi
  · rcases submitOne_spec s i task cur with ⟨h2, _⟩ | ⟨hn, _, _, _, _, h2⟩
    · rw [h.2, h2]; exact hi
    · rw [h.2, h2]; exact resInv_afterOne s i hi hn
  · rcases submitTwo_spec s i task cur with ⟨h2, _⟩ | ⟨_, ⟨res, hf, hs⟩, _, _, _, _, h2⟩
    · rw [h.2, h2]; exact hi
    · rw [h.2, h2]; exact resInv_afterTwo s i hi res hf hs

theorem resInv_step (s : State) (o : Op) (hi : ResInv s) : ResInv (step s o).1 := by
  unfold step
  split
  · exact hi
  · cases o with
    | setEpochs e => exact hi
    | setEnv a b => exact hi
    | update p => have h := updateAVS_frame s p; exact resInv_congr h.2.2.1 h.2.2.2.1 hi
    | opt d a op avs u => have h := optAction_frame s d a op avs u; exact resInv_congr h.2.2.2.1 h.2.2.2.2.1 hi
    | task p => have h := createTask_frame s p; exact resInv_congr h.2.1 h.2.2.1 hi
    | bls op pk ok => have h := regBLS_frame s op pk ok; exact resInv_congr h.2.2.2.1 h.2.2.2.2.1 hi
    | submit i => exact resInv_submit s i hi
    | challenge c => have h := challenge_frame s c; exact resInv_congr h.2.2.2.1 h.2.2.2.2.1 hi
    | epochEnd id n pw => have h := epochEnd_frame s id n pw; exact resInv_congr h.2.2.2.1 h.2.2.2.2.1 hi

theorem resInv_init : ResInv init := by
  refine ⟨by simp [init, KV.NoDup, KV.keys], ?_, ?_, ?_, ?_⟩ <;> simp [init]

theorem resInv_run (ops : List Op) (s : State) (hi : ResInv s) : ResInv (run s ops) := by
  induction ops generalizing s with
  | nil => exact hi
  | cons o rest ih => simp only [run]; exact ih _ (resInv_step s o hi)

/-! ## challenges: once per (operator, task) -/

def ChInv (s : State) : Prop :=
  s.challenged.Nodup ∧ (∀ k ∈ s.challenged, KV.has s.challenges k = true)

theorem chInv_congr {s s' : State} (h1 : s'.challenges = s.challenges) (h2 : s'.challenged = s.challenged) (hi : ChInv s) : ChInv s' := by
  unfold ChInv at *; rw [h1, h2]; exact hi

theorem chInv_after (s : State) (c : Challenge) (hi : ChInv s)
    (hn : KV.has s.challenges (c.op, c.taskAddr, c.id) = false) : ChInv (afterChallenge s c) := by
  obtain ⟨h1, h2⟩ := hi
  refine ⟨?_, ?_⟩
  · simp only [afterChallenge]
    rw [List.nodup_append]
    refine ⟨h1, by simp, ?_⟩
    intro a ha b hb
    simp only [List.mem_singleton] at hb
    subst hb
    intro hab
    have := h2 a ha
    rw [hab, hn] at this
    exact absurd this (by simp)
  · intro k hk
    simp only [afterChallenge, List.mem_append, List.mem_singleton] at hk ⊢
    rw [KV.has_set]
    rcases hk with hk | hk
    · simp [h2 k hk]
    · subst hk; simp

theorem chInv_challenge (s : State) (c : Challenge) (hi : ChInv s) : ChInv (challenge s c).1 := by
  rcases challenge_spec s c with ⟨h, _⟩ | ⟨task, _, _, _, _, _, _, h⟩
  · rw [h]; exact hi
  · rcases challengeCore_spec s c task with ⟨h2, _⟩ | ⟨_, hn, _, h2⟩
    · rw [h, h2]; exact hi
    · rw [h, h2]; exact chInv_after s c hi hn

theorem chInv_step (s : State) (o : Op) (hi : ChInv s) : ChInv (step s o).1 := by
  unfold step
  split
  · exact hi
  · cases o with
    | setEpochs e => exact hi
    | setEnv a b => exact hi
    | update p => have h := updateAVS_frame s p; exact chInv_congr h.2.2.2.2.1 h.2.2.2.2.2.1 hi
    | opt d a op avs u => have h := optAction_frame s d a op avs u; exact chInv_congr h.2.2.2.2.2.1 h.2.2.2.2.2.2.1 hi
    | task p => have h := createTask_frame s p; exact chInv_congr h.2.2.2.1 h.2.2.2.2.1 hi
    | bls op pk ok => have h := regBLS_frame s op pk ok; exact chInv_congr h.2.2.2.2.2.1 h.2.2.2.2.2.2.1 hi
    | submit i => have h := submit_frame s i; exact chInv_congr h.2.2.2.1 h.2.2.2.2.1 hi
    | challenge c => exact chInv_challenge s c hi
    | epochEnd id n pw => have h := epochEnd_frame s id n pw; exact chInv_congr h.2.2.2.2.2.1 h.2.2.2.2.2.2.1 hi

theorem chInv_run (ops : List Op) (s : State) (hi : ChInv s) : ChInv (run s ops) := by
  induction ops generalizing s with
  | nil => exact hi
  | cons o rest ih => simp only [run]; exact ih _ (chInv_step s o hi)

theorem chInv_init : ChInv init := by simp [ChInv, init]

end ExoVerif.Avs

namespace ExoVerif.Avs
open ExoVerif

/-! ## every stored result carries a signature; no operation panics -/

def SigInv (s : State) : Prop := ∀ p ∈ s.results, p.2.sig.isSome = true

theorem norm_isSome (x : Option String) (h1 : x.isSome = true) (h2 : x ≠ some "") : (norm x).isSome = true := by
  cases x with
  | none => simp at h1
  | some v =>
    unfold norm
    split
    · rename_i heq; exact absurd heq h2
    · simp

theorem sigInv_submit (s : State) (i : Submit) (hr : ResInv s) (hi : SigInv s) :
    SigInv (submit s i).1 := by
  rcases submit_spec s i with ⟨h, _⟩ | ⟨_, _, _, task, cur, _, _, h | h⟩
  · rw [h]; exact hi
  · rcases submitOne_spec s i task cur with ⟨h2, _⟩ | ⟨_, hsig, _, _, _, h2⟩
    · rw [h.2, h2]; exact hi
    · rw [h.2, h2]
      intro p hp
      rcases KV.mem_set _ _ _ _ hr.1 hp with hq | ⟨hq, _⟩
      · subst hq; exact hsig
      · exact hi p hq
  · rcases submitTwo_spec s i task cur with ⟨h2, _⟩ | ⟨_, ⟨res, hf, hs⟩, _, _, _, _, h2⟩
    · rw [h.2, h2]; exact hi
    · rw [h.2, h2]
      intro p hp
      rcases KV.mem_set _ _ _ _ hr.1 hp with hq | ⟨hq, _⟩
      · subst hq
        have := hi _ (KV.find?_mem _ _ _ hf)
        simpa [hs] using this
      · exact hi p hq

theorem sigInv_congr {s s' : State} (h1 : s'.results = s.results) (hi : SigInv s) : SigInv s' := by
  unfold SigInv at *; rw [h1]; exact hi

theorem sigInv_step (s : State) (o : Op) (hr : ResInv s) (hi : SigInv s) : SigInv (step s o).1 := by
  unfold step
  split
  · exact hi
  · cases o with
    | setEpochs e => exact hi
    | setEnv a b => exact hi
    | update p => exact sigInv_congr (updateAVS_frame s p).2.2.1 hi
    | opt d a op avs u => exact sigInv_congr (optAction_frame s d a op avs u).2.2.2.1 hi
    | task p => exact sigInv_congr (createTask_frame s p).2.1 hi
    | bls op pk ok => exact sigInv_congr (regBLS_frame s op pk ok).2.2.2.1 hi
    | submit i => exact sigInv_submit s i hr hi
    | challenge c => exact sigInv_congr (challenge_frame s c).2.2.2.1 hi
    | epochEnd id n pw => exact sigInv_congr (epochEnd_frame s id n pw).2.2.2.1 hi

theorem statTask_isSome (s : State) (pw : Powers) (t : Task) (hi : SigInv s) (hh : hasResults s t = true) :
    (statTask s pw t).isSome = true := by
  unfold statTask
  split
  · rename_i heq
    exfalso
    unfold signersOf at heq
    have h0 := sortStr_eq_nil _ heq
    simp only [hasResults, List.any_eq_true, Bool.and_eq_true, beq_iff_eq] at hh
    obtain ⟨p, hp, h1, h2⟩ := hh
    have hm : p ∈ s.results.filter (fun p => p.2.taskAddr == t.taskAddr && p.2.id == t.id && p.2.sig.isSome) := by
      simp [List.mem_filter, hp, h1, h2, hi p hp]
    simp only [List.map_eq_nil_iff] at h0
    rw [h0] at hm
    simp at hm
  · simp

theorem epochEnd_halted (s : State) (id : String) (n : Int) (pw : Powers) :
    (epochEnd s id n pw).1.halted = s.halted := by
  unfold epochEnd; rfl

theorem halted_step (s : State) (o : Op) (hh : s.halted = false) : (step s o).1.halted = false := by
  unfold step
  split
  · exact hh
  · cases o with
    | setEpochs e => exact hh
    | setEnv a b => exact hh
    | update p => show (updateAVS s p).1.halted = false; rw [(updateAVS_frame s p).2.2.2.2.2.2.1]; exact hh
    | opt d a op avs u => show (optAction s d a op avs u).1.halted = false; rw [(optAction_frame s d a op avs u).2.2.2.2.2.2.2.1]; exact hh
    | task p => show (createTask s p).1.halted = false; rw [(createTask_frame s p).2.2.2.2.2.1]; exact hh
    | bls op pk ok => show (regBLS s op pk ok).1.halted = false; rw [(regBLS_frame s op pk ok).2.2.2.2.2.2.2.1]; exact hh
    | submit i => show (submit s i).1.halted = false; rw [(submit_frame s i).2.2.2.2.2.1]; exact hh
    | challenge c => show (challenge s c).1.halted = false; rw [(challenge_frame s c).2.2.2.2.2.1]; exact hh
    | epochEnd id n pw => show (epochEnd s id n pw).1.halted = false; rw [epochEnd_halted]; exact hh

theorem no_halt_run (ops : List Op) (s : State) (hh : s.halted = false) : (run s ops).halted = false := by
  induction ops generalizing s with
  | nil => exact hh
  | cons o rest ih => simp only [run]; exact ih _ (halted_step s o hh)

theorem sigInv_run (ops : List Op) (s : State) (hr : ResInv s) (hi : SigInv s) : SigInv (run s ops) := by
  induction ops generalizing s with
  | nil => exact hi
  | cons o rest ih => simp only [run]; exact ih _ (resInv_step s o hr) (sigInv_step s o hr hi)

/-! ## opt-in -/

/-- the guard of OptIn compares the raw 18-decimal integers exactly -/
theorem selfDelegationTooLow_iff (self min : Dec) : selfDelegationTooLow self min = true ↔ self.raw < min.raw := by
  unfold selfDelegationTooLow Dec.lt
  exact decide_eq_true_iff

theorem selfDelegationTooLow_min (usd : Int) (n : Nat) :
    selfDelegationTooLow ⟨usd⟩ (minSelfDec n) = true ↔ usd < (n : Int) * PREC := by
  unfold selfDelegationTooLow Dec.lt minSelfDec Dec.ofInt
  exact decide_eq_true_iff

theorem optInCore_spec (s : State) (op : String) (avs : Addr) (u : Option Int) (e1 e2 : String)
    (h1 : e1 ≠ "ok") (h2 : e2 ≠ "ok") :
    ((optInCore s op avs u e1 e2).1 = s ∧ (optInCore s op avs u e1 e2).2 ≠ "ok") ∨
    (op ∈ s.operators ∧ ∃ a usd, KV.find? s.avss avs = some a ∧ u = some usd ∧ isOptedIn s op avs = false ∧
      (a.minSelf : Int) * PREC ≤ usd ∧
      optInCore s op avs u e1 e2 = ({ s with opted := KV.set s.opted (op, avs) true }, "ok")) := by
  unfold optInCore
  by_cases c1 : op ∈ s.operators
  case neg => left; simp [c1, h1]
  cases ha : KV.find? s.avss avs with
  | none => left; simp [c1, h2]
  | some a =>
    by_cases c2 : isOptedIn s op avs = true
    · left; simp [c1, c2]
    cases hu : u with
    | none => left; simp [c1, c2]
    | some usd =>
      by_cases c3 : usd < (a.minSelf : Int) * PREC
      · left; simp [c1, c2, (selfDelegationTooLow_min usd a.minSelf).2 c3]
      · right
        have c4 : selfDelegationTooLow ⟨usd⟩ (minSelfDec a.minSelf) = false := by
          cases hb : selfDelegationTooLow ⟨usd⟩ (minSelfDec a.minSelf) with
          | false => rfl
          | true => exact absurd ((selfDelegationTooLow_min usd a.minSelf).1 hb) c3
        refine ⟨c1, a, usd, rfl, rfl, by simpa using c2, by omega, ?_⟩
        simp [c1, c2, c4]

theorem optAction_optin_spec (s : State) (d : Bool) (op : String) (avs : Addr) (u : Option Int) :
    ((optAction s d 1 op avs u).1 = s ∧ (optAction s d 1 op avs u).2 ≠ "ok") ∨
    (op ∈ s.operators ∧ ∃ a usd, KV.find? s.avss avs = some a ∧ u = some usd ∧ isOptedIn s op avs = false ∧
      (a.minSelf : Int) * PREC ≤ usd ∧
      optAction s d 1 op avs u = ({ s with opted := KV.set s.opted (op, avs) true }, "ok")) := by
  unfold optAction
  by_cases hd : d = true
  · simp only [hd, if_true]
    exact optInCore_spec s op avs u "ErrOperatorNotExist" "ErrNoSuchAvs" (by decide) (by decide)
  · simp only [hd, Bool.false_eq_true, if_false]
    by_cases c1 : op ∈ s.operators
    case neg => left; simp [c1]
    by_cases c2 : KV.has s.avss avs = true
    case neg => left; simp [c1, c2]
    · simp only [List.contains_eq_mem, c1, c2, decide_true, Bool.not_true, Bool.false_eq_true, if_false, if_true]
      exact Or.imp id (fun h => ⟨trivial, h.2⟩)
        (optInCore_spec s op avs u "ErrOperatorNotExist" "ErrNoSuchAvs" (by decide) (by decide))

/-! ## statistics -/

theorem mem_difference (a b : List String) (x : String) :
    x ∈ difference a b ↔ (x ∈ a ∧ x ∉ b) ∨ (x ∈ b ∧ x ∉ a) := by
  simp only [difference, mem_sortStr, List.mem_append, List.mem_filter, Bool.not_eq_true', List.contains_eq_mem,
    decide_eq_false_iff_not]
  constructor
  · rintro (h | h)
    · exact Or.inr h
    · exact Or.inl h
  · rintro (h | h)
    · exact Or.inr h
    · exact Or.inl h

theorem mem_dedupStr (l : List String) (x : String) : x ∈ dedupStr l ↔ x ∈ l := by
  induction l with
  | nil => simp [dedupStr]
  | cons y ys ih =>
    simp only [dedupStr]
    split
    · rename_i hc
      simp only [List.contains_eq_mem, decide_eq_true_eq] at hc
      simp only [ih, List.mem_cons]
      constructor
      · exact Or.inr
      · rintro (h | h)
        · rw [h]; exact hc
        · exact h
    · simp [ih]

theorem mem_subtract (a b : List String) (x : String) : x ∈ subtract a b ↔ x ∈ a ∧ x ∉ b := by
  simp [subtract, mem_sortStr, mem_dedupStr, List.mem_filter]

theorem mem_signersOf (s : State) (t : Addr) (id : Nat) (o : String) :
    o ∈ signersOf s t id ↔ ∃ p ∈ s.results, p.2.taskAddr = t ∧ p.2.id = id ∧ p.2.sig.isSome = true ∧ p.2.op = o := by
  simp only [signersOf, mem_sortStr, List.mem_map, List.mem_filter, Bool.and_eq_true, beq_iff_eq]
  constructor
  · rintro ⟨p, ⟨hp, ⟨h1, h2⟩, h3⟩, h4⟩
    exact ⟨p, hp, h1, h2, h3, h4⟩
  · rintro ⟨p, hp, h1, h2, h3, h4⟩
    exact ⟨p, ⟨hp, ⟨h1, h2⟩, h3⟩, h4⟩

theorem statTask_spec (s : State) (pw : Powers) (t t' : Task) (h : statTask s pw t = some t') :
    t'.signed = signersOf s t.taskAddr t.id ∧ t'.signed ≠ [] ∧
    t'.noSigned = subtract t.optIn t'.signed ∧
    t'.powers = t'.signed.map (fun o => (o, KV.getD pw.active (avsAddrOfTask s t.taskAddr, o) 0)) ∧
    t'.totalPower = KV.getD pw.avsTotal (avsAddrOfTask s t.taskAddr) 0 ∧
    t'.optIn = t.optIn ∧ t'.taskAddr = t.taskAddr ∧ t'.id = t.id ∧ t'.startingEpoch = t.startingEpoch ∧
    t'.resp = t.resp ∧ t'.stat = t.stat ∧ t'.chal = t.chal := by
  unfold statTask at h
  split at h
  · simp at h
  · rename_i hne
    simp only [Option.some.injEq] at h
    subst h
    refine ⟨rfl, ?_, rfl, rfl, rfl, rfl, rfl, rfl, rfl, rfl, rfl, rfl⟩
    intro h0; exact hne h0

/-! ## the statistics loop as a whole -/

theorem statGo_spec (s : State) (pw : Powers) (l tasks : List ((Addr × Nat) × Task))
    (hnd : KV.NoDup tasks) (hl : (l.map (·.1)).Nodup) :
    KV.NoDup (statGo s pw l tasks) ∧
    (∀ kt ∈ l, ∀ t', statTask s pw kt.2 = some t' → KV.find? (statGo s pw l tasks) kt.1 = some t') ∧
    (∀ kt ∈ l, statTask s pw kt.2 = none → KV.find? (statGo s pw l tasks) kt.1 = KV.find? tasks kt.1) ∧
    (∀ k, k ∉ l.map (·.1) → KV.find? (statGo s pw l tasks) k = KV.find? tasks k) := by
  induction l generalizing tasks with
  | nil => exact ⟨hnd, by simp, by simp, fun _ _ => rfl⟩
  | cons kt rest ih =>
    obtain ⟨k, t⟩ := kt
    simp only [List.map_cons, List.nodup_cons] at hl
    cases hs : statTask s pw t with
    | none =>
      simp only [statGo, hs]
      obtain ⟨g1, g2, g2', g3⟩ := ih tasks hnd hl.2
      refine ⟨g1, ?_, ?_, ?_⟩
      · intro kt hkt t' ht'
        simp only [List.mem_cons] at hkt
        rcases hkt with hkt | hkt
        · subst hkt; rw [hs] at ht'; cases ht'
        · exact g2 kt hkt t' ht'
      · intro kt hkt hn
        simp only [List.mem_cons] at hkt
        rcases hkt with hkt | hkt
        · subst hkt; exact g3 k hl.1
        · exact g2' kt hkt hn
      · intro k' hk'
        simp only [List.map_cons, List.mem_cons, not_or] at hk'
        exact g3 k' hk'.2
    | some t' =>
      simp only [statGo, hs]
      obtain ⟨g1, g2, g2', g3⟩ := ih (KV.set tasks k t') (KV.noDup_set _ _ _ hnd) hl.2
      refine ⟨g1, ?_, ?_, ?_⟩
      · intro kt hkt t'' ht''
        simp only [List.mem_cons] at hkt
        rcases hkt with hkt | hkt
        · subst hkt
          rw [hs] at ht''
          cases ht''
          rw [g3 k hl.1]; exact KV.find?_set_same _ _ _
        · exact g2 kt hkt t'' ht''
      · intro kt hkt hn
        simp only [List.mem_cons] at hkt
        rcases hkt with hkt | hkt
        · subst hkt; rw [hs] at hn; cases hn
        · rw [g2' kt hkt hn]
          have hne : kt.1 ≠ k := by
            intro e; exact hl.1 (e ▸ List.mem_map.2 ⟨kt, hkt, rfl⟩)
          exact KV.find?_set_other _ _ _ _ hne
      · intro k' hk'
        simp only [List.map_cons, List.mem_cons, not_or] at hk'
        rw [g3 k' hk'.2]; exact KV.find?_set_other _ _ _ _ hk'.1

theorem dueTasks_nodup (s : State) (id : String) (n : Int) (hnd : KV.NoDup s.tasks) :
    ((dueTasks s id n).map (·.1)).Nodup := by
  unfold dueTasks
  exact List.Nodup.sublist (List.Sublist.map _ List.filter_sublist) hnd

/-- AfterEpochEnd as a whole: the record of every task whose statistical period ends with this epoch
and that has a stored signed result is exactly what `statTask` computes from the state before the
hook; a due task without any signed result is skipped; every other task is untouched. -/
theorem epochEnd_spec (s : State) (id : String) (n : Int) (pw : Powers) (hnd : KV.NoDup s.tasks) :
    let s' := (epochEnd s id n pw).1
    (epochEnd s id n pw).2 = "ok" ∧ KV.NoDup s'.tasks ∧
    (∀ kt ∈ dueTasks s id n, ∀ t', statTask s pw kt.2 = some t' → KV.find? s'.tasks kt.1 = some t') ∧
    (∀ kt ∈ dueTasks s id n, statTask s pw kt.2 = none → KV.find? s'.tasks kt.1 = KV.find? s.tasks kt.1) ∧
    (∀ k, k ∉ (dueTasks s id n).map (·.1) → KV.find? s'.tasks k = KV.find? s.tasks k) := by
  have h := statGo_spec s pw (dueTasks s id n) s.tasks hnd (dueTasks_nodup s id n hnd)
  exact ⟨rfl, h⟩

def TasksNoDup (s : State) : Prop := KV.NoDup s.tasks

theorem tasksNoDup_step (s : State) (o : Op) (hi : TasksNoDup s) : TasksNoDup (step s o).1 := by
  unfold step
  split
  · exact hi
  · cases o with
    | setEpochs e => exact hi
    | setEnv a b => exact hi
    | update p => show KV.NoDup (updateAVS s p).1.tasks; rw [(updateAVS_frame s p).2.2.2.2.2.2.2.1]; exact hi
    | opt d a op avs u => show KV.NoDup (optAction s d a op avs u).1.tasks; rw [(optAction_frame s d a op avs u).2.2.2.2.2.2.2.2.1]; exact hi
    | task p =>
      show KV.NoDup (createTask s p).1.tasks
      rcases createTask_cases s p with h | ⟨t, _, _, h⟩
      · rw [h]; exact hi
      · rw [h]; exact KV.noDup_set _ _ _ hi
    | bls op pk ok => show KV.NoDup (regBLS s op pk ok).1.tasks; rw [(regBLS_frame s op pk ok).2.2.2.2.2.2.2.2.1]; exact hi
    | submit i => show KV.NoDup (submit s i).1.tasks; rw [(submit_frame s i).2.2.2.2.2.2.1]; exact hi
    | challenge c => show KV.NoDup (challenge s c).1.tasks; rw [(challenge_frame s c).2.2.2.2.2.2.1]; exact hi
    | epochEnd id n pw =>
      show KV.NoDup (epochEnd s id n pw).1.tasks
      exact (statGo_spec s pw _ _ hi (dueTasks_nodup s id n hi)).1

theorem tasksNoDup_run (ops : List Op) (s : State) (hi : TasksNoDup s) : TasksNoDup (run s ops) := by
  induction ops generalizing s with
  | nil => exact hi
  | cons o rest ih => simp only [run]; exact ih _ (tasksNoDup_step s o hi)

end ExoVerif.Avs
