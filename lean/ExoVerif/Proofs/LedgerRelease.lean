import ExoVerif.Proofs.LedgerNst
/-! Helper lemmas for C03's release clause over whole blocks: what EndBlock does to ONE staker's claim
    (withdrawable balance + what its pending undelegations still owe) and to the record of every live key.
    Core Lean only. -/
namespace ExoVerif.Ledger
open ExoVerif ExoVerif.KV

def wAtS (st : SID) (a : AID) : (SID × AID) × StakerRow → Int :=
  fun e => if e.1 = (st, a) then e.2.withdrawable else 0
def rAtS (st : SID) (a : AID) : RecKey × URec → Int :=
  fun e => if e.2.staker = st ∧ e.2.asset = a then e.2.actual else 0

/-- what staker `st` holds of asset `a` outside the operator pools: its withdrawable balance (summed over the
rows stored under key (st, a) - store keys are unique) plus what its pending undelegations still owe -/
def claim (s : L) (st : SID) (a : AID) : Int := sumP (wAtS st a) s.stakers + sumP (rAtS st a) s.recs

/-- Σ ActualCompletedAmount over the pending undelegations of (st, a) -/
def owed (s : L) (st : SID) (a : AID) : Int := sumP (rAtS st a) s.recs

theorem claim_congr {s s' : L} (h1 : s'.stakers = s.stakers) (h2 : s'.recs = s.recs) (st : SID) (a : AID) :
    claim s' st a = claim s st a := by unfold claim; rw [h1, h2]

theorem core_stakers_recs {s s' : L} (h : nstCore s' = nstCore s) : s'.stakers = s.stakers ∧ s'.recs = s.recs := by
  unfold nstCore at h
  injection h with h1 h; injection h with _ h; injection h with _ h; injection h with _ h
  injection h with _ h; injection h with h6 _
  exact ⟨h1, h6⟩

theorem claim_of_core {s s' : L} (h : nstCore s' = nstCore s) (st : SID) (a : AID) : claim s' st a = claim s st a :=
  claim_congr (core_stakers_recs h).1 (core_stakers_recs h).2 st a

theorem claim_updStaker {s s' : L} {st0 : SID} {a0 : AID} {dT dW dP : Int} (st : SID) (a : AID)
    (h : updStaker s st0 a0 dT dW dP = .ok s') :
    claim s' st a = claim s st a + (if (st0, a0) = (st, a) then dW else 0) := by
  rw [updStaker_ok h]
  unfold claim
  simp only [sumP_set]
  rw [atP_getD (wAtS st a) s.stakers (st0, a0) zeroStaker (by simp [wAtS, zeroStaker])]
  simp only [wAtS]
  split <;> omega

theorem claim_setRecord {s s' : L} {r : URec} (st : SID) (a : AID) (hfresh : find? s.recs r.key = none)
    (h : setRecord s r = .ok s') :
    claim s' st a = claim s st a + (if r.staker = st ∧ r.asset = a then r.actual else 0) := by
  unfold setRecord at h
  split at h
  · cases h
  · injection h with h; subst h
    unfold claim
    simp only [sumP_set, atP_of_none _ _ _ hfresh, rAtS]
    omega

theorem claim_deleteRecord {s : L} {r : URec} (st : SID) (a : AID) (hr : find? s.recs r.key = some r) :
    claim (deleteRecord s r) st a = claim s st a - (if r.staker = st ∧ r.asset = a then r.actual else 0) := by
  unfold deleteRecord claim
  simp only [sumP_erase, atP_of_find _ _ _ _ hr, rAtS]
  omega

/-- completion of a live record of a restaked asset moves `actual` from the record to the withdrawable balance
of the SAME staker: every staker's claim in every restaked asset is unchanged (a native-token record pays out
of the escrow account and touches no claim in a restaked asset) -/
theorem claim_completeRecord {s s' : L} {r : URec} (hr : find? s.recs r.key = some r)
    (h : completeRecord s r = .ok s') (st : SID) (a : AID) (ha : a ≠ nativeAID) :
    claim s' st a = claim s st a := by
  unfold completeRecord at h
  simp only [bind, Except.bind, pure, Except.pure] at h
  split at h
  · cases h
  · rename_i p1 h1
    obtain ⟨s1, z⟩ := p1
    simp only [] at h
    split at h
    · cases h
    · rename_i s2 h2
      split at h
      · cases h
      · rename_i s3 h3
        injection h with h; subst h
        have c1 := updDeleg_core h1
        have c3 := updPool_core h3
        have r1 : s1.recs = s.recs := (core_stakers_recs c1).2
        have e2 : claim s2 st a = claim s1 st a + (if r.asset = nativeAID then 0 else
            (if (r.staker, r.asset) = (st, a) then r.actual else 0)) ∧ s2.recs = s1.recs := by
          unfold creditStaker at h2
          split at h2
          · rename_i hn
            split at h2
            · cases h2
            · injection h2 with h2; subst h2
              refine ⟨?_, rfl⟩
              rw [if_pos hn]
              show claim s1 st a = claim s1 st a + 0
              omega
          · rename_i hn
            exact ⟨by rw [claim_updStaker st a h2, if_neg hn], (updStaker_recs h2).1⟩
        have r3 : s3.recs = s.recs := by rw [(core_stakers_recs c3).2, e2.2, r1]
        have hr3 : find? s3.recs r.key = some r := by rw [r3]; exact hr
        rw [claim_deleteRecord st a hr3, claim_of_core c3, e2.1, claim_of_core c1]
        by_cases hn : r.asset = nativeAID
        · have hk : ¬ (r.staker = st ∧ r.asset = a) := fun hc => ha (hc.2 ▸ hn)
          rw [if_pos hn, if_neg hk]; omega
        · rw [if_neg hn]
          by_cases hk : r.staker = st ∧ r.asset = a
          · have hk' : (r.staker, r.asset) = (st, a) := by rw [hk.1, hk.2]
            rw [if_pos hk, if_pos hk']; omega
          · have hk' : ¬ (r.staker, r.asset) = (st, a) :=
              fun e => hk ⟨(Prod.mk.inj e).1, (Prod.mk.inj e).2⟩
            rw [if_neg hk, if_neg hk']; omega

/-- one iteration of the EndBlock loop keeps every staker's claim in every restaked asset -/
theorem claim_endBlockRecord {s : L} {r : URec} (hi : RecInv s) (hr : Live s r) (st : SID) (a : AID)
    (ha : a ≠ nativeAID) : claim (endBlockRecord s r) st a = claim s st a := by
  unfold endBlockRecord
  split
  · simp only []
    split
    · rename_i s2 hset
      have hfresh : find? (deleteRecord s r).recs ({ r with completeBlock := s.height + 1 } : URec).key = none := by
        show find? (erase s.recs r.key) r.key = none
        exact find?_erase_same _ _ hi.ndR
      rw [claim_setRecord st a hfresh hset, claim_deleteRecord st a hr]
      simp only []
      omega
    · rfl
  · split
    · rename_i s2 hc; exact claim_completeRecord hr hc st a ha
    · rfl

theorem claim_foldl_endBlockRecord (rs : List URec) (s : L) (hi : RecInv s) (hl : ∀ r ∈ rs, Live s r)
    (hd : rs.Pairwise (fun r1 r2 => r1.key ≠ r2.key)) (st : SID) (a : AID) (ha : a ≠ nativeAID) :
    claim (rs.foldl endBlockRecord s) st a = claim s st a := by
  induction rs generalizing s with
  | nil => rfl
  | cons r0 rest ih =>
    simp only [List.foldl_cons]
    have hr0 : Live s r0 := hl r0 (by simp)
    obtain ⟨_, i1, oth1, _, _, _, _, _⟩ := endBlockRecord_spec hi hr0
    have hd' := List.pairwise_cons.1 hd
    have hl' : ∀ r ∈ rest, Live (endBlockRecord s r0) r := by
      intro r hr
      have hne : r.key ≠ r0.key := fun e => (hd'.1 r hr) e.symm
      show find? (endBlockRecord s r0).recs r.key = some r
      rw [oth1 r.key hne]; exact hl r (by simp [hr])
    rw [ih (endBlockRecord s r0) i1 hl' hd'.2, claim_endBlockRecord hi hr0 st a ha]

/-- **x/delegation EndBlock keeps every staker's claim in every restaked asset**: whatever leaves the pending
undelegations of (st, a) in a block is credited to the withdrawable balance of (st, a), exactly, and nothing
else is credited -/
theorem claim_endBlock {s : L} (hi : RecInv s) (st : SID) (a : AID) (ha : a ≠ nativeAID) :
    claim (nextBlock (endBlock s)) st a = claim s st a := by
  have : claim (endBlock s) st a = claim s st a := by
    obtain ⟨rs, hrs, hlive, hpair, _⟩ := pendingRecords_spec hi
    unfold endBlock
    rw [hrs]
    exact claim_foldl_endBlockRecord rs s hi (fun r hr => (hlive r hr).1) hpair st a ha
  exact this

/-! ## the fate of one key through the EndBlock loop -/

/-- a listed, un-held record is either released (gone from the record store) or - its completion having failed -
still there unchanged; a listed, held one is re-queued -/
theorem foldl_endBlockRecord_fate (rs : List URec) (s : L) (hi : RecInv s) (hl : ∀ r ∈ rs, Live s r)
    (hd : rs.Pairwise (fun r1 r2 => r1.key ≠ r2.key)) :
    ∀ r ∈ rs, getD s.holds r.key 0 = 0 →
      find? (rs.foldl endBlockRecord s).recs r.key = none ∨ find? (rs.foldl endBlockRecord s).recs r.key = some r := by
  induction rs generalizing s with
  | nil => intro r hr; cases hr
  | cons r0 rest ih =>
    intro r hr hh
    simp only [List.foldl_cons]
    have hr0 : Live s r0 := hl r0 (by simp)
    obtain ⟨_, i1, oth1, hh1, _, _, hok, herr⟩ := endBlockRecord_spec hi hr0
    have hd' := List.pairwise_cons.1 hd
    have hl' : ∀ r ∈ rest, Live (endBlockRecord s r0) r := by
      intro r hr
      have hne : r.key ≠ r0.key := fun e => (hd'.1 r hr) e.symm
      show find? (endBlockRecord s r0).recs r.key = some r
      rw [oth1 r.key hne]; exact hl r (by simp [hr])
    obtain ⟨_, _, oth2, _, _, _⟩ := foldl_endBlockRecord_spec rest (endBlockRecord s r0) i1 hl' hd'.2
    rcases List.mem_cons.1 hr with e | hin
    · subst e
      rw [oth2 r.key (fun r2 hr2 => fun e => (hd'.1 r2 hr2) e.symm)]
      cases hc : completeRecord s r with
      | ok s' =>
        left
        rw [hok hh s' hc]
        exact (completeRecord_spec hi hr0 hc).2.2.1
      | error e =>
        right
        rw [herr hh e hc]
        exact hr0
    · exact ih (endBlockRecord s r0) i1 hl' hd'.2 r hin (by rw [hh1]; exact hh)

/-- EndBlock never damages a record: every live record is afterwards either still there - unchanged, or re-queued
for the next block with nothing but its completion height moved - or it was due and un-held and has been
released -/
theorem endBlock_fate {s : L} (hi : RecInv s) (r : URec) (hl : Live s r) :
    Live (endBlock s) r ∨
    (r.completeBlock = s.height ∧ 0 < getD s.holds r.key 0 ∧
      find? (endBlock s).recs r.key = some { r with completeBlock := s.height + 1 }) ∨
    (r.completeBlock = s.height ∧ getD s.holds r.key 0 = 0 ∧ find? (endBlock s).recs r.key = none) := by
  by_cases hdue : r.completeBlock = s.height
  · by_cases hheld : 0 < getD s.holds r.key 0
    · exact Or.inr (Or.inl ⟨hdue, hheld, (endBlock_spec hi).2.2.2.2.2 r hl hdue hheld⟩)
    · have h0 : getD s.holds r.key 0 = 0 := by omega
      obtain ⟨rs, hrs, hlive, hpair, hcomplete⟩ := pendingRecords_spec hi
      have hin := hcomplete r hl hdue
      have hf := foldl_endBlockRecord_fate rs s hi (fun r hr => (hlive r hr).1) hpair r hin h0
      have e : endBlock s = rs.foldl endBlockRecord s := by unfold endBlock; rw [hrs]
      rw [← e] at hf
      rcases hf with hf | hf
      · exact Or.inr (Or.inr ⟨hdue, h0, hf⟩)
      · exact Or.inl hf
  · exact Or.inl ((endBlock_spec hi).2.2.2.2.1 r hl hdue)

end ExoVerif.Ledger
