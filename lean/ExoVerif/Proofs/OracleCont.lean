import ExoVerif.Proofs.OracleRestart
/-!
Helper development for the C14 continuation (Props/C14Cont.lean): after a restart the live node and the
restarted node stay in step for every later block.

What `Agc.Z` forgets — the *values* of the nonces recorded in the filters — is controlled from outside
the aggregator by the ante handler (`Store.checkNonce`, x/oracle/keeper/nonce.go: CheckAndIncreaseNonce):
the nonce let through is the stored nonce + 1. The invariant `NInv` below says that every nonce recorded
in a filter is at most the stored nonce of that (validator, feeder); it is a one-state invariant, holds
trivially for a freshly recached context (all recorded nonces are 0), is preserved by every transaction
and by EndBlock, and makes the nonce filter compute the same bit on both nodes.
Core Lean only.
-/
namespace ExoVerif.Oracle

/-! ### association lists: keys, membership, sublists -/

def akeys {κ α} (l : List (κ × α)) : List κ := l.map (·.1)

theorem alookup_aset {κ α} [DecidableEq κ] (k k2 : κ) (v : α) (l : List (κ × α)) :
    alookup k2 (aset k v l) = if k2 = k then some v else alookup k2 l := by
  by_cases h : k2 = k
  · subst h; simp only [if_true]; exact alookup_aset_same _ _ _
  · simp only [h, if_false]; exact alookup_aset_other _ _ _ _ h

theorem alookup_none_iff {κ α} [DecidableEq κ] (k : κ) (l : List (κ × α)) :
    alookup k l = none ↔ k ∉ akeys l := by
  induction l with
  | nil => simp [alookup, akeys]
  | cons hd t ih =>
    obtain ⟨k', v'⟩ := hd
    by_cases hk : k' = k
    · subst hk; simp [alookup, akeys]
    · have hk' : ¬ k = k' := fun e => hk e.symm
      simp only [alookup, hk, if_false, akeys, List.map_cons, List.mem_cons, hk', false_or] at ih ⊢
      exact ih

theorem alookup_mem {κ α} [DecidableEq κ] (k : κ) (v : α) (l : List (κ × α)) (h : alookup k l = some v) :
    (k, v) ∈ l := by
  induction l with
  | nil => simp [alookup] at h
  | cons hd t ih =>
    obtain ⟨k', v'⟩ := hd
    by_cases hk : k' = k
    · subst hk
      simp only [alookup, if_true, Option.some.injEq] at h
      subst h
      exact List.mem_cons_self
    · simp only [alookup, hk, if_false] at h
      exact List.mem_cons_of_mem _ (ih h)

theorem alookup_of_mem_nodup {κ α} [DecidableEq κ] (k : κ) (v : α) (l : List (κ × α))
    (hn : (akeys l).Nodup) (h : (k, v) ∈ l) : alookup k l = some v := by
  induction l with
  | nil => simp at h
  | cons hd t ih =>
    obtain ⟨k', v'⟩ := hd
    simp only [akeys, List.map_cons, List.nodup_cons] at hn
    rcases List.mem_cons.mp h with h | h
    · simp only [Prod.mk.injEq] at h
      obtain ⟨h1, h2⟩ := h
      subst h1 h2
      simp [alookup]
    · have hk : k' ≠ k := by
        intro e
        subst e
        apply hn.1
        exact List.mem_map.mpr ⟨(k', v), h, rfl⟩
      simp only [alookup, hk, if_false]
      exact ih hn.2 h

theorem akeys_sublist {κ α} {l l' : List (κ × α)} (h : l'.Sublist l) : (akeys l').Sublist (akeys l) :=
  h.map _

theorem alookup_sublist_some {κ α} [DecidableEq κ] {l l' : List (κ × α)} (h : l'.Sublist l)
    (hn : (akeys l).Nodup) (k : κ) (v : α) (hl : alookup k l' = some v) : alookup k l = some v :=
  alookup_of_mem_nodup k v l hn (h.subset (alookup_mem k v l' hl))

theorem alookup_sublist_none {κ α} [DecidableEq κ] {l l' : List (κ × α)} (h : l'.Sublist l)
    (k : κ) (hl : alookup k l = none) : alookup k l' = none := by
  rw [alookup_none_iff] at hl ⊢
  exact fun hm => hl ((akeys_sublist h).subset hm)

theorem adel_sublist {κ α} [DecidableEq κ] (k : κ) (l : List (κ × α)) : (adel k l).Sublist l := by
  induction l with
  | nil => exact List.Sublist.refl _
  | cons hd t ih =>
    obtain ⟨k', v'⟩ := hd
    by_cases hk : k' = k
    · simp only [adel, hk, if_true]; exact List.sublist_cons_self _ _
    · simp only [adel, hk, if_false]; exact ih.cons_cons _

theorem alookup_adel_self {κ α} [DecidableEq κ] (k : κ) (l : List (κ × α)) (hn : (akeys l).Nodup) :
    alookup k (adel k l) = none := by
  induction l with
  | nil => simp [adel, alookup]
  | cons hd t ih =>
    obtain ⟨k', v'⟩ := hd
    simp only [akeys, List.map_cons, List.nodup_cons] at hn
    by_cases hk : k' = k
    · subst hk
      simp only [adel, if_true]
      rw [alookup_none_iff]
      exact hn.1
    · simp only [adel, hk, if_false, alookup]
      exact ih hn.2

theorem akeys_aset {κ α} [DecidableEq κ] (k : κ) (v : α) (l : List (κ × α)) :
    akeys (aset k v l) = if k ∈ akeys l then akeys l else akeys l ++ [k] := by
  induction l with
  | nil => simp [aset, akeys]
  | cons hd t ih =>
    obtain ⟨k', v'⟩ := hd
    by_cases hk : k' = k
    · subst hk; simp [aset, akeys]
    · have hk' : ¬ k = k' := fun e => hk e.symm
      simp only [aset, hk, if_false, akeys, List.map_cons, List.mem_cons, hk', false_or] at ih ⊢
      rw [ih]
      by_cases hm : k ∈ List.map (fun x => x.fst) t
      · simp only [hm, if_true]
      · simp only [hm, if_false, List.cons_append]

theorem nodup_aset {κ α} [DecidableEq κ] (k : κ) (v : α) (l : List (κ × α)) (hn : (akeys l).Nodup) :
    (akeys (aset k v l)).Nodup := by
  rw [akeys_aset]
  split
  · exact hn
  · rename_i h
    rw [List.nodup_append]
    refine ⟨hn, List.nodup_cons.mpr ⟨List.not_mem_nil, List.nodup_nil⟩, ?_⟩
    intro a ha b hb
    simp only [List.mem_singleton] at hb
    subst hb
    intro e; subst e; exact h ha

theorem alookup_filter_key {κ α} [DecidableEq κ] (q : κ → Bool) (k : κ) (l : List (κ × α)) :
    alookup k (l.filter (fun kv => q kv.1)) = if q k then alookup k l else none := by
  induction l with
  | nil => simp [alookup]
  | cons hd t ih =>
    obtain ⟨k', v'⟩ := hd
    by_cases hq : q k' = true
    · simp only [List.filter_cons, hq, if_true, alookup]
      by_cases hk : k' = k
      · subst hk; simp [hq]
      · simp only [hk, if_false]; exact ih
    · simp only [List.filter_cons, hq, Bool.false_eq_true, if_false, alookup]
      by_cases hk : k' = k
      · subst hk; simp only [if_true]; rw [ih]; simp [hq]
      · simp only [hk, if_false]; exact ih

theorem alookup_aset_none {κ α} [DecidableEq κ] (k k2 : κ) (v : α) (l : List (κ × α))
    (h : alookup k2 (aset k v l) = none) : alookup k2 l = none := by
  rw [alookup_aset] at h
  by_cases hk : k2 = k
  · simp [hk] at h
  · simpa [hk] using h

/-! ### the recorded nonces of a context -/

/-- the nonces a worker's filter has recorded for validator `v` -/
def wn (w : Worker) (v : Nat) : List Int :=
  match w.f with
  | some f => (alookup v f.vNonce).getD []
  | none => []

/-- the nonces recorded for validator `v` at the worker of feeder `fid` -/
def nset (g : Agc) (fid v : Nat) : List Int :=
  match alookup fid g.workers with
  | some w => wn w v
  | none => []

theorem nonceSet_eq (g : Agc) (p : Params) (m : Msg) : nonceSet g p m = nset g m.feederID m.creator := by
  unfold nonceSet nset wn
  cases alookup m.feederID g.workers with
  | none => simp [newWorker, alookup]
  | some w => rfl

def WKeys (g : Agc) : Prop := (akeys g.workers).Nodup

/-- every recorded nonce satisfies `P feeder validator nonce` -/
def AllN (P : Nat → Nat → Int → Prop) (g : Agc) : Prop := ∀ fid v n, n ∈ nset g fid v → P fid v n

theorem setAdd_mem {α} [DecidableEq α] (size : Nat) (s : List α) (v x : α) (h : x ∈ (setAdd size s v).1) :
    x ∈ s ∨ x = v := by
  rcases setAdd_cases size s v with h1 | ⟨h1, _⟩
  · rw [h1] at h; exact Or.inl h
  · rw [h1] at h
    simp only [List.mem_append, List.mem_singleton] at h
    exact h

theorem filtrate_vNonce (f : Filter) (m : Msg) :
    (f.filtrate m).1.vNonce =
      aset m.creator (setAdd f.maxNonce ((alookup m.creator f.vNonce).getD []) m.nonce).1 f.vNonce := by
  unfold Filter.filtrate
  simp only
  split
  · rw [addPSource_vNonce]
  · rfl

theorem run_wn (w : Worker) (p : Params) (pw : Int) (m : Msg) (v : Nat) (n : Int)
    (h : n ∈ wn (w.run p pw m).1 v) : n ∈ wn w v ∨ (v = m.creator ∧ n = m.nonce) := by
  obtain ⟨sealed, price, decimal, f, c, a⟩ := w
  cases f with
  | none => exact Or.inl h
  | some f =>
    cases c with
    | none => exact Or.inl h
    | some c =>
      cases a with
      | none => exact Or.inl h
      | some a =>
        have hf : ((Worker.mk sealed price decimal (some f) (some c) (some a)).run p pw m).1.f = some (f.filtrate m).1 := by
          simp only [Worker.run]
          split <;> rfl
        simp only [wn, hf, filtrate_vNonce, alookup_aset] at h ⊢
        by_cases hv : v = m.creator
        · subst hv
          simp only [if_true, Option.getD_some] at h
          rcases setAdd_mem _ _ _ _ h with h | h
          · exact Or.inl h
          · exact Or.inr ⟨rfl, h⟩
        · simp only [hv, if_false] at h
          exact Or.inl h

/-- context.go: FillPrice writes the workers map at the message's feeder only; the worker it leaves there
has no filter (sealed), or the filter `Worker.run` produced, or is the worker that was there -/
theorem fillPrice_shape (g : Agc) (p : Params) (m : Msg) :
    ∃ wf, ((g.fillPrice p m).1.workers =
            aset m.feederID wf (aset m.feederID ((alookup m.feederID g.workers).getD (newWorker p g m.feederID)) g.workers) ∨
           (g.fillPrice p m).1.workers = aset m.feederID wf g.workers) ∧
      (wf.f = none ∨
       wf.f = (((alookup m.feederID g.workers).getD (newWorker p g m.feederID)).run p ((alookup m.creator g.vals).getD 0) m).1.f ∨
       wf = (alookup m.feederID g.workers).getD (newWorker p g m.feederID)) := by
  unfold Agc.fillPrice
  simp only
  generalize (alookup m.feederID g.workers).getD (newWorker p g m.feederID) = w
  cases hsd : w.sealed
  · simp only [Bool.false_eq_true, if_false]
    rcases hr : w.run p ((alookup m.creator g.vals).getD 0) m with ⟨w1, filled⟩
    simp only
    obtain ⟨sealed1, price1, decimal1, f1, c1, a1⟩ := w1
    by_cases hl : filled.length > 0
    · simp only [hl, if_true]
      cases a1 with
      | none => exact ⟨_, Or.inl rfl, Or.inr (Or.inl rfl)⟩
      | some a =>
        simp only
        cases hfin : (a.aggregate p.thA p.thB).final with
        | none => exact ⟨_, Or.inl rfl, Or.inr (Or.inl rfl)⟩
        | some fp => exact ⟨_, Or.inl rfl, Or.inl rfl⟩
    · simp only [hl, if_false]
      exact ⟨_, Or.inl rfl, Or.inr (Or.inl rfl)⟩
  · simp only [if_true]
    exact ⟨w, Or.inr rfl, Or.inr (Or.inr rfl)⟩

theorem fillPrice_WKeys (g : Agc) (p : Params) (m : Msg) (h : WKeys g) : WKeys (g.fillPrice p m).1 := by
  obtain ⟨wf, hs, _⟩ := fillPrice_shape g p m
  unfold WKeys at h ⊢
  rcases hs with hs | hs
  · rw [hs]; exact nodup_aset _ _ _ (nodup_aset _ _ _ h)
  · rw [hs]; exact nodup_aset _ _ _ h

theorem fillPrice_nset (g : Agc) (p : Params) (m : Msg) (fid v : Nat) (n : Int)
    (h : n ∈ nset (g.fillPrice p m).1 fid v) :
    n ∈ nset g fid v ∨ (fid = m.feederID ∧ v = m.creator ∧ n = m.nonce) := by
  obtain ⟨wf, hs, hw⟩ := fillPrice_shape g p m
  have hl : alookup fid (g.fillPrice p m).1.workers = if fid = m.feederID then some wf else alookup fid g.workers := by
    rcases hs with hs | hs
    · rw [hs, alookup_aset, alookup_aset]
      by_cases hf : fid = m.feederID <;> simp [hf]
    · rw [hs, alookup_aset]
  unfold nset at h
  rw [hl] at h
  by_cases hf : fid = m.feederID
  · subst hf
    simp only [if_true] at h
    have hold : ∀ x, x ∈ wn ((alookup m.feederID g.workers).getD (newWorker p g m.feederID)) v → x ∈ nset g m.feederID v := by
      intro x hx
      unfold nset
      cases hlk : alookup m.feederID g.workers with
      | none => rw [hlk] at hx; simp [wn, newWorker, alookup] at hx
      | some w0 => rw [hlk] at hx; exact hx
    rcases hw with hw | hw | hw
    · simp [wn, hw] at h
    · have h' : n ∈ wn (((alookup m.feederID g.workers).getD (newWorker p g m.feederID)).run p ((alookup m.creator g.vals).getD 0) m).1 v := by
        simp only [wn, ← hw]; exact h
      rcases run_wn _ _ _ _ _ _ h' with h1 | h1
      · exact Or.inl (hold _ h1)
      · exact Or.inr ⟨rfl, h1⟩
    · rw [hw] at h; exact Or.inl (hold _ h)
  · simp only [hf, if_false] at h
    exact Or.inl h

theorem fillPrice_AllN (P : Nat → Nat → Int → Prop) (g : Agc) (p : Params) (m : Msg) (h : AllN P g)
    (hm : P m.feederID m.creator m.nonce) : AllN P (g.fillPrice p m).1 := by
  intro fid v n hn
  rcases fillPrice_nset g p m fid v n hn with h1 | ⟨h1, h2, h3⟩
  · exact h fid v n h1
  · subst h1 h2 h3; exact hm

/-! ### sealing and round preparation only delete workers -/

/-- a worker exists only where a round exists (context.go: FillPrice runs after checkMsg found the round;
SealRound deletes the worker with the round) -/
def WR (g : Agc) : Prop := ∀ fid, alookup fid g.rounds = none → alookup fid g.workers = none

theorem AllN_sub (P : Nat → Nat → Int → Prop) (g g' : Agc) (hk : WKeys g) (hs : g'.workers.Sublist g.workers)
    (h : AllN P g) : AllN P g' := by
  intro fid v n hn
  apply h fid v n
  unfold nset at hn ⊢
  cases hl : alookup fid g'.workers with
  | none => rw [hl] at hn; simp at hn
  | some w => rw [hl] at hn; rw [alookup_sublist_some hs hk fid w hl]; exact hn

theorem WKeys_sub (g g' : Agc) (hk : WKeys g) (hs : g'.workers.Sublist g.workers) : WKeys g' :=
  List.Nodup.sublist (akeys_sublist hs) hk

/-- `g'` has the key discipline and its workers are among those of `g` -/
def Shrinks (g g' : Agc) : Prop := WKeys g' ∧ WR g' ∧ g'.workers.Sublist g.workers

theorem Shrinks.trans {a b c : Agc} (h1 : Shrinks a b) (h2 : Shrinks b c) : Shrinks a c :=
  ⟨h2.1, h2.2.1, h2.2.2.trans h1.2.2⟩

theorem sealOne_shape (p : Params) (h : Nat) (force : Bool) (g : Agc) (fid : Nat) :
    (sealOne p h force g fid).1.workers.Sublist g.workers ∧
    ((∀ k, alookup k (sealOne p h force g fid).1.rounds = none → alookup k g.rounds = none) ∨
     ((sealOne p h force g fid).1.rounds = adel fid g.rounds ∧
      (sealOne p h force g fid).1.workers.Sublist (adel fid g.workers))) := by
  unfold sealOne
  cases hr : alookup fid g.rounds with
  | none => exact ⟨List.Sublist.refl _, Or.inl fun k hk => hk⟩
  | some r =>
    simp only
    repeat' split
    all_goals
      refine ⟨?_, ?_⟩
      · first
        | exact List.Sublist.refl _
        | exact adel_sublist _ _
        | exact (adel_sublist _ _).trans (adel_sublist _ _)
      · first
        | exact Or.inl (fun k hk => hk)
        | exact Or.inl (fun k hk => alookup_aset_none _ _ _ _ hk)
        | exact Or.inr ⟨rfl, List.Sublist.refl _⟩
        | exact Or.inr ⟨rfl, adel_sublist _ _⟩

theorem sealOne_inv (p : Params) (h : Nat) (force : Bool) (g : Agc) (fid : Nat) (hk : WKeys g) (hw : WR g) :
    Shrinks g (sealOne p h force g fid).1 := by
  obtain ⟨h1, h2⟩ := sealOne_shape p h force g fid
  refine ⟨WKeys_sub g _ hk h1, ?_, h1⟩
  intro k hkr
  rcases h2 with h2 | ⟨h2, h3⟩
  · exact alookup_sublist_none h1 k (hw k (h2 k hkr))
  · by_cases hf : k = fid
    · subst hf
      exact alookup_sublist_none h3 k (alookup_adel_self k g.workers hk)
    · rw [h2, alookup_adel_other _ _ _ hf] at hkr
      exact alookup_sublist_none h1 k (hw k hkr)

theorem sealRound_inv (g : Agc) (p : Params) (h : Nat) (force : Bool) (hk : WKeys g) (hw : WR g) :
    Shrinks g (g.sealRound p h force).1 := by
  rw [sealRound_eq]
  generalize (g.rounds.map (·.1)) = l
  have key : ∀ (l : List Nat) (acc : Agc × List Nat × List Nat), Shrinks g acc.1 →
      Shrinks g (l.foldl (sealStep p h force) acc).1 := by
    intro l
    induction l with
    | nil => intro acc ha; exact ha
    | cons fid t ih =>
      intro acc ha
      rw [List.foldl_cons]
      apply ih
      exact ha.trans (sealOne_inv p h force acc.1 fid ha.1 ha.2.1)
  exact key l (g, [], []) ⟨hk, hw, List.Sublist.refl _⟩

theorem prepareOne_shape (p : Params) (block : Nat) (g : Agc) (fid : Nat) (f : Feeder) :
    (prepareOne p block g fid f).1.workers.Sublist g.workers ∧
    (∀ k, alookup k (prepareOne p block g fid f).1.rounds = none → alookup k g.rounds = none) ∧
    ((prepareOne p block g fid f).2 = true →
      alookup fid g.rounds = none ∨ (prepareOne p block g fid f).1.workers = adel fid g.workers) := by
  unfold prepareOne
  simp only
  repeat' split
  all_goals
    refine ⟨?_, ?_, ?_⟩
    · first
      | exact List.Sublist.refl _
      | exact adel_sublist _ _
    · first
      | exact fun k hk => hk
      | exact fun k hk => alookup_aset_none _ _ _ _ hk
    · first
      | exact fun _ => Or.inl (by assumption)
      | exact fun _ => Or.inr rfl
      | exact fun hc => absurd hc (by simp)

theorem prepareOne_inv (p : Params) (block : Nat) (g : Agc) (fid : Nat) (f : Feeder) (hk : WKeys g) (hw : WR g) :
    Shrinks g (prepareOne p block g fid f).1 ∧
    ((prepareOne p block g fid f).2 = true → alookup fid (prepareOne p block g fid f).1.workers = none) := by
  obtain ⟨h1, h2, h3⟩ := prepareOne_shape p block g fid f
  refine ⟨⟨WKeys_sub g _ hk h1, fun k hkr => alookup_sublist_none h1 k (hw k (h2 k hkr)), h1⟩, ?_⟩
  intro ho
  rcases h3 ho with h3 | h3
  · exact alookup_sublist_none h1 fid (hw fid h3)
  · rw [h3]; exact alookup_adel_self fid g.workers hk

theorem prepareLoop_inv (p : Params) (block : Nat) (fs : List Feeder) : ∀ (g : Agc) (i : Nat) (acc : List Nat),
    WKeys g → WR g → (∀ k ∈ acc, alookup k g.workers = none) →
    Shrinks g (prepareLoop p block g i fs acc).1 ∧
    ∀ k ∈ (prepareLoop p block g i fs acc).2, alookup k (prepareLoop p block g i fs acc).1.workers = none := by
  induction fs with
  | nil => intro g i acc hk hw ha; exact ⟨⟨hk, hw, List.Sublist.refl _⟩, ha⟩
  | cons f fs ih =>
    intro g i acc hk hw ha
    unfold prepareLoop
    by_cases hi : i = 0
    · simp only [hi, if_true]; exact ih _ _ _ hk hw ha
    · simp only [hi, if_false]
      obtain ⟨hs, ho⟩ := prepareOne_inv p block g i f hk hw
      have ha' : ∀ k ∈ (if (prepareOne p block g i f).2 = true then acc ++ [i] else acc),
          alookup k (prepareOne p block g i f).1.workers = none := by
        intro k hkm
        by_cases hop : (prepareOne p block g i f).2 = true
        · simp only [hop, if_true, List.mem_append, List.mem_singleton] at hkm
          rcases hkm with hkm | hkm
          · exact alookup_sublist_none hs.2.2 k (ha k hkm)
          · subst hkm; exact ho hop
        · simp only [hop] at hkm
          exact alookup_sublist_none hs.2.2 k (ha k hkm)
      obtain ⟨h1, h2⟩ := ih (prepareOne p block g i f).1 (i + 1) _ hs.1 hs.2.1 ha'
      exact ⟨hs.trans h1, h2⟩

/-- context.go: PrepareRoundEndBlock — no worker is left at a feeder whose nonces are about to be reset -/
theorem prepareRound_inv (g : Agc) (block : Nat) (hk : WKeys g) (hw : WR g) :
    Shrinks g (g.prepareRound block).1 ∧
    ∀ k ∈ (g.prepareRound block).2, alookup k (g.prepareRound block).1.workers = none := by
  unfold Agc.prepareRound
  split
  · exact ⟨⟨hk, hw, List.Sublist.refl _⟩, fun k hkm => by simp at hkm⟩
  · split
    · exact ⟨⟨hk, hw, List.Sublist.refl _⟩, fun k hkm => by simp at hkm⟩
    · exact prepareLoop_inv _ _ _ _ _ _ hk hw (fun k hkm => by simp at hkm)

/-! ### the stored nonces (x/oracle/keeper/nonce.go) and the ante handler -/

/-- `n` is at most the stored nonce of (validator `v`, feeder `fid`), if there is one -/
def leStored (st : Store) (fid v : Nat) (n : Int) : Prop :=
  ∀ c, alookup (v, fid) st.nonces = some c → n ≤ (c : Int)

/-- wherever `B` has a nonce entry, `A` has one that is not larger -/
def NGe (A B : Store) : Prop :=
  ∀ k c, alookup k B.nonces = some c → ∃ c0, alookup k A.nonces = some c0 ∧ c0 ≤ c

theorem NGe.refl (A : Store) : NGe A A := fun _ c h => ⟨c, h, Nat.le_refl _⟩

theorem NGe.trans {A B C : Store} (h1 : NGe A B) (h2 : NGe B C) : NGe A C := by
  intro k c hc
  obtain ⟨c1, hc1, hle1⟩ := h2 k c hc
  obtain ⟨c0, hc0, hle0⟩ := h1 k c1 hc1
  exact ⟨c0, hc0, Nat.le_trans hle0 hle1⟩

theorem NGe_of_eq (A B : Store) (h : B.nonces = A.nonces) : NGe A B := by
  intro k c hc; rw [h] at hc; exact ⟨c, hc, Nat.le_refl _⟩

theorem leStored_mono {A B : Store} (h : NGe A B) (fid v : Nat) (n : Int) (hl : leStored A fid v n) :
    leStored B fid v n := by
  intro c hc
  obtain ⟨c0, hc0, hle⟩ := h _ c hc
  have := hl c0 hc0
  omega

theorem AllN_mono {A B : Store} (h : NGe A B) (g : Agc) (ha : AllN (leStored A) g) : AllN (leStored B) g :=
  fun fid v n hn => leStored_mono h fid v n (ha fid v n hn)

theorem removeNonces_NGe (st : Store) (fid : Nat) (vals : List Nat) : NGe st (st.removeNonces fid vals) := by
  intro k c hc
  unfold Store.removeNonces at hc
  simp only at hc
  rw [alookup_filter_key (fun (k : Nat × Nat) => !(decide (k.2 = fid) && vals.contains k.1))] at hc
  split at hc
  · exact ⟨c, hc, Nat.le_refl _⟩
  · simp at hc

theorem checkNonce_spec (st st' : Store) (mx v fid : Nat) (n : Int) (h : st.checkNonce mx v fid n = some st') :
    ∃ cur, alookup (v, fid) st.nonces = some cur ∧ (cur : Int) + 1 = n ∧
      st'.nonces = aset (v, fid) (cur + 1) st.nonces := by
  unfold Store.checkNonce at h
  split at h
  · simp at h
  · split at h
    · rename_i cur hc
      split at h
      · rename_i he
        simp only [Option.some.injEq] at h
        subst h
        exact ⟨cur, hc, he, rfl⟩
      · simp at h
    · simp at h

def mkey (m : Msg) : Nat × Nat := (m.creator, m.feederID)

/-- the nonces of one (validator, feeder) increase strictly along the message list -/
def Incr : List Msg → Prop
  | [] => True
  | m :: ms => (∀ m' ∈ ms, mkey m' = mkey m → m.nonce < m'.nonce) ∧ Incr ms

/-- app/ante/cosmos/sigverify.go + nonce.go: what a successful nonce check of a transaction gives.
Every message's nonce exceeds the nonce stored before the transaction, is at most the one stored after it,
and the messages of one (validator, feeder) carry strictly increasing nonces. -/
theorem anteNonces_spec (mx : Nat) (ms : List Msg) : ∀ (st st' : Store), anteNonces mx st ms = some st' →
    NGe st st' ∧
    (∀ m ∈ ms, ∃ c, alookup (mkey m) st.nonces = some c ∧ (c : Int) < m.nonce) ∧
    (∀ m ∈ ms, leStored st' m.feederID m.creator m.nonce) ∧
    Incr ms := by
  induction ms with
  | nil =>
    intro st st' h
    simp only [anteNonces, Option.some.injEq] at h
    subst h
    exact ⟨NGe.refl _, fun m hm => by simp at hm, fun m hm => by simp at hm, trivial⟩
  | cons m ms ih =>
    intro st st' h
    simp only [anteNonces] at h
    split at h
    · rename_i st1 hck
      obtain ⟨cur, hcur, hn, hst1⟩ := checkNonce_spec _ _ _ _ _ _ hck
      obtain ⟨i1, i2, i3, i4⟩ := ih st1 st' h
      have hlk : ∀ k, alookup k st1.nonces = if k = (m.creator, m.feederID) then some (cur + 1) else alookup k st.nonces := by
        intro k; rw [hst1, alookup_aset]
      have hge : NGe st st1 := by
        intro k c hc
        rw [hlk] at hc
        by_cases hk : k = (m.creator, m.feederID)
        · subst hk
          simp only [if_true, Option.some.injEq] at hc
          exact ⟨cur, hcur, by omega⟩
        · simp only [hk, if_false] at hc
          exact ⟨c, hc, Nat.le_refl _⟩
      refine ⟨hge.trans i1, ?_, ?_, ?_, i4⟩
      · intro m' hm'
        rcases List.mem_cons.mp hm' with hm' | hm'
        · subst hm'
          exact ⟨cur, hcur, by omega⟩
        · obtain ⟨c, hc, hlt⟩ := i2 m' hm'
          rw [hlk] at hc
          by_cases hk : mkey m' = (m.creator, m.feederID)
          · simp only [hk, if_true, Option.some.injEq] at hc
            refine ⟨cur, by rw [hk]; exact hcur, ?_⟩
            omega
          · simp only [hk, if_false] at hc
            exact ⟨c, hc, hlt⟩
      · intro m' hm'
        rcases List.mem_cons.mp hm' with hm' | hm'
        · subst hm'
          intro c hc
          obtain ⟨c0, hc0, hle⟩ := i1 _ c hc
          rw [hlk] at hc0
          simp only [if_true, Option.some.injEq] at hc0
          omega
        · exact i3 m' hm'
      · intro m' hm' hk
        obtain ⟨c, hc, hlt⟩ := i2 m' hm'
        rw [hlk] at hc
        have hk' : mkey m' = (m.creator, m.feederID) := hk
        simp only [hk', if_true, Option.some.injEq] at hc
        omega
    · simp at h

theorem anteHandle_ok (s : State) (tx : Tx) (st : Store) (h : anteHandle s tx = .ok st) :
    anteNonces s.store.params.maxNonce s.store tx.msgs = some st := by
  unfold anteHandle at h
  repeat' split at h
  all_goals first
    | (simp only [Except.ok.injEq] at h; subst h; assumption)
    | (exact absurd h (by simp))

/-! ### the nonce filter computes the same bit on two contexts that agree up to nonces -/

/-- every nonce recorded for the sender of a pending message is below that message's nonce -/
def Fresh (g : Agc) (ms : List Msg) : Prop := ∀ m ∈ ms, ∀ n ∈ nset g m.feederID m.creator, n < m.nonce

theorem setAdd_bit_fresh (size : Nat) (s : List Int) (v : Int) (h : ∀ n ∈ s, n < v) :
    (setAdd size s v).2 = !(s.length == size) := by
  have hv : v ∉ s := fun hm => by have := h v hm; omega
  unfold setAdd
  by_cases h1 : (s.length == size) = true
  · simp [h1]
  · simp [h1, hv]

theorem okG_of_fresh (g g' : Agc) (p : Params) (m : Msg) (hZ : g.Z = g'.Z)
    (h1 : ∀ n ∈ nset g m.feederID m.creator, n < m.nonce)
    (h2 : ∀ n ∈ nset g' m.feederID m.creator, n < m.nonce) : okG g p m = okG g' p m := by
  have hw := lookupW_Z g g' p m.feederID hZ
  rw [← nonceSet_eq g p m] at h1
  rw [← nonceSet_eq g' p m] at h2
  unfold okG
  unfold nonceSet at h1 h2
  generalize (alookup m.feederID g.workers).getD (newWorker p g m.feederID) = w at hw h1 ⊢
  generalize (alookup m.feederID g'.workers).getD (newWorker p g' m.feederID) = w' at hw h2 ⊢
  obtain ⟨sealed, price, decimal, f, c, a⟩ := w
  obtain ⟨sealed', price', decimal', f', c', a'⟩ := w'
  simp only [Worker.Z, Worker.mk.injEq] at hw
  obtain ⟨-, -, -, h4, -, -⟩ := hw
  cases f with
  | none =>
    cases f' with
    | none => rfl
    | some f' => simp at h4
  | some f =>
    cases f' with
    | none => simp at h4
    | some f' =>
      simp only [Option.map_some, Option.some.injEq] at h4
      simp only at h1 h2
      have hmn : f.maxNonce = f'.maxNonce := by have h := congrArg Filter.maxNonce h4; exact h
      have hvn : amap zeroL f.vNonce = amap zeroL f'.vNonce := by have h := congrArg Filter.vNonce h4; exact h
      have hcur : zeroL ((alookup m.creator f.vNonce).getD []) = zeroL ((alookup m.creator f'.vNonce).getD []) := by
        rw [zeroL_getD, zeroL_getD, ← alookup_amap, ← alookup_amap, hvn]
      have hlen : ((alookup m.creator f.vNonce).getD []).length = ((alookup m.creator f'.vNonce).getD []).length := by
        have h := congrArg List.length hcur
        simpa [zeroL] using h
      simp only [okW, okBit]
      rw [setAdd_bit_fresh _ _ _ h1, setAdd_bit_fresh _ _ _ h2, hlen, hmn]

/-! ### one message, one transaction: the invariant is kept -/

theorem checkMsg_round (g : Agc) (p : Params) (m : Msg) (h : g.checkMsg p m = none) :
    ∃ r, alookup m.feederID g.rounds = some r := by
  unfold Agc.checkMsg at h
  split at h
  · simp at h
  · split at h
    · simp at h
    · rename_i r hr; exact ⟨r, hr⟩

theorem fillPrice_rounds (g : Agc) (p : Params) (m : Msg) (k : Nat)
    (h : alookup k (g.fillPrice p m).1.rounds = none) : alookup k g.rounds = none := by
  revert h
  unfold Agc.fillPrice
  simp only
  generalize (alookup m.feederID g.workers).getD (newWorker p g m.feederID) = w
  cases hsd : w.sealed
  · simp only [Bool.false_eq_true, if_false]
    rcases hr : w.run p ((alookup m.creator g.vals).getD 0) m with ⟨w1, filled⟩
    simp only
    obtain ⟨sealed1, price1, decimal1, f1, c1, a1⟩ := w1
    by_cases hl : filled.length > 0
    · simp only [hl, if_true]
      cases a1 with
      | none => exact fun h => h
      | some a =>
        simp only
        cases hfin : (a.aggregate p.thA p.thB).final with
        | none => exact fun h => h
        | some fp =>
          simp only
          cases hrd : alookup m.feederID g.rounds with
          | none => exact fun h => h
          | some r => exact fun h => alookup_aset_none _ _ _ _ h
    · simp only [hl, if_false]; exact fun h => h
  · simp only [if_true]; exact fun h => h

theorem fillPrice_lookup_other (g : Agc) (p : Params) (m : Msg) (fid : Nat) (hf : fid ≠ m.feederID) :
    alookup fid (g.fillPrice p m).1.workers = alookup fid g.workers := by
  obtain ⟨wf, hs, _⟩ := fillPrice_shape g p m
  rcases hs with hs | hs
  · rw [hs, alookup_aset_other _ _ _ _ hf, alookup_aset_other _ _ _ _ hf]
  · rw [hs, alookup_aset_other _ _ _ _ hf]

theorem fillPrice_WR (g : Agc) (p : Params) (m : Msg) (hw : WR g)
    (hr : ∃ r, alookup m.feederID g.rounds = some r) : WR (g.fillPrice p m).1 := by
  intro k hk
  have h0 := fillPrice_rounds g p m k hk
  have hne : k ≠ m.feederID := by
    intro e; subst e; obtain ⟨r, hr⟩ := hr; rw [hr] at h0; cases h0
  rw [fillPrice_lookup_other g p m k hne]; exact hw k h0

/-- the invariant inside a transaction whose nonce check left the store `st`: the context has the key
discipline, every recorded nonce is at most the stored one, the nonces recorded for the sender of each
pending message are below that message's nonce, and the message writes only removed nonce entries -/
def MI (st : Store) (s : State) (ms : List Msg) : Prop :=
  ∃ g, s.agc = some g ∧ WKeys g ∧ WR g ∧ AllN (leStored st) g ∧ Fresh g ms ∧
    (∀ m ∈ ms, leStored st m.feederID m.creator m.nonce) ∧ Incr ms ∧ NGe st s.store

theorem createPrice_MI (st : Store) (s : State) (m : Msg) (ms : List Msg) (h : MI st s (m :: ms)) :
    MI st (createPrice s m).1 ms := by
  obtain ⟨g, ha, hk, hw, hall, hfr, hpost, hinc, hge⟩ := h
  obtain ⟨store, agc, cache, dogfood, height, blockTime⟩ := s
  simp only at ha hge
  subst ha
  have hfr' : Fresh g ms := fun m' hm' => hfr m' (List.mem_cons_of_mem _ hm')
  have hpost' : ∀ m' ∈ ms, leStored st m'.feederID m'.creator m'.nonce :=
    fun m' hm' => hpost m' (List.mem_cons_of_mem _ hm')
  have hinc' : Incr ms := hinc.2
  have keep : ∀ (c : Option Cache), MI st (State.mk store (some g) c dogfood height blockTime) ms :=
    fun c => ⟨g, rfl, hk, hw, hall, hfr', hpost', hinc', hge⟩
  simp only [createPrice, getAgc, State.cacheD]
  by_cases hts : checkTimestamp blockTime m = true
  · simp only [hts, Bool.not_true, Bool.false_eq_true, if_false]
    cases hp : g.params with
    | none => exact keep _
    | some p =>
      simp only
      cases hck : g.checkMsg p m with
      | some e => exact keep _
      | none =>
        simp only
        have k1 : WKeys (g.fillPrice p m).1 := fillPrice_WKeys g p m hk
        have w1 : WR (g.fillPrice p m).1 := fillPrice_WR g p m hw (checkMsg_round g p m hck)
        have a1 : AllN (leStored st) (g.fillPrice p m).1 :=
          fillPrice_AllN _ g p m hall (hpost m List.mem_cons_self)
        have f1 : Fresh (g.fillPrice p m).1 ms := by
          intro m' hm' n hn
          rcases fillPrice_nset g p m _ _ n hn with h1 | ⟨h1, h2, h3⟩
          · exact hfr' m' hm' n h1
          · subst h3
            apply hinc.1 m' hm'
            show (m'.creator, m'.feederID) = (m.creator, m.feederID)
            rw [h1, h2]
        rcases hf : g.fillPrice p m with ⟨g1, res⟩
        rw [hf] at k1 w1 a1 f1
        simp only at k1 w1 a1 f1 ⊢
        cases res with
        | ignored => exact ⟨g1, rfl, k1, w1, a1, f1, hpost', hinc', hge⟩
        | cached it => exact ⟨g1, rfl, k1, w1, a1, f1, hpost', hinc', hge⟩
        | final it =>
          exact ⟨g1, rfl, k1, w1, a1, f1, hpost', hinc',
            hge.trans ((NGe_of_eq _ _ rfl).trans (removeNonces_NGe _ _ _))⟩
  · simp only [hts, Bool.not_false, if_true]
    exact keep _

theorem MI_nil (st : Store) (s : State) (ms : List Msg) (h : MI st s ms) : MI st s [] := by
  obtain ⟨g, ha, hk, hw, hall, _, _, _, hge⟩ := h
  exact ⟨g, ha, hk, hw, hall, fun m hm => by simp at hm, fun m hm => by simp at hm, trivial, hge⟩

theorem runMsgs_MI (st : Store) (ms : List Msg) : ∀ (s : State) (i : Nat), MI st s ms →
    MI st (runMsgs s i ms).1 [] := by
  induction ms with
  | nil => intro s i h; exact h
  | cons m ms ih =>
    intro s i h
    have h1 := createPrice_MI st s m ms h
    unfold runMsgs
    rcases hc : createPrice s m with ⟨s', out⟩
    rw [hc] at h1
    cases out with
    | ok => exact ih s' (i + 1) h1
    | err e => exact MI_nil _ _ _ h1

/-- **the nonce invariant** of a process state: the workers map has unique keys, a worker exists only
where a round exists, and every nonce recorded in a filter is at most the stored nonce of that
(validator, feeder) whenever the store has one -/
def NInv (s : State) : Prop := ∃ g, s.agc = some g ∧ WKeys g ∧ WR g ∧ AllN (leStored s.store) g

theorem MI_start (s : State) (tx : Tx) (st : Store) (hN : NInv s) (ha : anteHandle s tx = .ok st) :
    MI st { s with store := st } tx.msgs := by
  obtain ⟨g, hg, hk, hw, hall⟩ := hN
  obtain ⟨i1, i2, i3, i4⟩ := anteNonces_spec _ _ _ _ (anteHandle_ok s tx st ha)
  refine ⟨g, hg, hk, hw, AllN_mono i1 g hall, ?_, i3, i4, NGe.refl _⟩
  intro m hm n hn
  obtain ⟨c, hc, hlt⟩ := i2 m hm
  have := hall _ _ n hn c hc
  omega

theorem NInv_of_MI (st : Store) (s : State) (h : MI st s []) : NInv s ∧ NInv { s with store := st } := by
  obtain ⟨g, ha, hk, hw, hall, _, _, _, hge⟩ := h
  exact ⟨⟨g, ha, hk, hw, AllN_mono hge g hall⟩, ⟨g, ha, hk, hw, hall⟩⟩

theorem deliverTx_NInv (s : State) (tx : Tx) (h : NInv s) : NInv (deliverTx s tx).1 := by
  unfold deliverTx
  cases ha : anteHandle s tx with
  | error why => exact h
  | ok st =>
    simp only
    have h1 := runMsgs_MI st tx.msgs _ 0 (MI_start s tx st h ha)
    rcases hr : runMsgs { s with store := st } 0 tx.msgs with ⟨s2, r⟩
    rw [hr] at h1
    cases r with
    | none => exact (NInv_of_MI st s2 h1).1
    | some ie => exact (NInv_of_MI st s2 h1).2

/-! ### two nodes: the live one and the restarted one -/

/-- the relation kept from the restart on: equal store, cache, validator set, height and time; contexts
equal up to the recorded nonce values; both states satisfy the nonce invariant -/
def CRel (s s' : State) : Prop := SRel s s' ∧ NInv s ∧ NInv s'

theorem msgsBits_of_MI (st : Store) (ms : List Msg) : ∀ (s s' : State), SRel s s' → MI st s ms → MI st s' ms →
    msgsBits s s' ms = true := by
  induction ms with
  | nil => intro s s' _ _ _; rfl
  | cons m ms ih =>
    intro s s' hR h1 h2
    have hb : bitOK s s' m = true := by
      obtain ⟨g, g', ha, hs', hz⟩ := hR
      obtain ⟨g0, ha0, _, _, _, hfr, _, _, _⟩ := h1
      obtain ⟨g0', ha0', _, _, _, hfr', _, _, _⟩ := h2
      subst hs'
      rw [ha] at ha0
      simp only [Option.some.injEq] at ha0 ha0'
      subst ha0 ha0'
      simp only [bitOK, ha]
      cases hp : g.params with
      | none => rfl
      | some p =>
        simp only
        rw [okG_of_fresh g g' p m hz (hfr m List.mem_cons_self) (hfr' m List.mem_cons_self)]
        simp
    simp only [msgsBits, hb, Bool.true_and]
    obtain ⟨_, hR1⟩ := createPrice_rel s s' m hR hb
    have m1 := createPrice_MI st s m ms h1
    have m2 := createPrice_MI st s' m ms h2
    rcases hc : createPrice s m with ⟨t, out⟩
    rw [hc] at hR1 m1
    cases out with
    | ok => exact ih t _ hR1 m1 m2
    | err e => rfl

theorem txBits_of_CRel (s s' : State) (tx : Tx) (h : CRel s s') : txBits s s' tx = true := by
  obtain ⟨hR, hN, hN'⟩ := h
  unfold txBits
  cases ha : anteHandle s tx with
  | error why => rfl
  | ok st =>
    simp only
    have ha' : anteHandle s' tx = .ok st := by rw [anteHandle_rel s s' tx hR]; exact ha
    exact msgsBits_of_MI st tx.msgs _ _ (SRel_store s s' st hR) (MI_start s tx st hN ha) (MI_start s' tx st hN' ha')

theorem deliverTx_CRel (s s' : State) (tx : Tx) (h : CRel s s') :
    (deliverTx s tx).2 = (deliverTx s' tx).2 ∧ CRel (deliverTx s tx).1 (deliverTx s' tx).1 := by
  obtain ⟨h1, h2⟩ := deliverTx_rel s s' tx h.1 (txBits_of_CRel s s' tx h)
  exact ⟨h1, h2, deliverTx_NInv s tx h.2.1, deliverTx_NInv s' tx h.2.2⟩

theorem runTxs_CRel (txs : List Tx) : ∀ (s s' : State), CRel s s' →
    (runTxs s txs).2 = (runTxs s' txs).2 ∧ CRel (runTxs s txs).1 (runTxs s' txs).1 := by
  induction txs with
  | nil => intro s s' h; exact ⟨rfl, h⟩
  | cons tx txs ih =>
    intro s s' h
    obtain ⟨h1, h2⟩ := deliverTx_CRel s s' tx h
    obtain ⟨h3, h4⟩ := ih _ _ h2
    simp only [runTxs, h1, h3]
    exact ⟨trivial, h4⟩

/-! ### EndBlock (x/oracle/module.go), restated in stages -/

/-- module.go: EndBlock — nonce entries of departed validators, of the sealed feeders; failed rounds grow -/
def ebClean (st : Store) (updates : List (Nat × Int)) (sealed failed : List Nat) (valIDs : List Nat)
    (p : Params) : Store :=
  let st0 : Store := updates.foldl (fun st kv =>
    if kv.2 = 0 then { st with nonces := st.nonces.filter (fun e => !(e.1.1 = kv.1)) } else st) st
  let st := sealed.foldl (fun st fid => st.removeNonces fid valIDs) st0
  failed.foldl (fun st tok => st.setToken tok ((st.token tok).grow p.maxSizePrices)) st

/-- keeper/cache: CommitCache, the message log and ValidatorUpdateBlock -/
def ebCommit (st : Store) (c : Cache) (p : Params) (h : Nat) : Store :=
  let st := if c.msgs.length > 0 then commitMsgs st p.maxNonce h c.msgs else st
  if c.vUpdate then { st with vuBlock := some h } else st

/-- keeper/cache: CommitCache, the params -/
def ebParams (st : Store) (g : Agc) (c : Cache) (p : Params) (h : Nat) : Store × Agc × Cache :=
  let c := { c with msgs := [], vUpdate := false }
  if c.pUpdate then
    match c.params with
    | some cp => (commitParams st p.maxNonce h cp, { g with params := some cp }, { c with pUpdate := false })
    | none => (st, g, { c with pUpdate := false })
  else (st, g, c)

/-- module.go: EndBlock, the last stage: PrepareRoundEndBlock and the zero nonces of the opened feeders -/
def endFinal (s : State) (g2 : Agc) (st' : Store) (c' : Cache) : State :=
  let pr := g2.prepareRound s.height
  { s with store := pr.2.foldl (fun st fid => st.addZeroNonces fid (pr.1.vals.map (·.1))) st',
           agc := some pr.1, cache := some c' }

/-- module.go: EndBlock after the validator step, with the context's params at hand -/
def endTailP (s : State) (updates : List (Nat × Int)) (g : Agc) (c : Cache) (force : Bool) (p : Params) : State :=
  let sr := g.sealRound p s.height force
  let st := ebCommit (ebClean s.store updates sr.2.2 sr.2.1 (sr.1.vals.map (·.1)) p) c p s.height
  let r := ebParams st sr.1 c p s.height
  endFinal s r.2.1 r.1 r.2.2

/-- module.go: EndBlock after the validator step -/
def endTail (s : State) (updates : List (Nat × Int)) (g : Agc) (c : Cache) (force : Bool) : Option State :=
  match g.params with
  | none => none
  | some p => some (endTailP s updates g c force p)

/-- x/dogfood's validator set after the block's updates -/
def dogAfter (s : State) (updates : List (Nat × Int)) : List (Nat × Int) :=
  updates.foldl (fun d kv => if kv.2 = 0 then adel kv.1 d else aset kv.1 kv.2 d) s.dogfood

/-- the cache after `cacheValidator.add` of the block's updates -/
def cacheAfter (s : State) (updates : List (Nat × Int)) : Cache :=
  { s.cacheD with vals := (cacheAddVals s.cacheD.vals updates).1,
                  vUpdate := s.cacheD.vUpdate || (cacheAddVals s.cacheD.vals updates).2 }

theorem endBlock_eq (s : State) (g0 : Agc) (updates : List (Nat × Int)) (ha : s.agc = some g0) :
    endBlock s updates =
      if updates.length > 0 then
        endTail { s with cache := some s.cacheD, dogfood := dogAfter s updates } updates
          (g0.setValidators (cacheAfter s updates).vals) (cacheAfter s updates) true
      else endTail { s with cache := some s.cacheD, dogfood := dogAfter s updates } updates g0 s.cacheD false := by
  obtain ⟨store, agc, cache, dogfood, height, blockTime⟩ := s
  simp only at ha
  subst ha
  by_cases hu : updates.length > 0
  · simp only [hu, if_true]
    simp only [endBlock, getAgc, State.cacheD, Option.getD_some, hu, if_true]
    rfl
  · simp only [hu, if_false]
    simp only [endBlock, getAgc, State.cacheD, Option.getD_some, hu, if_false]
    rfl

/-! ### the store side of EndBlock: nonce entries are removed, or added with value 0 at a feeder
whose worker is gone -/

theorem foldl_NGe {β} (f : Store → β → Store) (hf : ∀ st x, NGe st (f st x)) (l : List β) :
    ∀ st, NGe st (l.foldl f st) := by
  induction l with
  | nil => intro st; exact NGe.refl _
  | cons x t ih => intro st; rw [List.foldl_cons]; exact (hf st x).trans (ih _)

theorem ebClean_NGe (st : Store) (updates : List (Nat × Int)) (sealed failed : List Nat) (valIDs : List Nat)
    (p : Params) : NGe st (ebClean st updates sealed failed valIDs p) := by
  unfold ebClean
  refine (foldl_NGe _ ?_ updates st).trans ((foldl_NGe _ ?_ sealed _).trans (foldl_NGe _ ?_ failed _))
  · intro st kv
    by_cases h0 : kv.2 = 0
    · simp only [h0, if_true]
      intro k c hc
      simp only at hc
      rw [alookup_filter_key (fun (k : Nat × Nat) => !(decide (k.1 = kv.1)))] at hc
      split at hc
      · exact ⟨c, hc, Nat.le_refl _⟩
      · simp at hc
    · simp only [h0, if_false]; exact NGe.refl _
  · intro st fid; exact removeNonces_NGe _ _ _
  · intro st tok; exact NGe_of_eq _ _ rfl

theorem ebCommit_nonces (st : Store) (c : Cache) (p : Params) (h : Nat) : (ebCommit st c p h).nonces = st.nonces := by
  unfold ebCommit
  simp only
  split <;> split <;> rfl

theorem ebParams_shape (st : Store) (c : Cache) (p : Params) (h : Nat) :
    ∃ (st' : Store) (c' : Cache) (np : Option Params), st'.nonces = st.nonces ∧
      ∀ g : Agc, ebParams st g c p h =
        (st', (match np with | some cp => { g with params := some cp } | none => g), c') := by
  unfold ebParams
  by_cases hpu : c.pUpdate = true
  · cases hcp : c.params with
    | some cp =>
      exact ⟨commitParams st p.maxNonce h cp, { c with msgs := [], vUpdate := false, pUpdate := false }, some cp, rfl,
        fun g => by simp only [hpu, hcp, if_true]⟩
    | none =>
      exact ⟨st, { c with msgs := [], vUpdate := false, pUpdate := false }, none, rfl,
        fun g => by simp only [hpu, hcp, if_true]⟩
  · exact ⟨st, { c with msgs := [], vUpdate := false }, none, rfl, fun g => by simp [hpu]⟩

theorem alookup_append_single {κ α} [DecidableEq κ] (k k0 : κ) (v0 c : α) (l : List (κ × α))
    (h : alookup k (l ++ [(k0, v0)]) = some c) : alookup k l = some c ∨ k0 = k := by
  induction l with
  | nil =>
    simp only [List.nil_append, alookup] at h
    by_cases hk : k0 = k
    · exact Or.inr hk
    · simp [hk] at h
  | cons hd t ih =>
    obtain ⟨k', v'⟩ := hd
    simp only [List.cons_append, alookup] at h ⊢
    by_cases hk : k' = k
    · simp only [hk, if_true] at h ⊢; exact Or.inl h
    · simp only [hk, if_false] at h ⊢; exact ih h

/-- nonce.go: AddZeroNonceItemWithFeederIDForValidators keeps existing entries; new ones belong to `fid` -/
theorem addZero_lookup (st : Store) (fid : Nat) (vals : List Nat) (k : Nat × Nat) (c : Nat)
    (h : alookup k (st.addZeroNonces fid vals).nonces = some c) :
    alookup k st.nonces = some c ∨ k.2 = fid := by
  unfold Store.addZeroNonces at h
  simp only at h
  have key : ∀ (vals : List Nat) (ns : List ((Nat × Nat) × Nat)),
      alookup k (vals.foldl (fun ns v => if (alookup (v, fid) ns).isSome then ns else ns ++ [((v, fid), 0)]) ns) = some c →
      alookup k ns = some c ∨ k.2 = fid := by
    intro vals
    induction vals with
    | nil => intro ns h; exact Or.inl h
    | cons v vs ih =>
      intro ns h
      rw [List.foldl_cons] at h
      rcases ih _ h with h1 | h1
      · split at h1
        · exact Or.inl h1
        · rcases alookup_append_single _ _ _ _ _ h1 with h2 | h2
          · exact Or.inl h2
          · right; rw [← h2]
      · exact Or.inr h1
  exact key vals st.nonces h

theorem addZeroFold_lookup (vals : List Nat) (opened : List Nat) : ∀ (st : Store) (k : Nat × Nat) (c : Nat),
    alookup k (opened.foldl (fun st fid => st.addZeroNonces fid vals) st).nonces = some c →
    alookup k st.nonces = some c ∨ k.2 ∈ opened := by
  induction opened with
  | nil => intro st k c h; exact Or.inl h
  | cons fid t ih =>
    intro st k c h
    rw [List.foldl_cons] at h
    rcases ih _ k c h with h1 | h1
    · rcases addZero_lookup st fid vals k c h1 with h2 | h2
      · exact Or.inl h2
      · exact Or.inr (by rw [h2]; exact List.mem_cons_self)
    · exact Or.inr (List.mem_cons_of_mem _ h1)

theorem endFinal_NInv (s : State) (g g2 : Agc) (st' : Store) (c' : Cache)
    (hk : WKeys g) (hall : AllN (leStored s.store) g) (hS2 : Shrinks g g2) (hmid : NGe s.store st') :
    NInv (endFinal s g2 st' c') := by
  obtain ⟨hP, hO⟩ := prepareRound_inv g2 s.height hS2.1 hS2.2.1
  unfold endFinal
  rcases hpr : g2.prepareRound s.height with ⟨gf, opened⟩
  rw [hpr] at hP hO
  simp only at hP hO ⊢
  refine ⟨gf, rfl, hP.1, hP.2.1, ?_⟩
  have hsub : gf.workers.Sublist g.workers := hP.2.2.trans hS2.2.2
  have hall' : AllN (leStored st') gf := AllN_mono hmid gf (AllN_sub _ g gf hk hsub hall)
  intro fid v n hn cc hcc
  rcases addZeroFold_lookup _ _ _ _ _ hcc with h1 | h1
  · exact hall' fid v n hn cc h1
  · have h0 := hO fid h1
    unfold nset at hn
    rw [h0] at hn
    simp at hn

/-- EndBlock keeps the nonce invariant -/
theorem endTail_NInv (s : State) (updates : List (Nat × Int)) (g : Agc) (c : Cache) (force : Bool) (t : State)
    (hk : WKeys g) (hw : WR g) (hall : AllN (leStored s.store) g)
    (h : endTail s updates g c force = some t) : NInv t := by
  cases hp : g.params with
  | none => simp only [endTail, hp] at h; cases h
  | some p =>
    simp only [endTail, hp, Option.some.injEq] at h
    subst h
    unfold endTailP
    have hS := sealRound_inv g p s.height force hk hw
    rcases hsr : g.sealRound p s.height force with ⟨gs, failed, sealed⟩
    rw [hsr] at hS
    simp only at hS ⊢
    obtain ⟨st', c', np, hst', hpar⟩ :=
      ebParams_shape (ebCommit (ebClean s.store updates sealed failed (gs.vals.map (·.1)) p) c p s.height) c p s.height
    rw [hpar gs]
    have hmid : NGe s.store st' :=
      (ebClean_NGe s.store updates sealed failed (gs.vals.map (·.1)) p).trans
        ((NGe_of_eq _ _ (ebCommit_nonces _ c p s.height)).trans (NGe_of_eq _ _ hst'))
    cases np with
    | none => exact endFinal_NInv s g gs st' c' hk hall hS hmid
    | some cp => exact endFinal_NInv s g { gs with params := some cp } st' c' hk hall hS hmid

theorem endFinal_rel (s : State) (g2 g2' : Agc) (st' : Store) (c' : Cache) (hz : g2.Z = g2'.Z) :
    SRel (endFinal s g2 st' c') (endFinal s g2' st' c') := by
  obtain ⟨h1, h2⟩ := prepareRound_rel g2 g2' s.height hz
  unfold endFinal
  rcases hpr : g2.prepareRound s.height with ⟨gf, opened⟩
  rcases hpr' : g2'.prepareRound s.height with ⟨gf', opened'⟩
  rw [hpr, hpr'] at h1 h2
  simp only at h1 h2 ⊢
  subst h1
  have hv : gf'.vals = gf.vals := (congrArg Agc.vals h2).symm
  rw [hv]
  exact ⟨gf, gf', rfl, rfl, h2⟩

/-- EndBlock on two contexts that agree up to nonces: same store, same cache, contexts agree up to nonces -/
theorem endTailP_rel (s : State) (updates : List (Nat × Int)) (g g' : Agc) (c : Cache) (force : Bool) (p : Params)
    (hz : g.Z = g'.Z) : SRel (endTailP s updates g c force p) (endTailP s updates g' c force p) := by
  obtain ⟨hs1, hs2⟩ := sealRound_rel g g' p s.height force hz
  unfold endTailP
  rcases hsr : g.sealRound p s.height force with ⟨gs, failed, sealed⟩
  rcases hsr' : g'.sealRound p s.height force with ⟨gs', failed', sealed'⟩
  rw [hsr, hsr'] at hs1 hs2
  simp only [Prod.mk.injEq] at hs1 hs2 ⊢
  obtain ⟨e1, e2⟩ := hs1
  subst e1 e2
  have hv : gs'.vals = gs.vals := (congrArg Agc.vals hs2).symm
  rw [hv]
  obtain ⟨st', c', np, _, hpar⟩ :=
    ebParams_shape (ebCommit (ebClean s.store updates sealed failed (gs.vals.map (·.1)) p) c p s.height) c p s.height
  rw [hpar gs, hpar gs']
  cases np with
  | none => exact endFinal_rel s gs gs' st' c' hs2
  | some cp =>
    have hz2 := congrArg (fun x : Agc => ({ x with params := some cp } : Agc)) hs2
    exact endFinal_rel s { gs with params := some cp } { gs' with params := some cp } st' c' hz2

/-- EndBlock, two nodes: both halt or neither; the relation and the invariant are kept -/
theorem endBlock_CRel (s s' : State) (updates : List (Nat × Int)) (h : CRel s s') :
    (endBlock s updates = none ∧ endBlock s' updates = none) ∨
    ∃ t t', endBlock s updates = some t ∧ endBlock s' updates = some t' ∧ CRel t t' := by
  obtain ⟨⟨g, g', ha, hs', hz⟩, ⟨g0, ha0, hk, hw, hall⟩, ⟨g0', ha0', hk', hw', hall'⟩⟩ := h
  subst hs'
  rw [ha] at ha0
  simp only [Option.some.injEq] at ha0 ha0'
  subst ha0 ha0'
  rw [endBlock_eq s g updates ha, endBlock_eq { s with agc := some g' } g' updates rfl]
  have key : ∀ (s1 : State) (a a' : Agc) (c : Cache) (f : Bool), s1.store = s.store → a.Z = a'.Z →
      WKeys a → WR a → AllN (leStored s.store) a → WKeys a' → WR a' → AllN (leStored s.store) a' →
      (endTail s1 updates a c f = none ∧ endTail s1 updates a' c f = none) ∨
      ∃ t t', endTail s1 updates a c f = some t ∧ endTail s1 updates a' c f = some t' ∧ CRel t t' := by
    intro s1 a a' c f hst hza k1 w1 a1 k2 w2 a2
    have hpa : a.params = a'.params := by have h := congrArg Agc.params hza; exact h
    cases hp : a.params with
    | none => left; exact ⟨by simp only [endTail, hp], by simp only [endTail, ← hpa, hp]⟩
    | some p =>
      right
      have e1 : endTail s1 updates a c f = some (endTailP s1 updates a c f p) := by simp only [endTail, hp]
      have e2 : endTail s1 updates a' c f = some (endTailP s1 updates a' c f p) := by simp only [endTail, ← hpa, hp]
      exact ⟨_, _, e1, e2, endTailP_rel s1 updates a a' c f p hza,
        endTail_NInv s1 updates a c f _ k1 w1 (by rw [hst]; exact a1) e1,
        endTail_NInv s1 updates a' c f _ k2 w2 (by rw [hst]; exact a2) e2⟩
  by_cases hu : updates.length > 0
  · simp only [hu, if_true]
    have hzv : (g.setValidators (cacheAfter s updates).vals).Z = (g'.setValidators (cacheAfter s updates).vals).Z :=
      congrArg (fun x : Agc => x.setValidators (cacheAfter s updates).vals) hz
    exact key _ _ _ _ _ rfl hzv hk hw hall hk' hw' hall'
  · simp only [hu, if_false]
    exact key _ _ _ _ _ rfl hz hk hw hall hk' hw' hall'

/-! ### a recached context records only the nonce 0 (single.go: recacheAggregatorContext feeds every
logged item to FillPrice with nonce 0) -/

def ZI (g : Agc) : Prop := WKeys g ∧ AllN (fun _ _ n => n = 0) g

theorem ZI_workers (g g' : Agc) (hw : g'.workers = g.workers) (h : ZI g) : ZI g' := by
  refine ⟨by unfold WKeys; rw [hw]; exact h.1, ?_⟩
  intro fid v n hn
  apply h.2 fid v n
  unfold nset at hn ⊢
  rw [hw] at hn
  exact hn

theorem ZI_sub (g g' : Agc) (hs : g'.workers.Sublist g.workers) (h : ZI g) : ZI g' :=
  ⟨WKeys_sub g g' h.1 hs, AllN_sub _ g g' h.1 hs h.2⟩

theorem ZI_empty (g : Agc) (hw : g.workers = []) : ZI g := by
  refine ⟨by unfold WKeys; rw [hw]; exact List.nodup_nil, ?_⟩
  intro fid v n hn
  unfold nset at hn
  rw [hw] at hn
  simp [alookup] at hn

theorem sealRound_sub (g : Agc) (p : Params) (h : Nat) (force : Bool) :
    (g.sealRound p h force).1.workers.Sublist g.workers := by
  rw [sealRound_eq]
  generalize (g.rounds.map (·.1)) = l
  have key : ∀ (l : List Nat) (acc : Agc × List Nat × List Nat), acc.1.workers.Sublist g.workers →
      (l.foldl (sealStep p h force) acc).1.workers.Sublist g.workers := by
    intro l
    induction l with
    | nil => intro acc ha; exact ha
    | cons fid t ih =>
      intro acc ha
      rw [List.foldl_cons]
      apply ih
      exact (sealOne_shape p h force acc.1 fid).1.trans ha
  exact key l (g, [], []) (List.Sublist.refl _)

theorem prepareLoop_sub (p : Params) (block : Nat) (fs : List Feeder) : ∀ (g : Agc) (i : Nat) (acc : List Nat),
    (prepareLoop p block g i fs acc).1.workers.Sublist g.workers := by
  induction fs with
  | nil => intro g i acc; exact List.Sublist.refl _
  | cons f fs ih =>
    intro g i acc
    unfold prepareLoop
    by_cases hi : i = 0
    · simp only [hi, if_true]; exact ih _ _ _
    · simp only [hi, if_false]
      exact (ih _ _ _).trans (prepareOne_shape p block g i f).1

theorem prepareRound_sub (g : Agc) (block : Nat) : (g.prepareRound block).1.workers.Sublist g.workers := by
  unfold Agc.prepareRound
  split
  · exact List.Sublist.refl _
  · split
    · exact List.Sublist.refl _
    · exact prepareLoop_sub _ _ _ _ _ _

theorem replayMsgs_ZI (its : List ItemM) : ∀ (p? : Option Params) (g g' : Agc), ZI g →
    replayMsgs g p? its = some g' → ZI g' := by
  induction its with
  | nil =>
    intro p? g g' hz h
    simp only [replayMsgs, Option.some.injEq] at h
    rw [← h]; exact hz
  | cons it rest ih =>
    intro p? g g' hz h
    cases p? with
    | none => simp [replayMsgs] at h
    | some p =>
      simp only [replayMsgs] at h
      refine ih (some p) _ g' ?_ h
      exact ⟨fillPrice_WKeys g p _ hz.1, fillPrice_AllN _ g p _ hz.2 rfl⟩

/-- single.go: the params selection at the head of one replayed block -/
def pickStep (rp : List (Nat × Params)) (prev frm : Nat) (g : Agc) : Agc × Nat × List (Nat × Params) :=
  match pickParams rp prev frm with
  | some (b, p) => ({ g with params := some p }, b, rp.filter (fun (kv : Nat × Params) => !(kv.1 < frm && kv.1 > prev)))
  | none => (g, prev, rp)

theorem pickStep_workers (rp : List (Nat × Params)) (prev frm : Nat) (g : Agc) :
    (pickStep rp prev frm g).1.workers = g.workers := by
  unfold pickStep
  split <;> rfl

theorem replayLoop_succ (recent : List (Nat × Params)) (msgs : List (Nat × List ItemM)) (fuel frm prev : Nat)
    (g : Agc) (rp : List (Nat × Params)) :
    replayLoop recent msgs (fuel + 1) frm prev g rp =
      match replayMsgs ((pickStep rp prev frm g).1.prepareRound (frm - 1)).1
          ((pickStep rp prev frm g).1.prepareRound (frm - 1)).1.params ((alookup frm msgs).getD []) with
      | none => none
      | some g3 =>
        replayLoop recent msgs fuel (frm + 1) (pickStep rp prev frm g).2.1
          (match g3.params with
            | some p => (g3.sealRound p frm false).1
            | none => g3) (pickStep rp prev frm g).2.2 := rfl

theorem replayLoop_ZI (recent : List (Nat × Params)) (msgs : List (Nat × List ItemM)) :
    ∀ (fuel frm prev : Nat) (g : Agc) (rp : List (Nat × Params)) (r : Agc × Nat × List (Nat × Params)),
      ZI g → replayLoop recent msgs fuel frm prev g rp = some r → ZI r.1 := by
  intro fuel
  induction fuel with
  | zero =>
    intro frm prev g rp r hz h
    simp only [replayLoop, Option.some.injEq] at h
    rw [← h]; exact hz
  | succ fuel ih =>
    intro frm prev g rp r hz h
    rw [replayLoop_succ] at h
    have z1 : ZI (pickStep rp prev frm g).1 := ZI_workers g _ (pickStep_workers rp prev frm g) hz
    generalize pickStep rp prev frm g = x at h z1
    have z2 : ZI (x.1.prepareRound (frm - 1)).1 := ZI_sub _ _ (prepareRound_sub _ _) z1
    split at h
    · cases h
    · rename_i g3 hrm
      have z3 := replayMsgs_ZI _ _ _ _ z2 hrm
      refine ih _ _ _ _ _ ?_ h
      split
      · exact ZI_sub _ _ (sealRound_sub _ _ _ _) z3
      · exact z3

theorem initAgc_ZI (s : State) : ∃ g, (initAgc s).agc = some g ∧ ZI g := by
  unfold initAgc
  exact ⟨_, rfl, ZI_sub _ _ (prepareRound_sub _ _) (ZI_empty _ rfl)⟩

/-- single.go: recacheAggregatorContext, the context it rebuilds before the "hot fix" lines (the `res` of
`recacheAgc`), for ValidatorUpdateBlock `h` -/
def recacheRes (s : State) (h : Nat) : Option (Agc × Option Params) :=
  let frm : Int := if (h : Int) ≥ (s.height : Int) - s.store.params.maxNonce + 1 then h + 1
    else (s.height : Int) - s.store.params.maxNonce + 1
  let g : Agc := ({ params := none, vals := [], total := 0, rounds := [], workers := [] } : Agc).setValidators s.dogfood
  if frm ≥ s.height then
    let best := s.store.recentParams.foldl (fun (acc : Option (Nat × Params)) kv =>
      match acc with | some x => if kv.1 > x.1 then some kv else acc | none => some kv) none
    match best with
    | some (_, p) =>
      let g := { g with params := some p }
      let (g, _) := g.prepareRound (s.height - 2)
      let g := (g.sealRound p (s.height - 1) (decide (h + 1 = s.height))).1
      let (g, _) := g.prepareRound (s.height - 1)
      some (g, some p)
    | none => some (g, none)
  else
    let frmN := frm.toNat
    match replayLoop s.store.recentParams s.store.recentMsgs (s.height - frmN) frmN 0 g s.store.recentParams with
    | none => none
    | some (g1, prev, rp) =>
      let (g2, lastP) := match pickParams rp prev s.height with
        | some (_, p) => ({ g1 with params := some p }, some p)
        | none => (g1, g1.params)
      let (g3, _) := g2.prepareRound (s.height - 1)
      some (g3, lastP)

theorem recacheAgc_res (s s' : State) (h : recacheAgc s = some (some s')) :
    ∃ hv g x, recacheRes s hv = some (g, x) ∧ s'.agc = some { g with params := some s.store.params } := by
  unfold recacheAgc at h
  split at h
  · cases h
  · rename_i hv hvu
    split at h
    · cases h
    · simp only at h
      split at h
      · cases h
      · rename_i g snd hres
        simp only [Option.some.injEq] at h
        subst h
        exact ⟨hv, g, snd, hres, rfl⟩

theorem recacheRes_ZI (s : State) (hv : Nat) (g : Agc) (x : Option Params) (h : recacheRes s hv = some (g, x)) :
    ZI g := by
  unfold recacheRes at h
  simp only at h
  generalize (if (hv : Int) ≥ (s.height : Int) - (s.store.params.maxNonce : Int) + 1 then (hv : Int) + 1
    else (s.height : Int) - (s.store.params.maxNonce : Int) + 1) = frm at h
  by_cases hc : frm ≥ (s.height : Int)
  · simp only [hc, if_true] at h
    split at h
    · simp only [Option.some.injEq, Prod.mk.injEq] at h
      rw [← h.1]
      exact ZI_sub _ _ (prepareRound_sub _ _) (ZI_sub _ _ (sealRound_sub _ _ _ _)
        (ZI_sub _ _ (prepareRound_sub _ _) (ZI_empty _ rfl)))
    · simp only [Option.some.injEq, Prod.mk.injEq] at h
      rw [← h.1]
      exact ZI_empty _ rfl
  · simp only [hc, if_false] at h
    split at h
    · cases h
    · rename_i g1 prev rp hrl
      have z1 : ZI g1 := replayLoop_ZI _ _ _ _ _ _ _ _ (ZI_empty _ rfl) hrl
      simp only [Option.some.injEq, Prod.mk.injEq] at h
      rw [← h.1]
      refine ZI_sub _ _ (prepareRound_sub _ _) (ZI_workers g1 _ ?_ z1)
      split <;> rfl

theorem recacheAgc_ZI (s s' : State) (h : recacheAgc s = some (some s')) : ∃ g, s'.agc = some g ∧ ZI g := by
  obtain ⟨hv, g, x, hres, ha⟩ := recacheAgc_res s s' h
  exact ⟨_, ha, ZI_workers g _ rfl (recacheRes_ZI s hv g x hres)⟩

/-- `orc.restart`: whatever the committed store holds, the rebuilt context records only the nonce 0 -/
theorem restartAt_ZI (s : State) (bt : Int) (s' : State) (h : restartAt s bt = some s') :
    ∃ g, s'.agc = some g ∧ ZI g := by
  unfold restartAt getAgc at h
  simp only at h
  split at h
  · simp only [Option.some.injEq] at h
    rw [← h]; exact initAgc_ZI _
  · cases h
  · rename_i s'' hre
    simp only [Option.some.injEq] at h
    subst h
    exact recacheAgc_ZI _ _ hre

/-! ### the key discipline is visible through `Z` -/

theorem akeys_amap {κ α β} (f : α → β) (l : List (κ × α)) : akeys (amap f l) = akeys l := by
  induction l with
  | nil => rfl
  | cons hd t ih =>
    simp only [akeys, amap, List.map_cons, List.cons.injEq, true_and] at ih ⊢
    exact ih

theorem WKeys_Z (g g' : Agc) (hz : g.Z = g'.Z) (h : WKeys g) : WKeys g' := by
  have hw : amap Worker.Z g.workers = amap Worker.Z g'.workers := by
    have h := congrArg Agc.workers hz; exact h
  unfold WKeys at h ⊢
  rw [← akeys_amap Worker.Z, ← hw, akeys_amap]
  exact h

theorem WR_Z (g g' : Agc) (hz : g.Z = g'.Z) (h : WR g) : WR g' := by
  have hw : amap Worker.Z g.workers = amap Worker.Z g'.workers := by
    have h := congrArg Agc.workers hz; exact h
  have hr : g.rounds = g'.rounds := by have h := congrArg Agc.rounds hz; exact h
  intro k hk
  rw [← hr] at hk
  have h0 := h k hk
  have e1 := alookup_amap Worker.Z k g.workers
  rw [hw, alookup_amap, h0] at e1
  cases hl : alookup k g'.workers with
  | none => rfl
  | some w => rw [hl] at e1; simp at e1

/-! ### the restart establishes the relation; every later block keeps it -/

theorem restart_CRel (s0 : State) (bs : List Block) (bt : Int) (hF : faithful s0 bs = true)
    (s : State) (outs : List (List TxOut)) (hrun : runBlocks s0 bs = some (s, outs)) (hN : NInv s) :
    ∃ s', restartAt s bt = some s' ∧ CRel (beginBlock s bt) s' := by
  obtain ⟨s1, outs1, gl, gr, hrun1, ha, hre, hz⟩ := restart_equiv s0 bs bt hF
  rw [hrun] at hrun1
  simp only [Option.some.injEq, Prod.mk.injEq] at hrun1
  obtain ⟨e1, _⟩ := hrun1
  subst e1
  obtain ⟨g, hg, hk, hw, hall⟩ := hN
  rw [ha] at hg
  simp only [Option.some.injEq] at hg
  subst hg
  obtain ⟨g2, hg2, hzi⟩ := restartAt_ZI s bt _ hre
  simp only [Option.some.injEq] at hg2
  subst hg2
  refine ⟨_, hre, ⟨gl, gr, ha, rfl, hz.symm⟩, ⟨gl, ha, hk, hw, hall⟩, ⟨gr, rfl, WKeys_Z gl gr hz.symm hk, WR_Z gl gr hz.symm hw, ?_⟩⟩
  intro fid v n hn c _
  have := hzi.2 fid v n hn
  omega

theorem CRel_store (s s' : State) (h : CRel s s') : s'.store = s.store := by
  obtain ⟨⟨g, g', _, hs', _⟩, _, _⟩ := h
  rw [hs']

theorem beginBlock_CRel (s s' : State) (bt : Int) (h : CRel s s') : CRel (beginBlock s bt) (beginBlock s' bt) :=
  ⟨SRel_begin s s' bt h.1, h.2.1, h.2.2⟩

theorem runBlock_CRel (s s' : State) (b : Block) (h : CRel s s') :
    (runBlock s b = none ∧ runBlock s' b = none) ∨
    ∃ t t' o, runBlock s b = some (t, o) ∧ runBlock s' b = some (t', o) ∧ CRel t t' := by
  obtain ⟨ho, hR⟩ := runTxs_CRel b.txs _ _ (beginBlock_CRel s s' b.blockTime h)
  unfold runBlock
  simp only
  rw [← ho]
  rcases endBlock_CRel _ _ b.updates hR with ⟨h1, h2⟩ | ⟨t, t', h1, h2, h3⟩
  · left; rw [h1, h2]; exact ⟨rfl, rfl⟩
  · right; rw [h1, h2]; exact ⟨t, t', _, rfl, rfl, h3⟩

/-- what is observed of a run, block by block: the transaction results and the committed store of every
block (`none` = the node halted in that block's EndBlock) -/
def runTrace : State → List Block → List (Option (List TxOut × Store))
  | _, [] => []
  | s, b :: bs =>
    match runBlock s b with
    | none => [none]
    | some r => some (r.2, r.1.store) :: runTrace r.1 bs

theorem runTrace_CRel (bs : List Block) : ∀ (s s' : State), CRel s s' → runTrace s bs = runTrace s' bs := by
  induction bs with
  | nil => intro s s' _; rfl
  | cons b bs ih =>
    intro s s' h
    rcases runBlock_CRel s s' b h with ⟨h1, h2⟩ | ⟨t, t', o, h1, h2, h3⟩
    · simp only [runTrace, h1, h2]
    · simp only [runTrace, h1, h2, CRel_store t t' h3, ih t t' h3]

theorem runBlocks_CRel (bs : List Block) : ∀ (s s' : State), CRel s s' →
    (runBlocks s bs = none ∧ runBlocks s' bs = none) ∨
    ∃ t t' o, runBlocks s bs = some (t, o) ∧ runBlocks s' bs = some (t', o) ∧ CRel t t' := by
  induction bs with
  | nil => intro s s' h; exact Or.inr ⟨s, s', [], rfl, rfl, h⟩
  | cons b bs ih =>
    intro s s' h
    rcases runBlock_CRel s s' b h with ⟨h1, h2⟩ | ⟨t, t', o, h1, h2, h3⟩
    · left; simp only [runBlocks, h1, h2, and_self]
    · rcases ih t t' h3 with ⟨h4, h5⟩ | ⟨u, u', os, h4, h5, h6⟩
      · left; simp only [runBlocks, h1, h2, h4, h5, and_self]
      · right; exact ⟨u, u', o :: os, by simp only [runBlocks, h1, h4], by simp only [runBlocks, h2, h5], h6⟩

/-! ### the invariant as a check on a concrete state -/

def ninvB (s : State) : Bool :=
  match s.agc with
  | none => false
  | some g =>
    decide (akeys g.workers).Nodup &&
    g.workers.all (fun kv => (alookup kv.1 g.rounds).isSome) &&
    g.workers.all (fun kv =>
      match kv.2.f with
      | none => true
      | some f => f.vNonce.all (fun vn => vn.2.all (fun n =>
          match alookup (vn.1, kv.1) s.store.nonces with
          | some c => decide (n ≤ (c : Int))
          | none => true)))

theorem ninvB_sound (s : State) (h : ninvB s = true) : NInv s := by
  unfold ninvB at h
  cases ha : s.agc with
  | none => rw [ha] at h; cases h
  | some g =>
    rw [ha] at h
    simp only [Bool.and_eq_true, decide_eq_true_eq, List.all_eq_true] at h
    obtain ⟨⟨h1, h2⟩, h3⟩ := h
    refine ⟨g, ha, h1, ?_, ?_⟩
    · intro k hk
      cases hl : alookup k g.workers with
      | none => rfl
      | some w =>
        have := h2 (k, w) (alookup_mem k w g.workers hl)
        simp only [hk] at this
        cases this
    · intro fid v n hn c hc
      unfold nset wn at hn
      cases hl : alookup fid g.workers with
      | none => rw [hl] at hn; simp at hn
      | some w =>
        rw [hl] at hn
        simp only at hn
        have h4 := h3 (fid, w) (alookup_mem fid w g.workers hl)
        simp only at h4
        cases hf : w.f with
        | none => rw [hf] at hn; simp at hn
        | some f =>
          rw [hf] at hn h4
          simp only [List.all_eq_true] at hn h4
          cases hv : alookup v f.vNonce with
          | none => rw [hv] at hn; simp at hn
          | some ns =>
            rw [hv] at hn
            simp only [Option.getD_some] at hn
            have h5 := h4 (v, ns) (alookup_mem v ns f.vNonce hv) n hn
            simp only [hc, decide_eq_true_eq] at h5
            exact h5

/-! ### the invariant along a history from a first start -/

/-- a node that has not built its context yet and whose store has never seen a validator-update commit:
the first GetAggregatorContext call takes the init path (single.go: initAggregatorContext) -/
def Fresh0 (s : State) : Prop := s.agc = none ∧ s.store.vuBlock = none

def PreInv (s : State) : Prop := Fresh0 s ∨ NInv s

/-- the state `GetAggregatorContext` leaves on a first start -/
def initS (s : State) : State := initAgc { s with cache := some Cache.empty }

theorem getAgc_fresh (s : State) (h : Fresh0 s) : getAgc s = some (initS s) := by
  unfold getAgc
  rw [h.1]
  simp only
  unfold recacheAgc
  simp only [h.2]
  rfl

theorem initS_spec (s : State) : ∃ g c, (initS s).agc = some g ∧ g.workers = [] ∧ (initS s).cache = some c ∧
    (initS s).store = s.store ∧ (initS s).blockTime = s.blockTime := by
  unfold initS initAgc
  refine ⟨_, _, rfl, ?_, rfl, rfl, rfl⟩
  exact List.eq_nil_of_sublist_nil (prepareRound_sub _ _)

theorem getAgc_built (s : State) (g : Agc) (c : Cache) (ha : s.agc = some g) (hc : s.cache = some c) :
    getAgc s = some s := by
  obtain ⟨store, agc, cache, dogfood, height, blockTime⟩ := s
  simp only at ha hc
  subst ha hc
  rfl

theorem GInv_of_no_workers (g : Agc) (st : Store) (hw : g.workers = []) :
    WKeys g ∧ WR g ∧ AllN (leStored st) g := by
  refine ⟨by unfold WKeys; rw [hw]; exact List.nodup_nil, fun k _ => by rw [hw]; rfl, ?_⟩
  intro fid v n hn
  unfold nset at hn
  rw [hw] at hn
  simp [alookup] at hn

def MI0 (st : Store) (s : State) (ms : List Msg) : Prop :=
  Fresh0 s ∧ (∀ m ∈ ms, leStored st m.feederID m.creator m.nonce) ∧ Incr ms ∧ NGe st s.store

theorem MI_of_MI0 (st : Store) (s : State) (ms : List Msg) (h : MI0 st s ms) : MI st (initS s) ms := by
  obtain ⟨_, hpost, hinc, hge⟩ := h
  obtain ⟨g, c, ha, hw, _, hst, _⟩ := initS_spec s
  obtain ⟨k1, w1, a1⟩ := GInv_of_no_workers g st hw
  refine ⟨g, ha, k1, w1, a1, ?_, hpost, hinc, by rw [hst]; exact hge⟩
  intro m _ n hn
  unfold nset at hn
  rw [hw] at hn
  simp [alookup] at hn

theorem createPrice_fresh (s : State) (m : Msg) (h : Fresh0 s) :
    createPrice s m = if !(checkTimestamp s.blockTime m) then (s, .err .formatInvalid)
      else createPrice (initS s) m := by
  obtain ⟨g, c, ha, _, hc, _, hbt⟩ := initS_spec s
  by_cases hts : checkTimestamp s.blockTime m = true
  · simp only [hts, Bool.not_true, Bool.false_eq_true, if_false]
    unfold createPrice
    rw [hbt]
    simp only [hts, Bool.not_true, Bool.false_eq_true, if_false]
    rw [getAgc_fresh s h, getAgc_built (initS s) g c ha hc]
  · simp only [hts, Bool.not_false, if_true]
    unfold createPrice
    simp only [hts, Bool.not_false, if_true]

theorem createPrice_MI0 (st : Store) (s : State) (m : Msg) (ms : List Msg) (h : MI0 st s (m :: ms)) :
    MI0 st (createPrice s m).1 ms ∨ MI st (createPrice s m).1 ms := by
  rw [createPrice_fresh s m h.1]
  by_cases hts : checkTimestamp s.blockTime m = true
  · simp only [hts, Bool.not_true, Bool.false_eq_true, if_false]
    exact Or.inr (createPrice_MI st (initS s) m ms (MI_of_MI0 st s (m :: ms) h))
  · simp only [hts, Bool.not_false, if_true]
    obtain ⟨hf, hpost, hinc, hge⟩ := h
    exact Or.inl ⟨hf, fun m' hm' => hpost m' (List.mem_cons_of_mem _ hm'), hinc.2, hge⟩

theorem runMsgs_MI0 (st : Store) (ms : List Msg) : ∀ (s : State) (i : Nat), MI0 st s ms ∨ MI st s ms →
    MI0 st (runMsgs s i ms).1 [] ∨ MI st (runMsgs s i ms).1 [] := by
  induction ms with
  | nil => intro s i h; exact h
  | cons m ms ih =>
    intro s i h
    rcases h with h | h
    · have h1 := createPrice_MI0 st s m ms h
      unfold runMsgs
      rcases hc : createPrice s m with ⟨s', out⟩
      rw [hc] at h1
      cases out with
      | ok => exact ih s' (i + 1) h1
      | err e =>
        rcases h1 with h1 | h1
        · exact Or.inl ⟨h1.1, fun m hm => by simp at hm, trivial, h1.2.2.2⟩
        · exact Or.inr (MI_nil _ _ _ h1)
    · exact Or.inr (runMsgs_MI st (m :: ms) s i h)

theorem checkNonce_vuBlock (st st' : Store) (mx v fid : Nat) (n : Int) (h : st.checkNonce mx v fid n = some st') :
    st'.vuBlock = st.vuBlock := by
  unfold Store.checkNonce at h
  split at h
  · simp at h
  · split at h
    · split at h
      · simp only [Option.some.injEq] at h
        subst h
        rfl
      · simp at h
    · simp at h

theorem anteNonces_vuBlock (mx : Nat) (ms : List Msg) : ∀ (st st' : Store), anteNonces mx st ms = some st' →
    st'.vuBlock = st.vuBlock := by
  induction ms with
  | nil => intro st st' h; simp only [anteNonces, Option.some.injEq] at h; rw [h]
  | cons m ms ih =>
    intro st st' h
    simp only [anteNonces] at h
    split at h
    · rename_i st1 hck
      rw [ih st1 st' h, checkNonce_vuBlock _ _ _ _ _ _ hck]
    · simp at h

theorem deliverTx_PreInv (s : State) (tx : Tx) (h : PreInv s) : PreInv (deliverTx s tx).1 := by
  rcases h with h | h
  · unfold deliverTx
    cases ha : anteHandle s tx with
    | error why => exact Or.inl h
    | ok st =>
      simp only
      have han := anteHandle_ok s tx st ha
      obtain ⟨_, _, i3, i4⟩ := anteNonces_spec _ _ _ _ han
      have hvu : st.vuBlock = none := by rw [anteNonces_vuBlock _ _ _ _ han]; exact h.2
      have h0 : MI0 st { s with store := st } tx.msgs := ⟨⟨h.1, hvu⟩, i3, i4, NGe.refl _⟩
      have h1 := runMsgs_MI0 st tx.msgs _ 0 (Or.inl h0)
      rcases hr : runMsgs { s with store := st } 0 tx.msgs with ⟨s2, r⟩
      rw [hr] at h1
      rcases h1 with h1 | h1
      · -- still no context: the messages did not touch the store
        have hs2 : s2.store.vuBlock = none := h1.1.2
        cases r with
        | none => exact Or.inl h1.1
        | some ie => exact Or.inl ⟨h1.1.1, hvu⟩
      · cases r with
        | none => exact Or.inr (NInv_of_MI st s2 h1).1
        | some ie => exact Or.inr (NInv_of_MI st s2 h1).2
  · exact Or.inr (deliverTx_NInv s tx h)

theorem runTxs_PreInv (txs : List Tx) : ∀ (s : State), PreInv s → PreInv (runTxs s txs).1 := by
  induction txs with
  | nil => intro s h; exact h
  | cons tx txs ih => intro s h; exact ih _ (deliverTx_PreInv s tx h)

/-- module.go: EndBlock as the first user of the context: it runs on the freshly initialized context,
which has no workers -/
theorem endBlock_fresh (s : State) (updates : List (Nat × Int)) (h : Fresh0 s) :
    ∃ t g c f, t.store = s.store ∧ g.workers = [] ∧ endBlock s updates = endTail t updates g c f := by
  have hg := getAgc_fresh { s with cache := some s.cacheD, dogfood := dogAfter s updates } ⟨h.1, h.2⟩
  obtain ⟨g, c, ha, hw, hc, hst, _⟩ := initS_spec { s with cache := some s.cacheD, dogfood := dogAfter s updates }
  generalize initS { s with cache := some s.cacheD, dogfood := dogAfter s updates } = T at hg ha hc hst
  unfold dogAfter at hg
  unfold endBlock
  simp only
  rw [hg]
  simp only [ha, State.cacheD, hc, Option.getD_some]
  by_cases hu : updates.length > 0
  · simp only [hu, if_true]
    exact ⟨T, g.setValidators (cacheAddVals c.vals updates).1,
      { c with vals := (cacheAddVals c.vals updates).1, vUpdate := c.vUpdate || (cacheAddVals c.vals updates).2 },
      true, hst, hw, rfl⟩
  · simp only [hu, if_false]
    exact ⟨T, g, c, false, hst, hw, rfl⟩

theorem endBlock_NInv (s : State) (updates : List (Nat × Int)) (t : State) (hN : NInv s)
    (ht : endBlock s updates = some t) : NInv t := by
  obtain ⟨g, ha, hk, hw, hall⟩ := hN
  have hC : CRel s s := ⟨⟨g, g, ha, by rw [← ha], rfl⟩, ⟨g, ha, hk, hw, hall⟩, ⟨g, ha, hk, hw, hall⟩⟩
  rcases endBlock_CRel s s updates hC with ⟨h1, _⟩ | ⟨t1, t2, h1, _, h3⟩
  · rw [h1] at ht; cases ht
  · rw [h1] at ht
    simp only [Option.some.injEq] at ht
    subst ht
    exact h3.2.1

theorem endBlock_PreInv (s : State) (updates : List (Nat × Int)) (t : State) (h : PreInv s)
    (ht : endBlock s updates = some t) : NInv t := by
  rcases h with h | h
  · obtain ⟨t0, g, c, f, hst, hw, he⟩ := endBlock_fresh s updates h
    rw [he] at ht
    obtain ⟨k1, w1, a1⟩ := GInv_of_no_workers g t0.store hw
    exact endTail_NInv t0 updates g c f t k1 w1 a1 ht
  · exact endBlock_NInv s updates t h ht

theorem runBlock_PreInv (s : State) (b : Block) (t : State) (o : List TxOut) (h : PreInv s)
    (hr : runBlock s b = some (t, o)) : NInv t := by
  unfold runBlock at hr
  simp only at hr
  split at hr
  · rename_i s2 he
    simp only [Option.some.injEq, Prod.mk.injEq] at hr
    rw [← hr.1]
    refine endBlock_PreInv _ b.updates s2 (runTxs_PreInv b.txs _ ?_) he
    rcases h with h | h
    · exact Or.inl h
    · exact Or.inr h
  · cases hr

/-- along every history from a first start (or from a state satisfying the invariant) the invariant holds
after every block -/
theorem runBlocks_PreInv (bs : List Block) : ∀ (s t : State) (o : List (List TxOut)), PreInv s →
    runBlocks s bs = some (t, o) → PreInv t := by
  induction bs with
  | nil =>
    intro s t o h hr
    simp only [runBlocks, Option.some.injEq, Prod.mk.injEq] at hr
    rw [← hr.1]; exact h
  | cons b bs ih =>
    intro s t o h hr
    simp only [runBlocks] at hr
    split at hr
    · cases hr
    · rename_i r hb
      split at hr
      · cases hr
      · rename_i rs hbs
        simp only [Option.some.injEq, Prod.mk.injEq] at hr
        rw [← hr.1]
        exact ih r.1 rs.1 rs.2 (Or.inr (runBlock_PreInv s b r.1 r.2 h hb)) hbs

/-- the conclusion of the continuation statement, from the relation at the restart -/
theorem continuation_of_CRel (s s' : State) (h : CRel s s') (txs : List Tx) (upd : List (Nat × Int))
    (cont : List Block) :
    (match endBlock (runTxs s txs).1 upd, endBlock (runTxs s' txs).1 upd with
     | some t, some t' =>
       (runTxs s txs).2 = (runTxs s' txs).2 ∧
       (runBlocks t cont).map (fun r => (r.2, r.1.store)) = (runBlocks t' cont).map (fun r => (r.2, r.1.store))
     | none, none => True
     | _, _ => False) := by
  obtain ⟨ho, hR⟩ := runTxs_CRel txs _ _ h
  rcases endBlock_CRel _ _ upd hR with ⟨h1, h2⟩ | ⟨t, t', h1, h2, h3⟩
  · rw [h1, h2]; trivial
  · rw [h1, h2]
    refine ⟨ho, ?_⟩
    rcases runBlocks_CRel cont t t' h3 with ⟨h4, h5⟩ | ⟨u, u', os, h4, h5, h6⟩
    · rw [h4, h5]
    · rw [h4, h5]
      simp only [Option.map_some, CRel_store u u' h6]

theorem trace_of_CRel (s s' : State) (bt : Int) (h : CRel (beginBlock s bt) s') (txs : List Tx)
    (upd : List (Nat × Int)) (cont : List Block) :
    runTrace s ({ blockTime := bt, txs := txs, updates := upd } :: cont) =
      (match endBlock (runTxs s' txs).1 upd with
       | none => [none]
       | some t' => some ((runTxs s' txs).2, t'.store) :: runTrace t' cont) := by
  obtain ⟨ho, hR⟩ := runTxs_CRel txs _ _ h
  simp only [runTrace, runBlock]
  rcases endBlock_CRel _ _ upd hR with ⟨h1, h2⟩ | ⟨t, t', h1, h2, h3⟩
  · rw [h1, h2]
  · rw [h1, h2]
    simp only [ho, CRel_store t t' h3, runTrace_CRel cont t t' h3]

/-- `Faithful` histories end with a committed ValidatorUpdateBlock, so their end state is not `Fresh0` -/
theorem faithful_vuBlock (s0 : State) (bs : List Block) (s : State) (outs : List (List TxOut))
    (hF : faithful s0 bs = true) (hrun : runBlocks s0 bs = some (s, outs)) : ∃ h, s.store.vuBlock = some h := by
  unfold faithful at hF
  rw [hrun] at hF
  simp only at hF
  cases hv : s.store.vuBlock with
  | none => rw [hv] at hF; cases hF
  | some h => exact ⟨h, rfl⟩

end ExoVerif.Oracle
