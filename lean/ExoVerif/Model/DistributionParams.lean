import ExoVerif.Model.Distribution
/-
  Parameter updates in the middle of a history (C17, "configured epoch reward … at each mint-epoch end",
  "at each distribution-epoch end"): model of

    x/exomint/keeper/msg_server.go: Keeper.UpdateParams  (+ x/exomint/types/params.go: OverrideIfRequired,
                                     Params.Validate; x/epochs/types/identifier.go: ValidateEpochIdentifierString;
                                     sdk.ValidateDenom with the default expression [a-zA-Z][a-zA-Z0-9/:._-]{2,127})
    x/exomint/types/msg.go: MsgUpdateParams.ValidateBasic (what baseapp checks before the handler of a transaction's
                                     message runs: `mintDeliver`)
    x/feedistribution/keeper/msg_update_params.go: msgServer.UpdateParams (+ x/feedistribution/types/params.go:
                                     Params.Validate — community tax in [0, 1] — and types/msg_update_params.go:
                                     MsgUpdateParams.ValidateBasic)

  and of histories made of these messages, fee income and blocks (`runOps`). The hooks read their parameters
  from the store at every notification (hooks.go / impl_epochs_hooks.go: `GetParams(ctx)`), so the configuration
  in force in a block is the one the last accepted message left; nothing else (in particular no epoch NUMBER)
  is remembered between notifications.

  One denomination: the model follows the native denomination. A mint denom other than the native one mints
  coins of that other denomination (DecCoins act per denomination): for the native denomination the reward in
  force is then zero (`cfgOf`).
-/
namespace ExoVerif.Distr
open ExoVerif

/-- first character of a denomination: `[a-zA-Z]` -/
def denomHead (c : Char) : Bool := c.isAlpha

/-- the other characters: `[a-zA-Z0-9/:._-]` -/
def denomTail (c : Char) : Bool :=
  c.isAlphanum || c == '/' || c == ':' || c == '.' || c == '_' || c == '-'

/-- sdk.ValidateDenom (types/coin.go), default expression `^[a-zA-Z][a-zA-Z0-9/:._-]{2,127}$` -/
def validDenom (s : String) : Bool :=
  match s.toList with
  | [] => false
  | c :: rest => denomHead c && rest.all denomTail && decide (2 ≤ rest.length) && decide (rest.length ≤ 127)

/-- unicode.IsSpace (what strings.TrimSpace removes) -/
def isSpaceGo (c : Char) : Bool :=
  let n := c.toNat
  (9 ≤ n && n ≤ 13) || n == 0x20 || n == 0x85 || n == 0xA0 || n == 0x1680 || (0x2000 ≤ n && n ≤ 0x200A) ||
  n == 0x2028 || n == 0x2029 || n == 0x202F || n == 0x205F || n == 0x3000

/-- epochs/types/identifier.go: ValidateEpochIdentifierString — `strings.TrimSpace(s) != ""` -/
def validEpochId (s : String) : Bool := s.toList.any (fun c => !isSpaceGo c)

/-- x/exomint Params -/
structure MintParams where
  denom : String      -- MintDenom
  reward : Int        -- EpochReward
  id : String         -- EpochIdentifier
deriving Repr, Inhabited, DecidableEq

/-- the Params of an exomint MsgUpdateParams: the reward may be a nil `math.Int` -/
structure MintMsg where
  denom : String
  reward : Option Int
  id : String
deriving Repr, Inhabited, DecidableEq

/-- exomint/types/params.go: Params.OverrideIfRequired — unset or invalid fields keep their previous value -/
def overrideIfRequired (p : MintMsg) (prev : MintParams) : MintParams :=
  { denom := if validDenom p.denom then p.denom else prev.denom,
    reward := match p.reward with
              | none => prev.reward                                    -- p.EpochReward.IsNil()
              | some r => if r < 0 then prev.reward else r,            -- || p.EpochReward.IsNegative()
    id := if validEpochId p.id then p.id else prev.id }

/-- exomint/types/params.go: Params.Validate -/
def MintParams.valid (p : MintParams) : Bool := validDenom p.denom && decide (0 ≤ p.reward) && validEpochId p.id

/-- exomint/keeper/msg_server.go: Keeper.UpdateParams (authority check aside — C10): override, stateless
validation (`none` = ErrInvalidParams, nothing written), an identifier x/epochs does not know keeps the previous
identifier, SetParams. `known` = `epochsKeeper.GetEpochInfo(ctx, id)` found. -/
def mintUpdateParams (known : String → Bool) (prev : MintParams) (m : MintMsg) : Option MintParams :=
  let over := overrideIfRequired m prev
  if !over.valid then none
  else some (if known over.id then over else { over with id := prev.id })

/-- exomint/types/msg.go: MsgUpdateParams.ValidateBasic (authority address aside) = Params.Validate of the
message's params: valid denom, reward neither nil nor negative, identifier not blank -/
def MintMsg.validateBasic (m : MintMsg) : Bool :=
  validDenom m.denom && (match m.reward with | some r => decide (0 ≤ r) | none => false) && validEpochId m.id

/-- delivery of the message: the messages of a transaction pass ValidateBasic first (baseapp.runTx:
validateBasicTxMsgs; a failure refuses the transaction before any handler runs), other callers reach the handler
directly. Through a transaction the override rules of the handler therefore only ever see valid fields; the
unknown-identifier rule remains. -/
def mintDeliver (viaTx : Bool) (known : String → Bool) (prev : MintParams) (m : MintMsg) : Option MintParams :=
  if viaTx && !m.validateBasic then none else mintUpdateParams known prev m

/-- x/feedistribution Params as stored -/
structure DistrParams where
  id : String         -- EpochIdentifier
  tax : Int           -- CommunityTax, raw LegacyDec
deriving Repr, Inhabited, DecidableEq

/-- the Params of a feedistribution MsgUpdateParams: the community tax may be a nil `LegacyDec` (an absent /
empty field of the decoded message: LegacyDec.Unmarshal leaves it nil) -/
structure DistrMsg where
  id : String
  tax : Option Int
deriving Repr, Inhabited, DecidableEq

/-- why a feedistribution MsgUpdateParams is refused -/
inductive DistrRefusal where
  | taxOutOfRange     -- Params.Validate: "community tax must be in [0, 1]"
  | epochNotFound     -- types.ErrEpochNotFound
deriving Repr, Inhabited, DecidableEq

/-- feedistribution/types/params.go: Params.Validate, the rejection condition
`!p.CommunityTax.IsNil() && (p.CommunityTax.IsNegative() || p.CommunityTax.GT(sdk.OneDec()))`:
a nil tax passes, otherwise the raw value must lie in [0, 10^18]. -/
def distrTaxOutOfRange : Option Int → Bool
  | none => false
  | some t => decide (t < 0) || decide (PREC < t)

/-- feedistribution/types/params.go: Params.Validate (`true` = nil error) -/
def DistrMsg.valid (m : DistrMsg) : Bool := !distrTaxOutOfRange m.tax

/-- feedistribution/types/msg_update_params.go: MsgUpdateParams.ValidateBasic (authority address aside):
`m.Params.Validate()` -/
def DistrMsg.validateBasic (m : DistrMsg) : Bool := m.valid

/-- keeper/params.go: SetParams — `k.cdc.MustMarshal(&params)`: LegacyDec.Marshal writes a nil value as "0", so a
nil tax reads back (GetParams) as zero -/
def DistrMsg.stored (m : DistrMsg) : DistrParams := { id := m.id, tax := m.tax.getD 0 }

/-- feedistribution/keeper/msg_update_params.go: msgServer.UpdateParams (authority check aside), in the order of
the code: stateless validation first (`req.Params.Validate()`: a community tax that is negative or above 1 is
refused, nothing written), then the identifier must be one x/epochs knows (ErrEpochNotFound, nothing written),
then SetParams stores the message's params. (Repair of F-17c, fb3f03d.) -/
def distrUpdateParams (known : String → Bool) (_prev : DistrParams) (m : DistrMsg) : Except DistrRefusal DistrParams :=
  if !m.valid then .error .taxOutOfRange
  else if !known m.id then .error .epochNotFound
  else .ok m.stored

/-- the handler BEFORE the repair of F-17c (Params.Validate was `return nil` and was not called): any tax was
stored. Kept for the regression theorems `C17_regression_F17c_…`. -/
def distrUpdateParamsPreFix (known : String → Bool) (_prev : DistrParams) (m : DistrMsg) : Except DistrRefusal DistrParams :=
  if !known m.id then .error .epochNotFound else .ok m.stored

/-- delivery of the message: in a transaction ValidateBasic comes first (baseapp.runTx: validateBasicTxMsgs),
other callers reach the handler directly. -/
def distrDeliver (viaTx : Bool) (known : String → Bool) (prev : DistrParams) (m : DistrMsg) : Except DistrRefusal DistrParams :=
  if viaTx && !m.validateBasic then .error .taxOutOfRange else distrUpdateParams known prev m

/-- the parameters of both modules -/
structure Params where
  distr : DistrParams
  mint : MintParams
deriving Repr, Inhabited, DecidableEq

/-- the configuration the two hooks read for the native denomination -/
def cfgOf (native : String) (p : Params) : Cfg :=
  { distrId := p.distr.id, mintId := p.mint.id,
    reward := if p.mint.denom == native then p.mint.reward else 0, tax := p.distr.tax }

/-- `epochsKeeper.GetEpochInfo(ctx, id)` found -/
def knownId (es : List Epochs.EpochInfo) (id : String) : Bool := es.any (fun e => e.identifier == id)

/-- what happens in a history, between and at blocks -/
inductive HOp where
  | mintParams (viaTx : Bool) (m : MintMsg)   -- x/exomint MsgUpdateParams, in a transaction / handler called directly
  | distrParams (viaTx : Bool) (m : DistrMsg)  -- x/feedistribution MsgUpdateParams, in a transaction / handler called directly
  | fee (amt : Int)                 -- outside fee income reaching the fee collector
  | block (b : BlockIn)             -- the next BeginBlock
deriving Repr, Inhabited

structure HS where
  params : Params
  es : List Epochs.EpochInfo
  st : St
deriving Repr, Inhabited

/-- a refused message writes nothing (the message runs on a cache of the deliver state) -/
def applyMint (viaTx : Bool) (es : List Epochs.EpochInfo) (p : Params) (m : MintMsg) : Params :=
  match mintDeliver viaTx (knownId es) p.mint m with
  | some mp => { p with mint := mp }
  | none => p

def applyDistr (viaTx : Bool) (es : List Epochs.EpochInfo) (p : Params) (m : DistrMsg) : Params :=
  match distrDeliver viaTx (knownId es) p.distr m with
  | .ok dp => { p with distr := dp }
  | .error _ => p

/-- one step of a history; `none` = BeginBlock panicked -/
def stepOp (native : String) (h : HS) : HOp → Option HS
  | .mintParams viaTx m => some { h with params := applyMint viaTx h.es h.params m }
  | .distrParams viaTx m => some { h with params := applyDistr viaTx h.es h.params m }
  | .fee a => some { h with st := { h.st with fc := h.st.fc + a } }
  | .block b =>
    match block (cfgOf native h.params) h.es h.st b with
    | (es', _, some s') => some { h with es := es', st := s' }
    | (_, _, none) => none

def runOps (native : String) : HS → List HOp → Option HS
  | h, [] => some h
  | h, op :: rest =>
    match stepOp native h op with
    | some h' => runOps native h' rest
    | none => none

end ExoVerif.Distr
