import ExoVerif.Model.Distribution
/-
  Parameter updates in the middle of a history (C17, "configured epoch reward … at each mint-epoch end",
  "at each distribution-epoch end"): model of

    x/exomint/keeper/msg_server.go: Keeper.UpdateParams  (+ x/exomint/types/params.go: OverrideIfRequired,
                                     Params.Validate; x/epochs/types/identifier.go: ValidateEpochIdentifierString;
                                     sdk.ValidateDenom with the default expression [a-zA-Z][a-zA-Z0-9/:._-]{2,127})
    x/exomint/types/msg.go: MsgUpdateParams.ValidateBasic (what baseapp checks before the handler of a transaction's
                                     message runs: `mintDeliver`)
    x/feedistribution/keeper/msg_update_params.go: msgServer.UpdateParams

  and of histories made of these messages, fee income and blocks (`runOps`). The hooks read their parameters
  from the store at every notification (hooks.go / impl_epochs_hooks.go: `GetParams(ctx)`), so the configuration
  in force in a block is the one the last accepted message left; nothing else (in particular no epoch NUMBER)
  is remembered between notifications.

  One denomination: the model follows the native denomination. A mint denom other than the native one mints
  coins of that other denomination (DecCoins act per denomination): for the native denomination the reward in
  force is then zero (`cfgOf`).
-/
namespace ExoVerif.Distr
open ExoVerif

/-- first character of a denomination: `[a-zA-Z]` -/
def denomHead (c : Char) : Bool := c.isAlpha

/-- the other characters: `[a-zA-Z0-9/:._-]` -/
def denomTail (c : Char) : Bool :=
  c.isAlphanum || c == '/' || c == ':' || c == '.' || c == '_' || c == '-'

/-- sdk.ValidateDenom (types/coin.go), default expression `^[a-zA-Z][a-zA-Z0-9/:._-]{2,127}$` -/
def validDenom (s : String) : Bool :=
  match s.toList with
  | [] => false
  | c :: rest => denomHead c && rest.all denomTail && decide (2 ≤ rest.length) && decide (rest.length ≤ 127)

/-- unicode.IsSpace (what strings.TrimSpace removes) -/
def isSpaceGo (c : Char) : Bool :=
  let n := c.toNat
  (9 ≤ n && n ≤ 13) || n == 0x20 || n == 0x85 || n == 0xA0 || n == 0x1680 || (0x2000 ≤ n && n ≤ 0x200A) ||
  n == 0x2028 || n == 0x2029 || n == 0x202F || n == 0x205F || n == 0x3000

/-- epochs/types/identifier.go: ValidateEpochIdentifierString — `strings.TrimSpace(s) != ""` -/
def validEpochId (s : String) : Bool := s.toList.any (fun c => !isSpaceGo c)

/-- x/exomint Params -/
structure MintParams where
  denom : String      -- MintDenom
  reward : Int        -- EpochReward
  id : String         -- EpochIdentifier
deriving Repr, Inhabited, DecidableEq

/-- the Params of an exomint MsgUpdateParams: the reward may be a nil `math.Int` -/
structure MintMsg where
  denom : String
  reward : Option Int
  id : String
deriving Repr, Inhabited, DecidableEq

/-- exomint/types/params.go: Params.OverrideIfRequired — unset or invalid fields keep their previous value -/
def overrideIfRequired (p : MintMsg) (prev : MintParams) : MintParams :=
  { denom := if validDenom p.denom then p.denom else prev.denom,
    reward := match p.reward with
              | none => prev.reward                                    -- p.EpochReward.IsNil()
              | some r => if r < 0 then prev.reward else r,            -- || p.EpochReward.IsNegative()
    id := if validEpochId p.id then p.id else prev.id }

/-- exomint/types/params.go: Params.Validate -/
def MintParams.valid (p : MintParams) : Bool := validDenom p.denom && decide (0 ≤ p.reward) && validEpochId p.id

/-- exomint/keeper/msg_server.go: Keeper.UpdateParams (authority check aside — C10): override, stateless
validation (`none` = ErrInvalidParams, nothing written), an identifier x/epochs does not know keeps the previous
identifier, SetParams. `known` = `epochsKeeper.GetEpochInfo(ctx, id)` found. -/
def mintUpdateParams (known : String → Bool) (prev : MintParams) (m : MintMsg) : Option MintParams :=
  let over := overrideIfRequired m prev
  if !over.valid then none
  else some (if known over.id then over else { over with id := prev.id })

/-- exomint/types/msg.go: MsgUpdateParams.ValidateBasic (authority address aside) = Params.Validate of the
message's params: valid denom, reward neither nil nor negative, identifier not blank -/
def MintMsg.validateBasic (m : MintMsg) : Bool :=
  validDenom m.denom && (match m.reward with | some r => decide (0 ≤ r) | none => false) && validEpochId m.id

/-- delivery of the message: the messages of a transaction pass ValidateBasic first (baseapp.runTx:
validateBasicTxMsgs; a failure refuses the transaction before any handler runs), other callers reach the handler
directly. Through a transaction the override rules of the handler therefore only ever see valid fields; the
unknown-identifier rule remains. -/
def mintDeliver (viaTx : Bool) (known : String → Bool) (prev : MintParams) (m : MintMsg) : Option MintParams :=
  if viaTx && !m.validateBasic then none else mintUpdateParams known prev m

/-- x/feedistribution Params -/
structure DistrParams where
  id : String         -- EpochIdentifier
  tax : Int           -- CommunityTax, raw LegacyDec
deriving Repr, Inhabited, DecidableEq

/-- feedistribution/keeper/msg_update_params.go: msgServer.UpdateParams (authority check aside): an identifier
x/epochs does not know is refused (ErrEpochNotFound, nothing written); otherwise the message's params are stored
as they are (types/params.go: Validate is `return nil` — so MsgUpdateParams.ValidateBasic checks nothing about
them either — and is not called here). -/
def distrUpdateParams (known : String → Bool) (_prev : DistrParams) (m : DistrParams) : Option DistrParams :=
  if known m.id then some m else none

/-- the parameters of both modules -/
structure Params where
  distr : DistrParams
  mint : MintParams
deriving Repr, Inhabited, DecidableEq

/-- the configuration the two hooks read for the native denomination -/
def cfgOf (native : String) (p : Params) : Cfg :=
  { distrId := p.distr.id, mintId := p.mint.id,
    reward := if p.mint.denom == native then p.mint.reward else 0, tax := p.distr.tax }

/-- `epochsKeeper.GetEpochInfo(ctx, id)` found -/
def knownId (es : List Epochs.EpochInfo) (id : String) : Bool := es.any (fun e => e.identifier == id)

/-- what happens in a history, between and at blocks -/
inductive HOp where
  | mintParams (viaTx : Bool) (m : MintMsg)   -- x/exomint MsgUpdateParams, in a transaction / handler called directly
  | distrParams (m : DistrParams)   -- x/feedistribution MsgUpdateParams
  | fee (amt : Int)                 -- outside fee income reaching the fee collector
  | block (b : BlockIn)             -- the next BeginBlock
deriving Repr, Inhabited

structure HS where
  params : Params
  es : List Epochs.EpochInfo
  st : St
deriving Repr, Inhabited

/-- a refused message writes nothing (the message runs on a cache of the deliver state) -/
def applyMint (viaTx : Bool) (es : List Epochs.EpochInfo) (p : Params) (m : MintMsg) : Params :=
  match mintDeliver viaTx (knownId es) p.mint m with
  | some mp => { p with mint := mp }
  | none => p

def applyDistr (es : List Epochs.EpochInfo) (p : Params) (m : DistrParams) : Params :=
  match distrUpdateParams (knownId es) p.distr m with
  | some dp => { p with distr := dp }
  | none => p

/-- one step of a history; `none` = BeginBlock panicked -/
def stepOp (native : String) (h : HS) : HOp → Option HS
  | .mintParams viaTx m => some { h with params := applyMint viaTx h.es h.params m }
  | .distrParams m => some { h with params := applyDistr h.es h.params m }
  | .fee a => some { h with st := { h.st with fc := h.st.fc + a } }
  | .block b =>
    match block (cfgOf native h.params) h.es h.st b with
    | (es', _, some s') => some { h with es := es', st := s' }
    | (_, _, none) => none

def runOps (native : String) : HS → List HOp → Option HS
  | h, [] => some h
  | h, op :: rest =>
    match stepOp native h op with
    | some h' => runOps native h' rest
    | none => none

end ExoVerif.Distr
