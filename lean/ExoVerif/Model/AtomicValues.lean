import ExoVerif.Model.Atomic
import ExoVerif.Model.Ledger
/-!
# Value-level meaning of the steps of the four `_partial` entry points of C09

`Model/Atomic.lean` reads an entry point as the *order* of its named checks and writes and leaves their
meaning arbitrary (`Impl σ`).  Four entry points of the precompiles are atomic only if checks that stand
after the first visible write cannot fail there (delegate, opt-in, opt-out, createTask).  Here each of
them gets a concrete `Impl` over a concrete state: every named check is the condition the Go callee
tests, every named write is the store update it performs, as functions of the state at entry (`s0`: what
a Go local variable computed before the writes still holds) and the current state (`cur`).  The programs
themselves stay those of `Model/Atomic.lean` (`precompileDelegate`, …), whose order is tied to the Go
source by `Props/C09Tie.lean`; `Proofs/AtomicValues.lean` shows that under these meanings the late checks
cannot fail once the early ones have passed.  Core Lean only.
-/
namespace ExoVerif.AtomicValues
open ExoVerif ExoVerif.KV ExoVerif.Atomic

/-- `if cond { return err }` -/
def rej (c : Bool) (code : String) : Option Err := if c then some (.reject code) else none

/-- the error of a callee whose writes (if any) are a separate step -/
def errOf {α : Type} : Except String α → Option Err
  | .ok _ => none
  | .error e => some (.reject e)

def okOr {α : Type} (d : α) : Except String α → α
  | .ok a => a
  | .error _ => d

/-! ## delegation.delegate — precompiles/delegation/tx.go: Delegate → x/delegation/keeper/delegation.go: delegateTo

State = the ledger of `Model/Ledger.lean` (staker rows, operator pools, delegation rows, staker lists,
associations).  What the ledger does not hold (gateway parameter, ABI decoding, the slash module's frozen
flag) is part of the request: these are tested before the first write, so any value is allowed. -/
namespace Delegate
open ExoVerif.Ledger

structure Req where
  gatewayOk : Bool     -- assetsKeeper.CheckExocoreGatewayAddr(contract.CallerAddress) == nil
  parseOk : Bool       -- GetDelegationParamsFromInputs == nil (client chain known, lengths, bech32, amount > 0)
  frozen : Bool        -- slashKeeper.IsOperatorFrozen(operator)
  st : SID
  a : AID
  o : OID
  x : Int
deriving Repr, Inhabited

def stRow (r : Req) (c : L) : StakerRow := getD c.stakers (r.st, r.a) zeroStaker
def plRow (r : Req) (c : L) : Pool := getD c.pools (r.o, r.a) zeroPool

/-- the Go local `share` (delegation.go: `share, err := k.CalculateShare(…)`): computed once from the
operator's pool, which no step before it writes (UpdateStakerAssetState touches the staker row only), so
it is a function of the state at entry -/
def share (r : Req) (s0 : L) : Dec := okOr Dec.zero (calculateShare s0 r.o r.a r.x)

/-- `deltaOperatorAsset.OperatorShare`: the share again if the staker is associated with the operator -/
def dOp (r : Req) (s0 : L) : Dec := if find? s0.assoc r.st = some r.o then share r s0 else Dec.zero

/-- the checks of `Atomic.precompileDelegate`, by name -/
def chk (r : Req) (n : String) (s0 cur : L) : Option Err :=
  if n = "CheckExocoreGatewayAddr" then rej (!r.gatewayOk) "ErrNotEqualToGateway"
  else if n = "GetDelegationParamsFromInputs" then rej (!r.parseOk) "ErrContractInputParaOrType"
  else if n = "OpAmount.IsPositive" then rej (!(decide (0 < r.x))) "ErrAmountIsNotPositive"
  else if n = "IsOperator" then rej (!cur.operators.contains r.o) "ErrOperatorNotExist"
  else if n = "IsOperatorFrozen" then rej r.frozen "ErrOperatorIsFrozen"
  else if n = "GetStakerSpecifiedAssetInfo" then rej (find? cur.stakers (r.st, r.a)).isNone "ErrNoStakerAssetKey"
  else if n = "WithdrawableAmount.LT(OpAmount)" then
    rej (decide ((stRow r cur).withdrawable < r.x)) "ErrDelegationAmountTooBig"
  -- x/assets/keeper/staker_asset.go: UpdateStakerAssetState{WithdrawableAmount: -x}
  else if n = "UpdateAssetValue(TotalDepositAmount)" then errOf (upd (stRow r cur).total 0)
  else if n = "UpdateAssetValue(WithdrawableAmount)" then errOf (upd (stRow r cur).withdrawable (-r.x))
  else if n = "UpdateAssetValue(PendingUndelegationAmount)" then errOf (upd (stRow r cur).pending 0)
  -- share.go: CalculateShare (IsOperatorAssetExist ⇒ GetOperatorSpecifiedAssetInfo cannot miss; SharesFromTokens)
  else if n = "CalculateShare" then errOf (calculateShare cur r.o r.a r.x)
  -- delegation_state.go: GetAssociatedOperator returns a nil error on every path (tie: infallibleErrReturns)
  else if n = "GetAssociatedOperator" then none
  -- x/assets/keeper/operator_asset.go: UpdateOperatorAssetState{TotalAmount: x, TotalShare: share, OperatorShare: dOp}
  else if n = "UpdateAssetValue(operator.TotalAmount)" then errOf (upd (plRow r cur).amount r.x)
  else if n = "UpdateAssetValue(operator.PendingUndelegationAmount)" then errOf (upd (plRow r cur).pending 0)
  else if n = "UpdateAssetDecValue(TotalShare)" then errOf (updDec (plRow r cur).totalShare (share r s0))
  else if n = "UpdateAssetDecValue(OperatorShare)" then errOf (updDec (plRow r cur).opShare (dOp r s0))
  -- delegation_state.go: UpdateDelegationState{UndelegatableShare: share} (deltaAmounts non-nil; the operator
  -- string is `params.OperatorAddress.String()` of an address GetDelegationParamsFromInputs decoded from bech32)
  else if n = "UpdateDelegationState" then errOf (updDeleg cur r.st r.a r.o (share r s0) 0)
  -- delegation_state.go: AppendStakerForOperator returns nil on every path (tie: infallibleErrReturns)
  else if n = "AppendStakerForOperator" then none
  else none

/-- the writes of `Atomic.precompileDelegate`, by name (each is the `store.Set` that ends the callee whose
checks precede it; a write is reached only after those checks passed) -/
def wr (r : Req) (n : String) (s0 cur : L) : L :=
  if n = "Set(stakerAsset)" then okOr cur (updStaker cur r.st r.a 0 (-r.x) 0)
  else if n = "Set(operatorAsset)" then okOr cur (updPool cur r.o r.a r.x 0 (share r s0) (dOp r s0))
  else if n = "Set(delegationState)" then okOr cur ((updDeleg cur r.st r.a r.o (share r s0) 0).map (·.1))
  else if n = "Set(stakersByOperator)" then appendStaker cur r.o r.a r.st
  else cur   -- "Hooks.AfterDelegation": writes of x/operator / x/dogfood, outside the ledger; returns nothing

def impl (r : Req) : Impl L := { chk := chk r, wr := wr r, eff := fun _ _ => Eff.pure () }

end Delegate

/-! ## avs.registerOperatorToAVS / deregisterOperatorFromAVS — precompiles/avs/tx.go: (Un)BindOperatorToAVS →
x/avs/keeper/keeper.go: OperatorOptAction → x/operator/keeper/opt.go: OptIn / OptOut -/
namespace Opt

/-- operator.go: OptedInfo (the two fields opt.go reads) -/
structure OptedRow where
  optedOut : Option Nat    -- none = DefaultOptedOutHeight
  jailed : Bool
deriving DecidableEq, Repr, Inhabited

/-- the stores OptIn / OptOut read and write -/
structure St where
  height : Nat
  operators : List String                         -- x/operator KeyPrefixOperatorInfo (IsOperator), as bech32
  avss : List (String × String)                   -- x/avs KeyPrefixAVSInfo: HexToAddress(addr) bytes ↦ SlashAddr
  opted : List ((String × String) × OptedRow)     -- KeyPrefixOperatorOptedAVSInfo: operator/avs ↦ OptedInfo
  usd : List ((String × String) × Unit)           -- KeyPrefixUSDValueForOperator: avs/operator present
  removal : List (String × String)                -- consensus-key removal markers (operator, chain id)
deriving DecidableEq, Repr, Inhabited

structure Req where
  argsOk : Bool          -- ABI argument count / type, caller address non-zero
  opStr : String         -- params.OperatorAddress as handed to OperatorOptAction
  opValid : Bool         -- sdk.AccAddressFromBech32(opStr) == nil
  op : String            -- opAccAddr.String(): the canonical rendering used for every store key below
  opCanonValid : Bool    -- sdk.AccAddressFromBech32(op) == nil  (decode ∘ encode; see `Bech32RoundTrip`)
  avs : String           -- params.AvsAddress as given
  avsKey : String        -- common.HexToAddress(avs).Bytes(): the key of IsAVS *and* of GetAVSInfo
  selfUSD : Option Int   -- GetOrCalculateOperatorUSDValues(...).SelfUSDValue (none = error)
  minSelf : Int          -- GetAVSMinimumSelfDelegation (raw 18-decimal)
  frozen : Bool          -- slashKeeper.IsOperatorFrozen
  chainId : Option String -- GetChainIDByAVSAddr (some = chain-type AVS)
deriving Repr, Inhabited

/-- what the theorem assumes about the SDK's bech32 codec: the canonical rendering of an address that was
decoded from a valid bech32 string decodes again (types/address.go: AccAddress.String ∘ AccAddressFromBech32) -/
def Bech32RoundTrip (r : Req) : Prop := r.opValid = true → r.opCanonValid = true

def isOptedIn (c : St) (r : Req) : Bool :=
  match find? c.opted (r.op, r.avs) with
  | some row => row.optedOut.isNone
  | none => false

def isActive (c : St) (r : Req) : Bool :=
  match find? c.opted (r.op, r.avs) with
  | some row => row.optedOut.isNone && !row.jailed
  | none => false

/-- checks of `Atomic.precompileOptIn` and `Atomic.precompileOptOut`, by name -/
def chk (r : Req) (n : String) (_s0 cur : St) : Option Err :=
  if n = "args" then rej (!r.argsOk) "ErrContractInputParaOrType"
  else if n = "AccAddressFromBech32" then rej (!r.opValid) "bech32"
  else if n = "IsOperator" ∨ n = "IsOperator(2)" then rej (!cur.operators.contains r.op) "ErrOperatorNotExist"
  else if n = "IsAVS" ∨ n = "IsAVS(2)" then rej (!has cur.avss r.avsKey) "ErrNoSuchAvs"
  else if n = "IsOptedIn" then rej (isOptedIn cur r) "ErrAlreadyOptedIn"
  else if n = "GetOrCalculateOperatorUSDValues" then rej r.selfUSD.isNone "usd-value"
  -- avs.go: GetAVSMinimumSelfDelegation = GetAVSInfo(avs) …
  else if n = "GetAVSMinimumSelfDelegation" then rej (!has cur.avss r.avsKey) "ErrNoKeyInTheStore"
  else if n = "SelfUSDValue.LT(min)" then rej (decide (r.selfUSD.getD 0 < r.minSelf)) "ErrMinDelegationNotMet"
  else if n = "IsOperatorFrozen" then rej r.frozen "ErrOperatorIsFrozen"
  -- usd_value.go: InitOperatorUSDValue: operatorAddr == "" / store.Has(key) — before its own Set
  else if n = "InitOperatorUSDValue" then rej (r.op = "" || has cur.usd (r.avs, r.op)) "ErrKeyAlreadyExist"
  -- avs.go: GetAVSSlashContract = GetAVSInfo(avs): store.Get(HexToAddress(avs)) == nil
  else if n = "GetAVSSlashContract" then rej (find? cur.avss r.avsKey).isNone "ErrNoKeyInTheStore"
  -- operator.go: SetOptedInfo: AccAddressFromBech32(operatorAddress.String())
  else if n = "SetOptedInfo" then rej (!r.opCanonValid) "ErrInvalidOperatorAddr"
  else if n = "IsActive" then rej (!isActive cur r) "ErrNotOptedIn"
  -- operator.go: HandleOptedInfo: AccAddressFromBech32(operatorAddress.String()); store.Get(infoKey) == nil
  else if n = "HandleOptedInfo" then
    rej (!r.opCanonValid || (find? cur.opted (r.op, r.avs)).isNone) "ErrNoKeyInTheStore"
  else none

def wr (r : Req) (n : String) (_s0 cur : St) : St :=
  if n = "Set(operatorUSDValue)" then { cur with usd := set cur.usd (r.avs, r.op) () }
  else if n = "Set(optedInfo)" then
    -- OptIn: a fresh record {OptedInHeight: now, OptedOutHeight: default}; OptOut: handleFunc sets OptedOutHeight
    match find? cur.opted (r.op, r.avs) with
    | some row => if isActive cur r then { cur with opted := set cur.opted (r.op, r.avs) { row with optedOut := some cur.height } }
                  else { cur with opted := set cur.opted (r.op, r.avs) ⟨none, false⟩ }
    | none => { cur with opted := set cur.opted (r.op, r.avs) ⟨none, false⟩ }
  else if n = "DeleteOperatorUSDValue" then { cur with usd := erase cur.usd (r.avs, r.op) }
  else if n = "InitiateOperatorKeyRemovalForChainID" then
    match r.chainId with
    | some cid => { cur with removal := (r.op, cid) :: cur.removal }
    | none => cur
  else cur

def impl (r : Req) : Impl St := { chk := chk r, wr := wr r, eff := fun _ _ => Eff.pure () }

end Opt

/-! ## avs.createTask — precompiles/avs/tx.go: CreateAVSTask → x/avs/keeper/keeper.go: CreateAVSTask -/
namespace Task

structure AvsRow where
  addr : String
  taskAddr : String
  owners : List String
  epochId : String
deriving DecidableEq, Repr, Inhabited

structure St where
  avss : List (String × AvsRow)
  epochs : List (String × Int)
  latest : List (String × Nat)                      -- KeyPrefixLatestTaskNum: task address ↦ last id
  tasks : List ((String × Nat) × String)            -- KeyPrefixAVSTaskInfo: (task address, id) ↦ name
  logs : List (String × Nat)                        -- EVM log emitted by EmitCreateAVSTaskEvent (stateDB)
deriving DecidableEq, Repr, Inhabited

structure Req where
  parseOk : Bool        -- GetTaskParamsFromInputs == nil
  taskAddr : String     -- params.TaskContractAddress = contract.CallerAddress.String()
  caller : String       -- params.CallerAddress
  name : String
  givenId : Nat         -- params.TaskID as decoded (0 through the precompile)
  powerOk : Bool        -- GetAVSUSDValue == nil ∧ value > 0
  optInOk : Bool        -- GetOptInOperators == nil
  packOk : Bool         -- event.Inputs.Pack(TaskID, TaskContractAddress, …) == nil: the eight Go values have the ABI's types
deriving Repr, Inhabited

/-- go-ethereum common.IsHexAddress: optional 0x/0X prefix, then exactly 40 hex digits -/
def isHexDigit (c : Char) : Bool :=
  ('0' ≤ c && c ≤ '9') || ('a' ≤ c && c ≤ 'f') || ('A' ≤ c && c ≤ 'F')

def isHexAddress (s : String) : Bool :=
  let cs := s.toList
  let body := match cs with
    | '0' :: 'x' :: rest => rest
    | '0' :: 'X' :: rest => rest
    | _ => cs
  body.length == 40 && body.all isHexDigit

def avsByTaskAddr (c : St) (t : String) : Option AvsRow :=
  if t = "" then none else (c.avss.find? (fun p => p.2.taskAddr == t)).map (·.2)

def nextId (c : St) (t : String) : Nat :=
  match find? c.latest t with
  | some n => n + 1
  | none => 1

def chk (r : Req) (n : String) (_s0 cur : St) : Option Err :=
  if n = "GetTaskParamsFromInputs" then rej (!r.parseOk) "ErrContractInputParaOrType"
  else if n = "GetAVSInfoByTaskAddress" then
    rej (match avsByTaskAddr cur r.taskAddr with | some a => a.addr = "" | none => true) "ErrUnregisterNonExistent"
  else if n = "owner contains caller" then
    rej (match avsByTaskAddr cur r.taskAddr with | some a => !a.owners.contains r.caller | none => true)
      "ErrCallerAddressUnauthorized"
  else if n = "GetAVSUSDValue>0" then rej (!r.powerOk) "ErrVotingPowerIncorrect"
  else if n = "GetEpochInfo" then
    rej (match avsByTaskAddr cur r.taskAddr with | some a => (find? cur.epochs a.epochId).isNone | none => true)
      "ErrEpochNotFound"
  else if n = "IsExistTask" then rej (has cur.tasks (r.taskAddr, r.givenId)) "ErrAlreadyExists"
  else if n = "GetOptInOperators" then rej (!r.optInOk) "GetOptInOperators"
  -- task.go: SetTaskInfo: !common.IsHexAddress(task.TaskContractAddress)
  else if n = "IsHexAddress(task)" then rej (!isHexAddress r.taskAddr) "ErrInvalidAddr"
  -- events.go: EmitCreateAVSTaskEvent: arguments.Pack(...) error
  else if n = "EmitCreateAVSTaskEvent" then rej (!r.packOk) "abi-pack"
  else none

def wr (r : Req) (n : String) (_s0 cur : St) : St :=
  if n = "GetTaskID(Set latest)" then { cur with latest := set cur.latest r.taskAddr (nextId cur r.taskAddr) }
  else if n = "Set(taskInfo)" then
    -- GetTaskID has already stored the id it returned: the id of this task is the stored one
    { cur with tasks := set cur.tasks (r.taskAddr, getD cur.latest r.taskAddr 0) r.name }
  else cur

def impl (r : Req) : Impl St := { chk := chk r, wr := wr r, eff := fun _ _ => Eff.pure () }

end Task

/-! ## per-item block processing without a cache context around the item

`Atomic.runItems` is the loop of x/delegation's EndBlock read as "each item in `cached`".  The other loops of
block-begin/end processing call the item on the block's own context and only log its error
(`for … { err := item(ctx); if err != nil { log; continue } }`): the item's writes stay, so isolation rests on
the item itself being fail-atomic. -/
namespace Items

/-- the loop on the block's context: whatever the item returns, the next item runs on the state it left
(`blockHook`: error ⇒ logged, writes kept) -/
def runItemsPlain {σ : Type} (items : List (Eff σ Unit)) (s : σ) : σ :=
  items.foldl (fun cur it => (blockHook it cur).2) s

/-- x/avs/keeper/impl_epoch_hook.go: AfterEpochEnd, one group of task results: the group is skipped when no
result carries a signature or the task cannot be read; the recomputed statistics are stored by the single
SetTaskInfo at the end (its own IsHexAddress test precedes its Set); the errors of GetOperatorOptedUSDValue /
GetAVSUSDValue are logged and the computation goes on (no write has happened). -/
def taskStatisticItem : Prog :=
  [.check "len(signedOperatorList)==0", .check "GetTaskInfo", .check "IsHexAddress(task)", .write "Set(taskInfo)"]

/-- x/operator/keeper/abci.go: UpdateVotingPower, "no assets" branch with its callees' meaning: neither
DeleteAllOperatorsUSDValueForAVS nor DeleteAVSUSDValue has an error path (tie: infallibleErrReturns) -/
def NoAssetsInfallible {σ : Type} (I : Impl σ) : Prop :=
  (∀ s c, (I.eff "DeleteAllOperatorsUSDValueForAVS" s c).1 = .ok ()) ∧ (∀ s c, I.chk "DeleteAVSUSDValue" s c = none)

end Items

end ExoVerif.AtomicValues
