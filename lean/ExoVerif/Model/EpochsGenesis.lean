import ExoVerif.Model.Epochs
/-
  Model of how an epoch identifier gets into the store: x/epochs/keeper/epoch_infos.go:
  AddEpochInfo (`register`) and x/epochs/keeper/genesis.go: InitGenesis (`initGenesis`).
  `Model/Epochs.lean: tick` starts from a stored entry; this file says which entries a genesis
  list stores — every entry EpochInfo.Validate accepts, with whatever number / start time /
  height / flag it carries (the flag "is independent of the epoch number", epochs.proto), and
  nothing of an entry Validate rejects or whose identifier is already stored (InitGenesis
  discards AddEpochInfo's error).
  Times are integer nanoseconds since the Unix epoch; Go's zero time.Time (0001-01-01T00:00:00Z,
  the value `IsZero` tests for) is `zeroTime`, so that `CurrentEpochStartTime.Add(Duration)` of an
  entry that never started is the number the Go code compares the block time with.
-/
namespace ExoVerif.Epochs

/-- time.Time{} : 0001-01-01T00:00:00Z = -62135596800 s before the Unix epoch, in nanoseconds -/
def zeroTime : Int := -62135596800000000000

/-- what AddEpochInfo returned -/
inductive RegOutcome where
  | stored       -- nil
  | invalid      -- the error of epochInfo.Validate()
  | duplicate    -- types.ErrDuplicateEpochInfo
deriving DecidableEq, Repr, Inhabited

/-- epoch_infos.go: AddEpochInfo — the two fill-ins before the write: an unset start time becomes
the block time of the registration, an unset start height its block height. Nothing else changes. -/
def fill (e : EpochInfo) (bt h : Int) : EpochInfo :=
  let e := if e.startTime == zeroTime then { e with startTime := bt } else e
  if e.currentEpochStartHeight == 0 then { e with currentEpochStartHeight := h } else e

/-- the store iterates in key order (sdk.KVStorePrefixIterator over KeyPrefixEpoch ++ identifier):
`setEpochInfoUnchecked` of a new identifier = sorted insert. -/
def insertSorted (e : EpochInfo) : List EpochInfo → List EpochInfo
  | [] => [e]
  | x :: rest => if e.identifier < x.identifier then e :: x :: rest else x :: insertSorted e rest

/-- store.Has([]byte(identifier)) -/
def hasId (es : List EpochInfo) (id : String) : Bool := es.any (fun x => x.identifier == id)

/-- epoch_infos.go: AddEpochInfo. `bt`, `h` = ctx.BlockTime(), ctx.BlockHeight() of the registration
(InitGenesis: the genesis time and height 0). -/
def register (es : List EpochInfo) (e : EpochInfo) (bt h : Int) : List EpochInfo × RegOutcome :=
  if !valid e then (es, .invalid)
  else if hasId es e.identifier then (es, .duplicate)
  else (insertSorted (fill e bt h) es, .stored)

/-- genesis.go: InitGenesis — AddEpochInfo for every entry in genesis order, the error dropped. -/
def initGenesisFrom (es : List EpochInfo) (entries : List EpochInfo) (bt h : Int) : List EpochInfo :=
  entries.foldl (fun acc e => (register acc e bt h).1) es

def initGenesis (entries : List EpochInfo) (bt h : Int) : List EpochInfo :=
  initGenesisFrom [] entries bt h

end ExoVerif.Epochs
