import ExoVerif.Basic.Dec
import ExoVerif.Basic.KV
/-
  Model of operator registration as far as the commission of a stored operator record is concerned:

    x/operator/types/msg.go:        (*RegisterOperatorReq).ValidateBasic
    x/operator/types/validation.go: (*OperatorInfo).ValidateBasic
    cosmos-sdk x/staking/types/commission.go: CommissionRates.Validate   (OUTSIDE the repository: the
        call `info.Commission.Validate()` is pinned by the regenerated statement shape
        `shapeOperatorInfoValidateBasic`, the SDK version by `sdkReplacePinned`; the checks below are the
        documented ones, in the SDK's order, and the harness compares them with the real function on
        every generated triple, domain `liveness_commission`)
    x/operator/keeper/msg_server.go: RegisterOperator → x/operator/keeper/operator.go: setOperatorInfo
    x/operator/types/genesis.go:    ValidateOperators (commission part) → keeper/genesis.go: InitGenesis

  A rate is the raw integer of a `LegacyDec` (value · 10^18); `none` is a nil `Dec` (the field is absent
  on the wire: gogoproto leaves the custom type at its zero value, whose big.Int pointer is nil).
  `IsNegative` / `GT` on a nil Dec dereference that pointer: `Verdict.panic`. baseapp runs
  `ValidateBasic` inside `runTx`, under its `recover()`: a panic there is a rejected transaction.

  What the model keeps of a message besides the rates is only what decides acceptance: whether the two
  bech32 strings parse, the length of the meta info, whether the approve address is empty, whether the
  handler's client-chain earnings list passes its checks.
-/
namespace ExoVerif.OpReg
open ExoVerif ExoVerif.KV

/-- stakingtypes.CommissionRates -/
structure Rates where
  rate : Option Int
  max : Option Int
  change : Option Int
deriving Repr, Inhabited, DecidableEq

inductive Verdict where
  | ok
  | rej (sentinel : String)
  | panic
deriving Repr, Inhabited, DecidableEq

def Verdict.show : Verdict → String
  | .ok => "ok"
  | .rej s => "rej:" ++ s
  | .panic => "panic"

/-- cosmos-sdk x/staking/types/commission.go: CommissionRates.Validate — one `switch` whose cases are
tried in this order; the first nil Dec that a case touches panics. -/
def commissionValidate (r : Rates) : Verdict :=
  match r.max with
  | none => .panic                                               -- cr.MaxRate.IsNegative()
  | some mx =>
    if mx < 0 then .rej "ErrCommissionNegative"                  -- max rate cannot be negative
    else if PREC < mx then .rej "ErrCommissionHuge"              -- max rate cannot be greater than 1
    else
      match r.rate with
      | none => .panic                                           -- cr.Rate.IsNegative()
      | some rt =>
        if rt < 0 then .rej "ErrCommissionNegative"              -- rate cannot be negative
        else if mx < rt then .rej "ErrCommissionGTMaxRate"       -- rate cannot be greater than the max rate
        else
          match r.change with
          | none => .panic                                       -- cr.MaxChangeRate.IsNegative()
          | some ch =>
            if ch < 0 then .rej "ErrCommissionChangeRateNegative"
            else if mx < ch then .rej "ErrCommissionChangeRateGTMaxRate"
            else .ok

/-- stakingtypes.MaxIdentityLength -/
def maxIdentityLength : Nat := 3000

/-- a RegisterOperatorReq as far as acceptance depends on it -/
structure RegMsg where
  sender : String          -- FromAddress
  fromOk : Bool            -- sdk.AccAddressFromBech32(FromAddress) succeeds
  infoNil : Bool           -- Info == nil
  earnOk : Bool            -- sdk.AccAddressFromBech32(Info.EarningsAddr) succeeds
  metaLen : Nat            -- len(Info.OperatorMetaInfo)
  approveEmpty : Bool      -- Info.ApproveAddr == ""
  rates : Rates            -- Info.Commission.CommissionRates
  earnListOk : Bool        -- setOperatorInfo: ClientChainEarningsAddr nil, or every entry non-empty on a known chain
deriving Repr, Inhabited

/-- validation.go: (*OperatorInfo).ValidateBasic -/
def infoValidateBasic (m : RegMsg) : Verdict :=
  if m.infoNil then .rej "ErrParameterInvalid"
  else if !m.earnOk then .rej "bech32"
  else if m.metaLen == 0 then .rej "ErrParameterInvalid"
  else if maxIdentityLength < m.metaLen then .rej "ErrParameterInvalid"
  else if m.approveEmpty then .rej "ErrParameterInvalid"
  else commissionValidate m.rates                                 -- errorsmod.Wrap keeps the sentinel

/-- msg.go: (*RegisterOperatorReq).ValidateBasic -/
def msgValidateBasic (m : RegMsg) : Verdict :=
  if !m.fromOk then .rej "bech32" else infoValidateBasic m

/-- the commission of a stored OperatorInfo -/
structure Rec where
  rate : Int
  max : Int
  change : Int
deriving Repr, Inhabited, DecidableEq

/-- KeyPrefixOperatorInfo store: operator address → commission of the stored record -/
abbrev Reg := List (String × Rec)

def recOf (r : Rates) : Option Rec :=
  match r.rate, r.max, r.change with
  | some a, some b, some c => some ⟨a, b, c⟩
  | _, _, _ => none

/-- One RegisterOperatorReq transaction signed by its sender, with the fee paid: baseapp's
validateBasicTxMsgs, then the message server. `true` = code 0.
operator.go: setOperatorInfo — an address that is registered is refused (there is no edit and no
delete), then the earnings list is checked, then the record is written as it came. -/
def deliver (s : Reg) (m : RegMsg) : Reg × Bool :=
  match msgValidateBasic m with
  | .ok =>
    if has s m.sender then (s, false)                            -- ErrOperatorAlreadyExists
    else if !m.earnListOk then (s, false)
    else
      match recOf m.rates with
      | some r => (set s m.sender r, true)
      | none => (s, false)                                       -- unreachable after .ok (OpReg.ok_recOf)
  | _ => (s, false)

/-- every message of a history, in order -/
def run (s : Reg) (ms : List RegMsg) : Reg := ms.foldl (fun s m => (deliver s m).1) s

/-- genesis.go: ValidateOperators, the commission part (nil test, then Commission.Validate), followed by
InitGenesis → setOperatorInfo for every entry; `none` = the genesis file is refused. -/
def genesis : List (String × Rates) → Option Reg
  | [] => some []
  | (a, r) :: rest =>
    match recOf r with
    | none => none                                               -- "missing commission for operator"
    | some x =>
      if commissionValidate r = .ok then
        match genesis rest with
        | some s => some ((a, x) :: s)
        | none => none
      else none

/-! ### the weakened validator of seed C11-h, kept as a regression counter-example: the SDK switch
re-typed with a nil test in front and WITHOUT the case `Rate > MaxRate` -/

def commissionValidateNoGTMax (r : Rates) : Verdict :=
  match r.rate, r.max, r.change with
  | some rt, some mx, some ch =>
    if mx < 0 then .rej "ErrCommissionNegative"
    else if PREC < mx then .rej "ErrCommissionHuge"
    else if rt < 0 then .rej "ErrCommissionNegative"
    else if ch < 0 then .rej "ErrCommissionChangeRateNegative"
    else if mx < ch then .rej "ErrCommissionChangeRateGTMaxRate"
    else .ok
  | _, _, _ => .rej "ErrParameterInvalid"

end ExoVerif.OpReg
