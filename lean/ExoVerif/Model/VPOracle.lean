import ExoVerif.Model.VotingPower
/-
  Which price is an asset's price — the part of x/oracle that UpdateVotingPower reads:
    x/oracle/types/params.go: Params.GetTokenIDFromAssetID      → `splitChars`, `assetList`, `listsAsset`, `tokenIdFrom`
    x/oracle/keeper/prices.go: GetMultipleAssetsPrices (loop body), GetSpecifiedAssetsPrice → `roundPrice`, `assetPrice`
    x/operator/keeper/abci.go: UpdateVotingPower, GetAssetsDecimal + GetMultipleAssetsPrices → `resolveCfgs`, `avsInOf`
  The oracle prices TOKENS; `Params.Tokens[i].AssetID` is a comma-joined list of asset ids, an asset is priced by
  the first token whose list has an element EQUAL to its id. Tie: Gen.shapeGetTokenIDFromAssetID,
  Gen.shapeGetMultipleAssetsPrices (Props/C05Tie.lean); the driver resolves every price through this model from
  the token table and the latest rounds of the committed state (op `vp.oracle`).
-/
namespace ExoVerif.VP
open ExoVerif ExoVerif.KV

/-- strings.Split(s, ",") on the characters: the maximal comma-free pieces in order (never empty:
`strings.Split("", ",") = [""]`) -/
def splitChars : List Char → List (List Char)
  | [] => [[]]
  | c :: rest =>
    if c = ',' then [] :: splitChars rest
    else match splitChars rest with
      | [] => [[c]]                     -- not reachable: `splitChars` never returns []
      | p :: ps => (c :: p) :: ps

/-- params.go: GetTokenIDFromAssetID: `assetIDs := strings.Split(token.AssetID, ",")` -/
def assetList (s : String) : List String := (splitChars s.toList).map String.ofList

/-- params.go: GetTokenIDFromAssetID, the inner loop: `for _, aID := range assetIDs { if aID == assetID … }` —
does the token's list have an element equal to the id -/
def listsAsset (token a : String) : Bool := (assetList token).contains a

/-- params.go: GetTokenIDFromAssetID: `for id, token := range p.Tokens { if <token lists assetID> { return id } };
return 0` — `i` is the position of the head of the list. Parametrised by the test applied to a token's raw
`AssetID` string (the code as it is: `listsAsset`; Props/C05Binding.lean refutes the clause for a substring test) -/
def tokenIdFromWith (listed : String → String → Bool) (a : String) : Nat → List String → Nat
  | _, [] => 0
  | i, t :: rest => if listed t a then i else tokenIdFromWith listed a (i + 1) rest

/-- params.go: GetTokenIDFromAssetID as the code has it -/
def tokenIdFrom (tokens : List String) (a : String) : Nat := tokenIdFromWith listsAsset a 0 tokens

/-- x/oracle PriceTimeRound as GetPriceTRLatest returns it -/
structure Round where
  price : Option Int      -- sdkmath.NewIntFromString(price.Price); none: `v.IsNil()`
  decimal : Int           -- int32
deriving Repr, Inhabited, DecidableEq

/-- the oracle as the price getters read it: Params.Tokens in order (position = token id, position 0 is
the placeholder) with the raw `AssetID` string and the latest round (none: `!found`) -/
structure OracleSt where
  toks : List (String × Option Round)
deriving Repr, Inhabited

/-- types.DefaultPriceValue / types.DefaultPriceDecimal -/
def defaultPrice : Int × Int := (1, 0)

/-- x/assets/types: ExocoreAssetID -/
def exoAssetID : String := "0x0000000000000000000000000000000000000000_0x0"

/-- prices.go: what the getters make of a token's latest round: no round, an unreadable or a
non-positive price → price 1 / decimal 0 (the error ErrGetPriceRoundNotFound is swallowed by
UpdateVotingPower); else `(v, uint8(price.Decimal))` -/
def roundPrice : Option Round → Int × Int
  | none => defaultPrice
  | some r =>
    match r.price with
    | none => defaultPrice
    | some v => if v ≤ 0 then defaultPrice else (v, r.decimal % 256)

/-- the latest round of token `t` -/
def latestOf (o : OracleSt) (t : Nat) : Option Round := (o.toks[t]?).bind (·.2)

/-- prices.go: GetMultipleAssetsPrices, loop body (= GetSpecifiedAssetsPrice): `none` is
ErrGetPriceAssetNotFound (`tokenID == 0`) -/
def assetPrice (o : OracleSt) (a : String) : Option (Int × Int) :=
  if a = exoAssetID then some defaultPrice
  else
    let t := tokenIdFrom (o.toks.map (·.1)) a
    if t = 0 then none else some (roundPrice (latestOf o t))

/-- abci.go: UpdateVotingPower: the decimals (GetAssetsDecimal, input) and prices
(GetMultipleAssetsPrices) of the AVS's assets; `none`: an asset no token lists — `prices = nil; break`,
the error is returned (`return err`) -/
def resolveCfgs (o : OracleSt) : List (String × Int) → Option (List (String × AssetCfg))
  | [] => some []
  | (a, dec) :: rest =>
    match assetPrice o a, resolveCfgs o rest with
    | some (p, pd), some l => some ((a, { price := p, priceDec := pd, decimals := dec }) :: l)
    | _, _ => none

/-- what one call of UpdateVotingPower reads, with the prices resolved from the oracle state.
`assets`: the AVS's assets with their decimals; none: GetAssetsDecimal failed -/
def avsInOf (o : OracleSt) (assetsOk : Bool) (assets : Option (List (String × Int))) (minSelf : Option Int)
    (opAssets : List (String × List (String × AssetState))) : AvsIn :=
  { assetsOk := assetsOk, cfgs := assets.bind (resolveCfgs o), minSelf := minSelf, opAssets := opAssets }

end ExoVerif.VP
