/-
  Executable model of the x/oracle price-round machinery (C12, C13, C14). Core Lean only.
  Every definition cites the Go function it mirrors — the code *as it is*, including:
  the strict threshold, the capacity quirks of `Set`/`getOrNewRound`, the in-memory
  side effects that survive a failed message, the replay log without nonces, the uint64
  wrap-around in `AppendPriceTR`, and the "should not happen" grow path on a round-id mismatch.

  Validators are numbered (the harness maps consensus addresses to indices); price strings are
  parsed decimal integers; timestamps are unix seconds (`tsKind` 0 = well-formed, 1 = empty,
  2 = unparsable).
-/
namespace ExoVerif.Oracle

/-! ## kernels (x/oracle/keeper/common/types.go) -/

/-- common/types.go: ExceedsThreshold — `power*B > total*A`, strict. -/
def exceedsThreshold (power total a b : Int) : Bool := decide (total * a < power * b)

/-- common/types.go: BigIntList.Median — sort, middle element, or `Div` (Euclidean) of the sum of
the two middle ones by 2. (`sort.Sort` + indexing is outside the translator's subset: this is a
hand model, tied by the differential run and by `C12_median_*`.) -/
def median (l : List Int) : Int :=
  let s := l.mergeSort (fun a b => decide (a ≤ b))
  let n := s.length
  if n % 2 == 1 then s.getD (n / 2) 0 else (s.getD (n / 2) 0 + s.getD (n / 2 - 1) 0) / 2

/-! ## messages and parameters -/

structure PriceTD where
  price : Int
  decimal : Int
  ts : Int
  tsKind : Nat
  detID : String
deriving Repr, DecidableEq, Inhabited

structure PSource where
  sourceID : Nat
  prices : List PriceTD
deriving Repr, DecidableEq, Inhabited

structure Msg where
  creator : Nat
  feederID : Nat
  basedBlock : Nat
  nonce : Int
  prices : List PSource
deriving Repr, DecidableEq, Inhabited

structure Feeder where
  tokenID : Nat
  ruleID : Nat
  startRoundID : Nat
  startBaseBlock : Nat
  interval : Nat
  endBlock : Nat
deriving Repr, DecidableEq, Inhabited

structure Source where
  valid : Bool
  det : Bool
deriving Repr, DecidableEq, Inhabited

/-- types/params.go: Params (the fields the round machinery reads). Index 0 of every list is the
reserved entry, as in the Go slices. -/
structure Params where
  maxNonce : Nat
  thA : Int
  thB : Int
  maxDetID : Nat
  maxSizePrices : Nat
  sources : List Source
  rules : List (List Nat)
  tokenDecimals : List Int
  feeders : List Feeder
deriving Repr, DecidableEq, Inhabited

/-! ## association lists (Go maps; iteration order never matters where these are used, and
dumps sort) -/

def alookup {κ α} [DecidableEq κ] (k : κ) : List (κ × α) → Option α
  | [] => none
  | (k', v) :: t => if k' = k then some v else alookup k t

def aset {κ α} [DecidableEq κ] (k : κ) (v : α) : List (κ × α) → List (κ × α)
  | [] => [(k, v)]
  | (k', v') :: t => if k' = k then (k, v) :: t else (k', v') :: aset k v t

def adel {κ α} [DecidableEq κ] (k : κ) : List (κ × α) → List (κ × α)
  | [] => []
  | (k', v') :: t => if k' = k then t else (k', v') :: adel k t

/-! ## filter (aggregator/filter.go) -/

/-- common/types.go: Set.Add — refuses when full (`len == size`) or present. -/
def setAdd {α} [DecidableEq α] (size : Nat) (s : List α) (v : α) : List α × Bool :=
  if s.length == size then (s, false)
  else if s.contains v then (s, false)
  else (s ++ [v], true)

structure Filter where
  maxNonce : Nat
  maxDetID : Nat
  vNonce : List (Nat × List Int)
  vSource : List ((Nat × Nat) × List String)
deriving Repr, DecidableEq, Inhabited

/-- filter.go: addPSource, the per-price loop of one deterministic source. -/
def filterDetIDs (size : Nat) : List String → List PriceTD → List String × List PriceTD
  | set, [] => (set, [])
  | set, p :: ps =>
    let (set', ok) := setAdd size set p.detID
    let (set'', kept) := filterDetIDs size set' ps
    (set'', if ok then p :: kept else kept)

/-- filter.go: addPSource. Returns (filter, list4Calculator, list4Aggregator). -/
def Filter.addPSource (f : Filter) (v : Nat) : List PSource → Filter × List PSource × List PSource
  | [] => (f, [], [])
  | ps :: rest =>
    match ps.prices with
    | [] => -- unreachable after sanityCheck (Go would panic on Prices[0]); treated as NS
      let (f', c, a) := f.addPSource v rest
      (f', c, ps :: a)
    | p0 :: _ =>
      if p0.detID.length > 0 then
        let key := (v, ps.sourceID)
        let cur := (alookup key f.vSource).getD []
        let (set', kept) := filterDetIDs f.maxDetID cur ps.prices
        let f1 := { f with vSource := aset key set' f.vSource }
        let (f2, c, a) := f1.addPSource v rest
        if kept.length > 0 then
          let tmp : PSource := { sourceID := ps.sourceID, prices := kept }
          (f2, tmp :: c, tmp :: a)
        else (f2, c, a)
      else
        let (f', c, a) := f.addPSource v rest
        (f', c, ps :: a)

/-- filter.go: filtrate — the nonce set is consulted first; a repeated nonce drops the message. -/
def Filter.filtrate (f : Filter) (m : Msg) : Filter × List PSource × List PSource :=
  let cur := (alookup m.creator f.vNonce).getD []
  let (set', ok) := setAdd f.maxNonce cur m.nonce
  let f1 := { f with vNonce := aset m.creator set' f.vNonce }
  if ok then f1.addPSource m.creator m.prices else (f1, [], [])

/-! ## calculator (aggregator/calculator.go) -/

structure PP where
  price : Int
  power : Int
deriving Repr, DecidableEq, Inhabited

structure RoundPrices where
  detID : String
  prices : List PP
  price : Option Int
  ts : Int
deriving Repr, DecidableEq, Inhabited

structure RPList where
  rounds : List RoundPrices
  cap : Nat
  count : Nat
deriving Repr, DecidableEq, Inhabited

structure Calculator where
  ds : List (Nat × RPList)
  vlen : Nat
  total : Int
deriving Repr, DecidableEq, Inhabited

/-- add `pw.power` to the first item with the same price; returns the new list and the item's
new power if one matched. -/
def bumpPower (price power : Int) : List PP → List PP × Option Int
  | [] => ([], none)
  | it :: t =>
    if it.price = price then ({ it with power := it.power + power } :: t, some (it.power + power))
    else
      let (t', r) := bumpPower price power t
      (it :: t', r)

/-- calculator.go: roundPrices.updatePriceAndPower → (round, updated, confirmed). -/
def RoundPrices.update (r : RoundPrices) (cap : Nat) (price power total a b : Int) :
    RoundPrices × Bool × Bool :=
  if r.price.isSome then (r, false, true)
  else
    match bumpPower price power r.prices with
    | (ps', some np) =>
      if exceedsThreshold np total a b then ({ r with prices := ps', price := some price }, true, true)
      else ({ r with prices := ps' }, true, false)
    | (_, none) =>
      if r.prices.length < cap then
        let r' := { r with prices := r.prices ++ [{ price := price, power := power }] }
        if exceedsThreshold power total a b then ({ r' with price := some price }, true, true)
        else (r', true, false)
      else (r, false, false)

/-- calculator.go: roundPricesList.hasConfirmedDetID -/
def RPList.hasConfirmed (l : RPList) : Bool := l.rounds.any (fun r => r.price.isSome)

/-- calculator.go: getOrNewRound → index of the round to update, or none. Note the named-result
quirk: when the detID is unknown and the list is full, the *last* round is returned. -/
def RPList.getOrNewRound (l : RPList) (detID : String) (ts : Int) : RPList × Option Nat :=
  match l.rounds.findIdx? (fun r => r.detID = detID) with
  | some i =>
    if ((l.rounds.getD i default).price).isSome then (l, none) else (l, some i)
  | none =>
    if l.rounds.length < l.cap then
      ({ l with rounds := l.rounds ++ [{ detID := detID, prices := [], price := none, ts := ts }] },
        some l.rounds.length)
    else if l.rounds.length = 0 then (l, none) else (l, some (l.rounds.length - 1))

structure Confirmed where
  sourceID : Nat
  detID : String
  price : Int
  ts : Int
deriving Repr, DecidableEq, Inhabited

/-- calculator.go: fillPrice, inner loop over the detIDs of one source. -/
def calcDetIDs (sourceID : Nat) (power total a b : Int) : RPList → List PriceTD → RPList × Option Confirmed
  | l, [] => (l, none)
  | l, p :: ps =>
    match l.getOrNewRound p.detID p.ts with
    | (l1, none) => calcDetIDs sourceID power total a b l1 ps
    | (l1, some i) =>
      let r := l1.rounds.getD i default
      let (r', updated, confirmed) := r.update l1.count p.price power total a b
      let l2 := { l1 with rounds := l1.rounds.set i r' }
      if updated && confirmed then
        (l2, some { sourceID := sourceID, detID := r'.detID, price := r'.price.getD 0, ts := r'.ts })
      else calcDetIDs sourceID power total a b l2 ps

/-- calculator.go: fillPrice (outer loop; `break`s out entirely at the first source that already
has a confirmed detID). -/
def Calculator.fillPrice (c : Calculator) (maxDetID : Nat) (a b : Int) (power : Int) :
    List PSource → Calculator × List Confirmed
  | [] => (c, [])
  | ps :: rest =>
    let l := (alookup ps.sourceID c.ds).getD { rounds := [], cap := maxDetID * c.vlen, count := c.vlen }
    let c0 := { c with ds := aset ps.sourceID l c.ds }
    if l.hasConfirmed then (c0, [])
    else
      let (l', conf) := calcDetIDs ps.sourceID power c.total a b l ps.prices
      let c1 := { c with ds := aset ps.sourceID l' c.ds }
      let (c2, confs) := c1.fillPrice maxDetID a b power rest
      match conf with
      | some cf => (c2, cf :: confs)
      | none => (c2, confs)

/-! ## aggregator (aggregator/aggregator.go) -/

structure PWTR where
  price : Option Int
  decimal : Int
  ts : Int          -- −1 = ""
  detRound : String
deriving Repr, DecidableEq, Inhabited

structure Report where
  validator : Nat
  price : Option Int
  prices : List (Nat × PWTR)
  power : Int
deriving Repr, DecidableEq, Inhabited

structure Aggregator where
  final : Option Int
  reports : List Report
  reportPower : Int
  total : Int
  ds : List (Nat × String)
deriving Repr, DecidableEq, Inhabited

/-- the DS branch of fillPrice: copy the confirmed value from the last report that has one. -/
def copyConfirmed (sourceID : Nat) (slot : PWTR) : List Report → PWTR
  | [] => slot
  | r :: rs =>
    match alookup sourceID r.prices with
    | some p =>
      if p.price.isSome then copyConfirmed sourceID { slot with price := p.price, detRound := p.detRound, ts := p.ts } rs
      else copyConfirmed sourceID slot rs
    | none => copyConfirmed sourceID slot rs

/-- aggregator.go: fillPrice, the per-source loop acting on one report. -/
def fillSlots (ds : List (Nat × String)) (reports : List Report) (rep : Report) : List PSource → Report
  | [] => rep
  | ps :: rest =>
    match ps.prices with
    | [] => fillSlots ds reports rep rest
    | p0 :: _ =>
      if p0.detID.length = 0 then
        match alookup ps.sourceID rep.prices with
        | none =>
          let slot : PWTR := { price := some p0.price, decimal := p0.decimal, ts := p0.ts, detRound := "" }
          fillSlots ds reports { rep with prices := aset ps.sourceID slot rep.prices } rest
        | some cur =>
          fillSlots ds reports { rep with prices := aset ps.sourceID { cur with price := some p0.price } rep.prices } rest
      else
        match alookup ps.sourceID rep.prices with
        | none =>
          let slot : PWTR := { price := none, decimal := p0.decimal, ts := -1, detRound := "" }
          let slot := if ((alookup ps.sourceID ds).getD "").length > 0 then copyConfirmed ps.sourceID slot reports else slot
          fillSlots ds reports { rep with prices := aset ps.sourceID slot rep.prices } rest
        | some _ => fillSlots ds reports rep rest

def replaceReport (rep : Report) : List Report → List Report
  | [] => []
  | r :: rs => if r.validator = rep.validator then rep :: rs else r :: replaceReport rep rs

/-- aggregator.go: fillPrice -/
def Aggregator.fillPrice (g : Aggregator) (srcs : List PSource) (v : Nat) (power : Int) : Aggregator :=
  let (g1, rep) :=
    match g.reports.find? (fun r => r.validator = v) with
    | some r => (g, r)
    | none =>
      let r : Report := { validator := v, price := none, prices := [], power := power }
      ({ g with reports := g.reports ++ [r], reportPower := g.reportPower + power }, r)
  let rep' := fillSlots g1.ds g1.reports rep srcs
  { g1 with reports := replaceReport rep' g1.reports }

def confirmReport (c : Confirmed) (r : Report) : Report :=
  if r.price.isSome then r
  else match alookup c.sourceID r.prices with
    | some p => { r with prices := aset c.sourceID { p with detRound := c.detID, ts := c.ts, price := some c.price } r.prices }
    | none => r

/-- aggregator.go: confirmDSPrice (string comparison of detIDs is lexicographic, as in Go) -/
def Aggregator.confirmDS (g : Aggregator) : List Confirmed → Aggregator
  | [] => g
  | c :: cs =>
    let id := (alookup c.sourceID g.ds).getD ""
    if id.length = 0 || decide (id < c.detID) then
      Aggregator.confirmDS { g with ds := aset c.sourceID c.detID g.ds, reports := g.reports.map (confirmReport c) } cs
    else Aggregator.confirmDS g cs

/-- aggregator.go: reportPrice.aggregate. A slot without a price (`nil` *big.Int: it needs two
deterministic sources; Go panics in `Median`) is read as 0 HERE and flagged by `Report.hasNil`; the
nil-aware layer `Model/OracleNil.lean` (`Report.aggregateN`, …, `deliverTxN` — what the driver runs)
treats it as the Go code does, and coincides with this definition wherever no slot is nil
(`Proofs/OracleNil.lean: Aggregator.aggregateN_eq`, `deliverTxN_eq`). -/
def Report.aggregate (r : Report) : Int :=
  match r.price with
  | some p => p
  | none => median (r.prices.map (fun kv => kv.2.price.getD 0))

def Report.hasNil (r : Report) : Bool := r.price.isNone && r.prices.any (fun kv => kv.2.price.isNone)

/-- aggregator.go: aggregator.aggregate -/
def Aggregator.aggregate (g : Aggregator) (a b : Int) : Aggregator :=
  if g.final.isSome then g
  else if exceedsThreshold g.reportPower g.total a b && g.ds.length > 0 then
    { g with final := some (median (g.reports.map Report.aggregate)),
             reports := g.reports.map (fun r => { r with price := some r.aggregate }) }
  else g

/-! ## worker (aggregator/worker.go) -/

structure Worker where
  sealed : Bool
  price : Option Int
  decimal : Int
  f : Option Filter
  c : Option Calculator
  a : Option Aggregator
deriving Repr, DecidableEq, Inhabited

/-! ## aggregator context (aggregator/context.go) -/

inductive Status | open | closed
deriving Repr, DecidableEq, Inhabited

structure Round where
  basedBlock : Nat
  nextRoundID : Nat
  status : Status
deriving Repr, DecidableEq, Inhabited

structure Agc where
  params : Option Params
  vals : List (Nat × Int)
  total : Int
  rounds : List (Nat × Round)
  workers : List (Nat × Worker)
deriving Repr, DecidableEq, Inhabited

def Params.feeder? (p : Params) (id : Nat) : Option Feeder := p.feeders[id]?
def Params.tokenDecimal (p : Params) (feederID : Nat) : Int :=
  match p.feeder? feederID with
  | some f => p.tokenDecimals.getD f.tokenID 0
  | none => 0

/-- worker.go: newWorker -/
def newWorker (p : Params) (g : Agc) (feederID : Nat) : Worker :=
  { sealed := false, price := none, decimal := p.tokenDecimal feederID,
    f := some { maxNonce := p.maxNonce, maxDetID := p.maxDetID, vNonce := [], vSource := [] },
    c := some { ds := [], vlen := g.vals.length, total := g.total },
    a := some { final := none, reports := [], reportPower := 0, total := g.total, ds := [] } }

/-- worker.go: do — filter → aggregator.fillPrice → calculator.fillPrice → confirmDSPrice -/
def Worker.run (w : Worker) (p : Params) (power : Int) (m : Msg) : Worker × List PSource :=
  match w.f, w.c, w.a with
  | some f, some c, some a =>
    let (f', l4c, l4a) := f.filtrate m
    if l4a.length > 0 then
      let a1 := a.fillPrice l4a m.creator power
      let (c1, confs) := c.fillPrice p.maxDetID p.thA p.thB power l4c
      let a2 := if confs.length > 0 then a1.confirmDS confs else a1
      ({ w with f := some f', c := some c1, a := some a2 }, l4a)
    else ({ w with f := some f' }, l4a)
  | _, _, _ => (w, [])

/-- outcome classes of a create-price message (x/oracle/types/errors.go) -/
inductive MsgErr | invalidMsg (why : String) | ignored | formatInvalid | panic (why : String)
deriving Repr, DecidableEq

/-- context.go: sanityCheck (`IsValidSource`/`IsDeterministicSource` index the source slice: an id
past its end panics). -/
def sanitySources (p : Params) : List PSource → Option MsgErr
  | [] => none
  | ps :: rest =>
    if ps.prices.length = 0 || ps.prices.length > p.maxDetID then
      some (.invalidMsg "source")
    else if ps.sourceID ≠ 0 && ps.sourceID ≥ p.sources.length then some (.panic "source index")
    else if ps.sourceID ≠ 0 && !((p.sources.getD ps.sourceID default).valid) then some (.invalidMsg "source")
    else if (p.sources.getD ps.sourceID default).det then
      if ps.prices.any (fun d => d.detID.length = 0) then some (.invalidMsg "ds-roundid")
      else sanitySources p rest
    else if ps.prices.length > 1 || ((ps.prices.headD default).detID.length > 0) then some (.invalidMsg "ns-roundid")
    else sanitySources p rest

def Agc.sanityCheck (g : Agc) (p : Params) (m : Msg) : Option MsgErr :=
  if (alookup m.creator g.vals).isNone then some (.invalidMsg "not-validator")
  else if m.prices.length = 0 then some (.invalidMsg "no-price")
  else sanitySources p m.prices

/-- types/params.go: CheckRules — only the *last* listed (or last valid) source is actually
required, as in the Go loop which overwrites `notFound` per iteration. -/
def checkRules (p : Params) (feederID : Nat) (srcs : List PSource) : Bool :=
  let f := (p.feeder? feederID).getD default
  let rule := p.rules.getD f.ruleID []
  if rule.length > 0 then
    if rule.length ≠ srcs.length then false
    else
      let has (s : Nat) : Bool := srcs.any (fun x => x.sourceID = s)
      let notFound :=
        if rule.headD 0 = 0 then
          (List.range p.sources.length).foldl
            (fun nf sID => if sID ≠ 0 && (p.sources.getD sID default).valid then !(has sID) else nf) false
        else rule.foldl (fun _ s => !(has s)) false
      !notFound
  else true

/-- context.go: checkMsg -/
def Agc.checkMsg (g : Agc) (p : Params) (m : Msg) : Option MsgErr :=
  match g.sanityCheck p m with
  | some e => some e
  | none =>
    match alookup m.feederID g.rounds with
    | none => some (.invalidMsg "round")
    | some r =>
      if r.status ≠ .open then some (.invalidMsg "round")
      else if m.basedBlock ≠ r.basedBlock then some (.invalidMsg "baseblock")
      else if !(checkRules p m.feederID m.prices) then some (.invalidMsg "rule")
      else if m.prices.any (fun s => s.prices.any (fun d => d.decimal ≠ p.tokenDecimal m.feederID)) then
        some (.invalidMsg "decimal")
      else none

/-- cache.ItemM: what the replay log keeps of an accepted message (no nonce, no base block). -/
structure ItemM where
  feederID : Nat
  srcs : List PSource
  validator : Nat
deriving Repr, DecidableEq, Inhabited

structure FinalItem where
  tokenID : Nat
  price : Int
  decimal : Int
  ts : Int
  roundID : Nat
deriving Repr, DecidableEq, Inhabited

inductive FillRes
  | final (it : FinalItem)
  | cached (it : ItemM)
  | ignored
deriving Repr, DecidableEq

/-- context.go: FillPrice -/
def Agc.fillPrice (g : Agc) (p : Params) (m : Msg) : Agc × FillRes :=
  let w := (alookup m.feederID g.workers).getD (newWorker p g m.feederID)
  let g0 := { g with workers := aset m.feederID w g.workers }
  if w.sealed then (g0, .ignored)
  else
    let power := (alookup m.creator g.vals).getD 0
    let (w1, filled) := w.run p power m
    if filled.length > 0 then
      match w1.a with
      | none => ({ g0 with workers := aset m.feederID w1 g0.workers }, .ignored)
      | some a =>
        let a' := a.aggregate p.thA p.thB
        match a'.final with
        | some fp =>
          let w2 : Worker := { w1 with sealed := true, price := some fp, f := none, c := none, a := none }
          let rounds' := match alookup m.feederID g0.rounds with
            | some r => aset m.feederID { r with status := .closed } g0.rounds
            | none => g0.rounds
          let f := (p.feeder? m.feederID).getD default
          let ts := ((m.prices.headD default).prices.headD default).ts
          let rid := ((alookup m.feederID g0.rounds).getD default).nextRoundID
          ({ g0 with workers := aset m.feederID w2 g0.workers, rounds := rounds' },
            .final { tokenID := f.tokenID, price := fp, decimal := p.tokenDecimal m.feederID, ts := ts, roundID := rid })
        | none =>
          ({ g0 with workers := aset m.feederID { w1 with a := some a' } g0.workers },
            .cached { feederID := m.feederID, srcs := filled, validator := m.creator })
    else ({ g0 with workers := aset m.feederID w1 g0.workers }, .ignored)

/-- context.go: SealRound for one (feederID, round) entry. Returns the failed tokenID (if any) and
whether the feeder is reported as sealed. -/
def sealOne (p : Params) (height : Nat) (force : Bool) (g : Agc) (fid : Nat) : Agc × Option Nat × Bool :=
  match alookup fid g.rounds with
  | none => (g, none, false)
  | some r =>
    let f := (p.feeder? fid).getD default
    let (g1, failed, s1) :=
      if r.status = .open then
        let expired := f.endBlock > 0 && height ≥ f.endBlock
        -- uint64 subtraction: basedBlock ≤ height on every path that reaches here
        let outOfWindow := height - r.basedBlock ≥ p.maxNonce
        if expired || outOfWindow || force then
          let rounds' := if expired then adel fid g.rounds else aset fid { r with status := .closed } g.rounds
          ({ g with rounds := rounds', workers := adel fid g.workers }, some f.tokenID, true)
        else (g, none, false)
      else (g, none, false)
    match alookup fid g1.workers with
    | some w => if w.sealed then ({ g1 with workers := adel fid g1.workers }, failed, true) else (g1, failed, s1)
    | none => (g1, failed, s1)

/-- context.go: SealRound → (agc, failed tokenIDs, sealed feederIDs). The Go code ranges over a
map; the effects on different feeders commute, the model visits feeders in id order. -/
def Agc.sealRound (g : Agc) (p : Params) (height : Nat) (force : Bool) : Agc × List Nat × List Nat :=
  (g.rounds.map (·.1)).foldl
    (fun (acc : Agc × List Nat × List Nat) fid =>
      let (g', failed, s) := sealOne p height force acc.1 fid
      (g', (match failed with | some t => acc.2.1 ++ [t] | none => acc.2.1), if s then acc.2.2 ++ [fid] else acc.2.2))
    (g, [], [])

/-- context.go: PrepareRoundEndBlock, the round arithmetic of one feeder. -/
def roundArith (f : Feeder) (block : Nat) : Nat × Nat × Nat :=
  let delta := block - f.startBaseBlock
  let left := delta % f.interval
  let count := delta / f.interval
  (left, block - left, f.startRoundID + count)

/-- context.go: PrepareRoundEndBlock for one feeder → (agc, opened a new round at `left == 0`). -/
def prepareOne (p : Params) (block : Nat) (g : Agc) (fid : Nat) (f : Feeder) : Agc × Bool :=
  if (f.endBlock > 0 && f.endBlock ≤ block) || f.startBaseBlock > block then (g, false)
  else
    let (left, based, nrid) := roundArith f block
    match alookup fid g.rounds with
    | none =>
      if left ≥ p.maxNonce then
        ({ g with rounds := aset fid { basedBlock := based, nextRoundID := nrid, status := .closed } g.rounds }, false)
      else
        ({ g with rounds := aset fid { basedBlock := based, nextRoundID := nrid, status := .open } g.rounds }, left == 0)
    | some r =>
      if left = 0 then
        ({ g with rounds := aset fid { basedBlock := based, nextRoundID := nrid, status := .open } g.rounds,
                  workers := adel fid g.workers }, true)
      else if r.status = .open && left ≥ p.maxNonce then
        ({ g with rounds := aset fid { r with status := .closed } g.rounds }, false)
      else (g, false)

def prepareLoop (p : Params) (block : Nat) : Agc → Nat → List Feeder → List Nat → Agc × List Nat
  | g, _, [], acc => (g, acc)
  | g, i, f :: fs, acc =>
    if i = 0 then prepareLoop p block g (i + 1) fs acc
    else
      let (g', opened) := prepareOne p block g i f
      prepareLoop p block g' (i + 1) fs (if opened then acc ++ [i] else acc)

/-- context.go: PrepareRoundEndBlock → (agc, feederIDs whose nonces must be zeroed). With nil
params the generated getter returns an empty feeder list. -/
def Agc.prepareRound (g : Agc) (block : Nat) : Agc × List Nat :=
  if block < 1 then (g, [])
  else match g.params with
    | none => (g, [])
    | some p => prepareLoop p block g 0 p.feeders []

/-- context.go: SetValidatorPowers -/
def Agc.setValidators (g : Agc) (vals : List (Nat × Int)) : Agc :=
  { g with vals := vals, total := vals.foldl (fun s kv => s + kv.2) 0 }

/-! ## the store (x/oracle keeper) -/

structure PriceTR where
  price : Option Int     -- none = "" (GrowRoundID on an empty history)
  decimal : Int
  ts : Int
  roundID : Nat
deriving Repr, DecidableEq, Inhabited

structure TokenStore where
  next : Nat             -- raw stored NextRoundID (0 = absent)
  rounds : List (Nat × PriceTR)
deriving Repr, DecidableEq, Inhabited

structure Cache where
  msgs : List ItemM
  vals : List (Nat × Int)
  vUpdate : Bool
  params : Option Params
  pUpdate : Bool
deriving Repr, DecidableEq, Inhabited

def Cache.empty : Cache := { msgs := [], vals := [], vUpdate := false, params := none, pUpdate := false }

structure Store where
  prices : List (Nat × TokenStore)
  nonces : List ((Nat × Nat) × Nat)
  recentMsgs : List (Nat × List ItemM)
  msgIndex : List Nat
  recentParams : List (Nat × Params)
  paramsIndex : List Nat
  vuBlock : Option Nat
  params : Params
deriving Repr, DecidableEq, Inhabited

/-- prices.go: GetNextRoundID (absent or 0 ⇒ 1) -/
def TokenStore.nextRoundID (t : TokenStore) : Nat := if t.next = 0 then 1 else t.next

def Store.token (s : Store) (tokenID : Nat) : TokenStore := (alookup tokenID s.prices).getD { next := 0, rounds := [] }

/-- prices.go: the uint64 expression `nextRoundID - MaxSizePrices` (wraps). -/
def wrapSub64 (a b : Nat) : Nat := (a + 2 ^ 64 - b % 2 ^ 64) % 2 ^ 64

/-- prices.go: AppendPriceTR (+ IncreaseNextRoundID). False when the round id is not the expected one. -/
def TokenStore.append (t : TokenStore) (maxSize : Nat) (p : PriceTR) : TokenStore × Bool :=
  let n := t.nextRoundID
  if n ≠ p.roundID then (t, false)
  else
    let rounds1 := aset n p t.rounds
    let expired := wrapSub64 n maxSize
    let rounds2 := if expired > 0 then adel expired rounds1 else rounds1
    ({ next := n + 1, rounds := rounds2 }, true)

/-- prices.go: GetPriceTRLatest -/
def TokenStore.latest (t : TokenStore) : Option PriceTR :=
  if t.next ≤ 1 then none else alookup (t.next - 1) t.rounds

/-- prices.go: GrowRoundID -/
def TokenStore.grow (t : TokenStore) (maxSize : Nat) : TokenStore :=
  match t.latest with
  | some p => (t.append maxSize { p with roundID := p.roundID + 1 }).1
  | none => (t.append maxSize { price := none, decimal := 0, ts := -1, roundID := t.nextRoundID }).1

def Store.setToken (s : Store) (tokenID : Nat) (t : TokenStore) : Store := { s with prices := aset tokenID t s.prices }

/-- nonce.go: RemoveNonceWithFeederIDForValidators -/
def Store.removeNonces (s : Store) (fid : Nat) (vals : List Nat) : Store :=
  { s with nonces := s.nonces.filter (fun kv => !(kv.1.2 = fid && vals.contains kv.1.1)) }

/-- nonce.go: AddZeroNonceItemWithFeederIDForValidators (existing entries are kept) -/
def Store.addZeroNonces (s : Store) (fid : Nat) (vals : List Nat) : Store :=
  { s with nonces := vals.foldl (fun ns v => if (alookup (v, fid) ns).isSome then ns else ns ++ [((v, fid), 0)]) s.nonces }

/-- nonce.go: CheckAndIncreaseNonce -/
def Store.checkNonce (s : Store) (maxNonce : Nat) (v fid : Nat) (nonce : Int) : Option Store :=
  -- `uint32(msg.Nonce)`: a negative int32 becomes ≥ 2^31 > MaxNonce
  if nonce < 0 || nonce > (maxNonce : Int) then none
  else match alookup (v, fid) s.nonces with
    | some cur => if (cur : Int) + 1 = nonce then some { s with nonces := aset (v, fid) (cur + 1) s.nonces } else none
    | none => none

/-! ## cache (keeper/cache/caches.go) -/

/-- caches.go: cacheValidator.add -/
def cacheAddVals (cur : List (Nat × Int)) (upd : List (Nat × Int)) : List (Nat × Int) × Bool :=
  upd.foldl (fun (acc : List (Nat × Int) × Bool) (kv : Nat × Int) =>
    match alookup kv.1 acc.1 with
    | some pw =>
      if kv.2 = 0 then (adel kv.1 acc.1, true)
      else if pw ≠ kv.2 then (aset kv.1 kv.2 acc.1, true)
      else acc
    | none => (aset kv.1 kv.2 acc.1, true)) (cur, false)

/-- caches.go: cacheMsgs.commit — prune entries `b ≤ block − MaxNonce` from the front of the index.
The bound is `oldest` = `block − MaxNonce` when `block > MaxNonce`, else 0 (the guard added by the
F-14d repair; before it the uint64 subtraction wrapped on a chain younger than MaxNonce and the
commit erased the whole log — `commitMsgsPreFix` in Proofs/OracleRestart.lean). -/
def commitMsgs (s : Store) (maxNonce block : Nat) (msgs : List ItemM) : Store :=
  let dropped := s.msgIndex.takeWhile (fun b => !(b > block - maxNonce))
  let kept := s.msgIndex.dropWhile (fun b => !(b > block - maxNonce))
  let rm := dropped.foldl (fun l b => adel b l) s.recentMsgs
  { s with recentMsgs := aset block msgs rm, msgIndex := kept ++ [block] }

/-- caches.go: cacheParams.commit — prunes `b < block − MaxNonce`; keeps the last index entry when
everything would go (the stored params of that entry are nevertheless removed). -/
def commitParams (s : Store) (maxNonce block : Nat) (p : Params) : Store :=
  let dropped := s.paramsIndex.takeWhile (fun b => !(b ≥ block - maxNonce))
  let rm := dropped.foldl (fun l b => adel b l) s.recentParams
  let i := dropped.length
  let i := if i > 0 && i = s.paramsIndex.length then i - 1 else i
  { s with recentParams := aset block p rm, paramsIndex := s.paramsIndex.drop i ++ [block] }

/-! ## the application state -/

structure State where
  store : Store
  agc : Option Agc
  cache : Option Cache
  dogfood : List (Nat × Int)   -- x/dogfood validator set (GetAllExocoreValidators)
  height : Nat
  blockTime : Int
deriving Repr, DecidableEq, Inhabited

def State.cacheD (s : State) : Cache := s.cache.getD Cache.empty

/-- single.go: initAggregatorContext -/
def initAgc (s : State) : State :=
  let p := s.store.params
  let g : Agc := { params := some p, vals := [], total := 0, rounds := [], workers := [] }
  let g := g.setValidators s.dogfood
  let c := Cache.empty
  let c := { c with params := some p, pUpdate := true }
  let (cv, _) := cacheAddVals c.vals s.dogfood
  let c := { c with vals := cv, vUpdate := s.dogfood.length > 0 || c.vUpdate }
  let (g, _) := g.prepareRound (s.height - 1)
  { s with agc := some g, cache := some c }

/-- single.go: recacheAggregatorContext, the params selection inside the replay loop: the Go code
ranges over a map and applies every entry with `prev < b < from`, raising `prev` as it goes and
deleting the applied entry; the last applied one is not determined by the map order when several
qualify — the model applies them in ascending block order (so the newest wins). -/
def pickParams (recent : List (Nat × Params)) (prev : Nat) (bound : Nat) : Option (Nat × Params) :=
  recent.foldl (fun (acc : Option (Nat × Params)) kv =>
    let pv := match acc with | some x => x.1 | none => prev
    if kv.1 < bound && kv.1 > pv then some kv else acc) none

def replayMsgs (g : Agc) (p? : Option Params) : List ItemM → Option Agc
  | [] => some g
  | it :: rest =>
    match p? with
    | none => none   -- nil params: newWorker dereferences agc.params ⇒ panic
    | some p =>
      let (g', _) := g.fillPrice p { creator := it.validator, feederID := it.feederID, basedBlock := 0, nonce := 0, prices := it.srcs }
      replayMsgs g' p? rest

/-- the replay loop `for ; from < to; from++` (fuel = to − from). None = the Go code panics. -/
def replayLoop (recent : List (Nat × Params)) (msgs : List (Nat × List ItemM)) :
    Nat → Nat → Nat → Agc → List (Nat × Params) → Option (Agc × Nat × List (Nat × Params))
  | 0, _, prev, g, rp => some (g, prev, rp)
  | fuel + 1, frm, prev, g, rp =>
    let (g1, prev1, rp1) := match pickParams rp prev frm with
      | some (b, p) => ({ g with params := some p }, b, rp.filter (fun (kv : Nat × Params) => !(kv.1 < frm && kv.1 > prev)))
      | none => (g, prev, rp)
    let (g2, _) := g1.prepareRound (frm - 1)
    match replayMsgs g2 g2.params ((alookup frm msgs).getD []) with
    | none => none
    | some g3 =>
      let g4 := match g3.params with
        | some p => (g3.sealRound p frm false).1
        | none => g3   -- no rounds exist without params
      replayLoop recent msgs fuel (frm + 1) prev1 g4 rp1

/-- single.go: recacheAggregatorContext. Result: none = first start (go to init);
some none = panic; some (some s) = recached. -/
def recacheAgc (s : State) : Option (Option State) :=
  match s.store.vuBlock with
  | none => none
  | some h =>
    if s.store.recentParams.length = 0 then none
    else
      let maxNonce0 := s.store.params.maxNonce   -- k.GetParams(ctx).MaxNonce (F-14f repair; before it: the package variable common.MaxNonce, 3 in a fresh process)
      let to := s.height
      let from0 : Int := (s.height : Int) - maxNonce0 + 1
      let frm : Int := if (h : Int) ≥ from0 then h + 1 else from0
      let g : Agc := { params := none, vals := [], total := 0, rounds := [], workers := [] }
      let g := g.setValidators s.dogfood
      let c := Cache.empty
      let (cv, _) := cacheAddVals c.vals s.dogfood
      let c := { c with vals := cv, vUpdate := s.dogfood.length > 0 }
      let res : Option (Agc × Option Params) :=
        if frm ≥ to then
          let best := s.store.recentParams.foldl (fun (acc : Option (Nat × Params)) kv =>
            match acc with | some x => if kv.1 > x.1 then some kv else acc | none => some kv) none
          match best with
          | some (_, p) =>
            -- no block is replayed; the rounds are rebuilt as EndBlock of the last committed block left
            -- them (F-14c repair): prepare(to−2), seal(to−1, forced iff the validator set changed in
            -- that block), prepare(to−1)
            let g := { g with params := some p }
            let (g, _) := g.prepareRound (to - 2)
            let g := (g.sealRound p (to - 1) (decide (h + 1 = to))).1
            let (g, _) := g.prepareRound (to - 1)
            some (g, some p)
          | none => some (g, none)
        else
          let frmN := frm.toNat
          match replayLoop s.store.recentParams s.store.recentMsgs (to - frmN) frmN 0 g s.store.recentParams with
          | none => none
          | some (g1, prev, rp) =>
            let (g2, lastP) := match pickParams rp prev to with
              | some (_, p) => ({ g1 with params := some p }, some p)
              | none => (g1, g1.params)
            let (g3, _) := g2.prepareRound (to - 1)
            some (g3, lastP)
      match res with
      | none => some none
      | some (g, _) =>
        -- the "hot fix" lines: the latest params are re-read from the store and cached
        let p := s.store.params
        let g := { g with params := some p }
        let c := { c with params := some p, pUpdate := true }
        -- GetAggregatorContext: c.SkipCommit()
        let c := { c with vUpdate := false, pUpdate := false }
        some (some { s with agc := some g, cache := some c })

/-- single.go: GetAggregatorContext (deliver side). none = panic during recache. -/
def getAgc (s : State) : Option State :=
  match s.agc with
  | some _ => some { s with cache := some s.cacheD }
  | none =>
    let s0 := { s with cache := some Cache.empty }
    match recacheAgc s0 with
    | none => some (initAgc s0)
    | some none => none
    | some (some s') => some s'

/-! ## message server (keeper/msg_server_create_price.go) -/

/-- msg_server_create_price.go: checkTimestamp — every price needs a well-formed timestamp not more
than 5 s ahead of the block time. -/
def checkTimestamp (blockTime : Int) (m : Msg) : Bool :=
  m.prices.all (fun s => s.prices.all (fun d => d.tsKind = 0 && !(blockTime + 5 < d.ts)))

inductive MsgOut | ok | err (e : MsgErr)
deriving Repr, DecidableEq

/-- msg_server_create_price.go: CreatePrice (DeliverTx side). The in-memory context and cache are
mutated in place; the store changes are the caller's to keep or drop. -/
def createPrice (s : State) (m : Msg) : State × MsgOut :=
  if !(checkTimestamp s.blockTime m) then (s, .err .formatInvalid)
  else
    match getAgc s with
    | none => (s, .err (.panic "recache"))
    | some s =>
      match s.agc with
      | none => (s, .err (.panic "agc"))
      | some g =>
        match g.params with
        | none => (s, .err (.panic "params"))
        | some p =>
          match g.checkMsg p m with
          | some e => (s, .err e)
          | none =>
            let (g', res) := g.fillPrice p m
            let s := { s with agc := some g' }
            match res with
            | .ignored => (s, .err .ignored)
            | .cached it => ({ s with cache := some { s.cacheD with msgs := s.cacheD.msgs ++ [it] } }, .ok)
            | .final it =>
              let t := s.store.token it.tokenID
              let (t', okA) := t.append p.maxSizePrices { price := some it.price, decimal := it.decimal, ts := it.ts, roundID := it.roundID }
              let t'' := if okA then t' else t.grow p.maxSizePrices
              let st := (s.store.setToken it.tokenID t'').removeNonces m.feederID (g'.vals.map (·.1))
              ({ s with store := st,
                        cache := some { s.cacheD with msgs := s.cacheD.msgs.filter (fun x => x.feederID ≠ m.feederID) } }, .ok)

/-! ## ante handler and DeliverTx (app/ante/cosmos, baseapp.runTx) -/

/-- one SignerInfo of the tx together with the signature slot it designates -/
structure SigInfo where
  pubkeyMatches : Bool     -- SetPubKeyDecorator: address of this public key = the signer at this index
  sigValid : Bool          -- pubKey.VerifySignature(signBytes, signature) (boolean input; ed25519 is not modelled)
deriving Repr, DecidableEq, Inhabited

structure Tx where
  size : Nat
  infos : List SigInfo     -- the tx's SignerInfos, in order (may be fewer or more than the signers)
  msgs : List Msg
deriving Repr, DecidableEq, Inhabited

/-- sdk.Tx.GetSigners: the creators of the messages, in order of first appearance, without repeats -/
def dedupNat : List Nat → List Nat → List Nat
  | seen, [] => seen
  | seen, x :: xs => if seen.contains x then dedupNat seen xs else dedupNat (seen ++ [x]) xs

def Tx.signers (tx : Tx) : List Nat := dedupNat [] (tx.msgs.map (·.creator))

inductive TxOut
  | ok
  | ante (why : String)
  | msg (idx : Nat) (e : MsgErr)
deriving Repr, DecidableEq

/-- app/ante/cosmos/sigverify.go: IncrementSequenceDecorator, oracle branch -/
def anteNonces (maxNonce : Nat) : Store → List Msg → Option Store
  | st, [] => some st
  | st, m :: ms =>
    match st.checkNonce maxNonce m.creator m.feederID m.nonce with
    | some st' => anteNonces maxNonce st' ms
    | none => none

/-- the oracle branch of the ante chain, in decorator order: size limit (txsize_gas.go); one
SignerInfo per signer, each carrying that signer's public key (SetPubKeyDecorator); one valid
signature per signer (SigVerificationDecorator: ErrUnauthorized on a count mismatch or when
`!pubKey.VerifySignature(...)`); nonces (IncrementSequenceDecorator). The number of raw signature
slots equals the number of signers on every tx that gets this far (tx.ValidateBasic). -/
def anteHandle (s : State) (tx : Tx) : Except String Store :=
  if tx.size > 1000 then .error "size"
  else if tx.infos.length ≠ tx.signers.length then .error "sig"
  else if tx.infos.any (fun i => !i.pubkeyMatches) then .error "pubkey"
  else if tx.infos.any (fun i => !i.sigValid) then .error "sig"
  else
    match anteNonces s.store.params.maxNonce s.store tx.msgs with
    | some st => .ok st
    | none => .error "nonce"

def runMsgs : State → Nat → List Msg → State × Option (Nat × MsgErr)
  | s, _, [] => (s, none)
  | s, i, m :: ms =>
    match createPrice s m with
    | (s', .ok) => runMsgs s' (i + 1) ms
    | (s', .err e) => (s', some (i, e))

/-- baseapp.runTx: ante writes are kept when the ante chain succeeds; message writes are kept only
when every message succeeds — but the aggregator context and the cache are process memory and keep
whatever the messages did (F-09c). -/
def deliverTx (s : State) (tx : Tx) : State × TxOut :=
  match anteHandle s tx with
  | .error why => (s, .ante why)
  | .ok st =>
    let s1 := { s with store := st }
    match runMsgs s1 0 tx.msgs with
    | (s2, none) => (s2, .ok)
    | (s2, some (i, e)) => ({ s2 with store := st }, .msg i e)

/-! ## EndBlock (x/oracle/module.go) -/

/-- module.go: EndBlock. `updates` = the validator updates x/dogfood produced in this block
(power 0 = removal). -/
def endBlock (s : State) (updates : List (Nat × Int)) : Option State :=
  -- x/dogfood's EndBlock ran first (app.go: SetOrderEndBlockers)
  let dog := updates.foldl (fun d kv => if kv.2 = 0 then adel kv.1 d else aset kv.1 kv.2 d) s.dogfood
  let s := { s with cache := some s.cacheD, dogfood := dog }
  match getAgc s with
  | none => none
  | some s =>
    match s.agc with
    | none => none
    | some g =>
      let c := s.cacheD
      let (g, c, force) :=
        if updates.length > 0 then
          let (cv, upd) := cacheAddVals c.vals updates
          let c := { c with vals := cv, vUpdate := c.vUpdate || upd }
          (g.setValidators c.vals, c, true)
        else (g, c, false)
      match g.params with
      | none => none
      | some p =>
        let (g, failed, sealed) := g.sealRound p s.height force
        let valIDs := g.vals.map (·.1)
        -- F-13a repair: RemoveNonceWithValidator for every update with power 0 (a validator that leaves
        -- the set loses all its nonce entries; the clean-up below only covers the new set)
        let st0 : Store := updates.foldl (fun st kv =>
          if kv.2 = 0 then { st with nonces := st.nonces.filter (fun e => !(e.1.1 = kv.1)) } else st) s.store
        let st := sealed.foldl (fun st fid => st.removeNonces fid valIDs) st0
        let st := failed.foldl (fun st tok => st.setToken tok ((st.token tok).grow p.maxSizePrices)) st
        -- CommitCache
        let st := if c.msgs.length > 0 then commitMsgs st p.maxNonce s.height c.msgs else st
        let c := { c with msgs := [] }
        let st := if c.vUpdate then { st with vuBlock := some s.height } else st
        let c := { c with vUpdate := false }
        let (st, g, c) :=
          if c.pUpdate then
            match c.params with
            | some cp => (commitParams st p.maxNonce s.height cp, { g with params := some cp }, { c with pUpdate := false })
            | none => (st, g, { c with pUpdate := false })
          else (st, g, c)
        let (g, opened) := g.prepareRound s.height
        let valIDs := g.vals.map (·.1)
        let st := opened.foldl (fun st fid => st.addZeroNonces fid valIDs) st
        some { s with store := st, agc := some g, cache := some c }

end ExoVerif.Oracle
