import ExoVerif.Model.AtomicValues
/-!
# Value-level meaning of the steps of `Atomic.precompileUndelegate` (C09)

precompiles/delegation/tx.go: Undelegate runs x/delegation/keeper/delegation.go: UndelegateFrom on the EVM
call's own context — no cache context — and `Run` turns an error into the output `false` without
reverting.  `RemoveShare` has written the operator's pool row, the staker's row, the delegation row and
possibly the operator's staker list before `SetUndelegationRecords` and the dogfood hook are reached, and
both of those can return an error.  The order of the steps is `Atomic.precompileUndelegate` (tied to the
source by `C09_tie_undelegateFrom_order` and `C09_tie_undelegate_error_paths`); here every named check is
the condition the Go callee tests and every named write the store update it performs, over the ledger of
`Model/Ledger.lean` (which has the three undelegation stores and the hold counts), as functions of the
state at entry (`s0`: what a Go local computed before the writes still holds) and the current state.

What the ledger does not hold is part of the request: the gateway parameter, ABI decoding, the presence of
the tx hash in the context (all tested before the first write), whether the SDK's bech32 codec decodes the
canonical rendering of the operator address it decoded before (`opCanonValid`: UpdateDelegationState
re-decodes `params.OperatorAddress.String()`), and whether the dogfood hook tracks the undelegation
(`hooked`: the operator holds a consensus key of an active validator, or its key removal is pending — read
from x/operator and x/dogfood stores that no step of this program writes).  Core Lean only.
-/
namespace ExoVerif.AtomicValues
open ExoVerif ExoVerif.KV ExoVerif.Atomic

namespace Undelegate
open ExoVerif.Ledger

structure Req where
  gatewayOk : Bool     -- assetsKeeper.CheckExocoreGatewayAddr(contract.CallerAddress) == nil
  parseOk : Bool       -- GetDelegationParamsFromInputs == nil
  txHashOk : Bool      -- ctx.Value(CtxKeyTxHash).(common.Hash) present
  opCanonValid : Bool  -- sdk.AccAddressFromBech32(params.OperatorAddress.String()) == nil
  hooked : Bool        -- dogfood AfterUndelegationStarted reaches IncrementUndelegationHoldCount
  st : SID
  a : AID
  o : OID
  x : Int
  nonce : Nat          -- params.LzNonce
  hash : String        -- params.TxHash.String(): the hash of the Ethereum transaction the call belongs to
deriving Repr, Inhabited

/-- math.MaxUint64 -/
def maxHold : Nat := 18446744073709551615

def stRow (r : Req) (c : L) : StakerRow := getD c.stakers (r.st, r.a) zeroStaker
def plRow (r : Req) (c : L) : Pool := getD c.pools (r.o, r.a) zeroPool
def dlRow (r : Req) (c : L) : DelegRow := getD c.deleg (r.st, r.a, r.o) zeroDeleg

/-- the Go local `share` (delegation.go: `share, err := k.ValidateUndelegationAmount(…)`): computed before
any write, so a function of the state at entry -/
def share (r : Req) (s0 : L) : Dec := okOr Dec.zero (validateUndelegationAmount s0 r.o r.st r.a r.x)

/-- share.go: RemoveShareFromOperator — the tokens the share is worth in the pool row `c` holds: the whole
amount for the pool's last share, else TokensFromShares -/
def removedE (r : Req) (s0 c : L) : Except String Int :=
  if (plRow r c).totalShare.raw = (share r s0).raw then .ok (plRow r c).amount
  else tokensFromShares (share r s0) (plRow r c).totalShare (plRow r c).amount

/-- the Go local `removeToken`: computed from the pool row before RemoveShareFromOperator's own write -/
def removed (r : Req) (s0 : L) : Int := okOr 0 (removedE r s0 s0)

/-- `delta.OperatorShare`: minus the share if the staker is associated with the operator -/
def dOp (r : Req) (s0 : L) : Dec := if find? s0.assoc r.st = some r.o then (share r s0).neg else Dec.zero

/-- types.GetUndelegationRecordKey(r.BlockNumber, r.LzTxNonce, r.TxHash, r.OperatorAddr) -/
def recKey (r : Req) (c : L) : RecKey := ⟨r.o, c.height, r.nonce, r.hash⟩

/-- the record UndelegateFrom builds: BlockNumber = ctx.BlockHeight(), CompleteBlockNumber =
GetUnbondingExpirationBlockNumber(…, BlockNumber) = BlockNumber + UnbondingExpiration -/
def record (r : Req) (s0 c : L) : URec :=
  { staker := r.st, asset := r.a, op := r.o, hash := r.hash, nonce := r.nonce, blockNumber := c.height,
    completeBlock := c.height + c.unbonding, amount := removed r s0, actual := removed r s0 }

/-- UpdateDelegationState's `shareIsZero`, as the row it has just written shows it -/
def shareIsZero (r : Req) (c : L) : Bool := (dlRow r c).share.raw == 0

/-- the checks of `Atomic.precompileUndelegate`, by name -/
def chk (r : Req) (n : String) (s0 cur : L) : Option Err :=
  if n = "CheckExocoreGatewayAddr" then rej (!r.gatewayOk) "ErrNotEqualToGateway"
  else if n = "GetDelegationParamsFromInputs" then rej (!r.parseOk) "ErrContractInputParaOrType"
  else if n = "ctx.Value(TxHash)" then rej (!r.txHashOk) "ErrCtxTxHash"
  else if n = "OpAmount.IsPositive" then rej (!(decide (0 < r.x))) "ErrAmountIsNotPositive"
  else if n = "IsOperator" then rej (!cur.operators.contains r.o) "ErrOperatorNotExist"
  else if n = "ValidateUndelegationAmount" then errOf (validateUndelegationAmount cur r.o r.st r.a r.x)
  -- share.go: RemoveShare / RemoveShareFromOperator
  else if n = "share.IsPositive" then rej (!(decide (0 < (share r s0).raw))) "ErrAmountIsNotPositive"
  else if n = "GetOperatorSpecifiedAssetInfo" then rej (find? cur.pools (r.o, r.a)).isNone "ErrNoOperatorAssetKey"
  else if n = "share.GT(TotalShare)" then
    rej (decide ((plRow r cur).totalShare.raw < (share r s0).raw)) "ErrInsufficientShares"
  else if n = "TokensFromShares" then errOf (removedE r s0 cur)
  -- delegation_state.go: GetAssociatedOperator returns a nil error on every path (tie: infallibleErrReturns)
  else if n = "GetAssociatedOperator" then none
  -- operator_asset.go: UpdateOperatorAssetState{TotalAmount: -removed, PendingUndelegationAmount: removed,
  --   TotalShare: -share, OperatorShare: dOp}
  else if n = "UpdateAssetValue(operator.TotalAmount)" then errOf (upd (plRow r cur).amount (-(removed r s0)))
  else if n = "UpdateAssetValue(operator.PendingUndelegationAmount)" then errOf (upd (plRow r cur).pending (removed r s0))
  else if n = "UpdateAssetDecValue(TotalShare)" then errOf (updDec (plRow r cur).totalShare (share r s0).neg)
  else if n = "UpdateAssetDecValue(OperatorShare)" then errOf (updDec (plRow r cur).opShare (dOp r s0))
  -- staker_asset.go: UpdateStakerAssetState{PendingUndelegationAmount: removed} — skipped for the chain's own token
  else if n = "UpdateAssetValue(TotalDepositAmount)" then
    (if r.a = nativeAID then none else errOf (upd (stRow r cur).total 0))
  else if n = "UpdateAssetValue(WithdrawableAmount)" then
    (if r.a = nativeAID then none else errOf (upd (stRow r cur).withdrawable 0))
  else if n = "UpdateAssetValue(PendingUndelegationAmount)" then
    (if r.a = nativeAID then none else errOf (upd (stRow r cur).pending (removed r s0)))
  -- delegation_state.go: UpdateDelegationState{UndelegatableShare: -share, WaitUndelegationAmount: removed}:
  -- the bech32 decoding of the operator string, then the two updates
  else if n = "UpdateDelegationState" then
    (if !r.opCanonValid then some (.reject "ErrOperatorAddrIsNotAccAddr")
     else errOf (updDeleg cur r.st r.a r.o (share r s0).neg (removed r s0)))
  -- delegation_state.go: DeleteStakerForOperator (called when shareIsZero): `!store.Has(Key)`
  else if n = "DeleteStakerForOperator" then
    (if shareIsZero r cur then errOf (deleteStaker cur r.o r.a r.st) else none)
  -- un_delegation_state.go: SetUndelegationRecords: `record.CompleteBlockNumber < uint64(currentHeight)`
  else if n = "SetUndelegationRecords" then errOf (setRecord cur (record r s0 cur))
  -- un_delegation_state.go: IncrementUndelegationHoldCount: `prev == math.MaxUint64`
  else if n = "IncrementUndelegationHoldCount" then
    (if r.hooked then rej (decide (getD cur.holds (recKey r cur) 0 = maxHold)) "ErrCannotIncHoldCount" else none)
  else none

/-- the writes of `Atomic.precompileUndelegate`, by name (each is the `store.Set` that ends the callee whose
checks precede it; a write is reached only after those checks passed) -/
def wr (r : Req) (n : String) (s0 cur : L) : L :=
  if n = "Set(operatorAsset)" then
    okOr cur (updPool cur r.o r.a (-(removed r s0)) (removed r s0) (share r s0).neg (dOp r s0))
  else if n = "Set(stakerAsset)" then okOr cur (pendStaker cur true r.st r.a (removed r s0))
  else if n = "Set(delegationState)" then
    okOr cur ((updDeleg cur r.st r.a r.o (share r s0).neg (removed r s0)).map (·.1))
  else if n = "Set(stakersByOperator)" then
    (if shareIsZero r cur then okOr cur (deleteStaker cur r.o r.a r.st) else cur)
  -- the three Sets of SetUndelegationRecords: an existing record under the same key is overwritten
  else if n = "Set(undelegationRecord)" then okOr cur (setRecord cur (record r s0 cur))
  else if n = "Set(undelegationOnHold)" then (if r.hooked then hold cur (recKey r cur) else cur)
  else cur   -- "AppendUndelegationToMature|SetUndelegationMaturityEpoch": x/dogfood stores, outside the ledger

def impl (r : Req) : Impl L := { chk := chk r, wr := wr r, eff := fun _ _ => Eff.pure () }

end Undelegate

end ExoVerif.AtomicValues
