/-
  C11 / F-11c — x/oracle/keeper/native_token.go: parseBalanceChange, with its slice accesses made explicit.
  The function reads a 32-byte bitmap (`indexes`, one bit per staker of the asset's staker list, most significant
  bit first) and a bit-packed list of balance changes (`changes`), and indexes `changes[byteIndex]` and
  `sl.StakerAddrs[index]` WITHOUT any bounds check: `panic` below is Go's "index out of range".
  Bytes are `Nat` < 256; Go's `byte` arithmetic (`<<` truncates to 8 bits) is mirrored by `% 256`.
  Core Lean only.
-/
namespace ExoVerif.NstBitmap

inductive Res (α : Type) where
  | ok (a : α)
  | err            -- `errors.New("length of change value must be at least 1 bit")`: logged by the caller
  | panic          -- runtime error: index out of range (in EndBlock: the node stops)
deriving Repr, DecidableEq

/-- the parser's cursor into `changes` -/
structure Cur where
  byteIndex : Nat
  bitOffset : Nat
deriving Repr, DecidableEq

def shl8 (b n : Nat) : Nat := (b <<< n) % 256

/-- what an out-of-range access does: the code as it is panics; with the bounds checks of the patch proposed for
F-11c (`if byteIndex >= len(changes) { return err }`, `if index >= len(sl.StakerAddrs) { return err }` before every
access) it returns an error, which the caller logs -/
def oob {α : Type} (checked : Bool) : Res α := if checked then .err else .panic

/-- the inner loop `for bitsExtracted < int(lenValue) { … }`: reads `lenValue` bits; `fuel` ≥ lenValue (every
round extracts at least one bit) -/
def extract (checked : Bool) (changes : List Nat) (lenValue : Nat) : Nat → Cur → Nat → Nat → Res (Cur × Nat)
  | 0, c, _, acc => .ok (c, acc)
  | fuel + 1, c, extracted, acc =>
    if extracted < lenValue then
      match changes[c.byteIndex]? with
      | none => oob checked                                              -- changes[byteIndex]#3
      | some b =>
        let byteValue := shl8 b c.bitOffset
        let bitsLeft0 := 8 - c.bitOffset
        if lenValue - extracted < bitsLeft0 then
          let bitsLeft := lenValue - extracted
          extract checked changes lenValue fuel { c with bitOffset := c.bitOffset + bitsLeft } (extracted + bitsLeft)
            ((acc <<< bitsLeft) ||| (byteValue >>> (8 - bitsLeft)))
        else
          extract checked changes lenValue fuel { byteIndex := c.byteIndex + 1, bitOffset := 0 } (extracted + bitsLeft0)
            ((acc <<< bitsLeft0) ||| (byteValue >>> (8 - bitsLeft0)))
    else .ok (c, acc)

/-- one flagged staker: the 5-bit header (4 bits length, 1 bit sign), then `lenValue` bits of magnitude -/
def oneChange (checked : Bool) (changes : List Nat) (c : Cur) : Res (Cur × Int) :=
  match changes[c.byteIndex]? with
  | none => oob checked                                                  -- changes[byteIndex]
  | some b0 =>
    let bitsLeft := 8 - c.bitOffset
    let lv0 := (shl8 b0 c.bitOffset) >>> 3
    let step : Res (Cur × Nat) :=
      if bitsLeft < 5 then
        match changes[c.byteIndex + 1]? with
        | none => oob checked                                            -- changes[byteIndex]#2
        | some b1 => .ok ({ byteIndex := c.byteIndex + 1, bitOffset := 5 - bitsLeft }, lv0 ||| (b1 >>> (8 - 5 + bitsLeft)))
      else
        let off := if c.bitOffset + 5 = 8 then 0 else c.bitOffset + 5
        .ok ({ byteIndex := if bitsLeft = 5 then c.byteIndex + 1 else c.byteIndex, bitOffset := off }, lv0)
    match step with
    | .panic => .panic
    | .err => .err
    | .ok (c1, lv) =>
      let symbol := lv % 2
      let lenValue := lv / 2
      if lenValue = 0 then .err
      else
        match extract checked changes lenValue 16 c1 0 0 with
        | .panic => .panic
        | .err => .err
        | .ok (c2, mag) =>
          let v : Int := Int.ofNat mag + 1
          .ok (c2, if symbol = 1 then -v else v)

/-- the double loop over the 256 bits of `indexes`; `index` counts the bits seen so far -/
def scanBits (checked : Bool) (changes : List Nat) (nStakers : Nat) : List Bool → Nat → Cur → List (Nat × Int) → Res (List (Nat × Int))
  | [], _, _, acc => .ok acc
  | bit :: rest, index, c, acc =>
    if bit then
      match oneChange checked changes c with
      | .panic => .panic
      | .err => .err
      | .ok (c', v) =>
        if index < nStakers then scanBits checked changes nStakers rest (index + 1) c' (acc ++ [(index, v)])
        else oob checked                                                  -- sl.StakerAddrs[index]
    else scanBits checked changes nStakers rest (index + 1) c acc

def bitsOf (b : Nat) : List Bool := [7, 6, 5, 4, 3, 2, 1, 0].map (fun i => (b >>> i) % 2 = 1)

/-- parseBalanceChange(rawData, sl) for len(rawData) ≥ 32 (checked by the caller): staker index ↦ change -/
def parseBalanceChangeWith (checked : Bool) (rawData : List Nat) (nStakers : Nat) : Res (List (Nat × Int)) :=
  scanBits checked (rawData.drop 32) nStakers ((rawData.take 32).flatMap bitsOf) 0 { byteIndex := 0, bitOffset := 0 } []

/-- the code as it is -/
def parseBalanceChange (rawData : List Nat) (nStakers : Nat) : Res (List (Nat × Int)) :=
  parseBalanceChangeWith false rawData nStakers

/-- UpdateNSTByBalanceChange up to the parse: the two checks that precede it return errors (logged) -/
def updateNSTByBalanceChange (rawData : List Nat) (nStakers : Nat) : Res (List (Nat × Int)) :=
  if rawData.length < 32 then .err
  else if nStakers = 0 then .err
  else parseBalanceChange rawData nStakers

/-- the stored price of an NST token is a base-10 string (aggregator: `finalPrice.String()`); AppendPriceTR hands
`[]byte(price)` to UpdateNSTByBalanceChange -/
def asciiDigits (n : Nat) : List Nat := (toString n).toList.map (fun ch => ch.toNat)

end ExoVerif.NstBitmap
