/-
  C11 / F-11c — x/oracle/keeper/native_token.go: parseBalanceChange, with its slice accesses made explicit.
  The function reads a 32-byte bitmap (`indexes`, one bit per staker of the asset's staker list, most significant
  bit first) and a bit-packed list of balance changes (`changes`), and indexes `changes[byteIndex]` and
  `sl.StakerAddrs[index]`. First part of the file: the function as it was BEFORE 2a9d869 (F-11c), without any bounds
  check (`parseBalanceChange`, kept for the F-11c witnesses of Props/C11Sites.lean; `panic` is Go's "index out of
  range"). Second part (`parseCur`, `updateCur`): the function as it is now, replayed by the domain liveness_nstparse.
  Bytes are `Nat` < 256; Go's `byte` arithmetic (`<<` truncates to 8 bits) is mirrored by `% 256`.
  Core Lean only.
-/
namespace ExoVerif.NstBitmap

inductive Res (α : Type) where
  | ok (a : α)
  | err            -- `errors.New("length of change value must be at least 1 bit")`: logged by the caller
  | panic          -- runtime error: index out of range (in EndBlock: the node stops)
deriving Repr, DecidableEq

/-- the parser's cursor into `changes` -/
structure Cur where
  byteIndex : Nat
  bitOffset : Nat
deriving Repr, DecidableEq

def shl8 (b n : Nat) : Nat := (b <<< n) % 256

/-- what an out-of-range access does: the code as it is panics; with the bounds checks of the patch proposed for
F-11c (`if byteIndex >= len(changes) { return err }`, `if index >= len(sl.StakerAddrs) { return err }` before every
access) it returns an error, which the caller logs -/
def oob {α : Type} (checked : Bool) : Res α := if checked then .err else .panic

/-- the inner loop `for bitsExtracted < int(lenValue) { … }`: reads `lenValue` bits; `fuel` ≥ lenValue (every
round extracts at least one bit) -/
def extract (checked : Bool) (changes : List Nat) (lenValue : Nat) : Nat → Cur → Nat → Nat → Res (Cur × Nat)
  | 0, c, _, acc => .ok (c, acc)
  | fuel + 1, c, extracted, acc =>
    if extracted < lenValue then
      match changes[c.byteIndex]? with
      | none => oob checked                                              -- changes[byteIndex]#3
      | some b =>
        let byteValue := shl8 b c.bitOffset
        let bitsLeft0 := 8 - c.bitOffset
        if lenValue - extracted < bitsLeft0 then
          let bitsLeft := lenValue - extracted
          extract checked changes lenValue fuel { c with bitOffset := c.bitOffset + bitsLeft } (extracted + bitsLeft)
            ((acc <<< bitsLeft) ||| (byteValue >>> (8 - bitsLeft)))
        else
          extract checked changes lenValue fuel { byteIndex := c.byteIndex + 1, bitOffset := 0 } (extracted + bitsLeft0)
            ((acc <<< bitsLeft0) ||| (byteValue >>> (8 - bitsLeft0)))
    else .ok (c, acc)

/-- one flagged staker: the 5-bit header (4 bits length, 1 bit sign), then `lenValue` bits of magnitude -/
def oneChange (checked : Bool) (changes : List Nat) (c : Cur) : Res (Cur × Int) :=
  match changes[c.byteIndex]? with
  | none => oob checked                                                  -- changes[byteIndex]
  | some b0 =>
    let bitsLeft := 8 - c.bitOffset
    let lv0 := (shl8 b0 c.bitOffset) >>> 3
    let step : Res (Cur × Nat) :=
      if bitsLeft < 5 then
        match changes[c.byteIndex + 1]? with
        | none => oob checked                                            -- changes[byteIndex]#2
        | some b1 => .ok ({ byteIndex := c.byteIndex + 1, bitOffset := 5 - bitsLeft }, lv0 ||| (b1 >>> (8 - 5 + bitsLeft)))
      else
        let off := if c.bitOffset + 5 = 8 then 0 else c.bitOffset + 5
        .ok ({ byteIndex := if bitsLeft = 5 then c.byteIndex + 1 else c.byteIndex, bitOffset := off }, lv0)
    match step with
    | .panic => .panic
    | .err => .err
    | .ok (c1, lv) =>
      let symbol := lv % 2
      let lenValue := lv / 2
      if lenValue = 0 then .err
      else
        match extract checked changes lenValue 16 c1 0 0 with
        | .panic => .panic
        | .err => .err
        | .ok (c2, mag) =>
          let v : Int := Int.ofNat mag + 1
          .ok (c2, if symbol = 1 then -v else v)

/-- the double loop over the 256 bits of `indexes`; `index` counts the bits seen so far -/
def scanBits (checked : Bool) (changes : List Nat) (nStakers : Nat) : List Bool → Nat → Cur → List (Nat × Int) → Res (List (Nat × Int))
  | [], _, _, acc => .ok acc
  | bit :: rest, index, c, acc =>
    if bit then
      match oneChange checked changes c with
      | .panic => .panic
      | .err => .err
      | .ok (c', v) =>
        if index < nStakers then scanBits checked changes nStakers rest (index + 1) c' (acc ++ [(index, v)])
        else oob checked                                                  -- sl.StakerAddrs[index]
    else scanBits checked changes nStakers rest (index + 1) c acc

def bitsOf (b : Nat) : List Bool := [7, 6, 5, 4, 3, 2, 1, 0].map (fun i => (b >>> i) % 2 = 1)

/-- parseBalanceChange(rawData, sl) for len(rawData) ≥ 32 (checked by the caller): staker index ↦ change -/
def parseBalanceChangeWith (checked : Bool) (rawData : List Nat) (nStakers : Nat) : Res (List (Nat × Int)) :=
  scanBits checked (rawData.drop 32) nStakers ((rawData.take 32).flatMap bitsOf) 0 { byteIndex := 0, bitOffset := 0 } []

/-- the code as it was before 2a9d869 (F-11c) -/
def parseBalanceChange (rawData : List Nat) (nStakers : Nat) : Res (List (Nat × Int)) :=
  parseBalanceChangeWith false rawData nStakers

/-- UpdateNSTByBalanceChange up to the parse: the two checks that precede it return errors (logged) -/
def updateNSTByBalanceChange (rawData : List Nat) (nStakers : Nat) : Res (List (Nat × Int)) :=
  if rawData.length < 32 then .err
  else if nStakers = 0 then .err
  else parseBalanceChange rawData nStakers

/-- the stored price of an NST token is a base-10 string (aggregator: `finalPrice.String()`); AppendPriceTR hands
`[]byte(price)` to UpdateNSTByBalanceChange -/
def asciiDigits (n : Nat) : List Nat := (toString n).toList.map (fun ch => ch.toNat)

/-! ## The parser as it is since 2a9d869 (F-11c repaired): every slice access is preceded by its bounds check.
`parseCur .perChunk` mirrors x/oracle/keeper/native_token.go: parseBalanceChange line by line, with the four error
returns kept apart (they are what the harness observes through UpdateNSTByBalanceChange); `ValueGuard` says where the
check of the value loop sits, so that the regression shapes are inputs of the same definition. -/

/-- where the bounds check of `for bitsExtracted < int(lenValue) { … changes[byteIndex] … }` sits -/
inductive ValueGuard where
  | perChunk   -- the code as it is: `if byteIndex >= len(changes) { return errBalanceChangeTooShort }` before every read
  | hoisted    -- regression (seed C11-i): `if byteIndex+(int(lenValue)-1)/8 >= len(changes)` once, in front of the loop
  | absent     -- regression (before 2a9d869): no check
deriving Repr, DecidableEq

inductive PRes (α : Type) where
  | ok (a : α)
  | errIndex     -- "balance change flags staker index %d, staker list has %d entries"
  | errShort     -- errBalanceChangeTooShort
  | errLen0      -- "length of change value must be at least 1 bit"
  | panic        -- runtime error: index out of range
deriving Repr, DecidableEq

/-- the value loop under a guard shape; the header (5 bits) is always read under its two checks -/
def valueCur (g : ValueGuard) (changes : List Nat) (lenValue : Nat) (c : Cur) : PRes (Cur × Nat) :=
  match g with
  | .perChunk =>
    match extract true changes lenValue 16 c 0 0 with
    | .ok r => .ok r
    | _ => .errShort
  | .hoisted =>
    if c.byteIndex + (lenValue - 1) / 8 ≥ changes.length then .errShort
    else match extract false changes lenValue 16 c 0 0 with
      | .ok r => .ok r
      | _ => .panic
  | .absent =>
    match extract false changes lenValue 16 c 0 0 with
    | .ok r => .ok r
    | _ => .panic

/-- one flagged staker: `if byteIndex >= len(changes)`, 5 header bits (second check when they straddle), value -/
def oneChangeCur (g : ValueGuard) (changes : List Nat) (c : Cur) : PRes (Cur × Int) :=
  match changes[c.byteIndex]? with
  | none => .errShort
  | some b0 =>
    let bitsLeft := 8 - c.bitOffset
    let lv0 := (shl8 b0 c.bitOffset) >>> 3
    let step : Option (Cur × Nat) :=
      if bitsLeft < 5 then
        match changes[c.byteIndex + 1]? with
        | none => none
        | some b1 => some ({ byteIndex := c.byteIndex + 1, bitOffset := 5 - bitsLeft }, lv0 ||| (b1 >>> (8 - 5 + bitsLeft)))
      else
        let off := if c.bitOffset + 5 = 8 then 0 else c.bitOffset + 5
        some ({ byteIndex := if bitsLeft = 5 then c.byteIndex + 1 else c.byteIndex, bitOffset := off }, lv0)
    match step with
    | none => .errShort
    | some (c1, lv) =>
      let symbol := lv % 2
      let lenValue := lv / 2
      if lenValue = 0 then .errLen0
      else
        match valueCur g changes lenValue c1 with
        | .ok (c2, mag) =>
          let v : Int := Int.ofNat mag + 1
          .ok (c2, if symbol = 1 then -v else v)
        | .errIndex => .errIndex
        | .errShort => .errShort
        | .errLen0 => .errLen0
        | .panic => .panic

/-- the double loop; the staker-list check comes FIRST for a flagged bit -/
def scanCur (g : ValueGuard) (changes : List Nat) (nStakers : Nat) : List Bool → Nat → Cur → List (Nat × Int) → PRes (List (Nat × Int))
  | [], _, _, acc => .ok acc
  | bit :: rest, index, c, acc =>
    if bit then
      if index ≥ nStakers then .errIndex
      else match oneChangeCur g changes c with
        | .ok (c', v) => scanCur g changes nStakers rest (index + 1) c' (acc ++ [(index, v)])
        | .errIndex => .errIndex
        | .errShort => .errShort
        | .errLen0 => .errLen0
        | .panic => .panic
    else scanCur g changes nStakers rest (index + 1) c acc

def parseCur (g : ValueGuard) (rawData : List Nat) (nStakers : Nat) : PRes (List (Nat × Int)) :=
  scanCur g (rawData.drop 32) nStakers ((rawData.take 32).flatMap bitsOf) 0 { byteIndex := 0, bitOffset := 0 } []

/-- what UpdateNSTByBalanceChange does with a byte string (every staker holding one validator, balance 32):
`len32` / `empty` are its own two checks, `applied` = new balances of all stakers, `range` = the effective-balance
check refused a parsed change (nothing written) -/
inductive Upd where
  | len32 | empty | errIndex | errShort | errLen0 | range | applied (bal : List Int) | panic
deriving Repr, DecidableEq

def changeOf (l : List (Nat × Int)) (i : Nat) : Int :=
  match l.find? (fun e => e.1 = i) with
  | some e => e.2
  | none => 0

def updateCur (g : ValueGuard) (rawData : List Nat) (nStakers : Nat) : Upd :=
  if rawData.length < 32 then .len32
  else if nStakers = 0 then .empty
  else match parseCur g rawData nStakers with
    | .errIndex => .errIndex
    | .errShort => .errShort
    | .errLen0 => .errLen0
    | .panic => .panic
    | .ok l =>
      let bal := (List.range nStakers).map (fun i => 32 + changeOf l i)
      if bal.all (fun b => decide (0 < b ∧ b ≤ 32)) then .applied bal else .range

/-- does the oracle EndBlock survive the re-append of this stored price (GrowRoundID → AppendPriceTR →
UpdateNSTByBalanceChange: errors are logged, a panic stops the node) -/
def endBlockHalts (g : ValueGuard) (rawData : List Nat) (nStakers : Nat) : Bool :=
  updateCur g rawData nStakers = .panic

end ExoVerif.NstBitmap
