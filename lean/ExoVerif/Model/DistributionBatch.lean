import ExoVerif.Model.DistributionParams
/-
  Parameter-update messages executed on a BRANCH of the state (C17, "the CONFIGURED epoch reward": configured =
  what the committed state names). Model of how the application runs several messages as one unit:

    cosmos-sdk x/gov/abci.go: EndBlocker — `cacheCtx, writeCache := ctx.CacheContext()`, the messages of a passed
        proposal run one after another on cacheCtx through the MsgServiceRouter handlers, `writeCache()` only when
        every handler returned nil (otherwise the proposal is FAILED and the branch is dropped);
        x/gov/keeper/proposal.go: SubmitProposal calls msg.ValidateBasic of every message at submission
    cosmos-sdk baseapp/baseapp.go: runTx — validateBasicTxMsgs (every message) before any handler; runMsgs on
        `runMsgCtx, msCache := app.cacheTxContext(ctx, txBytes)`, `msCache.Write()` only if runMsgs returned no error
        and only in deliver mode: in simulate / check mode the branch is never written

  with the handlers of x/exomint and x/feedistribution (Model/DistributionParams.lean). The handlers read and write
  the parameters only through the KVStore of the context they are given (x/exomint/keeper/params.go: GetParams /
  SetParams, x/feedistribution/keeper/params.go — pinned by the shape facts shapeMintGetParams / shapeMintSetParams /
  shapeDistrGetParams / shapeDistrSetParams and by the keeper field lists mintKeeperFields / distrKeeperFields: the
  keepers hold nothing that could carry a value from a dropped branch), so a dropped branch leaves the parameters
  in force — and with them the configuration of every later block — as they were.
-/
namespace ExoVerif.Distr
open ExoVerif

/-- one message of a batch -/
inductive BMsg where
  | mint (m : MintMsg)      -- x/exomint MsgUpdateParams
  | distr (m : DistrMsg)    -- x/feedistribution MsgUpdateParams
deriving Repr, Inhabited, DecidableEq

/-- msg.ValidateBasic -/
def BMsg.validateBasic : BMsg → Bool
  | .mint m => m.validateBasic
  | .distr m => m.validateBasic

/-- the handler of one message on the branch: `none` = the handler returned an error -/
def handleMsg (es : List Epochs.EpochInfo) (p : Params) : BMsg → Option Params
  | .mint m => (mintUpdateParams (knownId es) p.mint m).map (fun mp => { p with mint := mp })
  | .distr m =>
    match distrUpdateParams (knownId es) p.distr m with
    | .ok dp => some { p with distr := dp }
    | .error _ => none

/-- the handlers one after another on the branch; the first error ends the run (x/gov EndBlocker: `break`,
baseapp.runMsgs: `return nil, err`) -/
def runMsgs (es : List Epochs.EpochInfo) : Params → List BMsg → Option Params
  | p, [] => some p
  | p, m :: rest =>
    match handleMsg es p m with
    | some p' => runMsgs es p' rest
    | none => none

/-- the branch at the end of the batch: ValidateBasic of EVERY message first, then the handlers; `none` = refused -/
def batchBranch (es : List Epochs.EpochInfo) (p : Params) (msgs : List BMsg) : Option Params :=
  if msgs.all BMsg.validateBasic then runMsgs es p msgs else none

/-- the parameters in force after the batch: the branch is written back only when no message was refused and the
route writes at all (`commit` = false: Simulate / CheckTx) -/
def applyBatch (commit : Bool) (es : List Epochs.EpochInfo) (p : Params) (msgs : List BMsg) : Params :=
  match batchBranch es p msgs with
  | some p' => if commit then p' else p
  | none => p

/-- histories with batches -/
inductive BOp where
  | op (o : HOp)
  | batch (commit : Bool) (msgs : List BMsg)
deriving Repr, Inhabited

def stepBOp (native : String) (h : HS) : BOp → Option HS
  | .op o => stepOp native h o
  | .batch commit msgs => some { h with params := applyBatch commit h.es h.params msgs }

def runBOps (native : String) : HS → List BOp → Option HS
  | h, [] => some h
  | h, op :: rest =>
    match stepBOp native h op with
    | some h' => runBOps native h' rest
    | none => none

/-- a message of a batch as a single transaction message -/
def BMsg.toHOp : BMsg → HOp
  | .mint m => .mintParams true m
  | .distr m => .distrParams true m

end ExoVerif.Distr
