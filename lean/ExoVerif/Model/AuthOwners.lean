/-!
# Owner lists of AVSs as a function of the accepted writes (C10)

The owner-gated entry points of the AVS precompile read the STORED owner list of the calling contract
(`AVSInfo.AvsOwnerAddress`), and two of them rewrite it.  State = the AVS records' owner lists; one step = one
call of registerAVS / updateAVS / deregisterAVS / createTask by the AVS contract `avs` with the sender
argument `sender`.  `payloadOk` stands for the conditions besides the identity (name, unbonding window,
voting power, asset ids …).  Core Lean only.
-/
namespace ExoVerif.AuthOwners

abbrev Addr := Nat

/-- x/avs store, prefix AVSInfo: AVS address ↦ AvsOwnerAddress (absent = not registered) -/
abbrev Owners := List (Addr × List Addr)

def lookup : Owners → Addr → Option (List Addr)
  | [], _ => none
  | (k, v) :: rest, a => if k = a then some v else lookup rest a

def erase : Owners → Addr → Owners
  | [], _ => []
  | (k, v) :: rest, a => if k = a then erase rest a else (k, v) :: erase rest a

def put (s : Owners) (a : Addr) (l : List Addr) : Owners := (a, l) :: erase s a

inductive Op where
  /-- precompiles/avs/tx.go: RegisterAVS — `slices.Contains(avsParams.AvsOwnerAddress, avsParams.CallerAddress)` on the
  ARGUMENT list; x/avs/keeper/keeper.go: UpdateAVSInfo, RegisterAction — `avsInfo != nil` rejects; the list is stored as given -/
  | register (avs sender : Addr) (owners : List Addr)
  /-- precompiles/avs/tx.go: UpdateAVS — `slices.Contains(previousAVSInfo.Info.AvsOwnerAddress, avsParams.CallerAddress)`;
  precompiles/avs/types.go: GetAVSParamsFromUpdateInputs — `exoAddresses := make([]string, len(avsOwnerAddress))`: never nil,
  so keeper.go: UpdateAction `if params.AvsOwnerAddress != nil { avs.AvsOwnerAddress = params.AvsOwnerAddress }` ALWAYS
  replaces the list, by an empty one too -/
  | update (avs sender : Addr) (owners : List Addr)
  /-- keeper.go: UpdateAVSInfo, DeRegisterAction — `!slices.Contains(avsInfo.Info.AvsOwnerAddress, params.CallerAddress)` rejects -/
  | deregister (avs sender : Addr)
  /-- keeper.go: CreateAVSTask — `!slices.Contains(avsInfo.AvsOwnerAddress, params.CallerAddress)` rejects (the AVS found by its
  task address = the calling contract) -/
  | createTask (avs sender : Addr)
  deriving Repr, DecidableEq

def Op.avs : Op → Addr
  | .register a _ _ | .update a _ _ | .deregister a _ | .createTask a _ => a

def Op.sender : Op → Addr
  | .register _ s _ | .update _ s _ | .deregister _ s | .createTask _ s => s

/-- the three entry points gated by the STORED list -/
def Op.gated : Op → Bool
  | .register .. => false
  | _ => true

/-- the sender is on the stored owner list of the AVS (no record: nobody is) -/
def listed (s : Owners) (avs sender : Addr) : Bool :=
  match lookup s avs with
  | some l => l.contains sender
  | none => false

def admitOwn (s : Owners) (op : Op) (payloadOk : Bool) : Bool :=
  match op with
  | .register avs sender owners => owners.contains sender && (lookup s avs).isNone && payloadOk
  | .update avs sender _ => listed s avs sender && payloadOk
  | .deregister avs sender => listed s avs sender && payloadOk
  | .createTask avs sender => listed s avs sender && payloadOk

/-- one call: a refused call writes nothing -/
def step (s : Owners) (op : Op) (payloadOk : Bool) : Owners :=
  if admitOwn s op payloadOk then
    match op with
    | .register avs _ owners => put s avs owners
    | .update avs _ owners => put s avs owners
    | .deregister avs _ => erase s avs
    | .createTask _ _ => s
  else s

/-- a history of calls -/
def run (s : Owners) : List (Op × Bool) → Owners
  | [] => s
  | (op, ok) :: rest => run (step s op ok) rest

end ExoVerif.AuthOwners
