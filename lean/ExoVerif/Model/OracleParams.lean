import ExoVerif.Model.Oracle
/-!
# MsgUpdateParams of x/oracle (msg_server_update_params.go), DeliverTx side

What the handler does to the *process*: nothing until every step has succeeded. The value it edits —
`p := ms.GetParams(ctx)` — is decoded from the store into a fresh Go value (keeper/params.go:
GetParams), so the chain `AddSources → AddChains → UpdateTokens → AddRules → UpdateMaxPriceCount →
UpdateTokenFeeder* → Validate` is a function of the stored params and the block height and nothing
else; in particular the in-place edits UpdateTokens / UpdateTokenFeeder make through the element
pointers of `p.Tokens` / `p.TokenFeeders` before a later step refuses cannot reach the aggregator
context. The chain itself is left abstract (`upd`; `none` = some step returned an error): the
model's `Params` has no names / asset ids, and the statements below hold for every such function.
Core Lean only (used by Driver/Oracle.lean).
-/
namespace ExoVerif.Oracle

/-- the whole edit-and-validate chain of UpdateParams: stored params, block height ↦ new params, or
`none` when a step refuses -/
abbrev ParamsUpdate := Params → Nat → Option Params

/-- msg_server_update_params.go: UpdateParams on the deliver state. Refused: the state as it was
(`false`). Accepted: `SetParams` (store; the caller's to keep or drop), `GetAggregatorContext`
(initialises the singletons on first use — in a running node BeginBlock has done so; should the rebuild
panic, runTx recovers and the message has failed), `cs.AddCache(ItemP(p))`. The aggregator context
keeps its params until EndBlock commits the cache. -/
def updateParams (s : State) (upd : ParamsUpdate) : State × Bool :=
  match upd s.store.params s.height with
  | none => (s, false)
  | some p' =>
    match getAgc { s with store := { s.store with params := p' } } with
    | none => (s, false)
    | some s1 => ({ s1 with cache := some { s1.cacheD with params := some p', pUpdate := true } }, true)

/-- an update that some step refuses -/
def refusedUpdate : ParamsUpdate := fun _ _ => none

/-- the deliver phase of a block with refused parameter updates (`none`) anywhere between the
price transactions (`some tx`) -/
def runDeliver : State → List (Option Tx) → State × List TxOut
  | s, [] => (s, [])
  | s, none :: rest => runDeliver (updateParams s refusedUpdate).1 rest
  | s, some tx :: rest =>
    let r := deliverTx s tx
    let rs := runDeliver r.1 rest
    (rs.1, r.2 :: rs.2)

/-- The variant in which the working copy is the aggregator context's own params value
(`GetAggregatorContext(ctx, k).GetParams()` returns `*agc.params`: a shallow copy whose `Tokens` /
`TokenFeeders` elements are the context's own): the in-place edits `edits` made before the refusal
stay in the context although the message fails and the store is untouched (seeded change C14-f). -/
def updateParamsSharedBaseRefused (s : State) (edits : Params → Params) : State :=
  { s with agc := s.agc.map (fun g => { g with params := g.params.map edits }) }

end ExoVerif.Oracle
