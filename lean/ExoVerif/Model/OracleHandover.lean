import ExoVerif.Model.OracleParamsUpdate
/-!
# The schedule of a token feeder with an end block, and the hand-over to its successor

Four sites of x/oracle speak about the rounds of a feeder that has an end block:

* `aggregator/context.go: PrepareRoundEndBlock` OPENS them — at every block `b` at which the feeder takes part
  (`feederActive`: not `EndBlock > 0 && EndBlock <= b`, not `StartBaseBlock > b`) and `(b − StartBaseBlock) % Interval = 0`,
  stamped with the id `StartRoundID + (b − StartBaseBlock) / Interval` (`roundArith`, `prepareOne` in Model/Oracle.lean);
* `types/params.go: Validate` (twice) and `UpdateTokenFeeder` (once) COUNT them, as
  `StartRoundID + (EndBlock − StartBaseBlock) / Interval` (`chainEndRoundID`; transcribed in
  Model/OracleParamsUpdate.lean: `validateFeeders`, `updateTokenFeeder`), and force the successor feeder of the
  token to start at that id + 1.

The definitions below name both sides; `Props/C12Handover.lean` proves that they agree for every parameter set
`Validate` accepts (because `Validate` keeps an end block out of `[base, base + MaxNonce)` of every round), and
that they do not agree for an end block on a round's base block. Core Lean only.
-/
namespace ExoVerif.Oracle

/-- context.go: PrepareRoundEndBlock, the guard of the feeder loop, negated: the feeder takes part at `block` -/
def feederActive (f : Feeder) (block : Nat) : Bool :=
  !((f.endBlock > 0 && f.endBlock ≤ block) || f.startBaseBlock > block)

/-- context.go: PrepareRoundEndBlock opens a round of `f` at `block` (`left == 0` of an active feeder) -/
def opensRoundAt (f : Feeder) (block : Nat) : Bool :=
  feederActive f block && (roundArith f block).1 == 0

/-- … and stamps it with this id (`latestNextRoundID`) -/
def roundIDAt (f : Feeder) (block : Nat) : Nat := (roundArith f block).2.2

/-- the number of rounds a feeder with an end block opens over its life: one per base block
`StartBaseBlock + j·Interval < EndBlock` -/
def roundsOpened (f : Feeder) : Nat := (f.endBlock - 1 - f.startBaseBlock) / f.interval + 1

/-- the id of the last round it opens -/
def lastRoundID (f : Feeder) : Nat := f.startRoundID + (f.endBlock - 1 - f.startBaseBlock) / f.interval

/-- types/params.go: Validate `prevEndRoundID` / UpdateTokenFeeder `latestRoundID` — the chain's count -/
def chainEndRoundID (f : Feeder) : Nat := f.startRoundID + (f.endBlock - f.startBaseBlock) / f.interval

/-- the latest feeder of token `tok` in a list of feeders (list order = feeder id order) -/
def lastFeederOf (tok : Nat) (l : List Feeder) : Option Feeder :=
  l.foldl (fun acc f => if f.tokenID = tok then some f else acc) none

/-- types/params.go: Validate, what the feeder loop demands of one feeder on its own -/
structure FeederOK (p : Params) (f : Feeder) : Prop where
  token : 1 ≤ f.tokenID
  round : 1 ≤ f.startRoundID
  interval : 1 ≤ f.interval
  start : 1 ≤ f.startBaseBlock
  window : 2 * p.maxNonce ≤ f.interval
  /-- an end block lies after the start block and outside `[base, base + MaxNonce)` of every round -/
  end_ : 0 < f.endBlock → f.startBaseBlock < f.endBlock ∧ p.maxNonce ≤ (f.endBlock - f.startBaseBlock) % f.interval

/-- types/params.go: Validate, what the feeder loop demands of a feeder and the previous feeder of its token -/
structure Succeeds (prev f : Feeder) : Prop where
  ended : 0 < prev.endBlock
  after : prev.endBlock < f.startBaseBlock
  continuous : f.startRoundID = chainEndRoundID prev + 1

end ExoVerif.Oracle
