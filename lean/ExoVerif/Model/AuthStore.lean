import ExoVerif.Model.Auth
/-!
# Store branches and process-local state in front of the authorization checks (C10, C08)

Every message runs on a *branch* of the multistore (`ctx.CacheContext()` / baseapp `cacheTxContext`):
baseapp's `runMsgs` for the messages of one transaction, x/gov's proposal execution for the messages of
one proposal, `Simulate` (a branch of the check state that is never written), the harness's `CachedDo`.
The branch is written back only if everything that ran on it succeeded.  `x/assets/keeper/params.go:
SetParams` writes `ctx.KVStore(...)`, i.e. the branch; `CheckExocoreGatewayAddr` reads
`k.GetParams(ctx)`, i.e. the store its context carries.  The admission predicates of `Model/Auth.lean`
take the `AuthState` they read as an argument: nothing else can influence them.  This file makes the
branch discipline explicit, and states - only to refute it - the variant in which the check reads a
package-level copy of the gateway address that `SetParams` refreshes (process-local state is not
branched and not rolled back).  Core Lean only.
-/
namespace ExoVerif.Auth

/-- what became of the branch a params update ran on -/
inductive Fate where
  | written     -- every message of the tx / proposal succeeded: `msCache.Write()` / `writeCache()`
  | discarded   -- a later message failed, out of gas, simulation, CheckTx: the branch is dropped
  deriving Repr, DecidableEq

/-- x/assets/keeper/msg_server.go: UpdateParams → keeper/params.go: SetParams, with the gateway address `g`,
executed on a branch whose fate is `f` -/
structure ParamsUpdate where
  gateway : Addr
  fate : Fate
  deriving Repr, DecidableEq

/-- x/assets/keeper/params.go: SetParams — `store.Set(ParamsKey, bz)` on the store of the context it is given -/
def setGateway (st : AuthState) (g : Addr) : AuthState := { st with gateway := g }

/-- one update seen from the committed store: the write reaches it iff the branch is written -/
def applyUpdate (st : AuthState) (u : ParamsUpdate) : AuthState :=
  match u.fate with
  | .written => setGateway st u.gateway
  | .discarded => st

/-- the committed store after a sequence of params updates, each on its own branch -/
def committed (st : AuthState) (us : List ParamsUpdate) : AuthState := us.foldl applyUpdate st

/-- the updates that count: those whose branch was written -/
def writtenOnly (us : List ParamsUpdate) : List ParamsUpdate := us.filter (fun u => u.fate == .written)

/-! ## the variant with a process-local copy (NOT the code: stated to be refuted)

`var gatewayAddr *common.Address` at package level, filled on first use and refreshed by `SetParams`
after its `store.Set`; `CheckExocoreGatewayAddr` compares with the copy.  The copy is outside the
multistore: a dropped branch does not restore it. -/

/-- a node = committed store + the process-local copy (`none` = not yet filled: first use after a start) -/
structure Node where
  store : AuthState
  memo : Option Addr

/-- SetParams of the variant: the store write follows the branch, the copy is refreshed in any case -/
def Node.update (n : Node) (u : ParamsUpdate) : Node :=
  { store := applyUpdate n.store u, memo := some u.gateway }

/-- CheckExocoreGatewayAddr of the variant: fill the copy from the store when empty, then compare with the copy -/
def admitGatewayMemo (n : Node) (r : Request) : Bool × Node :=
  let g := n.memo.getD n.store.gateway
  (r.callerAddress == g, { n with memo := some g })

def Node.run (n : Node) (us : List ParamsUpdate) : Node := us.foldl Node.update n

end ExoVerif.Auth
