import ExoVerif.Model.Determinism
/-
  C08, restart clause — process-local state that a restart rebuilds BY VALUE from the store.

  The oracle keeps the validator powers twice: persisted (x/dogfood's validator set, read by
  `GetAllExocoreValidators`) and in the process-local aggregator context (`agc.validatorsPower`,
  `agc.totalPower`). A node that starts (x/oracle/keeper/single.go: initAggregatorContext /
  recacheAggregatorContext) creates a fresh context and calls `agc.SetValidatorPowers(<the stored set>)`;
  a node that keeps running calls the same setter from x/oracle/module.go: EndBlock whenever x/dogfood
  returned validator updates, with the full new set (its cache's copy). "The state does not depend on
  how often the node was restarted" needs the memory to be a function of the store at every block
  boundary — which is a property of the SETTER: it must replace what the context held.
  Core Lean only.
-/
namespace ExoVerif.Det

def GoMap.empty {κ α : Type} : GoMap κ α := fun _ => none

/-- the Go map a key list and a value function denote (the argument `vp` of SetValidatorPowers) -/
def GoMap.ofKeys {κ α : Type} [DecidableEq κ] (keys : List κ) (val : κ → α) : GoMap κ α :=
  fun k => if k ∈ keys then some (val k) else none

/-- x/dogfood's persisted validator set / the `map[string]*big.Int` handed to the setter: (validator, power) -/
abbrev ValSet := List (Nat × Int)

def ValSet.keys (s : ValSet) : List Nat := s.map (·.1)
def ValSet.power (s : ValSet) (k : Nat) : Int := (s.lookup k).getD 0

/-- x/oracle/keeper/aggregator/context.go: AggregatorContext.{validatorsPower, totalPower} -/
structure ValMem where
  powers : GoMap Nat Int
  total : Int

/-- aggregator.NewAggregatorContext: empty map, total 0 -/
def ValMem.fresh : ValMem := { powers := GoMap.empty, total := 0 }

/-- x/oracle/keeper/aggregator/context.go: SetValidatorPowers as it is —
`agc.totalPower = big.NewInt(0); agc.validatorsPower = make(map…); for addr, power := range vp { agc.validatorsPower[addr] = power; agc.totalPower = totalPower + power }`
(the `range` under an arbitrary schedule = the order of `vp.keys`; shape B / shape A of Model/Determinism) -/
def setPowersReplace (vp : ValSet) (_old : ValMem) : ValMem :=
  { powers := rangeLoop (writeBody vp.power) vp.keys GoMap.empty
    total := rangeLoop (sumBody vp.power) vp.keys 0 }

/-- the setter without the `make`: the new set is written into the map the context already holds
("update the map in place"); the total is still recomputed from the argument -/
def setPowersMerge (vp : ValSet) (old : ValMem) : ValMem :=
  { powers := rangeLoop (writeBody vp.power) vp.keys old.powers
    total := rangeLoop (sumBody vp.power) vp.keys 0 }

/-- a node: what is persisted and what lives in the process -/
structure VNode where
  store : ValSet
  mem : ValMem

inductive VEvent where
  /-- a block whose EndBlock carries validator updates: x/dogfood's store now holds `newSet`, and
  x/oracle/module.go: EndBlock calls `agc.SetValidatorPowers(<full new set>)` -/
  | valsetChange (newSet : ValSet)
  /-- process restart between two blocks: `NewAggregatorContext()` + `SetValidatorPowers(GetAllExocoreValidators)` -/
  | restart
  /-- a block without validator updates: the setter is not called -/
  | block
deriving DecidableEq

def VNode.step (setter : ValSet → ValMem → ValMem) (n : VNode) : VEvent → VNode
  | .valsetChange s => { store := s, mem := setter s n.mem }
  | .restart => { store := n.store, mem := setter n.store ValMem.fresh }
  | .block => n

def VNode.run (setter : ValSet → ValMem → ValMem) (evs : List VEvent) (n : VNode) : VNode :=
  evs.foldl (VNode.step setter) n

/-- a node started on a chain whose store holds `s` (genesis or any later start) -/
def VNode.boot (setter : ValSet → ValMem → ValMem) (s : ValSet) : VNode :=
  { store := s, mem := setter s ValMem.fresh }

def dropRestarts (evs : List VEvent) : List VEvent := evs.filter (fun e => e ≠ VEvent.restart)

/-- C08's restart clause for this piece of state: the same blocks leave the same node whether or not
(and however often) the process was restarted in between -/
def RestartIndependent (setter : ValSet → ValMem → ValMem) : Prop :=
  ∀ (s : ValSet) (evs : List VEvent),
    (VNode.run setter evs (VNode.boot setter s)).store = (VNode.run setter (dropRestarts evs) (VNode.boot setter s)).store ∧
    (VNode.run setter evs (VNode.boot setter s)).mem.powers = (VNode.run setter (dropRestarts evs) (VNode.boot setter s)).mem.powers ∧
    (VNode.run setter evs (VNode.boot setter s)).mem.total = (VNode.run setter (dropRestarts evs) (VNode.boot setter s)).mem.total

/-- what the message handler reads: aggregator/context.go: sanityCheck (`signer is not validator`) -/
def VNode.isValidator (n : VNode) (k : Nat) : Bool := (n.mem.powers k).isSome

/-- aggregator/worker.go: the power a report of validator k is counted with -/
def VNode.countedPower (n : VNode) (k : Nat) : Int := (n.mem.powers k).getD 0

end ExoVerif.Det
