import ExoVerif.Basic.KV
/-
  Store-like finite maps used by the validator-set / consensus-key / unbonding models
  (C06, C07, C16). `get` is `KV.find?`; `del` removes *every* binding of a key (what
  `store.Delete` / Go's `delete(m, k)` do), `put` = delete then bind (what `store.Set` does).
  With these, the lookup laws hold unconditionally (no NoDup side condition).
  Also: insertion sort by a Boolean `le` (structural, so `decide` can run it).
  Core Lean only.
-/
namespace ExoVerif.VMap

variable {κ : Type} {α : Type} [DecidableEq κ]

abbrev get (m : List (κ × α)) (k : κ) : Option α := KV.find? m k

def has (m : List (κ × α)) (k : κ) : Bool := (get m k).isSome

def del (m : List (κ × α)) (k : κ) : List (κ × α) := m.filter (fun p => p.1 ≠ k)

def put (m : List (κ × α)) (k : κ) (v : α) : List (κ × α) := (k, v) :: del m k

def delAll (m : List (κ × α)) (ks : List κ) : List (κ × α) := ks.foldl del m

theorem get_del_same (m : List (κ × α)) (k : κ) : get (del m k) k = none := by
  induction m with
  | nil => rfl
  | cons p rest ih =>
    obtain ⟨k', v⟩ := p
    by_cases h : k' = k
    · simp [del, h] at ih ⊢; exact ih
    · simp [del, h, KV.find?] at ih ⊢; exact ih

theorem get_del_other (m : List (κ × α)) (k k2 : κ) (h : k2 ≠ k) : get (del m k) k2 = get m k2 := by
  induction m with
  | nil => rfl
  | cons p rest ih =>
    obtain ⟨k', v⟩ := p
    by_cases h1 : k' = k
    · have : ¬ k' = k2 := fun e => h (e ▸ h1 ▸ rfl)
      simp [del, h1, KV.find?] at ih ⊢
      have h3 : ¬ k = k2 := fun e => h e.symm
      simp [h3]; exact ih
    · by_cases h2 : k' = k2
      · subst h2; simp [del, h1, KV.find?]
      · simp [del, h1, KV.find?, h2] at ih ⊢; exact ih

theorem get_put_same (m : List (κ × α)) (k : κ) (v : α) : get (put m k v) k = some v := by
  simp [put, KV.find?]

theorem get_put_other (m : List (κ × α)) (k k2 : κ) (v : α) (h : k2 ≠ k) :
    get (put m k v) k2 = get m k2 := by
  have h3 : ¬ k = k2 := fun e => h e.symm
  simp only [put, get, KV.find?, h3, if_false]
  exact get_del_other m k k2 h

theorem get_foldl_del_none (ks : List κ) (m : List (κ × α)) (k : κ) (h : get m k = none) :
    get (ks.foldl del m) k = none := by
  induction ks generalizing m with
  | nil => simpa using h
  | cons b r ih =>
    simp only [List.foldl_cons]
    apply ih
    by_cases hb : k = b
    · subst hb; exact get_del_same m k
    · rw [get_del_other m b k hb]; exact h

theorem get_delAll_mem (ks : List κ) (m : List (κ × α)) (k : κ) (h : k ∈ ks) :
    get (delAll m ks) k = none := by
  induction ks generalizing m with
  | nil => cases h
  | cons a rest ih =>
    simp only [delAll, List.foldl_cons]
    by_cases ha : k = a
    · subst ha; exact get_foldl_del_none rest _ k (get_del_same m k)
    · have hm : k ∈ rest := by
        rcases List.mem_cons.1 h with h | h
        · exact absurd h ha
        · exact h
      exact ih (del m a) hm

theorem get_delAll_not_mem (ks : List κ) (m : List (κ × α)) (k : κ) (h : k ∉ ks) :
    get (delAll m ks) k = get m k := by
  induction ks generalizing m with
  | nil => rfl
  | cons a rest ih =>
    simp only [delAll, List.foldl_cons]
    simp only [List.mem_cons, not_or] at h
    have := ih (del m a) h.2
    simp only [delAll] at this
    rw [this, get_del_other m a k h.1]

theorem get_some_mem_keys (m : List (κ × α)) (k : κ) (v : α) (h : get m k = some v) : k ∈ KV.keys m := by
  have := KV.find?_mem m k v h
  simp only [KV.keys, List.mem_map]
  exact ⟨(k, v), this, rfl⟩

theorem get_isSome_of_mem_keys (m : List (κ × α)) (k : κ) (h : k ∈ KV.keys m) : (get m k).isSome = true := by
  induction m with
  | nil => simp [KV.keys] at h
  | cons p rest ih =>
    obtain ⟨k', v⟩ := p
    by_cases h1 : k' = k
    · simp [KV.find?, h1]
    · simp only [KV.keys, List.map_cons, List.mem_cons] at h
      rcases h with h | h
      · exact absurd h.symm h1
      · simp only [get, KV.find?, h1, if_false]; exact ih h

/-! ## insertion sort -/
section sort
variable {β : Type}

def insertBy (le : β → β → Bool) (a : β) : List β → List β
  | [] => [a]
  | b :: l => if le a b then a :: b :: l else b :: insertBy le a l

def isort (le : β → β → Bool) : List β → List β
  | [] => []
  | a :: l => insertBy le a (isort le l)

theorem insertBy_perm (le : β → β → Bool) (a : β) (l : List β) : (insertBy le a l).Perm (a :: l) := by
  induction l with
  | nil => exact List.Perm.refl _
  | cons b l ih =>
    simp only [insertBy]
    split
    · exact List.Perm.refl _
    · exact ((List.Perm.cons b ih).trans (List.Perm.swap a b l))

theorem isort_perm (le : β → β → Bool) (l : List β) : (isort le l).Perm l := by
  induction l with
  | nil => exact List.Perm.refl _
  | cons a l ih => exact (insertBy_perm le a _).trans (List.Perm.cons a ih)

theorem insertBy_sorted (le : β → β → Bool) (a : β) (l : List β)
    (total : ∀ x y, le x y = true ∨ le y x = true)
    (trans : ∀ x y z, le x y = true → le y z = true → le x z = true)
    (h : l.Pairwise (fun x y => le x y = true)) :
    (insertBy le a l).Pairwise (fun x y => le x y = true) := by
  induction l with
  | nil => simp [insertBy]
  | cons b l ih =>
    simp only [insertBy]
    have hb := List.pairwise_cons.1 h
    split
    · rename_i hab
      refine List.pairwise_cons.2 ⟨?_, h⟩
      intro y hy
      rcases List.mem_cons.1 hy with rfl | hy
      · exact hab
      · exact trans _ _ _ hab (hb.1 y hy)
    · rename_i hab
      refine List.pairwise_cons.2 ⟨?_, ih hb.2⟩
      intro y hy
      have := (insertBy_perm le a l).mem_iff.1 hy
      rcases List.mem_cons.1 this with rfl | hy'
      · rcases total y b with h1 | h1
        · exact absurd h1 hab
        · exact h1
      · exact hb.1 y hy'

theorem isort_sorted (le : β → β → Bool) (l : List β)
    (total : ∀ x y, le x y = true ∨ le y x = true)
    (trans : ∀ x y z, le x y = true → le y z = true → le x z = true) :
    (isort le l).Pairwise (fun x y => le x y = true) := by
  induction l with
  | nil => simp [isort]
  | cons a l ih => exact insertBy_sorted le a _ total trans ih

end sort

end ExoVerif.VMap
