import ExoVerif.Model.OracleParams
/-!
# The edit-and-validate chain of MsgUpdateParams (x/oracle), as a concrete `ParamsUpdate`

`Model/OracleParams.lean` leaves the chain abstract (what it needs is only where the edited value comes
from). The round machinery, however, *reads* what an accepted update wrote — the retention bound
(`MaxSizePrices`), the rules and sources a submission is judged against, the decimals of a token, the
feeders — so the properties' clauses "no more than the configured number of rounds is retained" (C12)
and "sources and decimals match the feeder's rule and token" (C13) are statements about the values this
chain produces. This file transcribes it step by step, as the Go code is:

    msg_server_update_params.go: UpdateParams
      p.AddSources → p.AddChains → p.UpdateTokens(height) → p.AddRules → p.UpdateMaxPriceCount
        → p.UpdateTokenFeeder(tf, height) for every tf → p.Validate()

on the fields the model's `Params` has. Not represented: names (sources, chains, tokens), asset ids and
chains — the payloads of the correspondence runs use fresh, non-empty names and chain 1, for which the
name/chain checks of AddSources / AddChains / Validate never refuse; `MaxNonce`, the thresholds, `MaxDetId`
and `Mode` of the payload are not read by any step (they cannot be changed by this message).
Core Lean only (used by Driver/Oracle.lean).
-/
namespace ExoVerif.Oracle

/-- one entry of `msg.Params.Tokens`: `existing = k > 0` — it carries the (Name, ChainID) of token `k`
of the stored params; `existing = 0` — a pair no stored token has -/
structure TokenIn where
  existing : Nat
  decimal : Int
deriving Repr, DecidableEq, Inhabited

/-- the payload of MsgUpdateParams -/
structure ParamsIn where
  sources : List Source
  tokens : List TokenIn
  rules : List (List Nat)
  maxSizePrices : Int
  feeders : List Feeder
deriving Repr, DecidableEq, Inhabited

/-- types/params.go: AddSources — a new source must be flagged valid (names: fresh by assumption) -/
def addSources (p : Params) (ss : List Source) : Option Params :=
  if ss.any (fun s => !s.valid) then none else some { p with sources := p.sources ++ ss }

/-- types/params.go: TokenStarted (ranges over every feeder, the reserved entry 0 included) -/
def tokenStarted (p : Params) (tokenID height : Nat) : Bool :=
  p.feeders.any (fun f => f.tokenID = tokenID && decide (f.startBaseBlock ≤ height))

def setAt {α} (l : List α) (i : Nat) (v : α) : List α := l.set i v

/-- types/params.go: UpdateTokens, one payload entry. An existing token: the decimal is replaced only
while no feeder of the token has started and only by a positive value; a new token is appended as it
comes. (`tokenID` ranges from 1: the reserved entry 0 is never matched.) -/
def updateToken (p : Params) (height : Nat) (t : TokenIn) : Params :=
  if t.existing ≥ 1 && t.existing < p.tokenDecimals.length then
    if !(tokenStarted p t.existing height) && t.decimal > 0 then
      { p with tokenDecimals := setAt p.tokenDecimals t.existing t.decimal }
    else p
  else { p with tokenDecimals := p.tokenDecimals ++ [t.decimal] }

def updateTokens (p : Params) (height : Nat) (ts : List TokenIn) : Params :=
  ts.foldl (fun p t => updateToken p height t) p

/-- types/params.go: AddRules -/
def addRules (p : Params) (rs : List (List Nat)) : Params := { p with rules := p.rules ++ rs }

/-- types/params.go: UpdateMaxPriceCount — a negative count is refused, zero means "leave it", a
positive count becomes the retention bound -/
def updateMaxPriceCount (p : Params) (count : Int) : Option Params :=
  if count < 0 then none
  else if count > 0 then some { p with maxSizePrices := count.toNat }
  else some p

/-- types/params.go: GetFeederIDsByTokenID (reserved entry included), last element -/
def lastFeederOfToken (p : Params) (tokenID : Nat) : Option Nat :=
  ((p.feeders.zipIdx.filter (fun x => x.1.tokenID = tokenID)).map (·.2)).getLast?

/-- types/params.go: UpdateTokenFeeder -/
def updateTokenFeeder (p : Params) (tf : Feeder) (height : Nat) : Option Params :=
  match lastFeederOfToken p tf.tokenID with
  | none => some { p with feeders := p.feeders ++ [tf] }
  | some idx =>
    let cur := p.feeders.getD idx default
    if cur.startBaseBlock > height then
      -- the latest feeder has not started: start block, interval, end block may change
      if tf.startBaseBlock > 0 && tf.startBaseBlock ≤ height then none
      else
        let c1 := if tf.startBaseBlock > 0 then { cur with startBaseBlock := tf.startBaseBlock } else cur
        let c2 := if tf.interval > 0 then { c1 with interval := tf.interval } else c1
        if tf.endBlock > 0 && tf.endBlock ≤ height then none
        else
          let c3 := if tf.endBlock > 0 then { c2 with endBlock := tf.endBlock } else c2
          if tf.startBaseBlock > 0 || tf.interval > 0 || tf.endBlock > 0 then
            some { p with feeders := setAt p.feeders idx c3 }
          else none
    else if cur.endBlock = 0 || cur.endBlock > height then
      -- running: only the end block may be set, to a future height
      if tf.endBlock = 0 || tf.endBlock ≤ height then none
      else some { p with feeders := setAt p.feeders idx { cur with endBlock := tf.endBlock } }
    else
      -- stopped: a new feeder resumes the token with the next round id
      let latestRound := cur.startRoundID + (cur.endBlock - cur.startBaseBlock) / cur.interval
      if tf.startBaseBlock ≤ height || tf.startRoundID ≠ latestRound + 1 then none
      else some { p with feeders := p.feeders ++ [tf] }

def updateTokenFeeders (p : Params) (height : Nat) : List Feeder → Option Params
  | [] => some p
  | tf :: rest =>
    match updateTokenFeeder p tf height with
    | none => none
    | some p' => updateTokenFeeders p' height rest

/-- types/params.go: Validate, the feeder loop: `prev` = the last feeder seen per token (a Go map) -/
def validateFeeders (p : Params) : List (Nat × Feeder) → List (Nat × Feeder) → Bool
  | _, [] => true
  | prevs, (fID, f) :: rest =>
    if fID = 0 then validateFeeders p prevs rest
    else if f.tokenID < 1 || f.startRoundID < 1 || f.interval < 1 || f.startBaseBlock < 1 then false
    else if f.endBlock > 0 && f.startBaseBlock ≥ f.endBlock then false
    else if f.endBlock > 0 && (f.endBlock - f.startBaseBlock) % f.interval < p.maxNonce then false
    else if f.interval < 2 * p.maxNonce then false
    else if f.tokenID ≥ p.tokenDecimals.length then false
    else if f.ruleID ≥ p.rules.length then false
    else
      match alookup f.tokenID prevs with
      | some prev =>
        if prev.endBlock = 0 then false
        else if prev.endBlock ≥ f.startBaseBlock then false
        else if f.startRoundID ≠ prev.startRoundID + (prev.endBlock - prev.startBaseBlock) / prev.interval + 1 then false
        else validateFeeders p (aset f.tokenID f prevs) rest
      | none => validateFeeders p (aset f.tokenID f prevs) rest

/-- types/params.go: Validate (fields of the model; `Mode` is never changed by an update). The rule loop
compares the source ids of a rule with the number of *rules* — as the Go code does. -/
def validateParams (p : Params) : Bool :=
  if p.maxNonce < 1 || p.maxDetID < 1 || p.thA < 1 || p.thB < p.thA || p.maxSizePrices < 1 then false
  else if !(validateFeeders p [] (p.feeders.zipIdx.map (fun x => (x.2, x.1)))) then false
  else
    (p.rules.zipIdx.all (fun x => x.2 = 0 || (x.1.length ≠ 0 && x.1.all (fun id => id < p.rules.length))))

/-- the whole chain -/
def applyUpdate (inp : ParamsIn) : ParamsUpdate := fun p height =>
  match addSources p inp.sources with
  | none => none
  | some p1 =>
    let p2 := updateTokens p1 height inp.tokens
    let p3 := addRules p2 inp.rules
    match updateMaxPriceCount p3 inp.maxSizePrices with
    | none => none
    | some p4 =>
      match updateTokenFeeders p4 height inp.feeders with
      | none => none
      | some p5 => if validateParams p5 then some p5 else none

end ExoVerif.Oracle
