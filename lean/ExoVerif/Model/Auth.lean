/-!
# Authorization decisions of the state-changing entry points (C10)

For every entry point the decision function is transcribed from the code: *which value is compared
with what*.  A request carries everything an entry point could look at — the EVM caller
(`contract.CallerAddress`), the transaction origin / signer, the address passed as first ABI argument,
the signature status — so that "the check reads the wrong one" is expressible.  Core Lean only.
-/
namespace ExoVerif.Auth

abbrev Addr := Nat

inductive SigStatus where
  | valid      -- signature by the key the transaction claims
  | forged     -- bytes that do not verify under the claimed key
  | noPubKey   -- claimed key does not belong to the signer address
  deriving Repr, DecidableEq

/-- stage of the two-phase commit of a task result (x/avs/types: TwoPhaseCommitOne / TwoPhaseCommitTwo; anything else is refused) -/
inductive Phase where
  | one | two | other
  deriving Repr, DecidableEq

/-- everything a decision could read -/
structure Request where
  callerAddress : Addr        -- contract.CallerAddress (EVM) / — (cosmos)
  origin : Addr               -- evm.Origin = signer of the eth tx; for cosmos txs the signer address
  arg0 : Addr                 -- the address passed as first ABI argument / the msg's from-field
  sig : SigStatus
  subject : Addr := 0         -- the address *inside* the payload on whose record the request acts (TaskResultInfo.OperatorAddress)
  phase : Phase := .one       -- TaskResultInfo.Stage
  deriving Repr, DecidableEq

/-- the part of the state authorization reads -/
structure AuthState where
  gateway : Addr                       -- x/assets Params.ExocoreLzAppAddress
  avsOwners : Addr → List Addr         -- AVSInfo.AvsOwnerAddress per AVS address ([] = not an AVS)
  isAVS : Addr → Bool
  isOperator : Addr → Bool
  isValidator : Addr → Bool            -- has a (validator, feeder) nonce entry in x/oracle
  authority : Addr                     -- keeper authority (gov module account)
  mainnet : Bool                       -- utils.IsMainnet(ctx.ChainID())

inductive Entry where
  | gatewayMethod      -- assets/delegation/reward precompile transactions
  | registerAVS | updateAVS | deregisterAVS | createTask
  | avsOptIn | avsOptOut | registerBLSKey
  | sdkMsg             -- operator / delegation messages (standard SDK signature verification)
  | taskResult         -- MsgSubmitTaskResult, both phases
  | challenge          -- AVS precompile: challenge
  | oraclePrice        -- MsgCreatePrice (custom ante branch)
  | updateParams       -- UpdateParams of oracle, dogfood, exomint, feedistribution, assets
  deriving Repr, DecidableEq

/-- x/assets/keeper/params.go: CheckExocoreGatewayAddr(ctx, contract.CallerAddress) — `addr != exoCoreLzAppAddr` rejects -/
def admitGateway (st : AuthState) (r : Request) : Bool := r.callerAddress == st.gateway

/-- precompiles/avs/tx.go: RegisterAVS — `slices.Contains(avsParams.AvsOwnerAddress, avsParams.CallerAddress)`,
both taken from the arguments (`owners` = the owner list argument); AVS address := contract.CallerAddress -/
def admitRegisterAVS (st : AuthState) (r : Request) (owners : List Addr) : Bool :=
  owners.contains r.arg0 && !st.isAVS r.callerAddress

/-- UpdateAVS / DeregisterAVS (x/avs/keeper/keeper.go: UpdateAVSInfo) / CreateAVSTask:
AVS := contract.CallerAddress, `slices.Contains(stored owners, args[0])` -/
def admitManageAVS (st : AuthState) (r : Request) : Bool :=
  st.isAVS r.callerAddress && (st.avsOwners r.callerAddress).contains r.arg0

/-- BindOperatorToAVS / UnbindOperatorToAVS: operator := args[0], AVS := contract.CallerAddress;
x/avs/keeper: OperatorOptAction checks IsOperator(operator) and IsAVS(avs) — nothing relates the
operator to the caller or the origin -/
def admitAvsOpt (st : AuthState) (r : Request) : Bool := st.isOperator r.arg0 && st.isAVS r.callerAddress

/-- RegisterBLSPublicKey: operator := args[0]; only the BLS proof of possession is checked -/
def admitRegisterBLS (_ : AuthState) (_ : Request) (blsProofValid : Bool) (alreadyHasKey : Bool) : Bool :=
  blsProofValid && !alreadyHasKey

/-- standard SDK path: SetPubKeyDecorator (pubkey address = signer) + SigVerificationDecorator -/
def admitSdkMsg (r : Request) : Bool := r.sig == .valid && r.arg0 == r.origin

/-- x/avs/keeper/msg_server.go: SubmitTaskResult → x/avs/keeper/task.go: SetTaskResultInfo(ctx, req.FromAddress, req.Info):
standard SDK signature check for FromAddress (`arg0`), then — as the FIRST statement, before the operator /
BLS-key / task look-ups and before the `switch info.Stage` — `addr != info.OperatorAddress` rejects; the
remaining admissibility of the payload in its phase (window, signature replay, BLS proof …) is `payloadOk` -/
def admitTaskResult (st : AuthState) (r : Request) (payloadOk : Bool) : Bool :=
  r.sig == .valid && r.arg0 == r.origin &&
  r.arg0 == r.subject &&                       -- the signer comparison, outside the switch
  st.isOperator r.subject &&
  (match r.phase with
   | .one => payloadOk
   | .two => payloadOk
   | .other => false)

/-- precompiles/avs/tx.go: Challenge → x/avs/keeper: RaiseAndResolveChallenge: the task contract is
contract.CallerAddress; args[0] is only *recorded* as the challenger — no owner list is consulted -/
def admitChallenge (_ : AuthState) (_ : Request) (payloadOk : Bool) : Bool := payloadOk

/-- app/ante/cosmos/sigverify.go, oracle branch (after commit 8ec350f): SetPubKeyDecorator compares
pk.Address() with the signer; SigVerificationDecorator computes the sign bytes and returns
ErrUnauthorized unless VerifySignature succeeds; IncrementSequenceDecorator → CheckAndIncreaseNonce
needs a validator entry for the creator -/
def admitOraclePrice (st : AuthState) (r : Request) : Bool :=
  r.sig == .valid && st.isValidator r.arg0

/-- A create-price transaction with several creators (GetSigners = the creators of its messages, without
repeats): one request per signer — `arg0` the creator, `sig` the status of the SignerInfo / signature slot
of that signer. app/ante/cosmos/sigverify.go, oracle branches: SetPubKeyDecorator loops over all public
keys, SigVerificationDecorator runs `for i, sig := range sigs` over ALL signatures (an error return
inside the loop for a slot that does not verify, `next` only after the loop), IncrementSequenceDecorator
loops over all messages: the transaction passes iff every signer's pair passes. -/
def admitOraclePriceTx (st : AuthState) (rs : List Request) : Bool := rs.all (admitOraclePrice st)

/-- UpdateParams: GetSigners = [msg.Authority] (standard signature check for that account), handler:
`utils.IsMainnet(chainID) && k.authority != msg.Authority` rejects -/
def admitUpdateParams (st : AuthState) (r : Request) : Bool :=
  r.sig == .valid && r.arg0 == r.origin && (!st.mainnet || r.arg0 == st.authority)

/-- the messages of x/operator's msg server -/
inductive OpMsg where
  | registerOperator | optIntoAVS | optOutOfAVS | setConsKey
  deriving Repr, DecidableEq

/-- the account addresses *inside* the payload of an operator message (RegisterOperatorReq.Info.EarningsAddr,
Info.ApproveAddr; the other three messages carry no account address besides the from-field) -/
structure OpPayload where
  earnings : Addr
  approve : Addr
  deriving Repr, DecidableEq

/-- The operator addresses under which an admitted operator message writes records.
x/operator/keeper/msg_server.go: RegisterOperator → `SetOperatorInfo(ctx, req.FromAddress, req.Info)` →
operator.go: setOperatorInfo: `opAccAddr, err := sdk.AccAddressFromBech32(addr)` (assigned ONCE, from the
address parameter) … `store.Set(opAccAddr, bz)`; OptIntoAVS / OptOutOfAVS:
`accAddr, _ := sdk.AccAddressFromBech32(req.FromAddress)`, SetConsKey: `… (req.Address)` — always the field
`GetSigners` returns (`arg0`). The payload addresses are stored *in the value* only. -/
def opMsgRecordKeys (_ : OpMsg) (r : Request) (_ : OpPayload) : List Addr := [r.arg0]

/-- an operator message is admitted by the standard SDK signature path and then by its handler
(`payloadOk`: not yet registered / opted in / active …) -/
def admitOpMsg (r : Request) (payloadOk : Bool) : Bool := admitSdkMsg r && payloadOk

/-- on whose behalf the admitted request changes state -/
def actsFor (e : Entry) (r : Request) : Addr :=
  match e with
  | .gatewayMethod => r.callerAddress
  | .registerAVS | .updateAVS | .deregisterAVS | .createTask => r.callerAddress   -- the AVS
  | .avsOptIn | .avsOptOut | .registerBLSKey => r.arg0                            -- the operator
  | .sdkMsg | .oraclePrice | .updateParams => r.arg0
  | .taskResult => r.subject                                                      -- the operator whose result is stored
  | .challenge => r.callerAddress

end ExoVerif.Auth
