/-!
# C18 — x/delegation: the undelegation records of the genesis document under slashing (core Lean only)

* x/delegation/types/genesis.go `GenesisState.ValidateUndelegations` (validationFunc): after the id / TxHash well-formedness
  checks a record is rejected iff it is not pending, or `CompleteBlockNumber < BlockNumber`, or
  `ActualCompletedAmount.GT(Amount)`. Nothing else is asked of the amounts: in particular `ActualCompletedAmount = 0` passes.
* x/operator/keeper/slash.go `SlashFromUndelegation`: a slash goes through the operator's pending undelegations first;
  `slashAmount = proportion.MulInt(Amount).TruncateInt()` is taken out of `ActualCompletedAmount`, clamped at zero; a record
  already at zero is skipped.
* x/delegation/keeper/update_native_restaking_balance.go `UpdateNSTBalance` (opFunc): what is left of a balance decrease
  after the withdrawable amount is taken out of the pending undelegations, record by record, clamped at zero.
The record stays in the store (and in the export) until it completes; on completion `ActualCompletedAmount` is credited.
-/
namespace ExoVerif.Genesis

/-- the fields of `UndelegationRecord` that `ValidateUndelegations` reads besides the ids -/
structure UndRec where
  submitted : Int   -- BlockNumber
  complete : Int    -- CompleteBlockNumber
  amount : Int      -- Amount
  actual : Int      -- ActualCompletedAmount
  pending : Bool    -- IsPending
  deriving Repr, DecidableEq

/-- x/delegation/types/genesis.go: ValidateUndelegations validationFunc (the three clauses behind the TxHash checks) -/
def validateUnd (u : UndRec) : Bool :=
  u.pending && !decide (u.complete < u.submitted) && !decide (u.actual > u.amount)

/-- x/operator/keeper/slash.go: SlashFromUndelegation; `sa` = `slashProportion.MulInt(undelegation.Amount).TruncateInt()`.
    Returns the record as rewritten and the amount recorded as slashed (`none`: the record was skipped). -/
def slashUnd (sa : Int) (u : UndRec) : UndRec × Option Int :=
  if u.actual = 0 then (u, none)
  else if sa ≥ u.actual then ({ u with actual := 0 }, some u.actual)
  else ({ u with actual := u.actual - sa }, some sa)

/-- x/delegation/keeper/update_native_restaking_balance.go: UpdateNSTBalance opFunc; `pend` = pendingSlashAmount on entry.
    Returns the record as rewritten and pendingSlashAmount on exit. -/
def nstSlashUnd (pend : Int) (u : UndRec) : UndRec × Int :=
  let rest := pend - u.actual
  let sa := if rest > 0 then u.actual else pend
  ({ u with actual := u.actual - sa }, rest)

/-- what can happen to a stored pending record before it completes -/
inductive SlashEv where
  | operator (sa : Int)   -- an operator slash reaching the record with proportion*amount truncated = sa
  | nst (pend : Int)      -- a native-restaking balance decrease reaching the record with `pend` still to take
  deriving Repr

def SlashEv.amount : SlashEv → Int
  | .operator sa => sa
  | .nst p => p

def applySlashEv (u : UndRec) : SlashEv → UndRec
  | .operator sa => (slashUnd sa u).1
  | .nst p => (nstSlashUnd p u).1

/-- the record after a history of slashes -/
def slashHistory (u : UndRec) (evs : List SlashEv) : UndRec := evs.foldl applySlashEv u

/-- the shape of the guard a "nil / non-positive amount" hardening would add in front of the comparison (NOT the code):
    kept for the regression theorem only -/
def validateUndStrict (u : UndRec) : Bool :=
  validateUnd u && decide (0 < u.amount) && decide (0 < u.actual)

end ExoVerif.Genesis
