import ExoVerif.Basic.Dec
import ExoVerif.Basic.KV
/-
  Model of the voting-power update of x/operator:
    keeper/abci.go: UpdateVotingPower                      → `updateVotingPower`, `updateLoop`
    keeper/usd_value.go: CalculateUSDValueForOperator(isForSlash=false) → `opValue`
    keeper/usd_value.go: IterateOperatorsForAVS, SetAVSUSDValue, InitOperatorUSDValue,
                         DeleteOperatorUSDValue, DeleteAllOperatorsUSDValueForAVS, GetOperatorOptedUSDValue
    keeper/common_func.go: CalculateUSDValue                → `usdValue`   (tie: Gen.calculateUSDValue)
    x/delegation/keeper/share.go: TokensFromShares          → `tokensFromShares` (tie: Gen.tokensFromShares)
    keeper/impl_epoch_hook.go: AfterEpochEnd + x/avs/keeper/avs.go: GetEpochEndAVSs → `epochEnd`, `selected`,
                         `hookLoopWith`/`hookLoop` (the per-AVS loop; its error branch `continue`s: tie
                         Gen.hookUpdateErrorExits), `updateVotingPowerE` (UpdateVotingPower with its error kept)
  LegacyDec values are raw integers (value·10^18). Errors are explicit (`Except`); an error anywhere
  inside the cached block leaves the stored values untouched, exactly as the cache context does.
-/
namespace ExoVerif.VP
open ExoVerif ExoVerif.KV

/-- assets/types OperatorAssetInfo, the fields the update reads -/
structure AssetState where
  totalAmount : Int
  totalShare : Int        -- raw LegacyDec
  operatorShare : Int     -- raw LegacyDec
deriving Repr, Inhabited, DecidableEq

/-- what UpdateVotingPower resolved for one asset the AVS supports: latest oracle price
(GetMultipleAssetsPrices, with its fall-back to price 1 / decimal 0) and GetAssetsDecimal -/
structure AssetCfg where
  price : Int
  priceDec : Int
  decimals : Int
deriving Repr, Inhabited, DecidableEq

/-- OperatorOptedUSDValue -/
structure Opted where
  self : Int
  total : Int
  active : Int
deriving Repr, Inhabited, DecidableEq

/-- common_func.go: CalculateUSDValue -/
def usdValue (amount price adec pdec : Int) : Int :=
  (Dec.quoInt (Dec.ofInt (amount * price)) ((1 : Int) * (10 : Int) ^ (Int.toNat (adec + pdec)))).raw

/-- delegation/keeper/share.go: TokensFromShares -/
def tokensFromShares (stakerShare totalShare : Dec) (totalAmount : Int) : Except String Int :=
  if Dec.gt stakerShare totalShare then .error "ErrInsufficientShares"
  else if Dec.isZero totalShare then
    if totalAmount == 0 then .ok 0 else .error "ErrDivisorIsZero"
  else .ok (Dec.truncateInt (Dec.quoTruncate (Dec.mulInt stakerShare totalAmount) totalShare))

/-- usd_value.go: CalculateUSDValueForOperator with isForSlash=false: the closure run by
IterateAssetsForOperator over the operator's assets in store order, skipping assets outside the
AVS's list. Result: (Staking, SelfStaking). -/
def opValue (cfgs : List (String × AssetCfg)) : List (String × AssetState) → Except String (Int × Int)
  | [] => .ok (0, 0)
  | (a, st) :: rest =>
    match find? cfgs a with
    | none => opValue cfgs rest                               -- assetsFilter: `continue`
    | some c =>
      match tokensFromShares ⟨st.operatorShare⟩ ⟨st.totalShare⟩ st.totalAmount with
      | .error e => .error e
      | .ok selfAmt =>
        match opValue cfgs rest with
        | .error e => .error e
        | .ok (s, f) =>
          .ok (usdValue st.totalAmount c.price c.decimals c.priceDec + s,
               usdValue selfAmt c.price c.decimals c.priceDec + f)

/-- what one call of UpdateVotingPower reads -/
structure AvsIn where
  assetsOk : Bool                                             -- GetAVSSupportedAssets: no error, non-nil
  cfgs : Option (List (String × AssetCfg))                    -- none: decimals/prices lookup failed
  minSelf : Option Int                                        -- GetAVSMinimumSelfDelegation (raw Dec); none: error
  opAssets : List (String × List (String × AssetState))       -- operator → its assets in store order
deriving Repr, Inhabited

/-- abci.go: opFunc under IterateOperatorsForAVS (isUpdate = true): every stored entry of the AVS
is recomputed; `avsVotingPower` adds the total of the operators whose self value meets the minimum. -/
def updateLoop (cfgs : List (String × AssetCfg)) (minSelf : Int)
    (opAssets : List (String × List (String × AssetState))) :
    List (String × Opted) → Except String (List (String × Opted) × Int)
  | [] => .ok ([], 0)
  | (op, _) :: rest =>
    match opValue cfgs (getD opAssets op []) with
    | .error e => .error e
    | .ok (staking, self) =>
      let ok := decide (minSelf ≤ self)                       -- SelfStaking.GTE(minimumSelfDelegation)
      let o : Opted := { self := self, total := staking, active := if ok then staking else 0 }
      match updateLoop cfgs minSelf opAssets rest with
      | .error e => .error e
      | .ok (rest', v) => .ok ((op, o) :: rest', (if ok then staking else 0) + v)

/-- stored state: per AVS the opted-in operators' values (prefix KeyPrefixUSDValueForOperator,
key avs/operator) and the AVS value (KeyPrefixUSDValueForAVS) -/
structure St where
  entries : List (String × List (String × Opted))
  avsVal : List (String × Int)
deriving Repr, Inhabited

/-- abci.go: UpdateVotingPower -/
def updateVotingPower (s : St) (avs : String) (i : AvsIn) : St :=
  if !i.assetsOk then
    -- DeleteAllOperatorsUSDValueForAVS + DeleteAVSUSDValue
    { entries := erase s.entries avs, avsVal := erase s.avsVal avs }
  else
    match i.cfgs, i.minSelf with
    | some cfgs, some m =>
      match updateLoop cfgs m i.opAssets (getD s.entries avs []) with
      | .error _ => s                                          -- cache context discarded
      | .ok (es, v) => { entries := set s.entries avs es, avsVal := set s.avsVal avs v }
    | _, _ => s                                                -- `return err` before the cached block

/-- opt.go: OptIn → InitOperatorUSDValue (zero entry; error if it exists) -/
def optIn (s : St) (avs op : String) : St :=
  let es := getD s.entries avs []
  if has es op then s else { s with entries := set s.entries avs (es ++ [(op, { self := 0, total := 0, active := 0 })]) }

/-- opt.go: OptOut → DeleteOperatorUSDValue -/
def optOut (s : St) (avs op : String) : St :=
  { s with entries := set s.entries avs (erase (getD s.entries avs []) op) }

/-- usd_value.go: GetOperatorOptedUSDValue for an operator that is not opted in: zeros -/
def getOpted (s : St) (avs op : String) : Opted :=
  getD (getD s.entries avs []) op { self := 0, total := 0, active := 0 }

/-- x/avs AVSInfo, the fields GetEpochEndAVSs reads -/
structure AvsReg where
  addr : String
  epochId : String
  startingEpoch : Int
deriving Repr, Inhabited

/-- avs.go: GetEpochEndAVSs -/
def selected (regs : List AvsReg) (id : String) (n : Int) : List String :=
  (regs.filter (fun r => id == r.epochId && decide (r.startingEpoch - 1 ≤ n))).map (·.addr)

/-- abci.go: UpdateVotingPower with the returned error kept: `.error` = `return err` (nothing was
written: either the function returned before the cached block or the cache context was discarded),
`.ok s'` = `return nil` with the new state. `updateVotingPower` is this function with the error
swallowed (Proofs/VotingPower.lean: `updateVotingPower_eq_E`). -/
def updateVotingPowerE (s : St) (avs : String) (i : AvsIn) : Except String St :=
  if !i.assetsOk then
    .ok { entries := erase s.entries avs, avsVal := erase s.avsVal avs }
  else
    match i.cfgs, i.minSelf with
    | some cfgs, some m =>
      match updateLoop cfgs m i.opAssets (getD s.entries avs []) with
      | .error e => .error e
      | .ok (es, v) => .ok { entries := set s.entries avs es, avsVal := set s.avsVal avs v }
    | none, _ => .error "GetAssetsDecimal/GetMultipleAssetsPrices"
    | some _, none => .error "GetAVSMinimumSelfDelegation"

/-- what the branch `if err != nil { … }` of the per-AVS loop of AfterEpochEnd does with the rest
of the list: go on with the next AVS (`continue`, the code as it is) or leave the loop (`return` /
`break`). Tie: Gen.hookUpdateErrorExits (Props/C05Tie.lean). -/
inductive ErrAction where
  | next
  | stop
deriving Repr, DecidableEq, Inhabited

/-- impl_epoch_hook.go: AfterEpochEnd, `for _, avs := range avsList { err := UpdateVotingPower(ctx, avs);
if err != nil { log; <act> } }`, in list (= AVS store) order. An AVS the harness gave no input for
is not registered and cannot be in the list; it is skipped. -/
def hookLoopWith (act : ErrAction) (inputs : List (String × AvsIn)) : St → List String → St
  | s, [] => s
  | s, avs :: rest =>
    match find? inputs avs with
    | none => hookLoopWith act inputs s rest
    | some i =>
      match updateVotingPowerE s avs i with
      | .ok s' => hookLoopWith act inputs s' rest
      | .error _ =>
        match act with
        | .next => hookLoopWith act inputs s rest                -- `continue`
        | .stop => s                                             -- `return`

/-- the loop as the code has it: the error branch is `continue` -/
def hookLoop (inputs : List (String × AvsIn)) (s : St) (avss : List String) : St :=
  hookLoopWith .next inputs s avss

/-- impl_epoch_hook.go: AfterEpochEnd: UpdateVotingPower for every selected AVS, an error of one
AVS does not end the loop -/
def epochEnd (regs : List AvsReg) (inputs : List (String × AvsIn)) (s : St) (id : String) (n : Int) : St :=
  hookLoop inputs s (selected regs id n)

/-! ### the readers of the recorded values -/

/-- operator/types OptedInfo, the fields a reader can look at. `none` (below): GetOptedInfo fails, the
operator never opted in. -/
structure OptedInfo where
  optedOut : Bool      -- OptedOutHeight ≠ DefaultOptedOutHeight
  jailed : Bool        -- Jailed (Jail / SetJailedState)
deriving Repr, Inhabited, DecidableEq

/-- operator.go: IsOptedIn -/
def isOptedIn : Option OptedInfo → Bool
  | none => false
  | some i => !i.optedOut

/-- operator.go: IsActive (opted in and not jailed): what GetActiveOperatorsForChainID filters by.
NOT what the value reader is gated by. -/
def isActive : Option OptedInfo → Bool
  | none => false
  | some i => !i.optedOut && !i.jailed

def zeroOpted : Opted := { self := 0, total := 0, active := 0 }

/-- a reader of the operator's entry, gated by `gate` (zeros when the gate is closed, the stored entry
otherwise, ErrNoKeyInTheStore when there is none) -/
def readOptedWith (gate : Option OptedInfo → Bool) (s : St) (avs op : String) (info : Option OptedInfo) :
    Except String Opted :=
  if !gate info then .ok zeroOpted
  else
    match find? (getD s.entries avs []) op with
    | none => .error "ErrNoKeyInTheStore"
    | some o => .ok o

/-- usd_value.go: GetOperatorOptedUSDValue (also grpc_query.go: QueryOperatorUSDValue, precompiles/avs
query.go: GetOperatorOptedUSDValue): gated by IsOptedIn; the Jailed flag is not read.
Tie: Gen.optedValueReaderGates (Props/C05ReadersTie.lean). -/
def readOpted (s : St) (avs op : String) (info : Option OptedInfo) : Except String Opted :=
  readOptedWith isOptedIn s avs op info

/-- usd_value.go: GetVotePowerForChainID for one operator: ActiveUSDValue.TruncateInt64 of the reader's
answer (below 2^63 in every generated history) -/
def votePower (s : St) (avs op : String) (info : Option OptedInfo) : Except String Int :=
  match readOpted s avs op info with
  | .error e => .error e
  | .ok o => .ok (Dec.truncateInt ⟨o.active⟩)

/-! ### the specification: the closed formula of the property -/

/-- Σ over the assets the AVS supports of amount × price / 10^(asset decimals + price decimals),
each term rounded toward zero at 18 decimals -/
def specTotal (cfgs : List (String × AssetCfg)) : List (String × AssetState) → Int
  | [] => 0
  | (a, st) :: rest =>
    (match find? cfgs a with
     | none => 0
     | some c => usdValue st.totalAmount c.price c.decimals c.priceDec) + specTotal cfgs rest

/-- token equivalent of the operator's own share -/
def selfTokens (st : AssetState) : Int :=
  match tokensFromShares ⟨st.operatorShare⟩ ⟨st.totalShare⟩ st.totalAmount with
  | .ok x => x
  | .error _ => 0

def specSelf (cfgs : List (String × AssetCfg)) : List (String × AssetState) → Int
  | [] => 0
  | (a, st) :: rest =>
    (match find? cfgs a with
     | none => 0
     | some c => usdValue (selfTokens st) c.price c.decimals c.priceDec) + specSelf cfgs rest

def sumActive : List (String × Opted) → Int
  | [] => 0
  | (_, o) :: rest => o.active + sumActive rest

end ExoVerif.VP
