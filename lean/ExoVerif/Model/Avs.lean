import ExoVerif.Basic.Dec
import ExoVerif.Basic.KV
/-
  Model of the x/avs keeper surface that C20 is about (core Lean only):
    x/avs/keeper/keeper.go : UpdateAVSInfo, CreateAVSTask, RegisterBLSPublicKey, OperatorOptAction,
                             RaiseAndResolveChallenge
    x/avs/keeper/avs.go    : GetAVSInfoByTaskAddress, GetTaskStatisticalEpochEndAVSs
    x/avs/keeper/task.go   : GetTaskID, SetTaskResultInfo (both phases), GroupTasksByIDAndAddress
    x/avs/keeper/impl_epoch_hook.go : AfterEpochEnd
    x/avs/types/types.go   : Difference
    x/operator/keeper/opt.go : OptIn, OptOut
  The code is mirrored *as it is*: order of checks, swallowed errors (`errorsmod.Wrap(nil, …)` is
  nil), the protobuf round trip that turns an empty byte string into nil, the symmetric
  `Difference` (kept, no longer used by the hook). After the repairs of F-11b / F-20a / F-20b / F-20c no
  modelled operation of BLOCK processing panics any more: `halted` stays in the state (a halted chain
  executes nothing) but nothing sets it; the pre-fix shapes live on as regression counter-examples in
  Props/C20.lean. One MESSAGE handler still panics: RaiseAndResolveChallenge against a stored response
  whose answer is absent / null (`Challenge.abiPanics`, outcome "panic": the handler unwinds, nothing is
  written, the chain goes on).

  Environment (inputs of the operations, not computed here; they belong to other properties):
  current epoch numbers per identifier, the set of staking assets, the set of registered operators,
  an operator's self-delegated USD value at opt-in time, "the AVS has positive voting power",
  the operators' active powers and the AVS totals at an epoch end, and the cryptographic
  predicates (`regOk` = BLS proof of possession verifies, `blsOk` = the BLS signature over the
  response digest verifies, `respTaskId` = the task id parsed from the JSON response, `digest` =
  keccak of the response, `abiHashOk` = the ABI digest of the stored response equals the
  challenger's hash). `digest`, `respTaskId` and `blsOk` are functions of the SUBMITTED response bytes
  (any byte string encoding/json accepts, not only json.Marshal's), the submitted signature and the
  operator's registered key: `Submit.derived` in Proofs/AvsSig.lean, theorems in Props/C20Sig.lean.
  Addresses are the canonical strings the precompile hands to the keeper.
-/
namespace ExoVerif.Avs
open ExoVerif

abbrev Addr := String

/-- x/avs/types AVSInfo (fields C20 talks about) -/
structure AVS where
  addr : Addr
  name : String
  taskAddr : Addr
  owners : List String
  assets : List String
  minSelf : Nat            -- uint64 MinSelfDelegation
  unbonding : Int          -- uint64 AvsUnbondingPeriod (< 2^63)
  epochId : String
  startingEpoch : Int
deriving DecidableEq, Repr, Inhabited

/-- x/avs/types TaskInfo -/
structure Task where
  taskAddr : Addr
  id : Nat
  name : String
  hash : String
  resp : Int               -- TaskResponsePeriod
  stat : Int               -- TaskStatisticalPeriod
  chal : Int               -- TaskChallengePeriod
  startingEpoch : Int
  optIn : List String
  signed : List String
  noSigned : List String
  powers : List (String × Int)
  totalPower : Int
  actualThreshold : Nat
deriving DecidableEq, Repr, Inhabited

/-- x/avs/types TaskResultInfo as it reads back from the store: protobuf drops empty `bytes`, so
an empty-but-present signature / response reads back as nil (`none`). -/
structure Result where
  op : String
  taskAddr : Addr
  id : Nat
  stage : String
  sig : Option String
  response : Option String
  respHash : String
deriving DecidableEq, Repr, Inhabited

abbrev RKey := String × Addr × Nat

structure State where
  -- environment
  epochs : List (String × Int) := []
  stakingAssets : List String := []
  operators : List String := []
  -- x/avs stores
  avss : List (Addr × AVS) := []
  taskNum : List (Addr × Nat) := []
  tasks : List ((Addr × Nat) × Task) := []
  pubkeys : List (String × String) := []
  results : List (RKey × Result) := []
  challenges : List (RKey × String) := []
  -- x/operator store KeyPrefixOperatorOptedAVSInfo: (operator, avs) ↦ currently opted in?
  opted : List ((String × Addr) × Bool) := []
  -- ghost logs (not in the Go state): accepted task creations / phase-one / challenges, in order
  created : List (Addr × Nat) := []
  accepted1 : List (RKey × Option String) := []
  challenged : List RKey := []
  /-- BeginBlock panicked: the chain has stopped -/
  halted : Bool := false
deriving DecidableEq, Repr, Inhabited

def init : State := {}

/-! ## helpers -/

/-- protobuf round trip of a `bytes` field -/
def norm : Option String → Option String
  | some "" => none
  | x => x

/-- int64(x) for a uint64 x (two's complement) -/
def toI64 (n : Nat) : Int :=
  if n % 2 ^ 64 < 2 ^ 63 then ((n % 2 ^ 64 : Nat) : Int) else ((n % 2 ^ 64 : Nat) : Int) - 2 ^ 64

def insertStr (x : String) : List String → List String
  | [] => [x]
  | y :: ys => if x ≤ y then x :: y :: ys else y :: insertStr x ys

/-- sort.Strings / store key order on equal-length addresses -/
def sortStr : List String → List String
  | [] => []
  | x :: xs => insertStr x (sortStr xs)

def curEpoch (s : State) (id : String) : Option Int := KV.find? s.epochs id

/-- avs.go: GetAVSInfoByTaskAddress (first AVS whose TaskAddr is `t`; "" never matches) -/
def avsByTaskAddr (s : State) (t : Addr) : Option AVS :=
  if t = "" then none else (s.avss.find? (fun p => p.2.taskAddr == t)).map (·.2)

/-- `k.GetAVSInfoByTaskAddress(ctx, t).AvsAddress` -/
def avsAddrOfTask (s : State) (t : Addr) : Addr :=
  match avsByTaskAddr s t with
  | some a => a.addr
  | none => ""

/-- `epochsKeeper.GetEpochInfo(ctx, GetAVSInfoByTaskAddress(t).EpochIdentifier)` -/
def epochOfTaskAddr (s : State) (t : Addr) : Option Int :=
  match avsByTaskAddr s t with
  | some a => curEpoch s a.epochId
  | none => curEpoch s ""

/-- keeper.go: ValidateAssetIDs -/
def validAssets (s : State) (as : List String) : Bool := as.all (fun a => s.stakingAssets.contains a)

/-! ## window predicates (restated here; tied to the regenerated facts in Props/C20Tie.lean) -/

def phase1TooLate (cur start resp : Int) : Bool := cur > start + resp
def phase2TooSoon (cur start resp : Int) : Bool := cur ≤ start + resp
def phase2TooLate (cur start resp stat : Int) : Bool := cur > start + resp + stat
def challengeTooSoon (cur start resp stat : Int) : Bool := cur ≤ start + resp + stat
def challengeTooLate (cur start resp stat chal : Int) : Bool := cur > start + resp + stat + chal
def statEnd (n start resp stat : Int) : Bool := n == start + resp + stat
def deregTooLate (cur start unb : Int) : Bool := cur - start > unb

/-- UpdateAction: `if params.AssetID != nil { … ValidateAssetIDs … }` -/
def validAssetsOpt (s : State) : Option (List String) → Bool
  | some x => validAssets s x
  | none => true

/-! ## UpdateAVSInfo -/

structure AvsParams where
  action : Nat
  avsAddr : Addr
  name : String
  taskAddr : Addr
  owners : Option (List String)
  assets : Option (List String)
  unbonding : Int
  minSelf : Nat
  epochId : String
  caller : String
deriving Repr, Inhabited

/-- keeper.go: UpdateAVSInfo, UpdateAction field merge -/
def mergeAVS (a : AVS) (p : AvsParams) (cur : Int) : AVS :=
  { addr := p.avsAddr
    name := if p.name ≠ "" then p.name else a.name
    taskAddr := if p.taskAddr ≠ "" then p.taskAddr else a.taskAddr
    owners := match p.owners with | some o => o | none => a.owners
    assets := match p.assets with | some x => x | none => a.assets
    minSelf := p.minSelf
    unbonding := if 0 < p.unbonding then p.unbonding else a.unbonding
    epochId := if p.epochId ≠ "" then p.epochId else a.epochId
    startingEpoch := cur + 1 }

/-- keeper.go: UpdateAVSInfo -/
def updateAVS (s : State) (p : AvsParams) : State × String :=
  let cur? := KV.find? s.avss p.avsAddr
  let epochId := match cur? with
    | some a => if a.epochId ≠ "" then a.epochId else p.epochId
    | none => p.epochId
  match curEpoch s epochId with
  | none => (s, "ErrEpochNotFound")
  | some cur =>
    if p.action = 1 then
      if cur?.isSome then (s, "ErrAlreadyRegistered")
      else if avsAddrOfTask s p.taskAddr ≠ "" then (s, "ErrAlreadyRegistered")
      else if !validAssets s (p.assets.getD []) then (s, "ErrInvalidAssetID")
      else
        let a : AVS := { addr := p.avsAddr, name := p.name, taskAddr := p.taskAddr,
                         owners := p.owners.getD [], assets := p.assets.getD [], minSelf := p.minSelf,
                         unbonding := p.unbonding, epochId := epochId, startingEpoch := cur + 1 }
        ({ s with avss := KV.set s.avss p.avsAddr a }, "ok")
    else if p.action = 2 then
      match cur? with
      | none => (s, "ErrUnregisterNonExistent")
      | some a =>
        if !a.owners.contains p.caller then (s, "ErrCallerAddressUnauthorized")
        else if deregTooLate cur a.startingEpoch a.unbonding then (s, "ErrUnbondingPeriod")
        else if a.name ≠ p.name then (s, "ErrAvsNameMismatch")
        else ({ s with avss := KV.erase s.avss p.avsAddr }, "ok")
    else if p.action = 3 then
      match cur? with
      | none => (s, "ErrUnregisterNonExistent")
      | some a =>
        let t := avsAddrOfTask s p.taskAddr
        if t ≠ "" && t ≠ a.addr then (s, "ErrAlreadyRegistered")
        else if !validAssetsOpt s p.assets then (s, "ErrInvalidAssetID")
        else ({ s with avss := KV.set s.avss p.avsAddr (mergeAVS a p cur) }, "ok")
    else (s, "ErrInvalidAction")

/-! ## opt in / opt out (keeper.go: OperatorOptAction; x/operator/keeper/opt.go) -/

def isOptedIn (s : State) (op : String) (avs : Addr) : Bool := KV.find? s.opted (op, avs) == some true

/-- avs.go: GetAVSMinimumSelfDelegation — `LegacyNewDecFromBigInt(new(big.Int).SetUint64(min))`: the
minimum in whole USD as an exact 18-decimal value (the pre-fix `int64(min)` wrap is `toI64`). -/
def minSelfDec (n : Nat) : Dec := Dec.ofInt (n : Int)

/-- opt.go: OptIn, the guard `operatorUSDValues.SelfUSDValue.LT(minSelfDelegation)`: the two exact
18-decimal values are compared — no rounding, no truncation to whole USD. Tied to the regenerated
translation of the guard expression by `C20_tie_optin_min_compare`. -/
def selfDelegationTooLow (self min : Dec) : Bool := Dec.lt self min

/-- opt.go: OptIn. `selfUSD` = GetOrCalculateOperatorUSDValues(...).SelfUSDValue as a raw 18-decimal
integer (none = the calculation failed). -/
def optInCore (s : State) (op : String) (avs : Addr) (selfUSD : Option Int) (noOp noAvs : String) : State × String :=
  if !s.operators.contains op then (s, noOp)
  else match KV.find? s.avss avs with
  | none => (s, noAvs)
  | some a =>
    if isOptedIn s op avs then (s, "ErrAlreadyOptedIn")
    else match selfUSD with
    | none => (s, "rej")
    | some usd =>
      if selfDelegationTooLow ⟨usd⟩ (minSelfDec a.minSelf) then (s, "ErrMinDelegationNotMet")
      else ({ s with opted := KV.set s.opted (op, avs) true }, "ok")

/-- opt.go: OptOut (no operator is jailed or frozen in the modelled histories) -/
def optOutCore (s : State) (op : String) (avs : Addr) (noOp noAvs : String) : State × String :=
  if !s.operators.contains op then (s, noOp)
  else if !KV.has s.avss avs then (s, noAvs)
  else if !isOptedIn s op avs then (s, "ErrNotOptedIn")
  else ({ s with opted := KV.set s.opted (op, avs) false }, "ok")

/-- `direct` = OperatorKeeper.OptIn/OptOut called directly; otherwise through
AVSManagerKeeper.OperatorOptAction (what the precompile calls), whose own pre-checks return
ErrOperatorNotExist / an unnamed error. -/
def optAction (s : State) (direct : Bool) (action : Nat) (op : String) (avs : Addr) (selfUSD : Option Int) : State × String :=
  if direct then
    if action = 1 then optInCore s op avs selfUSD "ErrOperatorNotExist" "ErrNoSuchAvs"
    else optOutCore s op avs "ErrOperatorNotExist" "ErrNoSuchAvs"
  else
    if !s.operators.contains op then (s, "ErrOperatorNotExist")
    else if !KV.has s.avss avs then (s, "rej")
    else if action = 1 then optInCore s op avs selfUSD "ErrOperatorNotExist" "ErrNoSuchAvs"
    else if action = 2 then optOutCore s op avs "ErrOperatorNotExist" "ErrNoSuchAvs"
    else (s, "ErrInvalidAction")

/-- x/operator/keeper/operator.go: GetOptedInOperatorListByAVS — every operator that has an opted
record for the AVS (opted-out ones included), in store-key order -/
def optedOps (s : State) (avs : Addr) : List String :=
  sortStr ((s.opted.filter (fun p => p.1.2 == avs)).map (·.1.1))

/-! ## tasks -/

structure TaskParams where
  taskAddr : Addr
  caller : String
  name : String
  hash : String
  resp : Int
  stat : Int
  chal : Int
  givenId : Nat
  powerOk : Bool        -- GetAVSUSDValue succeeded and is > 0
deriving Repr, Inhabited

/-- task.go: GetTaskID (value the counter will return next) -/
def nextTaskId (s : State) (t : Addr) : Nat :=
  match KV.find? s.taskNum t with
  | some n => n + 1
  | none => 1

/-- keeper.go: CreateAVSTask -/
def createTask (s : State) (p : TaskParams) : State × String :=
  match avsByTaskAddr s p.taskAddr with
  | none => (s, "ErrUnregisterNonExistent")
  | some a =>
    if a.addr = "" then (s, "ErrUnregisterNonExistent")
    else if !a.owners.contains p.caller then (s, "ErrCallerAddressUnauthorized")
    else if !p.powerOk then (s, "ErrVotingPowerIncorrect")
    else match curEpoch s a.epochId with
    | none => (s, "ErrEpochNotFound")
    | some cur =>
      if KV.has s.tasks (p.taskAddr, p.givenId) then (s, "ErrAlreadyExists")
      else
        let id := nextTaskId s p.taskAddr
        let t : Task := { taskAddr := p.taskAddr, id := id, name := p.name, hash := p.hash, resp := p.resp,
                          stat := p.stat, chal := p.chal, startingEpoch := cur + 1, optIn := optedOps s a.addr,
                          signed := [], noSigned := [], powers := [], totalPower := 0, actualThreshold := 0 }
        ({ s with taskNum := KV.set s.taskNum p.taskAddr id
                  tasks := KV.set s.tasks (p.taskAddr, id) t
                  created := s.created ++ [(p.taskAddr, id)] }, "ok")

/-- keeper.go: RegisterBLSPublicKey -/
def regBLS (s : State) (op : String) (pubkey : String) (regOk : Bool) : State × String :=
  if !regOk then (s, "ErrSigNotMatchPubKey")
  else if KV.has s.pubkeys op then (s, "ErrAlreadyExists")
  else ({ s with pubkeys := KV.set s.pubkeys op pubkey }, "ok")

/-! ## SetTaskResultInfo -/

structure Submit where
  fromAddr : String
  op : String
  taskAddr : Addr
  id : Nat
  stage : String
  sig : Option String
  response : Option String
  respHash : String
  respTaskId : Option Nat   -- UnmarshalTaskResponse(response).TaskID (none = unmarshal error)
  blsOk : Bool              -- blst.VerifySignature(sig, keccak(response), registered key)
  digest : String           -- keccak(response) as hex
deriving Repr, Inhabited

/-- task.go: SetTaskResultInfo, `case types.TwoPhaseCommitOne` -/
def submitOne (s : State) (i : Submit) (task : Task) (cur : Int) : State × String :=
  let key : RKey := (i.op, i.taskAddr, i.id)
  if KV.has s.results key then (s, "ErrResAlreadyExists")
  else if (norm i.sig).isNone then (s, "ErrParamNotEmptyError")   -- len(info.BlsSignature) == 0
  else if i.respHash ≠ "" || i.response.isSome then (s, "ErrParamNotEmptyError")
  else if phase1TooLate cur task.startingEpoch task.resp then (s, "ErrSubmitTooLateError")
  else
    let r : Result := { op := i.op, taskAddr := i.taskAddr, id := i.id, stage := "1",
                        sig := norm i.sig, response := none, respHash := "" }
    ({ s with results := KV.set s.results key r, accepted1 := s.accepted1 ++ [(key, norm i.sig)] }, "ok")

/-- task.go: SetTaskResultInfo, `case types.TwoPhaseCommitTwo` -/
def submitTwo (s : State) (i : Submit) (task : Task) (cur : Int) : State × String :=
  let key : RKey := (i.op, i.taskAddr, i.id)
  if i.response.isNone then (s, "ErrNotNull")
  else match KV.find? s.results key with
  | none => (s, "ErrInconsistentParams")
  | some res =>
    if res.sig ≠ norm i.sig then (s, "ErrInconsistentParams")
    else if phase2TooSoon cur task.startingEpoch task.resp then (s, "ErrSubmitTooSoonError")
    else if phase2TooLate cur task.startingEpoch task.resp task.stat then (s, "ErrSubmitTooLateError")
    else if i.respTaskId ≠ some i.id then (s, "ErrInconsistentParams")
    else if !i.blsOk then (s, "ErrSigVerifyError")
    else
      let r : Result := { op := i.op, taskAddr := i.taskAddr, id := i.id, stage := "2",
                          sig := norm i.sig, response := norm i.response, respHash := i.digest }
      ({ s with results := KV.set s.results key r }, "ok")

/-- task.go: SetTaskResultInfo, `switch info.Stage` -/
def submitStage (s : State) (i : Submit) (task : Task) (cur : Int) : State × String :=
  if i.stage = "1" then submitOne s i task cur
  else if i.stage = "2" then submitTwo s i task cur
  else (s, "ErrParamError")

/-- task.go: SetTaskResultInfo -/
def submit (s : State) (i : Submit) : State × String :=
  if i.fromAddr ≠ i.op then (s, "ErrInvalidAddr")
  else if !s.operators.contains i.op then (s, "ErrOperatorNotExist")
  else match KV.find? s.pubkeys i.op with
  | none => (s, "ErrPubKeyIsNotExists")
  | some pk =>
    if pk = "" then (s, "ErrPubKeyIsNotExists")
    else match KV.find? s.tasks (i.taskAddr, i.id) with
    | none => (s, "ErrTaskIsNotExists")
    | some task =>
      if task.taskAddr = "" then (s, "ErrTaskIsNotExists")
      else match epochOfTaskAddr s i.taskAddr with
      | none => (s, "ErrEpochNotFound")
      | some cur => submitStage s i task cur

/-! ## RaiseAndResolveChallenge -/

structure Challenge where
  taskAddr : Addr
  id : Nat
  op : String
  taskHash : String
  abiHashOk : Bool     -- ABI digest of the stored response == params.TaskResponseHash
  callerOk : Bool      -- caller address parses as bech32
  caller : String
  /-- types.go: GetTaskResponseDigestEncodeByAbi(taskRes) panics: `Args.Pack(&h)` dereferences the nil
  `NumberSum` of a stored response whose answer is absent or `null` (phase two accepts such a response: it
  parses and carries the task id). The panic unwinds the message handler: nothing is written. -/
  abiPanics : Bool := false
deriving Repr, Inhabited

/-- keeper.go: RaiseAndResolveChallenge, from "check challenge record" on -/
def challengeCore (s : State) (c : Challenge) (task : Task) : State × String :=
  if c.abiPanics then (s, "panic")          -- hash, err := types.GetTaskResponseDigestEncodeByAbi(taskRes)
  else if !c.abiHashOk then (s, "ErrInconsistentParams")
  else if KV.has s.challenges (c.op, c.taskAddr, c.id) then (s, "ErrAlreadyExists")
  else match epochOfTaskAddr s task.taskAddr with
  | none => (s, "ErrEpochNotFound")
  | some cur =>
    if challengeTooSoon cur task.startingEpoch task.resp task.stat then (s, "ErrSubmitTooSoonError")
    else if challengeTooLate cur task.startingEpoch task.resp task.stat task.chal then (s, "ErrSubmitTooLateError")
    else if !c.callerOk then (s, "rej")
    else ({ s with challenges := KV.set s.challenges (c.op, c.taskAddr, c.id) c.caller
                   challenged := s.challenged ++ [(c.op, c.taskAddr, c.id)] }, "ok")

/-- keeper.go: RaiseAndResolveChallenge (the task-hash mismatch branch returns ErrHashValue; before
the repair of F-20b it returned `errorsmod.Wrap(nil, …)` = nil, i.e. success without any record). -/
def challenge (s : State) (c : Challenge) : State × String :=
  match KV.find? s.tasks (c.taskAddr, c.id) with
  | none => (s, "rej")
  | some task =>
    if task.hash ≠ c.taskHash then (s, "ErrHashValue")
    else match KV.find? s.results (c.op, c.taskAddr, c.id) with
    | none => (s, "rej")
    | some res =>
      match res.response with
      | none => (s, "rej")                       -- json.Unmarshal(nil) fails
      | some _ => challengeCore s c task

/-! ## epoch end (impl_epoch_hook.go: AfterEpochEnd) -/

/-- types.go: Difference — NOT a set difference: the elements of `b` that are not in `a` are
returned too. (`a`, `b` duplicate-free here.) No longer used by the hook (F-20c). -/
def difference (a b : List String) : List String :=
  sortStr (b.filter (fun x => !a.contains x) ++ a.filter (fun x => !b.contains x))

/-- one copy of every element (the order does not matter: the result is sorted afterwards) -/
def dedupStr : List String → List String
  | [] => []
  | x :: xs => if xs.contains x then dedupStr xs else x :: dedupStr xs

/-- types.go: Subtract — the sorted elements of `a` that are not in `b`, without repeats -/
def subtract (a b : List String) : List String :=
  sortStr (dedupStr (a.filter (fun x => !b.contains x)))

structure Powers where
  avsTotal : List (Addr × Int)              -- GetAVSUSDValue (raw)
  active : List ((Addr × String) × Int)     -- GetOperatorOptedUSDValue(avs, op).ActiveUSDValue (raw)
deriving Repr, Inhabited

/-- operators of the results of one task that carry a non-nil signature, in the order of
GroupTasksByIDAndAddress (sorted by operator address; one result per operator and task) -/
def signersOf (s : State) (t : Addr) (id : Nat) : List String :=
  sortStr ((s.results.filter (fun p => p.2.taskAddr == t && p.2.id == id && p.2.sig.isSome)).map (·.2.op))

/-- avs.go: GetTaskStatisticalEpochEndAVSs condition for one task -/
def statDue (s : State) (id : String) (n : Int) (t : Task) : Bool :=
  match avsByTaskAddr s t.taskAddr with
  | none => false
  | some a => a.epochId == id && statEnd n t.startingEpoch t.resp t.stat

/-- LegacyDec.BigInt().Uint64() of total / signed * 100 -/
def actualThreshold (total signedTotal : Int) : Nat :=
  ((Dec.mul (Dec.quo ⟨total⟩ ⟨signedTotal⟩) (Dec.ofInt 100)).raw.natAbs) % 2 ^ 64

/-- body of the loop over one group; none = `continue` (no signed result in the group; before the
repair of F-11b this case dereferenced a nil task and panicked) -/
def statTask (s : State) (pw : Powers) (t : Task) : Option Task :=
  match signersOf s t.taskAddr t.id with
  | [] => none          -- len(signedOperatorList) == 0: continue
  | signed =>
    let avs := avsAddrOfTask s t.taskAddr
    let powers := signed.map (fun o => (o, KV.getD pw.active (avs, o) 0))
    let opTotal := (powers.map (·.2)).foldl (· + ·) 0
    let total := KV.getD pw.avsTotal avs 0
    some { t with signed := signed, noSigned := subtract t.optIn signed, powers := powers,
                  totalPower := total,
                  actualThreshold := if total ≠ 0 && opTotal ≠ 0 then actualThreshold total opTotal else t.actualThreshold }

def hasResults (s : State) (t : Task) : Bool :=
  s.results.any (fun p => p.2.taskAddr == t.taskAddr && p.2.id == t.id)

/-- the loop over the groups: each due task with a signed result is rewritten, the others skipped -/
def statGo (s : State) (pw : Powers) : List ((Addr × Nat) × Task) → List ((Addr × Nat) × Task) →
    List ((Addr × Nat) × Task)
  | [], tasks => tasks
  | (k, t) :: rest, tasks =>
    match statTask s pw t with
    | none => statGo s pw rest tasks
    | some t' => statGo s pw rest (KV.set tasks k t')

/-- tasks whose statistical period ends with epoch `n` of `id` and that have a stored result -/
def dueTasks (s : State) (id : String) (n : Int) : List ((Addr × Nat) × Task) :=
  s.tasks.filter (fun p => statDue s id n p.2 && hasResults s p.2)

/-- AfterEpochEnd(id, n): every due task that has at least one stored result is rewritten -/
def epochEnd (s : State) (id : String) (n : Int) (pw : Powers) : State × String :=
  ({ s with tasks := statGo s pw (dueTasks s id n) s.tasks }, "ok")

/-! ## the step function -/

inductive Op where
  | setEpochs (e : List (String × Int))
  | setEnv (operators : List String) (assets : List String)
  | update (p : AvsParams)
  | opt (direct : Bool) (action : Nat) (op : String) (avs : Addr) (selfUSD : Option Int)
  | task (p : TaskParams)
  | bls (op : String) (pubkey : String) (regOk : Bool)
  | submit (i : Submit)
  | challenge (c : Challenge)
  | epochEnd (id : String) (n : Int) (pw : Powers)
deriving Repr, Inhabited

/-- a halted chain executes nothing -/
def step (s : State) (o : Op) : State × String :=
  if s.halted then (s, "HALT") else
  match o with
  | .setEpochs e => ({ s with epochs := e }, "ok")
  | .setEnv ops as => ({ s with operators := ops, stakingAssets := as }, "ok")
  | .update p => updateAVS s p
  | .opt d a op avs usd => optAction s d a op avs usd
  | .task p => createTask s p
  | .bls op pk ok => regBLS s op pk ok
  | .submit i => submit s i
  | .challenge c => challenge s c
  | .epochEnd id n pw => epochEnd s id n pw

def run (s : State) : List Op → State
  | [] => s
  | o :: rest => run (step s o).1 rest

end ExoVerif.Avs
