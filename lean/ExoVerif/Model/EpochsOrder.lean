import ExoVerif.Model.Epochs
/-
  Why the subscriber order of app/app.go: NewExocoreApp (EpochsKeeper.SetHooks(NewMultiEpochHooks(…)))
  matters, as an executable model. Two of the five subscribers move coins on `AfterEpochEnd`:

  * x/feedistribution/keeper/hooks.go: AfterEpochEnd → allocation.go: AllocateTokens — when the
    distribution module's identifier ends, the WHOLE balance of the fee collector moves to the
    distribution account (`sweep`);
  * x/exomint/keeper/impl_epochs_hooks.go: AfterEpochEnd — when the mint module's identifier ends,
    EpochReward is minted and sent to the fee collector (`mint`; nothing when the reward is zero).

  The other three (operator, dogfood, AVS) do not touch either account, and no subscriber acts on
  `BeforeEpochStart`. x/epochs/types/hooks.go: MultiEpochHooks delivers a notification to the
  subscribers one after the other (`for i := range h`), so for an identifier both modules listen to
  the registration order decides whether the reward minted at end(n) is swept at end(n) or at
  end(n+1). Amounts are integers of the native denomination (no rounding is involved).
-/
namespace ExoVerif.Epochs

/-- the names used by the property text -/
def subName : Sub → String
  | .distribution => "distribution"
  | .operator => "operator"
  | .dogfood => "dogfood"
  | .mint => "mint"
  | .avs => "avs"

/-- x/epochs/types/hooks.go: MultiEpochHooks.{AfterEpochEnd, BeforeEpochStart} over an arbitrary
subscriber list; `fanOut` (Model/Epochs) is this with the list of app.go. -/
def fanOutWith (order : List Sub) (evs : List Ev) : List (Sub × Ev) :=
  evs.flatMap (fun ev => order.map (fun s => (s, ev)))

/-- x/feedistribution params.EpochIdentifier, x/exomint params.EpochIdentifier / EpochReward -/
structure OrderCfg where
  distrId : String
  mintId : String
  reward : Int
deriving Repr, Inhabited

/-- native balances of the fee collector and of the distribution module account -/
structure Pots where
  feeCollector : Int
  distr : Int
deriving DecidableEq, Repr, Inhabited

/-- a coin movement caused by one delivery (what the bank `transfer` events of BeginBlock show) -/
inductive Move where
  | sweep (amt : Int)   -- fee collector → distribution account (AllocateTokens)
  | mint (amt : Int)    -- exomint account → fee collector (AddCollectedFees after MintCoins)
deriving DecidableEq, Repr, Inhabited

/-- one delivery `(subscriber, notification)`: state after it and the movements so far -/
def deliver (cfg : OrderCfg) (st : Pots × List Move) (d : Sub × Ev) : Pots × List Move :=
  match d with
  | (.distribution, .epochEnd id _) =>
    if id = cfg.distrId then
      ({ feeCollector := 0, distr := st.1.distr + st.1.feeCollector }, st.2 ++ [.sweep st.1.feeCollector])
    else st
  | (.mint, .epochEnd id _) =>
    if id = cfg.mintId ∧ cfg.reward ≠ 0 then
      ({ st.1 with feeCollector := st.1.feeCollector + cfg.reward }, st.2 ++ [.mint cfg.reward])
    else st
  | _ => st

/-- one notification delivered to the subscribers `order`, one after the other -/
def notify (cfg : OrderCfg) (order : List Sub) (p : Pots) (ev : Ev) : Pots × List Move :=
  (order.map (fun s => (s, ev))).foldl (deliver cfg) (p, [])

/-- all notifications of a block (the stream of `beginBlocker`), each fanned out -/
def runOrder (cfg : OrderCfg) (order : List Sub) (p : Pots) (evs : List Ev) : Pots × List Move :=
  (fanOutWith order evs).foldl (deliver cfg) (p, [])

/-- the same, keeping the movements grouped per notification (what the driver prints) -/
def notifyAll (cfg : OrderCfg) (order : List Sub) (p : Pots) : List Ev → Pots × List (Ev × List Move)
  | [] => (p, [])
  | ev :: rest =>
    let (p1, mv) := notify cfg order p ev
    let (p2, tr) := notifyAll cfg order p1 rest
    (p2, (ev, mv) :: tr)

def sweeps : List Move → List Int
  | [] => []
  | .sweep a :: rest => a :: sweeps rest
  | .mint _ :: rest => sweeps rest

/-- consecutive epochs n, n+1, … of one identifier: during each epoch `fee` is collected into the
fee collector, then its end is notified to `order`. Returns the amounts swept at each end. -/
def runEpochs (cfg : OrderCfg) (order : List Sub) (id : String) (p : Pots) (n : Int) :
    List Int → Pots × List Int
  | [] => (p, [])
  | fee :: rest =>
    let (p1, mv) := notify cfg order { p with feeCollector := p.feeCollector + fee } (Ev.epochEnd id n)
    let (p2, sw) := runEpochs cfg order id p1 (n + 1) rest
    (p2, sweeps mv ++ sw)

/-- the order the seeded change C15-f installs (mint first) — used as the counterfactual -/
def mintFirstOrder : List Sub := [.mint, .distribution, .operator, .dogfood, .avs]

end ExoVerif.Epochs
