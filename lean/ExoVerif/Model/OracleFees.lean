/-!
# Who rides for free: the fee-less branch of the Cosmos ante chain (app/ante/cosmos)

`IsOracleCreatePriceTx` (app/ante/utils/oracle.go) is true iff the tx has at least one message and
ALL its messages are MsgCreatePrice. Every decorator of `newCosmosAnteHandler` that costs the sender
something asks that question first and steps aside for such a tx: SetUpContextDecorator (infinite gas
meter with limit 0 instead of a meter with the tx's gas limit), MinGasPriceDecorator,
ConsumeTxSizeGasDecorator (size limit instead of gas per byte), DeductFeeDecorator (top priority, no
fee check, no deduction), IncrementSequenceDecorator (oracle nonce instead of the account sequence).
Every other tx — a mixed one included — takes the ordinary path:

  SetUpContext: gas meter := gas limit (infinite only in simulation / at genesis height 0)
  ConsumeTxSizeGas: TxSizeCostPerByte × len(tx) — out of gas when the limit does not cover it
  DeductFee: gas limit > 0; txFeeChecker (the app wires the EIP-1559 checker: fee ≥ base fee × gas
             limit, in CheckTx and DeliverTx alike); deductFee moves the fee from the payer to the fee
             collector (refused when the payer cannot pay)
  SetPubKey / SigGasConsume / SigVerification: every signer has an account and a supported key type
             (ed25519 — a validator's consensus key — is not one)

The model is the decision table of that chain. What the chain does not decide is an input of a row:
whether the gas limit covers the tx (`gasEnough`), whether the payer can pay (`fundsOK`), whether a
signer is a consensus key (`edSigner`), whether the oracle nonce is the expected one (`nonceOK`: the
admission conjunction of a price tx is Model/Oracle.lean's subject), whether the messages succeed once
the ante chain has passed (`msgsOK`). Core Lean only (used by Driver/OracleFees.lean).
-/
namespace ExoVerif.OracleFees

structure FeeTx where
  nPrice : Nat      -- MsgCreatePrice messages
  nOther : Nat      -- any other messages
  gas : Nat         -- declared gas limit
  fee : Nat         -- declared fee (base denom)
  gasEnough : Bool
  edSigner : Bool
  nonceOK : Bool
  msgsOK : Bool
  fundsOK : Bool
deriving Repr, DecidableEq, Inhabited

/-- app/ante/utils/oracle.go: IsOracleCreatePriceTx -/
def FeeTx.isPriceTx (t : FeeTx) : Bool := t.nOther = 0 && t.nPrice > 0

/-- the ante chain: (admitted, fee collected) -/
def anteFee (baseFee : Nat) (t : FeeTx) : Bool × Nat :=
  if t.isPriceTx then (t.nonceOK, 0)
  else if !t.gasEnough then (false, 0)
  else if t.fee < baseFee * t.gas then (false, 0)
  else if !t.fundsOK then (false, 0)
  else if t.edSigner then (false, 0)
  else (true, t.fee)

/-- CheckTx runs the ante chain only -/
def checkTx (baseFee : Nat) (t : FeeTx) : String := if (anteFee baseFee t).1 then "ok" else "rej"

/-- DeliverTx: the ante chain's writes (the fee) stay when a message fails afterwards -/
def deliverTx (baseFee : Nat) (t : FeeTx) : String × Nat :=
  let r := anteFee baseFee t
  if !r.1 then ("rej", 0) else if t.msgsOK then ("ok", r.2) else ("msgfail", r.2)

end ExoVerif.OracleFees
