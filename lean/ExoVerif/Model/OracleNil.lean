import ExoVerif.Model.Oracle
/-!
  The nil-aware layer of the oracle model (C11 / C12). Core Lean only.

  `Model/Oracle.lean: Report.aggregate` reads a slot without a price as 0 and flags it (`Report.hasNil`): such a
  slot — a `nil *big.Int` — exists when a feeder's rule uses TWO deterministic sources and only one of them has
  been confirmed (aggregator.go: fillPrice creates the slot of a deterministic source with `price: nil`,
  confirmDSPrice fills the slots of the confirmed source only, aggregate() runs as soon as ANY source is
  confirmed). Here that situation is inside the model, as the Go code treats it:

  * `common.BigIntList.Median` = `medianN`: `sort.Sort(b)` passes every element of a list of two or more to
    `Less` (`b[i].Cmp(b[j])`) at least once — a nil entry is a nil-pointer dereference; a list of one is not
    compared at all and `b[0]` is returned, nil or not; an empty list is `b[-1]`, index out of range;
  * `reportPrice.aggregate` / `aggregator.aggregate` = `Report.aggregateN` / `Aggregator.aggregateN`: the reports
    are visited in order and each visited report KEEPS the price computed for it (`r.price = …Median()`), so a
    panic in the middle leaves the earlier reports with their price — in process memory, which no transaction
    roll-back restores (confirmDSPrice skips such reports from then on);
  * `AggregatorContext.FillPrice` / the message server / baseapp.runTx = `Agc.fillPriceN`, `createPriceN`,
    `runMsgsN`, `deliverTxN`: the panic is recovered by baseapp and the transaction is REJECTED — the message's
    store writes are dropped, the ante handler's nonce increments stay (as for every failed message).

  The driver (`Driver/Oracle.lean`, op `orc.tx`) runs `deliverTxN`; the harness domain `oracle_twods` replays
  two-deterministic-source histories against it line by line. Where no aggregation meets a nil slot the layer IS
  the model of `Model/Oracle.lean` (`Proofs/OracleNil.lean: deliverTxN_eq`), so the C12–C14 theorems keep
  speaking about what is replayed.
-/
namespace ExoVerif.Oracle

/-- what `BigIntList.Median` does with a list that may hold nil entries -/
inductive MedRes
  | val (v : Option Int)   -- returned (nil for the one-element list [nil])
  | nilDeref               -- `b[i].Cmp(b[j])` on a nil *big.Int
  | emptyIndex             -- `b[l/2-1]` with l = 0
deriving Repr, DecidableEq

/-- common/types.go: BigIntList.Median over `[]*big.Int` with nil entries -/
def medianN : List (Option Int) → MedRes
  | [] => .emptyIndex
  | [x] => .val x
  | l => if l.any (·.isNone) then .nilDeref else .val (some (median (l.map (·.getD 0))))

/-- aggregator.go: reportPrice.aggregate (the value it returns is also stored in `r.price`) -/
def Report.aggregateN (r : Report) : MedRes :=
  match r.price with
  | some p => .val (some p)
  | none => medianN (r.prices.map (fun kv => kv.2.price))

/-- aggregator.go: aggregate, the loop `for _, validatorReport := range agg.reports { … validatorReport.aggregate() }`:
the reports with the prices assigned so far and, if a Median panicked, which way -/
def aggReportsN : List Report → List Report × Option String
  | [] => ([], none)
  | r :: rs =>
    match r.aggregateN with
    | .val v =>
      let (rs', e) := aggReportsN rs
      ({ r with price := v } :: rs', e)
    | .nilDeref => (r :: rs, some "median-nil")
    | .emptyIndex => (r :: rs, some "median-empty")

/-- aggregator.go: aggregator.aggregate → (aggregator as it is left, panic). `final` may stay `none` although
the threshold is exceeded: the Median of the one-element list [nil]. -/
def Aggregator.aggregateN (g : Aggregator) (a b : Int) : Aggregator × Option String :=
  if g.final.isSome then (g, none)
  else if exceedsThreshold g.reportPower g.total a b && g.ds.length > 0 then
    match aggReportsN g.reports with
    | (rs, some e) => ({ g with reports := rs }, some e)
    | (rs, none) =>
      match medianN (rs.map (·.price)) with
      | .val v => ({ g with final := v, reports := rs }, none)
      | .nilDeref => ({ g with reports := rs }, some "median-nil")
      | .emptyIndex => ({ g with reports := rs }, some "median-empty")
  else (g, none)

inductive FillResN
  | res (r : FillRes)
  | panicked (why : String)
deriving Repr, DecidableEq

/-- context.go: FillPrice, with `aggregate()` as the Go code runs it. The worker was stored in
`agc.aggregators` and mutated in place before the panic. -/
def Agc.fillPriceN (g : Agc) (p : Params) (m : Msg) : Agc × FillResN :=
  let w := (alookup m.feederID g.workers).getD (newWorker p g m.feederID)
  let g0 := { g with workers := aset m.feederID w g.workers }
  if w.sealed then (g0, .res .ignored)
  else
    let power := (alookup m.creator g.vals).getD 0
    let (w1, filled) := w.run p power m
    if filled.length > 0 then
      match w1.a with
      | none => ({ g0 with workers := aset m.feederID w1 g0.workers }, .res .ignored)
      | some a =>
        match a.aggregateN p.thA p.thB with
        | (a', some why) =>
          ({ g0 with workers := aset m.feederID { w1 with a := some a' } g0.workers }, .panicked why)
        | (a', none) =>
          match a'.final with
          | some fp =>
            let w2 : Worker := { w1 with sealed := true, price := some fp, f := none, c := none, a := none }
            let rounds' := match alookup m.feederID g0.rounds with
              | some r => aset m.feederID { r with status := .closed } g0.rounds
              | none => g0.rounds
            let f := (p.feeder? m.feederID).getD default
            let ts := ((m.prices.headD default).prices.headD default).ts
            let rid := ((alookup m.feederID g0.rounds).getD default).nextRoundID
            ({ g0 with workers := aset m.feederID w2 g0.workers, rounds := rounds' },
              .res (.final { tokenID := f.tokenID, price := fp, decimal := p.tokenDecimal m.feederID, ts := ts, roundID := rid }))
          | none =>
            ({ g0 with workers := aset m.feederID { w1 with a := some a' } g0.workers },
              .res (.cached { feederID := m.feederID, srcs := filled, validator := m.creator }))
    else ({ g0 with workers := aset m.feederID w1 g0.workers }, .res .ignored)

/-- msg_server_create_price.go: CreatePrice (DeliverTx side), as `createPrice`, over `Agc.fillPriceN`: a panic
inside NewCreatePrice leaves the message server before anything is written or cached. -/
def createPriceN (s : State) (m : Msg) : State × MsgOut :=
  if !(checkTimestamp s.blockTime m) then (s, .err .formatInvalid)
  else
    match getAgc s with
    | none => (s, .err (.panic "recache"))
    | some s =>
      match s.agc with
      | none => (s, .err (.panic "agc"))
      | some g =>
        match g.params with
        | none => (s, .err (.panic "params"))
        | some p =>
          match g.checkMsg p m with
          | some e => (s, .err e)
          | none =>
            let (g', res) := g.fillPriceN p m
            let s := { s with agc := some g' }
            match res with
            | .panicked why => (s, .err (.panic why))
            | .res .ignored => (s, .err .ignored)
            | .res (.cached it) => ({ s with cache := some { s.cacheD with msgs := s.cacheD.msgs ++ [it] } }, .ok)
            | .res (.final it) =>
              let t := s.store.token it.tokenID
              let (t', okA) := t.append p.maxSizePrices { price := some it.price, decimal := it.decimal, ts := it.ts, roundID := it.roundID }
              let t'' := if okA then t' else t.grow p.maxSizePrices
              let st := (s.store.setToken it.tokenID t'').removeNonces m.feederID (g'.vals.map (·.1))
              ({ s with store := st,
                        cache := some { s.cacheD with msgs := s.cacheD.msgs.filter (fun x => x.feederID ≠ m.feederID) } }, .ok)

def runMsgsN : State → Nat → List Msg → State × Option (Nat × MsgErr)
  | s, _, [] => (s, none)
  | s, i, m :: ms =>
    match createPriceN s m with
    | (s', .ok) => runMsgsN s' (i + 1) ms
    | (s', .err e) => (s', some (i, e))

/-- baseapp.runTx over `createPriceN`: a message that panics is a failed message — runTx's deferred recover
turns the panic into an error result, the message branch of the store is dropped, the ante branch was written
before the messages ran; process memory (aggregator context, cache) keeps what the messages did to it. -/
def deliverTxN (s : State) (tx : Tx) : State × TxOut :=
  match anteHandle s tx with
  | .error why => (s, .ante why)
  | .ok st =>
    let s1 := { s with store := st }
    match runMsgsN s1 0 tx.msgs with
    | (s2, none) => (s2, .ok)
    | (s2, some (i, e)) => ({ s2 with store := st }, .msg i e)

end ExoVerif.Oracle
