import ExoVerif.Model.EvmFee
/-
  C19 — one cosmos tx carrying SEVERAL MsgEthereumTx (evmos "batch" txs), as the code is.

  Mirrors:
    app/ante/evm: every decorator of newEVMAnteHandler loops over tx.GetMsgs() before the next decorator
      runs (sdk.ChainAnteDecorators), in DeliverTx mode:
        EthMinGasPriceDecorator, EthValidateBasicDecorator, EthSigVerificationDecorator   — per message, no state;
        EthAccountVerificationDecorator (CheckSenderBalance), CanTransferDecorator        — per message, each against
            the balance BEFORE any fee of this tx is deducted;
        EthGasConsumeDecorator   — deducts the fees one message after the other (cumulative), then compares the SUM of
            the gas limits with the block gas limit;
        EthIncrementSenderSequenceDecorator — per message: nonce = current sequence, sequence + 1 (so consecutive
            nonces of one sender are accepted).
    baseapp.runTx: runMsgs executes the messages in order in one cache; an error of any message drops the cache.
    x/evm/keeper/state_transition.go ApplyTransaction per message (intrinsic-gas error ⇒ the whole gas limit of the TX —
      ctx.GasMeter().Limit() = sum of the limits — is consumed); ApplyMessageWithConfig's contract-creation branch,
      since the F-19d repair (e39c03d)
          nonceBefore := stateDB.GetNonce(sender) ; stateDB.SetNonce(sender, msg.Nonce()) ; evm.Create ;
          if nonceBefore < msg.Nonce()+1 { nonceBefore = msg.Nonce()+1 } ; stateDB.SetNonce(sender, nonceBefore)
      (`createNonce`; before the repair: stateDB.SetNonce(sender, msg.Nonce()+1), kept as `createNoncePreFix` for the
      regression theorem), whose write reaches the store when the execution did not fail (statedb.Commit into tmpCtx,
      tmpCtx committed only `if !res.Failed()` because k.hooks != nil).
    x/evm/keeper/gas.go ResetGasMeterAndConsumeGas(ctx, totalGasUsed): the tx gas meter is reset to zero and charged
      the transient running total after every message.
-/
namespace ExoVerif.EvmFee

/-- one MsgEthereumTx of the batch with its opaque EVM result -/
structure Msg where
  t : Tx
  x : Exec
  isCreate : Bool        -- msg.To() == nil
deriving Inhabited

def setAt (f : Nat → Int) (k : Nat) (v : Int) : Nat → Int := fun a => if a = k then v else f a

/-- EthGasConsumeDecorator: DeductTxCostsFromUserBalance message after message -/
def payFees (e : Env) : (Nat → Int) → List Msg → Option (Nat → Int)
  | b, [] => some b
  | b, m :: r =>
    if anteFee e m.t ≤ b m.t.sender then
      payFees e (addAt (addAt b m.t.sender (-(anteFee e m.t))) e.collector (anteFee e m.t)) r
    else none

/-- EthIncrementSenderSequenceDecorator: nonce check merged with the increment, message after message -/
def bumpNonces : (Nat → Int) → List Msg → Option (Nat → Int)
  | n, [] => some n
  | n, m :: r => if m.t.nonce = n m.t.sender then bumpNonces (addAt n m.t.sender 1) r else none

def gasLimitSum : List Msg → Int
  | [] => 0
  | m :: r => m.t.gasLimit + gasLimitSum r

/-- the state-free and pre-balance checks of one message (decorators 3–7 of newEVMAnteHandler) -/
def msgChecksOk (e : Env) (s : St) (t : Tx) : Bool :=
  minGasPriceOk e t && wellFormed t && t.sigOk &&
  totalCostOk s t &&                                                            -- EthAccountVerificationDecorator
  decide (e.baseFee ≤ t.feeCap) &&                                              -- CanTransferDecorator
  !(decide (0 < t.value) && decide (s.bal t.sender < t.value))

/-- state after a passing ante handler, `none` when any decorator refuses any message -/
def anteBatch (e : Env) (s : St) (ms : List Msg) : Option St :=
  if decide (0 < e.blockGasLimit) && decide (e.blockGasLimit ≤ s.blockGas) then none   -- runTx: block gas meter exhausted
  else if !(ms.all (fun m => msgChecksOk e s m.t)) then none
  else match payFees e s.bal ms with
    | none => none
    | some b =>
      if decide (0 < e.blockGasLimit) && decide (e.blockGasLimit < gasLimitSum ms) then none  -- tx gas > block gas limit
      else match bumpNonces s.nonce ms with
        | none => none
        | some n => some { s with bal := b, nonce := n }

/-- x/evm/keeper/gas.go ResetGasMeterAndConsumeGas: RefundGas(GasConsumed()) then ConsumeGas(gasUsed) -/
def resetAndConsume (meter gasUsed : Int) : Int := (meter - meter) + gasUsed

/-- ApplyMessageWithConfig, contract creation (repaired, e39c03d): the nonce the sender is left with, given the nonce
    found before the call (`stateDB.GetNonce`) and msg.Nonce() — never below what the ante handler has set -/
def createNonce (nonceBefore msgNonce : Int) : Int :=
  if nonceBefore < msgNonce + 1 then msgNonce + 1 else nonceBefore

/-- the same branch BEFORE the F-19d repair: `stateDB.SetNonce(sender, msg.Nonce()+1)` whatever was found -/
def createNoncePreFix (_nonceBefore msgNonce : Int) : Int := msgNonce + 1

/-- runMsgs: the messages in order, for a given creation branch `cn`. Carries the tx gas meter and the transient
    running total of gas used. `none` = a message returned an error (intrinsic gas).
    Result: state, meter, (failed, gas) per message. -/
def execMsgsWith (cn : Int → Int → Int) (e : Env) : St → Int → Int → List Msg → Option (St × Int × List (Bool × Int))
  | s, meter, _, [] => some (s, meter, [])
  | s, meter, tot, m :: r =>
    if m.t.gasLimit < m.t.intrinsic then none
    else
      let g := gasUsed e m.t m.x
      let s1 := afterExec e s m.t m.x g
      -- ApplyMessageWithConfig, contract creation: the nonce write is persisted unless the execution failed
      let s2 : St := if m.isCreate && !m.x.failed
        then { s1 with nonce := setAt s1.nonce m.t.sender (cn (s1.nonce m.t.sender) m.t.nonce) } else s1
      let tot' := tot + g                           -- AddTransientGasUsed
      match execMsgsWith cn e s2 (resetAndConsume meter tot') tot' r with
      | none => none
      | some (s', mt, l) => some (s', mt, (m.x.failed, g) :: l)

inductive BatchOutcome where
  | rejected
  | applyErr
  | blockGas
  | executed (failed : List Bool)
deriving DecidableEq, Repr, Inhabited

/-- one DeliverTx of a batch, for a given creation branch. Returns the new state, the outcome, the gas each message's
    sender is charged for and the gas figure of the tx (ctx.GasMeter().GasConsumed(): reported as gas_used and added to
    the block gas meter). -/
def deliverBatchWith (cn : Int → Int → Int) (e : Env) (s : St) (ms : List Msg) (rejGas : Int) :
    St × BatchOutcome × List Int × Int :=
  match anteBatch e s ms with
  | none => ({ s with blockGas := s.blockGas + rejGas }, .rejected, [], rejGas)
  | some s1 =>
    match execMsgsWith cn e s1 0 0 ms with
    | none =>
      -- ApplyTransaction error path: ResetGasMeterAndConsumeGas(ctx, ctx.GasMeter().Limit()); message cache dropped
      let lim := gasLimitSum ms
      ({ s1 with blockGas := s.blockGas + lim },
       (if decide (0 < e.blockGasLimit) && decide (e.blockGasLimit < s.blockGas + lim) then .blockGas else .applyErr),
       ms.map (fun m => m.t.gasLimit), lim)
    | some (s2, meter, l) =>
      let total := s.blockGas + meter
      if decide (0 < e.blockGasLimit) && decide (e.blockGasLimit < total) then
        ({ s1 with blockGas := total }, .blockGas, ms.map (fun m => m.t.gasLimit), meter)
      else
        ({ s2 with blockGas := total }, .executed (l.map (fun p => p.1)), l.map (fun p => p.2), meter)

/-- the code as it is (creation branch of e39c03d) -/
abbrev execMsgs (e : Env) := execMsgsWith createNonce e
abbrev deliverBatch (e : Env) (s : St) (ms : List Msg) (rejGas : Int) := deliverBatchWith createNonce e s ms rejGas

/-- the code before the F-19d repair -/
abbrev deliverBatchPreFix (e : Env) (s : St) (ms : List Msg) (rejGas : Int) :=
  deliverBatchWith createNoncePreFix e s ms rejGas

/-- number of messages of the batch sent by account `a` -/
def sentBy (a : Nat) : List Msg → Int
  | [] => 0
  | m :: r => (if m.t.sender = a then 1 else 0) + sentBy a r

end ExoVerif.EvmFee
