import ExoVerif.Model.GenesisAssets
/-
  C18 — export / init / validate model of the x/operator genesis (the part that is not in Model/Genesis.lean: operator
  infos, consensus-key records as Validate sees them, opted states, (AVS, operator) USD values, AVS USD values).

  Mirrors, as they are:
    x/operator/keeper/genesis.go  ExportGenesis = AllOperators, GetAllOperatorConsKeyRecords (a new record whenever the
                                  operator of the iterated key changes), GetAllOptedInfo, GetAllAVSUSDValues,
                                  GetAllOperatorUSDValues (each iterates ONE store prefix in key order);
                                  InitGenesis = per operator: `if EarningsAddr == "" { EarningsAddr = OperatorAddress }`,
                                  setOperatorInfo (error — a panic — when the operator exists already); per record and chain
                                  setOperatorConsKeyForChainIDUnchecked; SetAllOptedInfo, SetAllOperatorUSDValues,
                                  SetAllAVSUSDValues (store.Set under the exported key, never fail);
    x/operator/types/genesis.go   Validate = ValidateOperators, ValidateOperatorConsKeyRecords, ValidateOptedStates,
                                  ValidateAVSUSDValues, ValidateOperatorUSDValues (, ValidateSlashStates,
                                  ValidatePrevConsKeys, ValidateOperatorKeyRemovals), in this order, each fed with the maps
                                  the earlier ones return. Since the F-18o / F-18p / F-18r repairs: a missing AVS USD value
                                  reads as zero, the operator's ACTIVE value is compared with the AVS's, the zero value
                                  of an AVS without opted state is accepted (`OpValCfg`; `validatePreFix` keeps the
                                  earlier validator for the regression theorems).
    x/operator/keeper/opt.go      OptIn → InitOperatorUSDValue: the (AVS, operator) entry is written with three zeros; the
    x/operator/keeper/abci.go     AVS's own USD value is written by UpdateVotingPower at the AVS's epoch end only, as the sum
                                  of the totals of the operators whose self value reaches the AVS's minimum self delegation
                                  (`epochEnd` below); an operator below it keeps its total and gets active value 0.
  The three keyed collections are prefix stores in iteration order (`ssSet`, `Sorted` of Model/GenesisAssets); the key of
  an opted state is operator ++ "/" ++ avs, of a USD value avs ++ "/" ++ operator (assetstypes.GetJoinedStoreKey), of an
  AVS USD value the AVS address as the caller wrote it. Operator infos are keyed by the raw account address: bech32
  decoding is not modelled, so their order is taken from the store and an import re-inserts them in that order (distinct
  addresses). Dec values are raw integers (value · 10¹⁸).
  Not modelled: bech32 / hex-address / chain-id / key-format checks (the exported values are produced by
  AccAddress.String(), common.Address.String(), the stored chain id and a stored ed25519 key), commission validation,
  client-chain earnings addresses, slash states (no history of the harness slashes), the "operator is registered" checks
  of ValidatePrevConsKeys / ValidateOperatorKeyRemovals.
-/
namespace ExoVerif.Genesis

/-- OptedState{Key = operator/avs, OptInfo{OptedInHeight, OptedOutHeight}} -/
structure OptState where
  operator : String
  avs : String
  inH : Nat
  outH : Nat
deriving DecidableEq, Repr, Inhabited

/-- OperatorUSDValue{Key = avs/operator, OptedUSDValue{Self, Total, Active}} -/
structure OpUSD where
  avs : String
  operator : String
  self : Int
  total : Int
  active : Int
deriving DecidableEq, Repr, Inhabited

def OptState.key (o : OptState) : String := joinKey o.operator o.avs
def OpUSD.key (u : OpUSD) : String := joinKey u.avs u.operator

/-- the x/operator stores the genesis code reads and writes -/
structure OperatorMod where
  /-- KeyPrefixOperatorInfo: (operator address, EarningsAddr) in store order -/
  operators : List (String × String)
  /-- BytePrefixForOperatorAndChainIDToConsKey: (operator, chainID, consensus address of the key) in store order -/
  keys : List (String × String × String)
  /-- KeyPrefixOperatorOptedAVSInfo -/
  optStates : List (String × OptState)
  /-- KeyPrefixUSDValueForOperator -/
  usd : List (String × OpUSD)
  /-- KeyPrefixUSDValueForAVS: key = AVS address, value = Amount -/
  avsUsd : List (String × Int)
deriving DecidableEq, Repr, Inhabited

structure OperatorDoc where
  operators : List (String × String)
  /-- OperatorConsKeyRecord{OperatorAddress, Chains[]{ChainID, ConsensusKey}} -/
  records : List (String × List (String × String))
  optStates : List OptState
  usd : List OpUSD
  avsUsd : List (String × Int)
deriving DecidableEq, Repr, Inhabited

/-! ## ExportGenesis -/

/-- x/operator/keeper/genesis.go: ExportGenesis -/
def exportOperator (s : OperatorMod) : OperatorDoc :=
  { operators := s.operators,
    records := (groupAdj (fun k : String × String × String => k.1) s.keys).map (fun g => (g.1, g.2.map (·.2))),
    optStates := s.optStates.map (·.2),
    usd := s.usd.map (·.2),
    avsUsd := s.avsUsd }

/-! ## InitGenesis -/

/-- `if op.OperatorInfo.EarningsAddr == "" { op.OperatorInfo.EarningsAddr = op.OperatorAddress }` -/
def fillEarnings (o : String × String) : String × String := (o.1, if o.2 = "" then o.1 else o.2)

/-- setOperatorInfo per exported operator: "operator already exists" is an error, InitGenesis panics on it -/
def initOperators : List (String × String) → List (String × String) → Option (List (String × String))
  | [], st => some st
  | o :: os, st => if (st.map (·.1)).contains o.1 then none else initOperators os (st ++ [fillEarnings o])

def stepOptState (o : OptState) (st : List (String × OptState)) : Option (List (String × OptState)) := some (ssSet o.key o st)
def stepUSD (u : OpUSD) (st : List (String × OpUSD)) : Option (List (String × OpUSD)) := some (ssSet u.key u st)

/-- SetAllAVSUSDValues -/
def initAvsUsd : List (String × Int) → List (String × Int) → List (String × Int)
  | [], st => st
  | a :: as, st => initAvsUsd as (ssSet a.1 a.2 st)

def flattenRecords (rs : List (String × List (String × String))) : List (String × String × String) :=
  rs.flatMap (fun r => r.2.map (fun c => (r.1, c.1, c.2)))

/-- x/operator/keeper/genesis.go: InitGenesis on an empty store; `none` = panic -/
def initOperator (d : OperatorDoc) : Option OperatorMod :=
  match initOperators d.operators [], runInit stepOptState d.optStates [], runInit stepUSD d.usd [] with
  | some os, some ss, some us => some ⟨os, flattenRecords d.records, ss, us, initAvsUsd d.avsUsd []⟩
  | _, _, _ => none

/-! ## GenesisState.Validate -/

/-- ValidateOperators: no duplicate operator address (returns the set of addresses) -/
def validateOperators (os : List (String × String)) : Bool := decide (os.map (·.1)).Nodup

/-- ValidateOperatorConsKeyRecords: no duplicate record operator, every record operator registered, within a chain id
    no consensus key twice (keysByChainID[chainID][key]) -/
def validateKeyRecords (ops : List String) (rs : List (String × List (String × String))) : Bool :=
  decide (rs.map (·.1)).Nodup && rs.all (fun r => ops.contains r.1) &&
  decide ((flattenRecords rs).map (·.2)).Nodup

/-- ValidateOptedStates: no duplicate key, operator registered, OptedOutHeight ≥ OptedInHeight -/
def validateOptStates (ops : List String) (ss : List OptState) : Bool :=
  decide (ss.map OptState.key).Nodup && ss.all (fun o => ops.contains o.operator && decide (o.inH ≤ o.outH))

/-- the set ValidateOptedStates returns: the AVS of every opted state (opted out or not) -/
def optedAVSs (ss : List OptState) : List String := ss.map (·.avs)

/-- which of the three repaired rejections of ValidateAVSUSDValues / ValidateOperatorUSDValues are in force -/
structure OpValCfg where
  /-- F-18o repair: a (AVS, operator) entry whose AVS has no USD value yet is compared with zero (before: rejected) -/
  missingAvsAsZero : Bool
  /-- F-18p repair: the operator's ACTIVE value is compared with the AVS's value (before: its total) -/
  compareActive : Bool
  /-- F-18r repair: a ZERO USD value of an AVS that occurs in no opted state is accepted (before: rejected) -/
  zeroAvsUnopted : Bool
deriving DecidableEq, Repr, Inhabited

/-- the code as it is (after the F-18o / F-18p / F-18r repairs) -/
def codeOpValCfg : OpValCfg := ⟨true, true, true⟩
/-- the code before the three repairs. Kept for the regression theorems. -/
def preFixOpValCfg : OpValCfg := ⟨false, false, false⟩

/-- ValidateAVSUSDValues: no duplicate AVS, the AVS occurs in an opted state — or, since the F-18r repair, its amount
    is zero —, the amount is not negative -/
def validateAvsUsd (cfg : OpValCfg) (avss : List String) (as : List (String × Int)) : Bool :=
  decide (as.map (·.1)).Nodup &&
  as.all (fun a => (avss.contains a.1 || (cfg.zeroAvsUnopted && a.2 == 0)) && decide (0 ≤ a.2))

/-- avsUSDValues[avsAddress] -/
def avsValue (as : List (String × Int)) (avs : String) : Option Int := (as.find? (fun a => a.1 == avs)).map (·.2)

/-- ValidateOperatorUSDValues, one entry: no negative field, operator registered, the AVS's USD value (since the F-18o
    repair a missing one reads as zero; before: rejected) is not below the entry's active value (since the F-18p repair;
    before: its total), self ≤ total, active ≤ total -/
def validateUSDItem (cfg : OpValCfg) (ops : List String) (as : List (String × Int)) (u : OpUSD) : Bool :=
  decide (0 ≤ u.self) && decide (0 ≤ u.total) && decide (0 ≤ u.active) && ops.contains u.operator &&
  (match avsValue as u.avs with
   | none => cfg.missingAvsAsZero && decide ((if cfg.compareActive then u.active else u.total) ≤ 0)
   | some v => decide ((if cfg.compareActive then u.active else u.total) ≤ v)) &&
  decide (u.self ≤ u.total) && decide (u.active ≤ u.total)

/-- ValidateOperatorUSDValues -/
def validateUSD (cfg : OpValCfg) (ops : List String) (as : List (String × Int)) (us : List OpUSD) : Bool :=
  decide (us.map OpUSD.key).Nodup && us.all (validateUSDItem cfg ops as)

/-- x/operator/types/genesis.go: GenesisState.Validate (the five checks modelled here) -/
def validateOperatorWith (cfg : OpValCfg) (d : OperatorDoc) : Bool :=
  let ops := d.operators.map (·.1)
  validateOperators d.operators && validateKeyRecords ops d.records && validateOptStates ops d.optStates &&
  validateAvsUsd cfg (optedAVSs d.optStates) d.avsUsd && validateUSD cfg ops d.avsUsd d.usd

/-- the code as it is -/
def validateOperator (d : OperatorDoc) : Bool := validateOperatorWith codeOpValCfg d
/-- the code before the F-18o / F-18p / F-18r repairs -/
def validatePreFix (d : OperatorDoc) : Bool := validateOperatorWith preFixOpValCfg d

/-! ## the writers of the USD values -/

/-- x/operator/keeper/opt.go OptIn (the part that touches these stores): the opted state and the zero USD entry -/
def optIn (s : OperatorMod) (operator avs : String) (height : Nat) : OperatorMod :=
  { s with optStates := ssSet (joinKey operator avs) ⟨operator, avs, height, 18446744073709551615⟩ s.optStates,
           usd := ssSet (joinKey avs operator) ⟨avs, operator, 0, 0, 0⟩ s.usd }

/-- x/operator/keeper/opt.go OptOut (the part that touches these stores): DeleteOperatorUSDValue, OptedOutHeight := height -/
def optOut (s : OperatorMod) (operator avs : String) (height : Nat) : OperatorMod :=
  { s with optStates := s.optStates.map (fun p => if p.1 = joinKey operator avs then (p.1, { p.2 with outH := height }) else p),
           usd := s.usd.filter (fun p => p.1 != joinKey avs operator) }

/-- x/operator/keeper/abci.go UpdateVotingPower for one AVS: `stake operator = (self, total)` as
    CalculateUSDValueForOperator returns them, `minSelf` the AVS's minimum self delegation -/
def epochEnd (s : OperatorMod) (avs : String) (minSelf : Int) (stake : String → Int × Int) : OperatorMod :=
  let upd : OpUSD → OpUSD := fun u =>
    if u.avs = avs then
      let st := stake u.operator
      ⟨u.avs, u.operator, st.1, st.2, if minSelf ≤ st.1 then st.2 else 0⟩
    else u
  let usd' := s.usd.map (fun p => (p.1, upd p.2))
  let power := ((usd'.map (·.2)).filter (fun u => u.avs == avs)).foldl (fun acc u => acc + u.active) 0
  { s with usd := usd', avsUsd := ssSet avs power s.avsUsd }

end ExoVerif.Genesis
