import ExoVerif.Model.ValSet
/-
  C07 / C16 — model of the consensus-key registry of x/operator (consensus_keys.go, opt.go,
  slash.go: SetJailedState) together with the epoch-scheduled queues of x/dogfood
  (impl_operator_hooks.go, impl_delegation_hooks.go, impl_epochs_hooks.go, opt_out.go,
  unbonding.go, pending.go, abci.go: EndBlock). Stores are total functions (absent = none / []),
  the validator set is C06's `VSet` and is updated by C06's `endBlockEpoch`.

  Identifiers: operators and consensus keys are `Nat` (ids handed out by the harness, see
  Model/ValSet.lean), undelegation records are `Nat` in order of creation, epochs are `Int`.
-/
namespace ExoVerif.ConsKeys
open ExoVerif.VMap ExoVerif.ValSet

structure St where
  nOps : Nat                        -- size of the operator universe (for store iteration)
  nKeys : Nat                       -- size of the key universe (printing only)
  nRecs : Nat                       -- undelegation records seen so far (printing only)
  epoch : Int                       -- epochInfo.CurrentEpoch of the dogfood identifier
  nUnb : Int                        -- Params.EpochsUntilUnbonded
  registered : Nat → Bool           -- IsOperator
  -- x/operator, per chain id (one chain)
  fwd : Nat → Option Nat            -- KeyForOperatorAndChainIDToConsKey: operator ↦ key
  fwd2 : Nat → Option Nat           -- KeyForChainIDAndOperatorToConsKey: operator ↦ key
  rev : Nat → Option Nat            -- KeyForChainIDAndConsKeyToOperator: cons address ↦ operator
  prevKey : Nat → Option Nat        -- KeyForChainIDAndOperatorToPrevConsKey
  removing : Nat → Bool             -- KeyForOperatorKeyRemovalForChainID (the removal marker)
  hasInfo : Nat → Bool              -- an OptedInfo record exists
  optedIn : Nat → Bool              -- … with OptedOutHeight = DefaultOptedOutHeight
  jailed : Nat → Bool               -- … .Jailed
  -- x/dogfood
  vs : DState                       -- validator set, total power, last updates (C06)
  optOutsToFinish : Int → List Nat  -- epoch ↦ operators
  optOutFinishEpoch : Nat → Option Int
  addrsToPrune : Int → List Nat     -- epoch ↦ cons addresses
  undelToMature : Int → List Nat    -- epoch ↦ record keys
  undelMaturity : Nat → Option Int
  pendingOptOuts : List Nat
  pendingAddrs : List Nat
  pendingUndel : List Nat
  epochEnd : Bool                   -- EpochEnd marker
  -- x/delegation
  holds : Nat → Nat                 -- undelegation hold count

def St.init (nOps nKeys : Nat) (epoch nUnb : Int) : St :=
  { nOps := nOps, nKeys := nKeys, nRecs := 0, epoch := epoch, nUnb := nUnb, registered := fun _ => false,
    fwd := fun _ => none, fwd2 := fun _ => none, rev := fun _ => none, prevKey := fun _ => none,
    removing := fun _ => false, hasInfo := fun _ => false, optedIn := fun _ => false, jailed := fun _ => false,
    vs := { vals := [], lastTotalPower := 0, valUpdates := [] },
    optOutsToFinish := fun _ => [], optOutFinishEpoch := fun _ => none, addrsToPrune := fun _ => [],
    undelToMature := fun _ => [], undelMaturity := fun _ => none,
    pendingOptOuts := [], pendingAddrs := [], pendingUndel := [], epochEnd := false, holds := fun _ => 0 }

/-- function update -/
def upd {α β : Type} [DecidableEq α] (f : α → β) (a : α) (b : β) : α → β := fun x => if x = a then b else f x

inductive Out where
  | ok | errNotOperator | errAlreadyOptedIn | errMinDelegation | errAlreadyRemovingKey
  | errConsKeyInUse | errNotOptedIn | panic
deriving DecidableEq, Repr, Inhabited

/-- unbonding.go: GetUnbondingCompletionEpoch -/
def completionEpoch (s : St) : Int := s.epoch + s.nUnb

/-- impl_operator_hooks.go: AfterOperatorKeyReplaced (oldKey) -/
def hookReplaced (s : St) (oldKey : Nat) : St :=
  if has s.vs.vals oldKey then
    { s with addrsToPrune := upd s.addrsToPrune (completionEpoch s) (s.addrsToPrune (completionEpoch s) ++ [oldKey]) }
  else
    { s with rev := upd s.rev oldKey none }

/-- consensus_keys.go: setOperatorConsKeyForChainID (genesis = false, operator not frozen) -/
def setKeyCore (s : St) (op key : Nat) : Out × St :=
  if s.removing op then (.errAlreadyRemovingKey, s)
  else if (s.rev key).isSome then (.errConsKeyInUse, s)
  else
    match s.fwd op with
    | some pk =>
      if pk = key then (.ok, s)
      else
        let already := (s.prevKey op).isSome
        let s1 := if already then s else { s with prevKey := upd s.prevKey op (some pk) }
        let s2 := { s1 with fwd := upd s1.fwd op (some key), fwd2 := upd s1.fwd2 op (some key),
                            rev := upd s1.rev key (some op) }
        (.ok, if already then s2 else hookReplaced s2 pk)
    | none =>
      (.ok, { s with fwd := upd s.fwd op (some key), fwd2 := upd s.fwd2 op (some key),
                     rev := upd s.rev key (some op) })

/-- msg_server.go: OptIntoAVS for the chain-type AVS = opt.go: OptInWithConsKey in a cache context
(all or nothing). `selfOK` = the operator's self USD value meets the AVS minimum. -/
def optIn (s : St) (op key : Nat) (selfOK : Bool) : Out × St :=
  if !s.registered op then (.errNotOperator, s)
  else if s.optedIn op then (.errAlreadyOptedIn, s)
  else if !selfOK then (.errMinDelegation, s)
  else
    let s1 := { s with hasInfo := upd s.hasInfo op true, optedIn := upd s.optedIn op true,
                       jailed := upd s.jailed op false }
    match setKeyCore s1 op key with
    | (.ok, s2) => (.ok, s2)
    | (e, _) => (e, s)

/-- msg_server.go: SetConsKey -/
def setKey (s : St) (op key : Nat) : Out × St :=
  if !(s.optedIn op && !s.jailed op) then (.errNotOptedIn, s)
  else setKeyCore s op key

/-- opt_out.go: SetOptOutInformation -/
def setOptOutInformation (s : St) (op : Nat) : St :=
  { s with optOutsToFinish := upd s.optOutsToFinish (completionEpoch s) (s.optOutsToFinish (completionEpoch s) ++ [op]),
           optOutFinishEpoch := upd s.optOutFinishEpoch op (some (completionEpoch s)) }

/-- consensus_keys.go: CompleteOperatorKeyRemovalForChainID (errors are logged and ignored) -/
def completeRemoval (s : St) (op : Nat) : St :=
  if !s.registered op then s
  else if !s.removing op then s
  else
    match s.fwd op with
    | none => s                    -- (nil key: cannot happen while the marker is set)
    | some key =>
      { s with fwd := upd s.fwd op none, fwd2 := upd s.fwd2 op none, rev := upd s.rev key none,
               removing := upd s.removing op false }

/-- opt.go: OptOut + consensus_keys.go: InitiateOperatorKeyRemovalForChainID +
impl_operator_hooks.go: AfterOperatorKeyRemovalInitiated (after "fix: opt-out before the key is
active"): the opt-out is scheduled when the current key *or the key it replaced during this
epoch* is in the validator set, otherwise the removal is completed at once. -/
def optOut (s : St) (op : Nat) : Out × St :=
  if !s.registered op then (.errNotOperator, s)
  else if !(s.optedIn op && !s.jailed op) then (.errNotOptedIn, s)
  else
    match s.fwd op with
    | none => (.panic, s)          -- nil key handed to the hook
    | some key =>
      let s1 := { s with optedIn := upd s.optedIn op false, removing := upd s.removing op true }
      let prevIn := match s.prevKey op with | some pk => has s.vs.vals pk | none => false
      if has s.vs.vals key || prevIn then (.ok, setOptOutInformation s1 op)
      else (.ok, completeRemoval s1 op)

/-- slash.go: SetJailedState through impl_sdk.go: Jail / Unjail (by consensus address) -/
def setJailed (s : St) (key : Nat) (b : Bool) : St :=
  match s.rev key with
  | none => s
  | some op => if s.hasInfo op then { s with jailed := upd s.jailed op b } else s

/-- x/dogfood/keeper/impl_sdk.go: SlashWithInfractionReason (the staking interface the SDK's
slashing / evidence modules call with a *consensus address*): the operator that is handed to
x/operator's SlashWithInfractionReason. The only early return before that call is `!found` of
`GetOperatorAddressForChainIDAndConsAddr` — whether the key is (still) in the dogfood validator
store is NOT looked at, so a replaced / removed key stays slashable while the reverse index keeps it. -/
def slashTarget (s : St) (key : Nat) : Option Nat := s.rev key

/-- impl_sdk.go: Jail / Unjail → x/operator slash.go: SetJailedState: the operator whose `Jailed`
flag is written (`!found` on the same reverse lookup returns; HandleOptedInfo fails without a
record and the error is only logged) -/
def jailTarget (s : St) (key : Nat) : Option Nat :=
  match s.rev key with
  | none => none
  | some op => if s.hasInfo op then some op else none

/-- x/operator slash.go: SlashWithInfractionReason → Slash → SlashAssets: the operators that end up
with a slash record when evidence for `key` is handled; `staked op` = the operator's
StakingAndWaitUnbonding value is positive (otherwise SlashAssets refuses: nothing to slash) -/
def slashedBy (s : St) (key : Nat) (staked : Nat → Bool) : List Nat :=
  match slashTarget s key with
  | some op => if staked op then [op] else []
  | none => []

/-- x/dogfood/keeper/impl_sdk.go: ValidatorByConsAddr → x/operator/keeper/consensus_keys.go:
ValidatorByConsAddrForChainID — the GATE of the two SDK callers: x/slashing's HandleValidatorSignature
(downtime) and x/evidence's HandleEquivocationEvidence (double sign) first ask for the validator of the
consensus address and return without slashing or jailing when the answer is nil. The operator of the
returned validator: the reverse lookup must resolve the address (`!found` returns), and the resolved
operator must be registered and have a CURRENT key (`GetOperatorConsKeyForChainID`: the validator object
is built from the operator's current public key, whatever address was asked for). -/
def validatorTarget (s : St) (key : Nat) : Option Nat :=
  match s.rev key with
  | none => none
  | some op => if s.registered op && (s.fwd op).isSome then some op else none

/-- impl_delegation_hooks.go: AfterUndelegationStarted (after "fix: undelegation in the block
that finishes an opt-out"). Result: (outcome, state). -/
def undelegationStarted (s : St) (op rec : Nat) : Out × St :=
  let hold (slot : Int) : St :=
    { s with undelToMature := upd s.undelToMature slot (s.undelToMature slot ++ [rec]),
             undelMaturity := upd s.undelMaturity rec (some slot),
             holds := upd s.holds rec (s.holds rec + 1) }
  if s.removing op then
    match s.optOutFinishEpoch op with
    | some f => (.ok, hold f)
    | none => (.ok, s)             -- finish epoch already consumed (closing block): not held
  else if !s.registered op then (.ok, s)
  else
    match s.fwd op with
    | none => (.ok, s)
    | some k =>
      let isVal := has s.vs.vals k ||
        (match s.prevKey op with | some pk => has s.vs.vals pk | none => false)
      if isVal then (.ok, hold (completionEpoch s)) else (.ok, s)

/-- The two entry points of an undelegation request: a direct call of x/delegation's keeper object kept in the
app (message server, genesis, tests) and the delegation precompile (precompiles/delegation/tx.go: Undelegate),
which calls `UndelegateFrom` on ITS OWN COPY of the keeper (app/app.go: `evmkeeper.AvailablePrecompiles(…,
app.DelegationKeeper, …)` takes the keeper by value). -/
inductive Entry where
  | keeper | precompile
deriving DecidableEq, Repr, Inhabited

/-- x/delegation/keeper/delegation.go: UndelegateFrom ends with `k.Hooks().AfterUndelegationStarted(…)`;
keeper.go: `Hooks()` returns the no-op `MultiDelegationHooks{}` when SetHooks was not called on THIS copy of
the keeper. `wired` = the keeper object behind the entry point had its hooks set: then the request runs
dogfood's hook, otherwise it is accepted and nothing else happens. -/
def undelegateVia (wired : Bool) (s : St) (op rec : Nat) : Out × St :=
  if wired then undelegationStarted s op rec else (.ok, s)

/-- app/app.go: NewExocoreApp since "fix: set the delegation hooks before the precompiles copy the delegation
keeper": SetHooks runs before every by-value copy of the delegation keeper that can start an undelegation
(tie: `C16_tie_no_hookless_copy_calls_hooks`), so both entry points are wired. -/
def hooksWired : Entry → Bool := fun _ => true

/-- … before that fix (finding F-16b): the precompile's copy was made first and never saw SetHooks -/
def hooksWiredPreFix : Entry → Bool
  | .keeper => true
  | .precompile => false

/-- x/delegation/keeper/abci.go: EndBlock at the record's CompleteBlockNumber (= BlockNumber +
operatortypes.UnbondingExpiration, 10 blocks): a record whose hold count is 0 is completed and deleted, one with a
positive hold count is re-queued for the next block. Epochs play no part in it. -/
def delegationExpiryCompletes (s : St) (rec : Nat) : Bool := s.holds rec == 0

/-- impl_epochs_hooks.go: AfterEpochEnd for the dogfood identifier with number `e`, followed by
the epochs keeper's increment of the stored current epoch -/
def epochEndHook (s : St) (e : Int) : St :=
  { s with
    epochEnd := true,
    pendingOptOuts := s.optOutsToFinish e,
    optOutFinishEpoch := fun op => if op ∈ s.optOutsToFinish e then none else s.optOutFinishEpoch op,
    optOutsToFinish := upd s.optOutsToFinish e [],
    pendingAddrs := s.addrsToPrune e,
    addrsToPrune := upd s.addrsToPrune e [],
    pendingUndel := s.undelToMature e,
    undelToMature := upd s.undelToMature e [],
    epoch := e + 1 }

/-- abci.go: EndBlock — release of one pending undelegation -/
def releaseUndel (s : St) (rec : Nat) : St :=
  { s with holds := upd s.holds rec (s.holds rec - 1), undelMaturity := upd s.undelMaturity rec none }

/-- consensus_keys.go: GetActiveOperatorsForChainID ⋈ GetVotePowerForChainID -/
def candsOf (s : St) (power : Nat → Int) : List Cand :=
  (List.range s.nOps).filterMap (fun op =>
    match s.fwd2 op with
    | some key => if s.optedIn op && !s.jailed op then some ⟨op, key, power op, (s.rev key).isSome⟩ else none
    | none => none)

/-- abci.go: EndBlock -/
def endBlock (s : St) (power : Nat → Int) (maxVals : Nat) : St :=
  if !s.epochEnd then { s with vs := (endBlockOther s.vs).1 }
  else
    let s1 := { s with prevKey := fun _ => none }                           -- ClearPreviousConsensusKeys
    let s2 := { (s1.pendingUndel.foldl releaseUndel s1) with pendingUndel := [] }
    let s3 := { (s2.pendingOptOuts.foldl completeRemoval s2) with pendingOptOuts := [] }
    let s4 := { s3 with rev := fun k => if k ∈ s3.pendingAddrs then none else s3.rev k, pendingAddrs := [] }
    let vs' := (endBlockEpoch s4.vs (candsOf s4 power) maxVals).1
    { s4 with vs := vs', epochEnd := false }

/-- the operations of a history -/
inductive Op where
  | register (op : Nat)
  | optIn (op key : Nat) (selfOK : Bool)
  | setKey (op key : Nat)
  | optOut (op : Nat)
  | jail (key : Nat) (b : Bool)
  | undelegate (op rec : Nat)
  | setUnbonding (n : Int)
  | epochEnd (e : Int)
  | endBlock (power : Nat → Int) (maxVals : Nat)

def step (s : St) : Op → Out × St
  | .register op => (.ok, { s with registered := upd s.registered op true })
  | .optIn op key ok => optIn s op key ok
  | .setKey op key => setKey s op key
  | .optOut op => optOut s op
  | .jail key b => (.ok, setJailed s key b)
  | .undelegate op rec => undelegationStarted s op rec
  | .setUnbonding n => (.ok, { s with nUnb := n })
  | .epochEnd e => (.ok, epochEndHook s e)
  | .endBlock power maxVals => (.ok, endBlock s power maxVals)

def run (s : St) (ops : List Op) : St := ops.foldl (fun s o => (step s o).2) s


/-! ## pre-fix shapes, kept as regression counter-examples (findings F-07a, F-16a) -/

/-- AfterOperatorKeyRemovalInitiated before the fix: key not in the set ⇒ only the reverse lookup
is deleted (marker and forward indexes stay, no finish epoch) -/
def optOutPreFix (s : St) (op : Nat) : Out × St :=
  if !s.registered op then (.errNotOperator, s)
  else if !(s.optedIn op && !s.jailed op) then (.errNotOptedIn, s)
  else
    match s.fwd op with
    | none => (.panic, s)
    | some key =>
      let s1 := { s with optedIn := upd s.optedIn op false, removing := upd s.removing op true }
      if has s.vs.vals key then (.ok, setOptOutInformation s1 op)
      else (.ok, { s1 with rev := upd s1.rev key none })

/-- AfterUndelegationStarted before the fix: a missing finish epoch reads as −1 ⇒ nil store key ⇒ panic -/
def undelegationStartedPreFix (s : St) (op rec : Nat) : Out × St :=
  if s.removing op then
    match s.optOutFinishEpoch op with
    | some _ => undelegationStarted s op rec
    | none => (.panic, s)
  else undelegationStarted s op rec

def stepPreFix (s : St) : Op → Out × St
  | .optOut op => optOutPreFix s op
  | .undelegate op rec => undelegationStartedPreFix s op rec
  | o => step s o

def runPreFix (s : St) (ops : List Op) : St := ops.foldl (fun s o => (stepPreFix s o).2) s

end ExoVerif.ConsKeys
