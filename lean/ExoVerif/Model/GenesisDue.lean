import ExoVerif.Model.Genesis
/-
  C18 — the heights of the undelegation records and the height guard of the writer the import goes through.

  Mirrors, as they are:
    x/delegation/keeper/un_delegation_state.go  SetUndelegationRecords: `currentHeight := ctx.BlockHeight()`, per record
                                     `if record.CompleteBlockNumber < uint64(currentHeight) { return ErrInvalidCompletedHeight }`
                                     (`rejects codeDueCfg`); the whole call fails on the first rejected record;
    x/delegation/keeper/genesis.go   InitGenesis = SetUndelegationRecords(ctx, gs.Undelegations) and PANICS on its error
                                     (`initAt` = none). InitChain runs InitGenesis at the height the document was exported
                                     with: app/export.go ExportAppStateAndValidators returns LastBlockHeight()+1, BaseApp.InitChain
                                     puts req.InitialHeight into the header of the InitGenesis context;
    x/delegation/keeper/delegation.go UndelegateFrom: BlockNumber = ctx.BlockHeight(), CompleteBlockNumber =
                                     GetUnbondingExpirationBlockNumber = BlockNumber + UnbondingExpiration (10) (`undelegate`);
    x/delegation/keeper/abci.go      EndBlock at height h handles GetPendingUndelegationRecords(h) = the records with
                                     CompleteBlockNumber = h: a record with a hold count > 0 is deleted and written back with
                                     CompleteBlockNumber = h+1 (through SetUndelegationRecords at height h, whose guard h+1 < h
                                     never fires), every other one is completed and deleted (`endBlockRec`). The error paths of
                                     the completion (`continue` with the record left where it is) are not modelled: they
                                     need a failing UpdateDelegationState / UpdateStakerAssetState on a record the module
                                     wrote itself.
  Hold counts change through x/dogfood (hook at the undelegation, release at an epoch end); they are an arbitrary input of
  every block here (`Block.holdsPre` / `holdsPost`): the heights do not depend on who holds what.
-/
namespace ExoVerif.Genesis

/-- the comparison of the guard of SetUndelegationRecords -/
structure DueCfg where
  /-- the guard also rejects a record whose CompleteBlockNumber IS the current height (`<=`); the code: `<` -/
  rejectEq : Bool
deriving DecidableEq, Repr, Inhabited

/-- the code as it is: `record.CompleteBlockNumber < uint64(currentHeight)` -/
def codeDueCfg : DueCfg := ⟨false⟩
/-- a writer that wants the completion height strictly in the future (`<=`): kept for the regression theorems -/
def strictDueCfg : DueCfg := ⟨true⟩

/-- SetUndelegationRecords at height `h`: is a record completing at `complete` rejected? -/
def rejects (G : DueCfg) (h complete : Int) : Bool :=
  decide (complete < h) || (G.rejectEq && decide (complete = h))

/-- SetUndelegationRecords on a list of records: nil error iff no record is rejected -/
def setRecordsOk (G : DueCfg) (h : Int) (completes : List Int) : Bool :=
  completes.all (fun c => !rejects G h c)

/-- InitGenesis of the core at height `h`: x/delegation panics when SetUndelegationRecords returns an error -/
def initAt (P : Prefixes) (G : DueCfg) (bt h : Int) (d : Doc) : Option Core :=
  if setRecordsOk G h (d.undelegations.map (fun r => r.2.1)) then some (init P bt h d) else none

/-- export of the state committed by block h-1, import at height h -/
def roundtripAt (P : Prefixes) (G : DueCfg) (bt h : Int) (s : Core) : Option Core := initAt P G bt h (exportDoc P s)

/-- x/operator/types/keys.go UnbondingExpiration -/
def unbondingExpiration : Int := 10

/-- UndelegateFrom in block `h`: a new record completing at h + UnbondingExpiration -/
def undelegate (h : Int) (id : String) (amount hold : Int) (us : List Und) : List Und :=
  us ++ [{ id := id, complete := h + unbondingExpiration, amount := amount, hold := hold }]

/-- x/delegation EndBlock at height `h`, one record: due and held = re-queued for h+1; due and not held = completed
    (deleted); not due = untouched -/
def endBlockRec (h : Int) (u : Und) : Option Und :=
  if u.complete = h then
    (if u.hold > 0 then some { u with complete := h + 1 } else none)
  else some u

def endBlock (h : Int) (us : List Und) : List Und := us.filterMap (endBlockRec h)

/-- what happens to the records in one block: undelegations of the block's transactions (id, amount, hold placed by the
    x/dogfood hook), the hold counts as x/delegation's EndBlock reads them, the hold counts the block leaves -/
structure Block where
  news : List (String × Int × Int)
  holdsPre : Und → Int
  holdsPost : Und → Int

def runBlock (h : Int) (b : Block) (us : List Und) : List Und :=
  let us1 := us ++ b.news.map (fun n => { id := n.1, complete := h + unbondingExpiration, amount := n.2.1, hold := n.2.2 : Und })
  let us2 := us1.map (fun u => { u with hold := b.holdsPre u })
  (endBlock h us2).map (fun u => { u with hold := b.holdsPost u })

/-- blocks h0, h0+1, … -/
def runBlocks : Int → List Block → List Und → List Und
  | _, [], us => us
  | h0, b :: bs, us => runBlocks (h0 + 1) bs (runBlock h0 b us)

/-- a block without transactions that leaves the hold counts alone -/
def idleBlock : Block := { news := [], holdsPre := fun u => u.hold, holdsPost := fun u => u.hold }

end ExoVerif.Genesis
