import ExoVerif.Basic.Dec
import ExoVerif.Basic.KV
import ExoVerif.Model.Epochs
/-
  Model of x/feedistribution/keeper/allocation.go (AllocateTokens, AllocateTokensToValidator,
  AllocateTokensToStakers, AllocateTokensToSingleStaker), x/feedistribution/keeper/hooks.go
  (AfterEpochEnd) and x/exomint/keeper/impl_epochs_hooks.go (AfterEpochEnd), composed with the
  epoch clock of Model/Epochs.lean in the subscriber order of app/app.go
  (distribution … mint).

  One denomination: `sdk.DecCoins` is a per-denomination map whose operations (Add, Sub, MulDec,
  MulDecTruncate) act on each denomination independently and drop zero entries, so a DecCoins value
  restricted to one denomination is one `LegacyDec`, kept here as its raw integer (amount·10^18);
  "absent" = 0. `DecCoins.Sub` panics when a result is negative: `none` below is that panic (it
  happens inside BeginBlock, i.e. the node halts). Coin balances are integers (base units).

  The code is mirrored as it is after the repairs of F-17a (community pool receives `remaining`)
  and F-17b (a staker is listed once, its power accumulated); the pre-fix behaviour is kept as
  `allocStakersPre` for the regression counter-examples.
-/
namespace ExoVerif.Distr
open ExoVerif ExoVerif.KV

/-- key → raw LegacyDec amount of the one denomination -/
abbrev Book := List (String × Int)

/-- `x.Rewards = x.Rewards.Add(reward...)` followed by the store write -/
def bookAdd (b : Book) (k : String) (x : Int) : Book := set b k (getD b k 0 + x)

def bookSum (b : Book) : Int := sumBy (fun x => x) b

/-- one validator as AllocateTokens sees it -/
structure ValIn where
  op : String                       -- operator (validator) address: key of commission / outstanding
  power : Int                       -- ExocoreValidator.Power
  rate : Int                        -- OperatorInfo.Commission.Rate, raw LegacyDec
  found : Bool                      -- ValidatorByConsAddrForChainID found (else `continue`)
  stakers : List (String × Int)     -- globalStakerAddressList in collection order, each with the
                                    -- power CalculateUSDValueForStaker returned for that occurrence
deriving Repr, Inhabited

/-- the booked claims of x/feedistribution -/
structure Pool where
  community : Int                   -- FeePool.CommunityPool
  commission : Book                 -- ValidatorAccumulatedCommission
  rewards : Book                    -- StakerOutstandingRewards
  outstanding : Book                -- ValidatorOutstandingRewards
deriving Repr, Inhabited

/-- the collection loop of AllocateTokensToStakers: a staker is listed once (first visit) and its
power accumulates over its visits. The association list plays both roles: its keys, in order of
first visit, are `globalStakerAddressList`; its values are `stakersPowerMap`. -/
def powerAcc : List (String × Int) → Book → Book
  | [], m => m
  | (s, p) :: rest, m => powerAcc rest (bookAdd m s p)

/-- `curTotalStakersPowers`: every visit is added -/
def occTotal : List (String × Int) → Int
  | [] => 0
  | (_, p) :: rest => p + occTotal rest

/-- allocation.go: AllocateTokensToStakers, the pay-out loop over globalStakerAddressList.
(`sort.Slice` only permutes the list; the additions commute and `remaining` only decreases, so the
final books and whether `Sub` panics do not depend on the order.) -/
def stakerLoop (total R : Int) : List (String × Int) → Book → Int → Option (Book × Int)
  | [], rw, rem => some (rw, rem)
  | (s, p) :: rest, rw, rem =>                                          -- p = stakersPowerMap[staker]
    let frac := Dec.quoTruncate ⟨p⟩ ⟨total⟩                              -- stakerPower.QuoTruncate(total)
    let r := (Dec.mulTruncate ⟨R⟩ frac).raw                             -- rewardToAllStakers.MulDecTruncate
    let rem' := rem - r                                                 -- remaining.Sub (panics if negative)
    if rem' < 0 then none else stakerLoop total R rest (bookAdd rw s r) rem'

/-- allocation.go: AllocateTokensToStakers. Returns the staker book and the community pool, which
receives `remaining`. -/
def allocStakers (rw : Book) (community : Int) (occ : List (String × Int)) (R : Int) : Option (Book × Int) :=
  let total := occTotal occ
  let pm := powerAcc occ []
  if 0 < total then
    match stakerLoop total R pm rw R with
    | none => none
    | some (rw', rem) => some (rw', community + rem)
  else some (rw, community + R)

/-! ### the code before the repairs of F-17a / F-17b, kept as a regression counter-example -/

/-- pre-fix `stakersPowerMap[staker] = curStakerPower`: last visit wins -/
def powerMapPre : List (String × Int) → Book → Book
  | [], m => m
  | (s, p) :: rest, m => powerMapPre rest (set m s p)

/-- pre-fix pay-out loop: one pay-out per VISIT, each with the power of the last visit -/
def stakerLoopPre (pm : Book) (total R : Int) : List (String × Int) → Book → Int → Option (Book × Int)
  | [], rw, rem => some (rw, rem)
  | (s, _) :: rest, rw, rem =>
    let r := (Dec.mulTruncate ⟨R⟩ (Dec.quoTruncate ⟨getD pm s 0⟩ ⟨total⟩)).raw
    let rem' := rem - r
    if rem' < 0 then none else stakerLoopPre pm total R rest (bookAdd rw s r) rem'

/-- pre-fix AllocateTokensToStakers: the community pool received `rewardToAllStakers` -/
def allocStakersPre (rw : Book) (community : Int) (occ : List (String × Int)) (R : Int) : Option (Book × Int) :=
  let total := occTotal occ
  if 0 < total then
    match stakerLoopPre (powerMapPre occ []) total R occ rw R with
    | none => none
    | some (rw', _) => some (rw', community + R)
  else some (rw, community + R)

/-- allocation.go: AllocateTokensToValidator -/
def allocValidatorWith (alloc : Book → Int → List (String × Int) → Int → Option (Book × Int))
    (p : Pool) (v : ValIn) (tokens : Int) : Option Pool :=
  let com := (Dec.mul ⟨tokens⟩ ⟨v.rate⟩).raw                           -- tokens.MulDec(rate)
  let shared := tokens - com                                            -- tokens.Sub(commission)
  if shared < 0 then none else
  match alloc p.rewards p.community v.stakers shared with
  | none => none
  | some (rw, comm) =>
    some { community := comm, commission := bookAdd p.commission v.op com, rewards := rw,
           outstanding := bookAdd p.outstanding v.op tokens }

def allocValidator := allocValidatorWith allocStakers

/-- the validator's share: feeMultiplier.MulDecTruncate(NewDec(power).QuoTruncate(NewDec(total))) -/
def valReward (fm total power : Int) : Int :=
  (Dec.mulTruncate ⟨fm⟩ (Dec.quoTruncate (Dec.ofInt power) (Dec.ofInt total))).raw

/-- allocation.go: AllocateTokens, the loop over GetAllExocoreValidators -/
def valLoopWith (alloc : Book → Int → List (String × Int) → Int → Option (Book × Int))
    (fm total : Int) : List ValIn → Pool → Int → Option (Pool × Int)
  | [], p, rem => some (p, rem)
  | v :: rest, p, rem =>
    if !v.found then valLoopWith alloc fm total rest p rem
    else
      let reward := valReward fm total v.power
      match allocValidatorWith alloc p v reward with
      | none => none
      | some p' =>
        let rem' := rem - reward                                        -- remaining.Sub(reward)
        if rem' < 0 then none else valLoopWith alloc fm total rest p' rem'

def valLoop := valLoopWith allocStakers

/-- module accounts and supply of the native denomination (base units) plus the claims -/
structure St where
  supply : Int
  fc : Int            -- fee_collector balance
  mint : Int          -- exomint module account balance
  distr : Int         -- feedistribution module account balance
  pool : Pool
deriving Repr, Inhabited

/-- feeMultiplier = feesCollected.MulDecTruncate(1 - communityTax) -/
def feeMultiplier (feesDec tax : Int) : Int :=
  (Dec.mulTruncate ⟨feesDec⟩ (Dec.sub Dec.one ⟨tax⟩)).raw

/-- allocation.go: AllocateTokens -/
def allocateTokensWith (alloc : Book → Int → List (String × Int) → Int → Option (Book × Int))
    (s : St) (total tax : Int) (vals : List ValIn) : Option St :=
  let fees := s.fc
  let feesDec := fees * PREC                                            -- NewDecCoinsFromCoins
  let s1 : St := { s with fc := 0, distr := s.distr + fees }            -- SendCoinsFromModuleToModule
  if total == 0 then
    some { s1 with pool := { s1.pool with community := s1.pool.community + feesDec } }
  else
    match valLoopWith alloc (feeMultiplier feesDec tax) total vals s1.pool feesDec with
    | none => none
    | some (p, rem) => some { s1 with pool := { p with community := p.community + rem } }

def allocateTokens := allocateTokensWith allocStakers
def allocateTokensPre := allocateTokensWith allocStakersPre

/-- exomint/keeper/impl_epochs_hooks.go: AfterEpochEnd for the matching identifier:
MintCoins to the exomint account, then AddCollectedFees forwards them to the fee collector. -/
def mintHook (s : St) (reward : Int) : St :=
  if reward == 0 then s
  else
    let s1 : St := { s with supply := s.supply + reward, mint := s.mint + reward }
    { s1 with mint := s1.mint - reward, fc := s1.fc + reward }

structure Cfg where
  distrId : String      -- feedistribution Params.EpochIdentifier
  mintId : String       -- exomint Params.EpochIdentifier
  reward : Int          -- exomint Params.EpochReward
  tax : Int             -- feedistribution Params.CommunityTax, raw LegacyDec
deriving Repr, Inhabited

/-- one epoch-end notification delivered in app.go's subscriber order: distribution first
(hooks.go: AfterEpochEnd), mint later (the subscribers in between do not touch this state). -/
def onEpochEnd (c : Cfg) (s : St) (id : String) (total : Int) (vals : List ValIn) : Option St :=
  let s1 := if id == c.distrId then allocateTokens s total c.tax vals else some s
  match s1 with
  | none => none
  | some s1 => some (if id == c.mintId then mintHook s1 c.reward else s1)

/-- all notifications of one BeginBlock, in order (epoch starts are no-ops for both modules) -/
def onEvents (c : Cfg) (total : Int) (vals : List ValIn) : List Epochs.Ev → St → Option St
  | [], s => some s
  | Epochs.Ev.epochStart _ _ :: rest, s => onEvents c total vals rest s
  | Epochs.Ev.epochEnd id _ :: rest, s =>
    match onEpochEnd c s id total vals with
    | none => none
    | some s' => onEvents c total vals rest s'

/-- what one block reads: header time/height, LastTotalPower, the validator view -/
structure BlockIn where
  bt : Int
  h : Int
  total : Int
  vals : List ValIn
deriving Repr, Inhabited

/-- one BeginBlock: the epoch clock ticks, then the notifications are delivered -/
def block (c : Cfg) (es : List Epochs.EpochInfo) (s : St) (b : BlockIn) :
    List Epochs.EpochInfo × List Epochs.Ev × Option St :=
  let (es', evs) := Epochs.beginBlocker es b.bt b.h
  (es', evs, onEvents c b.total b.vals evs s)

/-- number of end notifications of identifier `id` in a stream -/
def countEnds (id : String) : List Epochs.Ev → Int
  | [] => 0
  | Epochs.Ev.epochStart _ _ :: rest => countEnds id rest
  | Epochs.Ev.epochEnd i _ :: rest => (if i == id then 1 else 0) + countEnds id rest

/-- all booked claims -/
def claims (p : Pool) : Int := p.community + bookSum p.commission + bookSum p.rewards

end ExoVerif.Distr
