import ExoVerif.Basic.Dec
/-
  C04 — admission of a slash: x/operator/keeper/slash.go: CheckSlashParameter, the first thing
  Keeper.Slash does (a rejected slash is only logged by SlashWithInfractionReason: nothing is
  slashed, nothing is recorded).
-/
namespace ExoVerif.Ledger
open ExoVerif

/-- CheckSlashParameter returns an error: the proportion is nil or negative, the event lies in
the future, or the power does not fit the kind of AVS (dogfood: > 0, others: = 0). -/
def slashParamRejects (pNil pNeg : Bool) (evH h power : Int) (dogfood : Bool) : Bool :=
  pNil || pNeg || decide (h < evH) || (if dogfood then decide (power ≤ 0) else power != 0)

/-- the same for a slash factor given as a `Dec` (never nil when it comes from the slashing
module's params) -/
def slashAdmitted (p : Dec) (evH h power : Int) (dogfood : Bool) : Bool :=
  !slashParamRejects false (decide (p.raw < 0)) evH h power dogfood

end ExoVerif.Ledger
