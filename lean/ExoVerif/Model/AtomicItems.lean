import ExoVerif.Model.Atomic
import ExoVerif.Model.AtomicValues
/-!
# The per-item loops of block-begin/end processing: where the cache context stands (C09, second sentence)

Three loop disciplines occur (or could occur) around "one item" of block processing:

* `Atomic.runItems`          a cache context PER ITEM, created inside the loop body and written on the item's
                             success paths only (x/delegation EndBlock: `for … { cc, writeCache := originalCtx.CacheContext(); … }`);
* `Items.runItemsPlain`      no cache context around the item: the item runs on the block's context, its error is
                             logged (x/operator and x/avs AfterEpochEnd, the SDK's evidence / slashing loops → Slash);
* `runItemsShared` (here)    ONE cache context created before the loop and shared by all items: every success path
                             still calls `writeCache()`, every error path still `continue`s without it — but the
                             context is not reset after a failure, so what a failed item wrote stays in it and is
                             written to the block's context by the next item that succeeds.

The third is not what the code does; it is modelled to be refuted (`C09_shared_cache_not_isolating`) and it is what
the fact `blockLoopCacheScope` (`C09_tie_block_loop_cache_scope`) separates from the first.  Core Lean only.
-/
namespace ExoVerif.Atomic
namespace Items
open ExoVerif.AtomicValues.Items

/-- `cc, writeCache := originalCtx.CacheContext()` hoisted out of `for i := range records`: the pair is
(block context, shared cache context).  An item runs on the cache context; success ⇒ `writeCache()` (the block
context becomes the cache context's content), failure ⇒ `continue` (the cache context keeps the partial writes). -/
def sharedStep {σ : Type} (p : σ × σ) (it : Eff σ Unit) : σ × σ :=
  match it p.2 with
  | (.ok _, c') => (c', c')
  | (.error _, c') => (p.1, c')

/-- the state of the block's context after the loop -/
def runItemsShared {σ : Type} (items : List (Eff σ Unit)) (s : σ) : σ :=
  (items.foldl sharedStep (s, s)).1

/-- x/delegation/keeper/abci.go: EndBlock, one matured record WITHOUT its own cache context (the body between
`cc, writeCache := …` and `writeCache()`): what an item is when the cache context stands outside the loop -/
def endBlockRecordBody : Prog :=
  [.check "UpdateDelegationState", .write "Set(delegationState)"] ++ updateStakerAssetState ++
  updateOperatorAssetState ++ [.check "DeleteUndelegationRecord", .write "Delete(record)"]

/-- the four loops the property names: (loop, discipline, item program).  `perItemCache`: the item program carries
its own `.openC … .closeC`; `plain`: no cache context around the item in the loop (the item may have one inside). -/
inductive Discipline where
  | perItemCache | plain
  deriving Repr, DecidableEq

def loops : List (String × Discipline × Prog) :=
  [("delegation.EndBlock.records", .perItemCache, endBlockRecord),
   ("operator.AfterEpochEnd.avsList", .plain, updateVotingPower),
   ("sdk.BeginBlock.slash", .plain, slash),
   ("avs.AfterEpochEnd.groupedTasks", .plain, taskStatisticItem)]

def lookupLoop (name : String) : Option (Discipline × Prog) := (loops.find? (·.1 = name)).map (·.2)

/-- the correspondence answer for "item of loop `l` failed at step `n`, a later item of the same block succeeded":
`isolated` when a failure at that step cannot leave a trace of the item (its own shape / its own cache context),
`trace` otherwise -/
def itemVerdict (l : String) (step : String) : String :=
  match lookupLoop l with
  | none => "unknown-loop"
  | some (_, p) =>
    match dirtyAt p step false false 0 with
    | none => "unknown-step"
    | some true => "trace"
    | some false => "isolated"

end Items
end ExoVerif.Atomic
