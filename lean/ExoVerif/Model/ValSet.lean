import ExoVerif.Model.VMap
/-
  C06 — model of the validator-set update computed by x/dogfood/keeper/abci.go: EndBlock
  (the "vote power diff" part), utils/utils.go: SortByPower and
  x/dogfood/keeper/validators.go: ApplyValidatorChanges, plus CometBFT's rules for applying a
  `ValidatorUpdates` list to its own validator set.

  Identifiers: a consensus key is a `Nat` whose order is the order of `PubKey.String()` (the
  harness numbers the keys of a history in that order), an operator is a `Nat` whose order is
  the byte order of its account address. Powers are `Int` (Go `int64`).
-/
namespace ExoVerif.ValSet
open ExoVerif.VMap


/-- one entry of `GetActiveOperatorsForChainID` × `GetVotePowerForChainID`; `rev` tells whether
`GetOperatorAddressForChainIDAndConsAddr` finds the key (C07 keeps it true for current keys) -/
structure Cand where
  op : Nat
  key : Nat
  power : Int
  rev : Bool
deriving DecidableEq, Repr, Inhabited

/-- keytypes.WrappedConsKeyWithPower / abci.ValidatorUpdate -/
structure Upd where
  key : Nat
  power : Int
deriving DecidableEq, Repr, Inhabited

/-- the ExocoreValidator store (cons address ↦ power) -/
abbrev VSet := List (Nat × Int)

/-- utils/utils.go: SortByPower — `less(i, j)`: power descending, operator address ascending -/
def candLess (a b : Cand) : Bool :=
  if a.power == b.power then decide (a.op < b.op) else decide (b.power < a.power)

/-- "a may stand before b" -/
def candLe (a b : Cand) : Bool := !candLess b a

/-- validators.go: ApplyValidatorChanges — final `sort.Slice`: power descending, then
`PubKey.String()` descending -/
def updLess (a b : Upd) : Bool :=
  if a.power != b.power then decide (b.power < a.power) else decide (b.key < a.key)

def updLe (a b : Upd) : Bool := !updLess b a

structure LoopSt where
  prevMap : VSet
  res : List Upd
  total : Int
deriving Repr

/-- abci.go: EndBlock — body of `for i := range operators` after the two `break` tests -/
def loopStep (c : Cand) (st : LoopSt) : LoopSt :=
  match get st.prevMap c.key with
  | some prevPower =>
    { prevMap := del st.prevMap c.key,
      res := if prevPower != c.power then st.res ++ [⟨c.key, c.power⟩] else st.res,
      total := st.total + c.power }
  | none =>
    { st with res := st.res ++ [⟨c.key, c.power⟩], total := st.total + c.power }

/-- abci.go: EndBlock — the loop with `if i >= int(maxVals) { break }` and `if power < 1 { break }` -/
def loop (maxVals : Nat) : List Cand → Nat → LoopSt → LoopSt
  | [], _, st => st
  | c :: rest, i, st =>
    if i ≥ maxVals then st
    else if c.power < 1 then st
    else loop maxVals rest (i + 1) (loopStep c st)

/-- abci.go: EndBlock — `for _, validator := range prevList { if _, exists := prevMap[…] … Power: 0 }` -/
def removals (prevList : VSet) (prevMap : VSet) : List Upd :=
  (prevList.filter (fun p => has prevMap p.1)).map (fun p => ⟨p.1, 0⟩)

/-- validators.go: ApplyValidatorChanges — one iteration. `rev k` = reverse lookup present.
Note the found ∧ power ≥ 1 branch: the new power is written to `ctx` (kept) before the reverse
lookup; when that lookup fails the update is *not* forwarded (`continue`). -/
def applyChange (rev : Nat → Bool) (st : VSet × List Upd) (ch : Upd) : VSet × List Upd :=
  match get st.1 ch.key with
  | some _ =>
    if ch.power < 1 then (del st.1 ch.key, st.2 ++ [ch])
    else if rev ch.key then (put st.1 ch.key ch.power, st.2 ++ [ch])
    else (put st.1 ch.key ch.power, st.2)
  | none =>
    if 0 < ch.power then (put st.1 ch.key ch.power, st.2 ++ [ch])
    else st

/-- the slice of the dogfood store C06 talks about -/
structure DState where
  vals : VSet
  lastTotalPower : Int
  valUpdates : List Upd
deriving Repr, Inhabited

def revOf (cands : List Cand) (k : Nat) : Bool := cands.any (fun c => c.key == k && c.rev)

/-- the diff list handed to ApplyValidatorChanges and the total power -/
def diff (prev : VSet) (cands : List Cand) (maxVals : Nat) : List Upd × Int :=
  let st := loop maxVals (isort candLe cands) 0 ⟨prev, [], 0⟩
  (st.res ++ removals prev st.prevMap, st.total)

/-- abci.go: EndBlock in a block whose BeginBlock marked the epoch end -/
def endBlockEpoch (s : DState) (cands : List Cand) (maxVals : Nat) : DState × List Upd :=
  let (res, total) := diff s.vals cands maxVals
  let ltp := if res.length > 0 then total else s.lastTotalPower
  let (vals', ret) := res.foldl (applyChange (revOf cands)) (s.vals, [])
  let ret' := isort updLe ret
  ({ vals := vals', lastTotalPower := ltp, valUpdates := ret' }, ret')

/-- abci.go: EndBlock in every other block -/
def endBlockOther (s : DState) : DState × List Upd := ({ s with valUpdates := [] }, [])

/-! ## specification side -/

/-- the eligible top set: sort by (power desc, operator address asc), keep at most `maxVals`,
keep only whole powers ≥ 1 -/
def topK (cands : List Cand) (maxVals : Nat) : List Cand :=
  ((isort candLe cands).take maxVals).filter (fun c => decide (1 ≤ c.power))

def topMap (cands : List Cand) (maxVals : Nat) : VSet := (topK cands maxVals).map (fun c => (c.key, c.power))

/-- CometBFT (types/validator_set.go: processChanges/applyUpdates/applyRemovals), one update -/
def cometStep (vs : VSet) (u : Upd) : VSet := if u.power == 0 then del vs u.key else put vs u.key u.power

def cometApply (vs : VSet) (ups : List Upd) : VSet := ups.foldl cometStep vs

/-- what makes CometBFT reject an update list (it panics the node): a duplicate key, a negative
power, or the removal of a validator it does not have -/
def cometAccepts (vs : VSet) (ups : List Upd) : Prop :=
  (ups.map (·.key)).Nodup ∧ ∀ u ∈ ups, 0 ≤ u.power ∧ (u.power = 0 → has vs u.key = true)

def sumPowers (vs : VSet) : Int := KV.sumBy id vs

end ExoVerif.ValSet
