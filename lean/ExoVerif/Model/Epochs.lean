/-
  Model of x/epochs/keeper/abci.go: BeginBlocker (one identifier = `tick`, all identifiers =
  `beginBlocker`) and of the fan-out of x/epochs/types/hooks.go: MultiEpochHooks in the order
  registered in app/app.go (EpochsKeeper.SetHooks).
  Times are integers (nanoseconds since the Unix epoch; protobuf Timestamp keeps ns precision),
  durations are positive integers (EpochInfo.Validate rejects Duration <= 0 and the
  BeginBlocker skips an identifier that does not validate).
-/
namespace ExoVerif.Epochs

structure EpochInfo where
  identifier : String
  startTime : Int
  duration : Int
  currentEpoch : Int
  currentEpochStartTime : Int
  epochCountingStarted : Bool
  currentEpochStartHeight : Int
deriving DecidableEq, Repr, Inhabited

/-- what the BeginBlocker tells the subscribers (and emits as events) -/
inductive Ev where
  | epochEnd (id : String) (n : Int)      -- Hooks().AfterEpochEnd
  | epochStart (id : String) (n : Int)    -- Hooks().BeforeEpochStart
deriving DecidableEq, Repr, Inhabited

/-- EpochInfo.Validate (types/genesis.go) -/
def valid (e : EpochInfo) : Bool :=
  e.identifier != "" && 0 < e.duration && 0 ≤ e.currentEpoch && 0 ≤ e.currentEpochStartHeight

/-- the `isFirstTick` branch: counting starts, number reset to 1, epoch starts at StartTime -/
def startFirst (e : EpochInfo) (h : Int) : EpochInfo :=
  { e with currentEpochStartHeight := h, epochCountingStarted := true,
           currentEpoch := 1, currentEpochStartTime := e.startTime }

/-- the `isTickEnding` branch: epoch i ends, epoch i+1 starts at the old end time -/
def startNext (e : EpochInfo) (h : Int) : EpochInfo :=
  { e with currentEpochStartHeight := h, currentEpoch := e.currentEpoch + 1,
           currentEpochStartTime := e.currentEpochStartTime + e.duration }

/-- body of the closure in BeginBlocker for one identifier. `bt` block time, `h` block height. -/
def tick (e : EpochInfo) (bt : Int) (h : Int) : EpochInfo × List Ev :=
  if !valid e then (e, [])
  else if bt < e.startTime then (e, [])                       -- BlockTime().Before(StartTime)
  else
    let epochEndTime := e.currentEpochStartTime + e.duration
    let isFirstTick := !e.epochCountingStarted
    let isTickEnding := epochEndTime < bt                      -- BlockTime().After(epochEndTime)
    if !(isTickEnding || isFirstTick) then (e, [])
    else if isFirstTick then
      (startFirst e h, [Ev.epochStart e.identifier 1])
    else
      (startNext e h, [Ev.epochEnd e.identifier e.currentEpoch, Ev.epochStart e.identifier (e.currentEpoch + 1)])

/-- BeginBlocker over all identifiers, in store (key) order. -/
def beginBlocker (es : List EpochInfo) (bt : Int) (h : Int) : List EpochInfo × List Ev :=
  match es with
  | [] => ([], [])
  | e :: rest =>
    let (e', ev) := tick e bt h
    let (rest', evs) := beginBlocker rest bt h
    (e' :: rest', ev ++ evs)

/-- run one identifier over a list of (blockTime, height) pairs, collecting events -/
def runTicks (e : EpochInfo) : List (Int × Int) → EpochInfo × List Ev
  | [] => (e, [])
  | (bt, h) :: rest =>
    let (e', ev) := tick e bt h
    let (e'', evs) := runTicks e' rest
    (e'', ev ++ evs)

/-- Subscribers in the order of app.go's EpochsKeeper.SetHooks. -/
inductive Sub where | distribution | operator | dogfood | mint | avs
deriving DecidableEq, Repr, Inhabited

def hookOrder : List Sub := [.distribution, .operator, .dogfood, .mint, .avs]

/-- MultiEpochHooks fan-out: each event is delivered to every subscriber in `hookOrder`. -/
def fanOut (evs : List Ev) : List (Sub × Ev) :=
  evs.flatMap (fun ev => hookOrder.map (fun s => (s, ev)))

end ExoVerif.Epochs
