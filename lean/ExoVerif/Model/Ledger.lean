import ExoVerif.Basic.Dec
import ExoVerif.Basic.KV
/-
  Model of the restaking ledger: x/assets (staker rows, operator pools, staking totals),
  x/delegation (delegation states, staker lists, associations, the three undelegation stores,
  hold counts, EndBlock completion) and the asset part of x/operator/keeper/slash.go.

  Each operation is `L → Except String L`: the semantics of a transaction message (baseapp
  runs a message in a cache context, so a returned error leaves no write behind). The
  precompile surface, where an error is turned into `false` *without* reverting, is the subject
  of C09 and is modelled separately there.

  Identifiers are the real store-key strings (stakerID `0x…_0x65`, assetID, bech32 operator).
  Only LST/NST style assets (staker rows in x/assets) are modelled here; the native-token
  branch (bank escrow) is in `LedgerNative`.
-/
namespace ExoVerif.Ledger
open ExoVerif ExoVerif.KV

abbrev SID := String   -- stakerID
abbrev AID := String   -- assetID
abbrev OID := String   -- operator (bech32)

structure StakerRow where
  total : Int
  withdrawable : Int
  pending : Int
deriving DecidableEq, Repr, Inhabited

structure Pool where
  amount : Int
  pending : Int
  totalShare : Dec
  opShare : Dec
deriving DecidableEq, Repr, Inhabited

structure DelegRow where
  share : Dec
  wait : Int
deriving DecidableEq, Repr, Inhabited

/-- key of the record store: operator/0xHEIGHT/0xNONCE/txhash (types.GetUndelegationRecordKey) -/
structure RecKey where
  op : OID
  height : Nat
  nonce : Nat
  hash : String
deriving DecidableEq, Repr, Inhabited

structure URec where
  staker : SID
  asset : AID
  op : OID
  hash : String
  nonce : Nat
  blockNumber : Nat
  completeBlock : Nat
  amount : Int
  actual : Int
deriving DecidableEq, Repr, Inhabited

def URec.key (r : URec) : RecKey := ⟨r.op, r.blockNumber, r.nonce, r.hash⟩

structure L where
  height : Nat
  unbonding : Nat                                    -- operatortypes.UnbondingExpiration
  totals : List (AID × Int)                          -- StakingAssetInfo.StakingTotalAmount (key present = IsStakingAsset)
  operators : List OID                               -- registered operators (IsOperator)
  clientChains : List String                         -- registered client chains, as the hex suffix of stakerIDs ("0x65")
  stakers : List ((SID × AID) × StakerRow)
  pools : List ((OID × AID) × Pool)
  deleg : List ((SID × AID × OID) × DelegRow)
  slist : List ((OID × AID) × List SID)
  assoc : List (SID × OID)
  recs : List (RecKey × URec)                        -- KeyPrefixUndelegationInfo
  sidx : List ((SID × AID × Nat) × RecKey)           -- KeyPrefixStakerUndelegationInfo
  pidx : List ((Nat × Nat) × RecKey)                 -- KeyPrefixPendingUndelegations
  holds : List (RecKey × Nat)                        -- prefixUndelegationOnHold
  bal : List (SID × Int)                             -- native-token bank balance of a staker account (by stakerID)
  escrow : Int                                       -- bank balance of the `delegated_pool` module account
  -- ghost history (not stored by the code): cumulative per asset
  gDep : List (AID × Int)
  gWd : List (AID × Int)
  gSlashed : List (AID × Int)
deriving DecidableEq, Repr, Inhabited

/-- assetstypes.ExocoreAssetID: the native token; it has no staker rows in x/assets, delegations are
    escrowed in the bank module (x/delegation: DelegatedPoolName) -/
def nativeAID : AID := "0x0000000000000000000000000000000000000000_0x0"

def zeroStaker : StakerRow := ⟨0, 0, 0⟩
def zeroPool : Pool := ⟨0, 0, Dec.zero, Dec.zero⟩
def zeroDeleg : DelegRow := ⟨Dec.zero, 0⟩

/-- x/assets/types/general.go: UpdateAssetValue -/
def upd (v d : Int) : Except String Int :=
  if d < 0 ∧ v < -d then .error "ErrSubAmountIsMoreThanOrigin" else .ok (v + d)

/-- x/assets/types/general.go: UpdateAssetDecValue -/
def updDec (v d : Dec) : Except String Dec :=
  if d.raw < 0 ∧ v.raw < -d.raw then .error "ErrSubAmountIsMoreThanOrigin" else .ok ⟨v.raw + d.raw⟩

/-- x/assets/keeper/staker_asset.go: UpdateStakerAssetState (creates the row if absent) -/
def updStaker (s : L) (st : SID) (a : AID) (dT dW dP : Int) : Except String L := do
  let row := getD s.stakers (st, a) zeroStaker
  let t ← upd row.total dT
  let w ← upd row.withdrawable dW
  let p ← upd row.pending dP
  pure { s with stakers := set s.stakers (st, a) ⟨t, w, p⟩ }

/-- x/assets/keeper/operator_asset.go: UpdateOperatorAssetState (creates the pool if absent) -/
def updPool (s : L) (o : OID) (a : AID) (dA dP : Int) (dS dO : Dec) : Except String L := do
  let p := getD s.pools (o, a) zeroPool
  let am ← upd p.amount dA
  let pe ← upd p.pending dP
  let ts ← updDec p.totalShare dS
  let os ← updDec p.opShare dO
  pure { s with pools := set s.pools (o, a) ⟨am, pe, ts, os⟩ }

/-- x/delegation/keeper/delegation_state.go: UpdateDelegationState; returns (state, shareIsZero) -/
def updDeleg (s : L) (st : SID) (a : AID) (o : OID) (dShare : Dec) (dWait : Int) : Except String (L × Bool) := do
  let row := getD s.deleg (st, a, o) zeroDeleg
  let w ← upd row.wait dWait
  let sh ← updDec row.share dShare
  pure ({ s with deleg := set s.deleg (st, a, o) ⟨sh, w⟩ }, sh.raw == 0)

/-- x/assets/keeper/client_chain_asset.go: UpdateStakingAssetTotalAmount -/
def updTotal (s : L) (a : AID) (d : Int) : Except String L :=
  match find? s.totals a with
  | none => .error "ErrNoClientChainAssetKey"
  | some t => do
    let t' ← upd t d
    pure { s with totals := set s.totals a t' }

def ghostAdd (g : List (AID × Int)) (a : AID) (d : Int) : List (AID × Int) := set g a (getD g a 0 + d)

/-- x/delegation/keeper/share.go: TokensFromShares -/
def tokensFromShares (stakerShare totalShare : Dec) (totalAmount : Int) : Except String Int :=
  if totalShare.raw < stakerShare.raw then .error "ErrInsufficientShares"
  else if totalShare.raw = 0 then
    if totalAmount = 0 then .ok 0 else .error "ErrDivisorIsZero"
  else .ok ((Dec.quoTruncate (Dec.mulInt stakerShare totalAmount) totalShare).truncateInt)

/-- x/delegation/keeper/share.go: SharesFromTokens -/
def sharesFromTokens (totalShare : Dec) (stakerAmount totalAmount : Int) : Except String Dec :=
  if totalAmount = 0 then
    if totalShare.raw = 0 then .ok Dec.zero else .error "ErrDivisorIsZero"
  else .ok (Dec.quoInt (Dec.mulInt totalShare stakerAmount) totalAmount)

/-- x/assets/keeper/bank.go: PerformDepositOrWithdraw (Action = DepositLST/NST) -/
def deposit (s : L) (st : SID) (a : AID) (x : Int) : Except String L := do
  if x < 0 then throw "ErrInvalidAmount"
  if !(has s.totals a) then throw "ErrNoClientChainAssetKey"
  let s ← updStaker s st a x x 0
  let s ← updTotal s a x
  pure { s with gDep := ghostAdd s.gDep a x }

/-- x/assets/keeper/bank.go: PerformDepositOrWithdraw (Action = WithdrawLST/NST) -/
def withdraw (s : L) (st : SID) (a : AID) (x : Int) : Except String L := do
  if x < 0 then throw "ErrInvalidAmount"
  if !(has s.totals a) then throw "ErrNoClientChainAssetKey"
  let s ← updStaker s st a (-x) (-x) 0
  let s ← updTotal s a (-x)
  pure { s with gWd := ghostAdd s.gWd a x }

/-- x/delegation/keeper/delegation_state.go: AppendStakerForOperator -/
def appendStaker (s : L) (o : OID) (a : AID) (st : SID) : L :=
  let l := getD s.slist (o, a) []
  if l.contains st then s else { s with slist := set s.slist (o, a) (l ++ [st]) }

/-- DeleteStakerForOperator: error if the list key is absent; removes the first occurrence -/
def deleteStaker (s : L) (o : OID) (a : AID) (st : SID) : Except String L :=
  match find? s.slist (o, a) with
  | none => .error "ErrNoKeyInTheStore"
  | some l => .ok { s with slist := set s.slist (o, a) (l.erase st) }

/-- x/delegation/keeper/share.go: CalculateShare -/
def calculateShare (s : L) (o : OID) (a : AID) (x : Int) : Except String Dec :=
  match find? s.pools (o, a) with
  | none => .ok (Dec.ofInt x)
  | some p => if p.totalShare.raw = 0 then .ok (Dec.ofInt x) else sharesFromTokens p.totalShare x p.amount

/-- the part of delegateTo after the funds were taken from the staker: shares, pool, delegation, list -/
def delegateCore (s : L) (st : SID) (a : AID) (o : OID) (x : Int) : Except String L := do
  let share ← calculateShare s o a x
  let dO := if find? s.assoc st = some o then share else Dec.zero
  let s ← updPool s o a x 0 share dO
  let (s, _) ← updDeleg s st a o share 0
  pure (appendStaker s o a st)

/-- x/delegation/keeper/delegation.go: delegateTo. LST/NST: funds come from the staker's withdrawable
    row; native token: bankKeeper.DelegateCoinsFromAccountToModule into the escrow account. -/
def delegate (s : L) (st : SID) (a : AID) (o : OID) (x : Int) : Except String L := do
  if !(0 < x) then throw "ErrAmountIsNotPositive"
  if !(s.operators.contains o) then throw "ErrOperatorNotExist"
  if a = nativeAID then
    let b := getD s.bal st 0
    if b < x then throw "ErrInsufficientFunds"
    delegateCore { s with bal := set s.bal st (b - x), escrow := s.escrow + x } st a o x
  else
    match find? s.stakers (st, a) with
    | none => throw "ErrNoStakerAssetKey"
    | some row =>
      if row.withdrawable < x then throw "ErrDelegationAmountTooBig"
      let s ← updStaker s st a 0 (-x) 0
      delegateCore s st a o x

/-- x/delegation/keeper/share.go: ValidateUndelegationAmount -/
def validateUndelegationAmount (s : L) (o : OID) (st : SID) (a : AID) (x : Int) : Except String Dec := do
  if !(0 < x) then throw "ErrAmountIsNotPositive"
  match find? s.deleg (st, a, o) with
  | none => throw "ErrNoKeyInTheStore"
  | some d =>
    match find? s.pools (o, a) with
    | none => throw "ErrNoOperatorAssetKey"
    | some p =>
      let share ← sharesFromTokens p.totalShare x p.amount
      if d.share.raw < share.raw then throw "ErrInsufficientShares"
      let tolerance ← sharesFromTokens p.totalShare 1 p.amount
      if d.share.raw - share.raw < tolerance.raw then pure d.share else pure share

/-- x/delegation/keeper/share.go: RemoveShareFromOperator; returns (state, removedToken) -/
def removeShareFromOperator (s : L) (isUndelegation : Bool) (o : OID) (st : SID) (a : AID) (share : Dec) :
    Except String (L × Int) := do
  if !(0 < share.raw) then throw "ErrAmountIsNotPositive"
  match find? s.pools (o, a) with
  | none => throw "ErrNoOperatorAssetKey"
  | some p =>
    if p.totalShare.raw < share.raw then throw "ErrInsufficientShares"
    let removed ← (if p.totalShare.raw = share.raw then pure p.amount
                   else tokensFromShares share p.totalShare p.amount)
    let dO := if find? s.assoc st = some o then share.neg else Dec.zero
    let dP := if isUndelegation then removed else 0
    let s ← updPool s o a (-removed) dP share.neg dO
    pure (s, removed)

/-- RemoveShare: the staker row's pending figure grows by the removed tokens — only for an undelegation
    and not for the native token ("don't update staker asset info for exo-native-token") -/
def pendStaker (s : L) (isUndelegation : Bool) (st : SID) (a : AID) (removed : Int) : Except String L :=
  if isUndelegation && a != nativeAID then updStaker s st a 0 0 removed else pure s

/-- x/delegation/keeper/share.go: RemoveShare; returns (state, removedToken) -/
def removeShare (s : L) (isUndelegation : Bool) (o : OID) (st : SID) (a : AID) (share : Dec) :
    Except String (L × Int) := do
  if !(0 < share.raw) then throw "ErrAmountIsNotPositive"
  let (s, removed) ← removeShareFromOperator s isUndelegation o st a share
  let s ← pendStaker s isUndelegation st a removed
  let (s, zero) ← updDeleg s st a o share.neg (if isUndelegation then removed else 0)
  let s ← (if zero then deleteStaker s o a st else pure s)
  pure (s, removed)

/-- x/delegation/keeper/un_delegation_state.go: SetUndelegationRecords (one record) -/
def setRecord (s : L) (r : URec) : Except String L :=
  if r.completeBlock < s.height then .error "ErrInvalidCompletedHeight"
  else .ok { s with recs := set s.recs r.key r,
                    sidx := set s.sidx (r.staker, r.asset, r.nonce) r.key,
                    pidx := set s.pidx (r.completeBlock, r.nonce) r.key }

/-- DeleteUndelegationRecord: deletes from all three stores by the record's own keys -/
def deleteRecord (s : L) (r : URec) : L :=
  { s with recs := erase s.recs r.key,
           sidx := erase s.sidx (r.staker, r.asset, r.nonce),
           pidx := erase s.pidx (r.completeBlock, r.nonce) }

/-- x/delegation/keeper/delegation.go: UndelegateFrom (the AVS hook is an environment input:
    see `hold`) -/
def undelegate (s : L) (st : SID) (a : AID) (o : OID) (x : Int) (nonce : Nat) (hash : String) :
    Except String L := do
  if !(0 < x) then throw "ErrAmountIsNotPositive"
  if !(s.operators.contains o) then throw "ErrOperatorNotExist"
  let share ← validateUndelegationAmount s o st a x
  let (s, removed) ← removeShare s true o st a share
  let r : URec := { staker := st, asset := a, op := o, hash := hash, nonce := nonce,
                    blockNumber := s.height, completeBlock := s.height + s.unbonding,
                    amount := removed, actual := removed }
  setRecord s r

/-- IncrementUndelegationHoldCount / DecrementUndelegationHoldCount -/
def hold (s : L) (k : RecKey) : L := { s with holds := set s.holds k (getD s.holds k 0 + 1) }
def release (s : L) (k : RecKey) : Except String L :=
  let c := getD s.holds k 0
  if c = 0 then .error "ErrCannotDecHoldCount" else .ok { s with holds := set s.holds k (c - 1) }

/-- EndBlock's "update the staker state": native token ⇒ bankKeeper.UndelegateCoinsFromModuleToAccount
    (delegated_pool → staker, ActualCompletedAmount); otherwise the staker row gets ActualCompletedAmount
    as withdrawable and loses Amount from pending -/
def creditStaker (s : L) (r : URec) : Except String L :=
  if r.asset = nativeAID then
    (if s.escrow < r.actual then .error "ErrInsufficientFunds"
     else .ok { s with bal := set s.bal r.staker (getD s.bal r.staker 0 + r.actual), escrow := s.escrow - r.actual })
  else updStaker s r.staker r.asset 0 r.actual (-r.amount)

/-- completion of one record in x/delegation/keeper/abci.go: EndBlock (the body after the hold
    check; runs in a cache context, so an error skips the record without effect) -/
def completeRecord (s : L) (r : URec) : Except String L := do
  let (s, _) ← updDeleg s r.staker r.asset r.op Dec.zero (-r.amount)
  let s ← creditStaker s r
  let s ← updPool s r.op r.asset 0 (-r.amount) Dec.zero Dec.zero
  pure (deleteRecord s r)

/-- one record of the EndBlock loop -/
def endBlockRecord (s : L) (r : URec) : L :=
  if 0 < getD s.holds r.key 0 then
    let s1 := deleteRecord s r
    match setRecord s1 { r with completeBlock := s.height + 1 } with
    | .ok s2 => s2
    | .error _ => s
  else
    match completeRecord s r with
    | .ok s' => s'
    | .error _ => s

/-- GetPendingUndelegationRecords(height): record keys whose pending-index key is due at
    `height` (iterator prefix hex(height) + "/" ⇒ complete block = height), resolved through the
    record store; a dangling key makes the whole lookup fail (EndBlock then does nothing). -/
def lookupAll (recs : List (RecKey × URec)) : List RecKey → Option (List URec)
  | [] => some []
  | k :: ks =>
    match find? recs k, lookupAll recs ks with
    | some r, some rs => some (r :: rs)
    | _, _ => none

def dueKeys (s : L) : List RecKey := (s.pidx.filter (fun e => e.1.1 = s.height)).map (·.2)

def pendingRecords (s : L) : Option (List URec) := lookupAll s.recs (dueKeys s)

/-- x/delegation/keeper/abci.go: EndBlock -/
def endBlock (s : L) : L :=
  match pendingRecords s with
  | none => s
  | some rs => rs.foldl endBlockRecord s

def nextBlock (s : L) : L := { s with height := s.height + 1 }

/-- x/operator/keeper/slash.go: SlashFromUndelegation; returns (record', slashed) -/
def slashFromUndelegation (r : URec) (p : Dec) : URec × Int :=
  if r.actual = 0 then (r, 0)
  else
    let sl := (Dec.mulInt p r.amount).truncateInt
    if r.actual ≤ sl then ({ r with actual := 0 }, r.actual)
    else ({ r with actual := r.actual - sl }, sl)

/-- slashing the records of operator `o` started at height ≥ `infraction`
    (IterateUndelegationsByOperator with heightFilter, isUpdate = true) -/
def slashRecords (recs : List (RecKey × URec)) (o : OID) (infraction : Nat) (p : Dec) :
    List (RecKey × URec) × List (AID × Int) :=
  match recs with
  | [] => ([], [])
  | (k, r) :: rest =>
    let (rest', g) := slashRecords rest o infraction p
    if k.op = o ∧ infraction ≤ k.height then
      let (r', sl) := slashFromUndelegation r p
      ((k, r') :: rest', (r.asset, sl) :: g)
    else ((k, r) :: rest', g)

/-- SetStakerShareToZero over a staker list -/
def zeroShares (deleg : List ((SID × AID × OID) × DelegRow)) (o : OID) (a : AID) (sts : List SID) :
    List ((SID × AID × OID) × DelegRow) :=
  sts.foldl (fun d st => match find? d (st, a, o) with
                          | some row => set d (st, a, o) { row with share := Dec.zero }
                          | none => d) deleg

/-- the per-pool body `opFuncToIterateAssets` of SlashAssets: the new pool row and the amount cut.
    `clear` = (remaining = 0 ∧ HasStakerList): the shares of the pool are wiped. -/
def cutPool (pl : Pool) (p : Dec) (hasList : Bool) : Pool × Int :=
  let sl := (Dec.mulInt p pl.amount).truncateInt
  let remaining := pl.amount - sl
  if remaining = 0 ∧ hasList then
    ({ pl with amount := remaining, totalShare := Dec.zero, opShare := Dec.zero }, sl)
  else ({ pl with amount := remaining }, sl)

/-- does SlashAssets wipe the delegators' shares of pool (o, a)? -/
def clearsPool (s : L) (o : OID) (a : AID) (pl : Pool) (p : Dec) : Bool :=
  decide (pl.amount - (Dec.mulInt p pl.amount).truncateInt = 0) && has s.slist (o, a)

/-- x/operator/keeper/slash.go: SlashAssets for a given (already re-based and capped)
    proportion `p`. Undelegations are slashed only when SlashEventHeight < current height.
    Every pool of the operator is visited exactly once (store keys are unique), so the iteration
    with in-place update is a map over the operator's pools; the staker lists / delegator shares
    of pools slashed to zero are wiped. -/
def slashAssets (s : L) (o : OID) (infraction : Nat) (p : Dec) : L :=
  let (recs', g1) := if infraction < s.height then slashRecords s.recs o infraction p else (s.recs, [])
  let mine := s.pools.filter (fun e => e.1.1 = o)
  let pools' := s.pools.map (fun e =>
    if e.1.1 = o then (e.1, (cutPool e.2 p (has s.slist e.1)).1) else e)
  let g2 := mine.map (fun e => (e.1.2, (cutPool e.2 p (has s.slist e.1)).2))
  let cleared := mine.filter (fun e => clearsPool s o e.1.2 e.2 p)
  let deleg' := cleared.foldl (fun d e => zeroShares d o e.1.2 (getD s.slist (o, e.1.2) [])) s.deleg
  let slist' := cleared.foldl (fun l e => erase l (o, e.1.2)) s.slist
  { s with recs := recs', pools := pools', deleg := deleg', slist := slist',
           gSlashed := (g1 ++ g2).foldl (fun g e => ghostAdd g e.1 e.2) s.gSlashed }

/-- the client-chain part of a stakerID `0x<addr>_0x<lzID>` -/
def chainOf (st : SID) : String :=
  match (st.splitOn "_").reverse with
  | x :: _ => x
  | [] => ""

/-- x/delegation/keeper/delegation.go: AssociateOperatorWithStaker -/
def associate (s : L) (st : SID) (o : OID) : Except String L := do
  if !(s.clientChains.contains (chainOf st)) then throw "ErrClientChainNotExist"
  if !(s.operators.contains o) then throw "ErrOperatorNotExist"
  if (find? s.assoc st).isSome then throw "ErrOperatorAlreadyAssociated"
  let mine := s.deleg.filter (fun e => e.1.1 = st ∧ e.1.2.2 = o)
  let s ← mine.foldlM (fun s e => updPool s o e.1.2.1 0 0 Dec.zero e.2.share) s
  pure { s with assoc := set s.assoc st o }

/-- DissociateOperatorFromStaker -/
def dissociate (s : L) (st : SID) : Except String L := do
  match find? s.assoc st with
  | none => throw "ErrNoAssociatedOperatorByStaker"
  | some o =>
    let mine := s.deleg.filter (fun e => e.1.1 = st ∧ e.1.2.2 = o)
    let s ← mine.foldlM (fun s e => updPool s o e.1.2.1 0 0 Dec.zero e.2.share.neg) s
    pure { s with assoc := erase s.assoc st }

/-! ## native-restaking balance adjustment (x/delegation/keeper/update_native_restaking_balance.go)

Store iteration order. Both loops of `UpdateNSTBalance` are `sdk.KVStorePrefixIterator`s over the prefix
`stakerID/assetID/` (types.IteratorPrefixForStakerAsset: the separator is part of the prefix), which yield
the keys in byte order of the real key strings. The model keeps structured keys, so the candidates are
the entries whose staker and asset components are the given ones (identifiers never contain "/"), sorted
by the rendered key string (Lean's `String` order is lexicographic on code points, which for these ASCII
keys - and for UTF-8 in general - is the byte order). -/

/-- hexutil.EncodeUint64: "0x" ++ lowercase hex without leading zeros ("0x0" for 0) -/
def hexNat (n : Nat) : String := "0x" ++ String.ofList (Nat.toDigits 16 n)

/-- x/delegation/types/keys.go: GetStakerUndelegationRecordKey = stakerID/assetID/hex(nonce) -/
def sidxKeyStr (k : SID × AID × Nat) : String := k.1 ++ "/" ++ k.2.1 ++ "/" ++ hexNat k.2.2

/-- assetstype.GetJoinedStoreKey(stakerID, assetID, operator): key of the delegation-state store -/
def delegKeyStr (k : SID × AID × OID) : String := k.1 ++ "/" ++ k.2.1 ++ "/" ++ k.2.2

/-- insertion into a list sorted by the byte order of `key` (structural, so `decide` can run it) -/
def insertByKey {α : Type} (key : α → String) (x : α) : List α → List α
  | [] => [x]
  | y :: ys => if key x < key y then x :: y :: ys else y :: insertByKey key x ys

/-- the order in which a store iterator visits the entries: ascending byte order of the key string -/
def sortByKey {α : Type} (key : α → String) (l : List α) : List α := l.foldr (insertByKey key) []

/-- IterateUndelegationsByStakerAndAsset: the record keys stored under the staker-index prefix
    `stakerID/assetID/`, in iteration order -/
def nstRecordKeys (s : L) (st : SID) (a : AID) : List RecKey :=
  (sortByKey (fun e => sidxKeyStr e.1) (s.sidx.filter (fun e => e.1.1 = st ∧ e.1.2.1 = a))).map (·.2)

/-- IterateDelegationsForStakerAndAsset: the delegation states under the prefix `stakerID/assetID/`, in
    iteration order (key, value as read by the iterator) -/
def nstDelegations (s : L) (st : SID) (a : AID) : List ((SID × AID × OID) × DelegRow) :=
  sortByKey (fun e => delegKeyStr e.1) (s.deleg.filter (fun e => e.1.1 = st ∧ e.1.2.1 = a))

/-- UpdateNSTBalance, "slash from pending undelegations": the loop of IterateUndelegationsByStakerAndAsset
    (isUpdate = true) with the closure `opFunc`. Per index entry: the record is read through its key
    (missing ⇒ ErrNoKeyInTheStore); slashAmount = min(pending, ActualCompletedAmount) in the code's
    own formulation; the staker's TotalDepositAmount falls by it; the record is written back with the
    lowered ActualCompletedAmount; the loop breaks once nothing is left. Returns (state, pendingSlashAmount). -/
def nstSlashRecords (st : SID) (a : AID) : List RecKey → L → Int → Except String (L × Int)
  | [], s, pending => .ok (s, pending)
  | k :: ks, s, pending =>
    match find? s.recs k with
    | none => .error "ErrNoKeyInTheStore"
    | some r =>
      let slashAmount := if 0 < pending - r.actual then r.actual else pending
      match updStaker s st a (-slashAmount) 0 0 with
      | .error e => .error e
      | .ok s1 =>
        let s2 : L := { s1 with recs := set s1.recs k { r with actual := r.actual - slashAmount } }
        if 0 < pending - r.actual then nstSlashRecords st a ks s2 (pending - r.actual)
        else .ok (s2, pending - r.actual)

/-- x/delegation/keeper/delegation_state.go: TotalDelegatedAmountForStakerAsset (zero shares are skipped;
    a missing pool or a TokensFromShares error aborts) -/
def totalDelegated (s : L) (a : AID) : List ((SID × AID × OID) × DelegRow) → Int → Except String Int
  | [], acc => .ok acc
  | e :: es, acc =>
    if e.2.share.raw = 0 then totalDelegated s a es acc
    else
      match find? s.pools (e.1.2.2, a) with
      | none => .error "ErrNoOperatorAssetKey"
      | some p =>
        match tokensFromShares e.2.share p.totalShare p.amount with
        | .error err => .error err
        | .ok x => totalDelegated s a es (acc + x)

/-- UpdateNSTBalance, "slash from the delegated share": the loop of IterateDelegationsForStakerAndAsset
    with the closure `opFunc`: slashShare = UndelegatableShare.Mul(slashProportion) (half-even),
    RemoveShare(isUndelegation = false) - whose errors (a zero slashShare included) abort the whole
    update -, TotalDepositAmount falls by the tokens actually removed. Every key is visited once and
    an iteration writes only the delegation row it has just read, so the shares read by the iterator
    are the ones of the state the loop started from. -/
def nstSlashShares (st : SID) (a : AID) (prop : Dec) :
    List ((SID × AID × OID) × DelegRow) → L → Int → Except String (L × Int)
  | [], s, pending => .ok (s, pending)
  | e :: es, s, pending =>
    match removeShare s false e.1.2.2 st a (Dec.mul e.2.share prop) with
    | .error err => .error err
    | .ok (s1, actual) =>
      match updStaker s1 st a (-actual) 0 0 with
      | .error err => .error err
      | .ok s2 => nstSlashShares st a prop es s2 (pending - actual)

/-- update_native_restaking_balance.go: MaxSlashProportion -/
def nstMaxSlashProportion : Int := 1

/-- the slash proportion of the third phase: pending / totalDelegated (LegacyDec.Quo, half-even), capped at
    MaxSlashProportion -/
def nstProportion (pending total : Int) : Dec :=
  let p := Dec.quo (Dec.ofInt pending) (Dec.ofInt total)
  if Dec.gt p (Dec.ofInt nstMaxSlashProportion) then Dec.ofInt nstMaxSlashProportion else p

/-- UpdateNSTBalance, third phase (entered with pendingSlashAmount > 0) -/
def nstSlashDelegated (s : L) (st : SID) (a : AID) (pending : Int) : Except String L :=
  let ds := nstDelegations s st a
  match totalDelegated s a ds 0 with
  | .error e => .error e
  | .ok total =>
    if total = 0 then .ok s
    else
      match nstSlashShares st a (nstProportion pending total) ds s pending with
      | .error e => .error e
      | .ok (s', _) => .ok s'

/-- UpdateNSTBalance with a negative amount: withdrawable balance first, then the pending undelegations,
    then the delegated shares; what cannot be taken anywhere is only logged. -/
def nstDecrease (s : L) (st : SID) (a : AID) (x : Int) : Except String L :=
  match find? s.stakers (st, a) with
  | none => .error "ErrNoStakerAssetKey"                    -- GetStakerSpecifiedAssetInfo
  | some row =>
    let pending0 := -x - row.withdrawable
    let fromW := if 0 < pending0 then row.withdrawable else -x
    match updStaker s st a (-fromW) (-fromW) 0 with
    | .error e => .error e
    | .ok s1 =>
      match (if 0 < pending0 then nstSlashRecords st a (nstRecordKeys s1 st a) s1 pending0
             else .ok (s1, pending0)) with
      | .error e => .error e
      | .ok (s2, pending1) =>
        if 0 < pending1 then nstSlashDelegated s2 st a pending1 else .ok s2

/-- x/delegation/keeper/update_native_restaking_balance.go: UpdateNSTBalance(stakerID, assetID, amount).
    Positive: a virtual deposit (TotalDepositAmount and WithdrawableAmount + amount; the published
    staking total is not touched); negative: `nstDecrease`; zero: nothing.
    Scope: the oracle calls it for native-restaking assets, whose staker rows live in x/assets. For the
    chain's own token GetStakerSpecifiedAssetInfo takes a bank-balance branch that this model does not
    cover: such a call is refused here and the correspondence run never issues it. -/
def nstUpdate (s : L) (st : SID) (a : AID) (x : Int) : Except String L :=
  if a = nativeAID then .error "native-token-outside-model"
  else if 0 < x then updStaker s st a x x 0
  else if x < 0 then nstDecrease s st a x
  else .ok s

/-- the re-based, capped slash proportion of SlashAssets:
    min(1, (power · factor) / value); `value` = StakingAndWaitUnbonding (the Go code panics on 0). -/
def slashProportion (power : Int) (factor value : Dec) : Dec :=
  Dec.minDec (Dec.ofInt 1) (Dec.quo (Dec.mul (Dec.ofInt power) factor) value)

end ExoVerif.Ledger
