/-
  C08 — Go map iteration as an explicit schedule.
  Every consensus-path function that ranges over a Go map is modelled as a left fold of its loop
  body over an explicit `order : List κ` (the order in which the runtime happens to deliver the
  keys; any permutation of the key set). Determinism is: the result does not depend on `order`.
  The loop bodies fall into a small number of shapes; each site of `Gen.mapRangeSites` is an
  instance of one of them (see `Props/C08.lean` for the site ↔ shape table). Core Lean only.
-/
namespace ExoVerif.Det

/-- a Go `for k := range m { s = body s k }` under the schedule `order` -/
def rangeLoop {σ κ : Type} (body : σ → κ → σ) (order : List κ) (s : σ) : σ := order.foldl body s

/-- in-memory Go map / KV keyed store as a total function with optional values -/
abbrev GoMap (κ α : Type) := κ → Option α

def GoMap.set {κ α : Type} [DecidableEq κ] (m : GoMap κ α) (k : κ) (v : α) : GoMap κ α :=
  fun k' => if k' = k then some v else m k'

def GoMap.del {κ α : Type} [DecidableEq κ] (m : GoMap κ α) (k : κ) : GoMap κ α :=
  fun k' => if k' = k then none else m k'

/-! ### shape A: accumulate a sum
 x/assets/keeper/staker_asset.go: GetStakerSpecifiedAssetInfo (`for _, record := range DelegationInfos { total = total.Add(record.…) }`),
 x/oracle/keeper/aggregator/aggregator.go: reportPrice.aggregate power sums. -/
def sumBody {κ : Type} (g : κ → Int) (s : Int) (k : κ) : Int := s + g k

/-- two accumulators at once (undelegatable + wait-undelegation amounts) -/
def sum2Body {κ : Type} (g h : κ → Int) (s : Int × Int) (k : κ) : Int × Int := (s.1 + g k, s.2 + h k)

/-! ### shape B: write a value that depends only on the key (and on read-only inputs) under that key
 AggregatorContext.SetValidatorPowers / GetValidators-driven nonce writes, Copy4CheckTx copies
 (aggregators, rounds, dsPrices, prices, deterministicSource, validatorNonce, validatorSource),
 Cache.GetCache(ItemV), cacheValidator.add (per-key update/delete + a sticky `update` flag),
 x/avs AfterEpochEnd (one SetTaskInfo per (taskID, taskAddr) group),
 x/avs/types: Difference, x/evm GetAvailablePrecompileAddrs feeding a sort. -/
def writeBody {κ α : Type} [DecidableEq κ] (v : κ → α) (m : GoMap κ α) (k : κ) : GoMap κ α := m.set k (v k)

/-- cacheValidator.add: delete on zero power, overwrite otherwise; the `update` flag only ever goes up -/
def cacheAddBody {κ : Type} [DecidableEq κ] (newPower : κ → Int) (s : GoMap κ Int × Bool) (k : κ) : GoMap κ Int × Bool :=
  match s.1 k with
  | some p => if newPower k = 0 then (s.1.del k, true)
              else if p ≠ newPower k then (s.1.set k (newPower k), true) else s
  | none => (s.1.set k (newPower k), true)

/-! ### shape C: collect into a slice, then sort before any order-sensitive use
 x/feedistribution AllocateTokensToStakers (`avsAssets` → `assets` list; staker list sorted),
 x/avs GroupTasksByIDAndAddress (groups sorted by operator address),
 x/dogfood ApplyValidatorChanges (sorted updates), x/evm GetAvailablePrecompileAddrs. -/
def collect {κ β : Type} (g : κ → β) (order : List κ) : List β := order.map g

/-! ### shape D: only "did any key fail" is consumed
 x/assets GetAssetsDecimal, x/oracle GetMultipleAssetsPrices (and the operator MockOracle): the loop
 returns at the first error; callers only test `err != nil`, and on success the result map has one
 entry per key (shape B). -/
def anyBody {κ : Type} (bad : κ → Bool) (s : Bool) (k : κ) : Bool := s || bad k

/-! ### shape E: running maximum with a payload that is a function of the key
 x/oracle/keeper/single.go: recacheAggregatorContext (three loops over `recentParamsMap`: latest
 block, latest block below `from`, latest block below `to`; `agc.SetParams(p)` is overwritten by
 the later, larger key — the final (prev, params) is what is consumed). -/
def maxBody {π : Type} (payload : Int → π) (bound : Int) (s : Int × π) (b : Int) : Int × π :=
  if b < bound ∧ s.1 < b then (b, payload b) else s

/-! ### shape F: SealRound — per-key status change plus two output slices
 x/oracle/keeper/aggregator/context.go: SealRound appends to `failed`/`sealed` in iteration order.
 The consumers (x/oracle/module.go EndBlock) do, per element, a write keyed by that element
 (RemoveNonceWithFeederIDForValidators / GrowRoundID), i.e. shape B over the *set* of elements. -/
structure SealOut (κ : Type) where
  closed : GoMap κ Bool     -- round status after the loop (true = closed / deleted)
  failed : List κ
  sealed : List κ

def sealBody {κ : Type} [DecidableEq κ] (mustSeal : κ → Bool) (s : SealOut κ) (k : κ) : SealOut κ :=
  if mustSeal k then { closed := s.closed.set k true, failed := s.failed ++ [k], sealed := s.sealed ++ [k] } else s

/-! ### shape G: a map-ordered slice that leaves the function and is consumed by removals
 x/oracle/keeper/aggregator/context.go: SealRound returns `sealed` in the iteration order of `agc.rounds`;
 x/oracle/module.go: EndBlock calls RemoveNonceWithFeederIDForValidators for every element, which, per
 validator, removes that feeder's item from the persisted `ValidatorNonce.NonceList`
 (x/oracle/keeper/nonce.go: removeNonceWithValidatorAndFeederID). Feeder ids occur at most once in a list. -/

/-- the removal as it is: `append(list[:i], list[i+1:]...)` — the remaining items keep their order -/
def spliceRemove (l : List Nat) (f : Nat) : List Nat := l.erase f

/-- the O(1) idiom it must not become: move the last item into the freed slot and truncate -/
def swapRemove (l : List Nat) (f : Nat) : List Nat :=
  match l.findIdx? (· == f) with
  | none => l
  | some i => (l.set i (l.getLastD 0)).dropLast

/-- the EndBlocker's loop over `sealed` for one validator's list -/
def removeSealed (remove : List Nat → Nat → List Nat) (sealed : List Nat) (l : List Nat) : List Nat :=
  sealed.foldl remove l

/-! ### CheckTx / simulation must not touch what DeliverTx and EndBlock read (second half of C08)
 The oracle keeps process-global in-memory state next to the store: the cache `cs` (pending price
 messages, params with an `update` flag) that x/oracle/module.go: EndBlock commits, and the slice
 `updatedFeederIDs` that only feeds an EndBlock *event*. A message handler also runs on the check
 state (tx simulation / gas estimation, `ctx.IsCheckTx() = true`); whatever it then leaves in `cs`
 would be committed by this node's next EndBlock although no block contained the tx. -/
structure Node where
  store : Int                 -- digest of the persisted oracle history (recent params / recent msgs)
  cacheParams : Int           -- cs.params.params
  cacheDirty : Bool           -- cs.params.update
  cacheMsgs : List (Nat × Int) -- cs.msg: (feederID, item)
  updatedFeeders : List Nat   -- package variable updatedFeederIDs (read only to emit an event)
deriving DecidableEq, Repr

/-- what reaches consensus state at the next EndBlock, and what stays in `cs` afterwards -/
def Node.consensusView (n : Node) : Int × Int × Bool × List (Nat × Int) :=
  (n.store, n.cacheParams, n.cacheDirty, n.cacheMsgs)

/-- x/oracle/keeper/msg_server_update_params.go: UpdateParams (after SetParams on the tx's own store
branch): `if !ctx.IsCheckTx() { GetAggregatorContext; cs.AddCache(ItemP(p)) }` -/
def updateParamsHandler (isCheckTx : Bool) (p : Int) (n : Node) : Node :=
  if !isCheckTx then { n with cacheParams := p, cacheDirty := true } else n

/-- x/oracle/keeper/params.go: RegisterNewTokenAndSetTokenFeeder (both return paths):
`if !ctx.IsCheckTx() { …; cs.AddCache(ItemP(p)) }` -/
def registerTokenHandler (isCheckTx : Bool) (p : Int) (n : Node) : Node :=
  if !isCheckTx then { n with cacheParams := p, cacheDirty := true } else n

/-- x/oracle/keeper/msg_server_create_price.go: CreatePrice, the part after agc.NewCreatePrice.
`final` = the round reached consensus (newItem != nil): `if !IsCheckTx { cs.RemoveCache }`, then
`AppendUpdatedFeederIDs` (not guarded); otherwise `else if !IsCheckTx { cs.AddCache(item) }`. -/
def createPriceHandler (isCheckTx : Bool) (final : Bool) (feeder : Nat) (item : Int) (n : Node) : Node :=
  if final then
    let n1 := if !isCheckTx then { n with cacheMsgs := n.cacheMsgs.filter (fun m => m.1 != feeder) } else n
    { n1 with updatedFeeders := n1.updatedFeeders ++ [feeder] }
  else if !isCheckTx then { n with cacheMsgs := n.cacheMsgs ++ [(feeder, item)] } else n

/-- the pre-fix UpdateParams (AddCache regardless of the mode); kept to show that the guard is what
the theorem rests on -/
def updateParamsUnguarded (_isCheckTx : Bool) (p : Int) (n : Node) : Node :=
  { n with cacheParams := p, cacheDirty := true }

def digestMsgs (acc : Int) (ms : List (Nat × Int)) : Int := ms.foldl (fun a m => a * 31 + m.1 + m.2) acc

/-- x/oracle/module.go: EndBlock → cs.CommitCache (pending msgs, then dirty params are written to the
store), the updatedFeederIDs event, ResetUpdatedFeederIDs -/
def endBlock (n : Node) : Node :=
  let s1 := if n.cacheMsgs.isEmpty then n.store else digestMsgs n.store n.cacheMsgs
  let s2 := if n.cacheDirty then s1 * 31 + n.cacheParams else s1
  { n with store := s2, cacheDirty := false, cacheMsgs := [], updatedFeeders := [] }

/-- one handler invocation on the check state -/
inductive CheckCall where
  | updateParams (p : Int)
  | registerToken (p : Int)
  | createPrice (final : Bool) (feeder : Nat) (item : Int)

def CheckCall.run (c : CheckCall) (isCheckTx : Bool) (n : Node) : Node :=
  match c with
  | .updateParams p => updateParamsHandler isCheckTx p n
  | .registerToken p => registerTokenHandler isCheckTx p n
  | .createPrice f fd it => createPriceHandler isCheckTx f fd it n

end ExoVerif.Det
