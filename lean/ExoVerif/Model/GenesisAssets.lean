/-
  C18 — export / init / validate model of the x/assets genesis.

  Mirrors, as they are:
    x/assets/keeper/genesis.go  ExportGenesis = GetParams, GetAllClientChainInfo, GetAllStakingAssetsInfo, AllDeposits,
                                AllOperatorAssets (each iterates ONE store prefix in key order);
                                InitGenesis = SetParams, SetClientChainInfo per chain, SetStakingAssetInfo per token,
                                UpdateStakerAssetState per (staker, asset) with the exported row as a DELTA on the stored row
                                (default 0), UpdateOperatorAssetState likewise; every error is a panic (`none`);
    x/assets/types/genesis.go   Validate = ValidateClientChains, ValidateTokens, ValidateDeposits, ValidateOperatorAssets,
                                Params.Validate (utils.CommonValidation = no duplicate key + per-element check).
  A prefix store is the list of its (key string, value) pairs as its iterator sees them: ascending key order (`Sorted`),
  `ssSet` writes at the key's place. Values of the two joined-key stores carry the two key parts
  (ParseJoinedStoreKey(key, 2)); `key = staker ++ "/" ++ asset` is part of the store invariant — ids are built by
  GetStakerIDAndAssetID (hex ++ "_" ++ hex) or are bech32 strings and contain no "/".
  Not modelled: bech32 decoding of operator addresses (they are written from sdk.AccAddress.String()), protobuf encoding,
  the empty-string quirk of AllDeposits (`previousStakerID` starts as "", an id no writer produces).
  LegacyDec shares are raw integers (value · 10¹⁸).
-/
namespace ExoVerif.Genesis

/-! ## a prefix store in iteration order -/
section Store
variable {α : Type}

/-- store.Set under a prefix: replace the value of an existing key, else insert at the key's place in byte order -/
def ssSet (k : String) (v : α) : List (String × α) → List (String × α)
  | [] => [(k, v)]
  | (k', v') :: r => if k = k' then (k, v) :: r else if k < k' then (k, v) :: (k', v') :: r else (k', v') :: ssSet k v r

/-- store.Get -/
def ssGet (k : String) : List (String × α) → Option α
  | [] => none
  | (k', v') :: r => if k = k' then some v' else ssGet k r

def ssHas (k : String) (l : List (String × α)) : Bool := (ssGet k l).isSome

/-- the iterator's order: strictly ascending keys -/
def Sorted (l : List (String × α)) : Prop := l.Pairwise (fun a b => a.1 < b.1)

/-- a genesis import loop: one setter call per exported element, the first error panics (`none`) -/
def runInit {β : Type} (step : β → List (String × β) → Option (List (String × β))) :
    List β → List (String × β) → Option (List (String × β))
  | [], st => some st
  | b :: bs, st => match step b st with
    | none => none
    | some st' => runInit step bs st'

/-- AllDeposits / AllOperatorAssets: a new group whenever the first key part changes (rows in iteration order) -/
def groupAdj {β : Type} (key : β → String) : List β → List (String × List β)
  | [] => []
  | r :: rs => match groupAdj key rs with
    | (s, g) :: gs => if s = key r then (s, r :: g) :: gs else (key r, [r]) :: (s, g) :: gs
    | [] => [(key r, [r])]

end Store

/-! ## identifiers -/

/-- hexutil.EncodeUint64 -/
def hexNat (n : Nat) : String := "0x" ++ String.ofList (Nat.toDigits 16 n)

def isHexDigit (c : Char) : Bool := c.isDigit || ('a' ≤ c && c ≤ 'f') || ('A' ≤ c && c ≤ 'F')

/-- the characters after an optional 0x / 0X prefix -/
def strip0x (s : String) : List Char :=
  match s.toList with
  | '0' :: 'x' :: r => r
  | '0' :: 'X' :: r => r
  | r => r

/-- go-ethereum common.IsHexAddress: optional 0x prefix, then exactly 40 hex digits -/
def isHexAddress (s : String) : Bool := (strip0x s).length == 40 && (strip0x s).all isHexDigit

/-- len(common.FromHex(s)) == 32 for a string of hex digits (an odd-length body is left-padded with one 0) -/
def isHexHash (s : String) : Bool := ((strip0x s).length == 63 || (strip0x s).length == 64) && (strip0x s).all isHexDigit

/-- strings.ToLower (ASCII; structural over the character list so that the kernel can evaluate it) -/
def lowerStr (s : String) : String := String.ofList (s.toList.map Char.toLower)

def isLower (s : String) : Bool := lowerStr s == s

def hexDigitVal (c : Char) : Nat :=
  if c.isDigit then c.toNat - '0'.toNat else if 'a' ≤ c && c ≤ 'f' then c.toNat - 'a'.toNat + 10 else c.toNat - 'A'.toNat + 10

/-- hexutil.DecodeUint64: "0x" prefix, at least one digit, no leading zero (except "0x0"), at most 64 bits -/
def decodeHexNat (s : List Char) : Option Nat :=
  match s with
  | '0' :: 'x' :: b =>
    if b.isEmpty || !b.all isHexDigit || (b.length > 1 && b.head? == some '0') || b.length > 16 then none
    else some (b.foldl (fun acc c => acc * 16 + hexDigitVal c) 0)
  | _ => none

/-- strings.Split(s, "_") on the character list -/
def splitUnderscore : List Char → List (List Char)
  | [] => [[]]
  | c :: cs => match splitUnderscore cs with
    | h :: t => if c = '_' then [] :: h :: t else (c :: h) :: t
    | [] => [[c]]

/-- x/assets/types/keys.go ParseID: "address_0xid" -/
def parseID (s : String) : Option (String × Nat) :=
  match splitUnderscore s.toList with
  | [a, h] => if a.isEmpty then none else (decodeHexNat h).map (fun n => (String.ofList a, n))
  | _ => none

/-- x/assets/types/keys.go ValidateID(key, checkLowercase = true, validateEth = true): the client chain id -/
def validateID (s : String) : Option Nat :=
  if !isLower s then none else
  match parseID s with
  | none => none
  | some (a, n) => if isHexAddress a then some n else none

/-- GetJoinedStoreKey -/
def joinKey (a b : String) : String := a ++ "/" ++ b

/-! ## state and document -/

structure AParams where
  gateway : String
  topic : String
deriving DecidableEq, Repr, Inhabited

structure ChainInfo where
  lzID : Nat
  name : String
  addrLen : Nat
  /-- meta_info, finalization_blocks, exocore_chain_index, signature_type: carried verbatim -/
  rest : String
deriving DecidableEq, Repr, Inhabited

structure TokenInfo where
  lzID : Nat
  addr : String
  decimals : Nat
  /-- name, symbol, meta_info, exocore_chain_index: carried verbatim -/
  rest : String
  /-- StakingTotalAmount -/
  total : Int
deriving DecidableEq, Repr, Inhabited

/-- GetStakerIDAndAssetIDFromStr(lz, "", address): the store key of a token -/
def assetIDOf (t : TokenInfo) : String := lowerStr t.addr ++ "_" ++ hexNat t.lzID

structure DepRow where
  staker : String
  asset : String
  total : Int
  withdrawable : Int
  pending : Int
deriving DecidableEq, Repr, Inhabited

structure OpRow where
  operator : String
  asset : String
  total : Int
  pending : Int
  totalShare : Int
  opShare : Int
deriving DecidableEq, Repr, Inhabited

def DepRow.key (r : DepRow) : String := joinKey r.staker r.asset
def OpRow.key (r : OpRow) : String := joinKey r.operator r.asset

structure Assets where
  params : AParams
  chains : List (String × ChainInfo)     -- prefix 1, key hexNat lzID
  tokens : List (String × TokenInfo)     -- prefix 2, key assetID
  deposits : List (String × DepRow)      -- prefix 3, key stakerID/assetID
  opAssets : List (String × OpRow)       -- prefix 4, key operator/assetID
deriving DecidableEq, Repr, Inhabited

/-- DepositByAsset{AssetID, Info} -/
structure DepItem where
  asset : String
  total : Int
  withdrawable : Int
  pending : Int
deriving DecidableEq, Repr, Inhabited

/-- AssetByID{AssetID, Info} -/
structure OpItem where
  asset : String
  total : Int
  pending : Int
  totalShare : Int
  opShare : Int
deriving DecidableEq, Repr, Inhabited

structure ADoc where
  params : AParams
  chains : List ChainInfo
  tokens : List TokenInfo
  deposits : List (String × List DepItem)      -- DepositsByStaker{StakerID, Deposits}
  opAssets : List (String × List OpItem)       -- AssetsByOperator{Operator, AssetsState}
deriving DecidableEq, Repr, Inhabited

def DepRow.item (r : DepRow) : DepItem := ⟨r.asset, r.total, r.withdrawable, r.pending⟩
def OpRow.item (r : OpRow) : OpItem := ⟨r.asset, r.total, r.pending, r.totalShare, r.opShare⟩
def DepItem.row (staker : String) (d : DepItem) : DepRow := ⟨staker, d.asset, d.total, d.withdrawable, d.pending⟩
def OpItem.row (operator : String) (d : OpItem) : OpRow := ⟨operator, d.asset, d.total, d.pending, d.totalShare, d.opShare⟩

/-! ## ExportGenesis -/

/-- x/assets/keeper/genesis.go: ExportGenesis -/
def exportAssets (s : Assets) : ADoc :=
  { params := s.params,
    chains := s.chains.map (·.2),
    tokens := s.tokens.map (·.2),
    deposits := (groupAdj DepRow.staker (s.deposits.map (·.2))).map (fun g => (g.1, g.2.map DepRow.item)),
    opAssets := (groupAdj OpRow.operator (s.opAssets.map (·.2))).map (fun g => (g.1, g.2.map OpRow.item)) }

/-! ## InitGenesis -/

/-- x/assets/types/general.go: UpdateAssetValue / UpdateAssetDecValue (tied to the regenerated kernel in C18Tie) -/
def updVal (v c : Int) : Option Int := if c < 0 ∧ v < -c then none else some (v + c)

/-- x/assets/keeper/params.go: SetParams — rejects a malformed address / topic, stores both lower-cased -/
def setParams (p : AParams) : Option AParams :=
  if !isHexAddress p.gateway || !isHexHash p.topic then none else some ⟨lowerStr p.gateway, lowerStr p.topic⟩

/-- x/assets/keeper/client_chain.go: SetClientChainInfo (never fails) -/
def stepChain (c : ChainInfo) (st : List (String × ChainInfo)) : Option (List (String × ChainInfo)) :=
  some (ssSet (hexNat c.lzID) c st)

/-- x/assets/keeper/client_chain_asset.go: SetStakingAssetInfo — decimals ≤ MaxDecimal, total not negative, id not registered yet -/
def stepToken (t : TokenInfo) (st : List (String × TokenInfo)) : Option (List (String × TokenInfo)) :=
  if t.decimals > 18 || decide (t.total < 0) || ssHas (assetIDOf t) st then none else some (ssSet (assetIDOf t) t st)

/-- x/assets/keeper/staker_asset.go: UpdateStakerAssetState with the exported row as the change -/
def stepDep (r : DepRow) (st : List (String × DepRow)) : Option (List (String × DepRow)) :=
  let cur := (ssGet r.key st).getD ⟨r.staker, r.asset, 0, 0, 0⟩
  match updVal cur.total r.total, updVal cur.withdrawable r.withdrawable, updVal cur.pending r.pending with
  | some t, some w, some p => some (ssSet r.key ⟨r.staker, r.asset, t, w, p⟩ st)
  | _, _, _ => none

/-- x/assets/keeper/operator_asset.go: UpdateOperatorAssetState with the exported row as the change -/
def stepOp (r : OpRow) (st : List (String × OpRow)) : Option (List (String × OpRow)) :=
  let cur := (ssGet r.key st).getD ⟨r.operator, r.asset, 0, 0, 0, 0⟩
  match updVal cur.total r.total, updVal cur.pending r.pending, updVal cur.totalShare r.totalShare, updVal cur.opShare r.opShare with
  | some t, some p, some ts, some os => some (ssSet r.key ⟨r.operator, r.asset, t, p, ts, os⟩ st)
  | _, _, _, _ => none

/-- the two nested loops of InitGenesis visit the rows in document order -/
def flattenDeps (d : List (String × List DepItem)) : List DepRow := d.flatMap (fun g => g.2.map (DepItem.row g.1))
def flattenOps (d : List (String × List OpItem)) : List OpRow := d.flatMap (fun g => g.2.map (OpItem.row g.1))

/-- x/assets/keeper/genesis.go: InitGenesis on an empty store; `none` = panic -/
def initAssets (d : ADoc) : Option Assets :=
  match setParams d.params, runInit stepChain d.chains [], runInit stepToken d.tokens [],
        runInit stepDep (flattenDeps d.deposits) [], runInit stepOp (flattenOps d.opAssets) [] with
  | some p, some cs, some ts, some ds, some os => some ⟨p, cs, ts, ds, os⟩
  | _, _, _, _, _ => none

/-! ## GenesisState.Validate -/

/-- ValidateClientChains: no duplicate LayerZeroChainID, Name and AddressLength set -/
def validateChains (cs : List ChainInfo) : Bool :=
  decide (cs.map (·.lzID)).Nodup && cs.all (fun c => c.name != "" && c.addrLen != 0)

/-- ValidateTokens: registered chain, lower-case 0x address, total not negative, no duplicate asset id -/
def validateTokens (lzIDs : List Nat) (ts : List TokenInfo) : Bool :=
  decide (ts.map assetIDOf).Nodup &&
  ts.all (fun t => lzIDs.contains t.lzID && isLower t.addr && isHexAddress t.addr && decide (0 ≤ t.total))

/-- the map returned by ValidateTokens: asset id ↦ StakingTotalAmount -/
def tokenTotal (ts : List TokenInfo) (assetID : String) : Option Int :=
  (ts.find? (fun t => assetIDOf t == assetID)).map (·.total)

/-- ValidateDeposits, one DepositByAsset of a staker on client chain `chain` -/
def validateDepItem (ts : List TokenInfo) (chain : Nat) (d : DepItem) : Bool :=
  match tokenTotal ts d.asset with
  | none => false
  | some tot =>
    ((parseID d.asset).map (·.2)).getD 0 == chain &&
    decide (0 ≤ d.total) && decide (0 ≤ d.withdrawable) && decide (0 ≤ d.pending) &&
    decide (d.total ≤ tot) && decide (d.pending + d.withdrawable ≤ d.total)

/-- ValidateDeposits -/
def validateDeposits (lzIDs : List Nat) (ts : List TokenInfo) (ds : List (String × List DepItem)) : Bool :=
  decide (ds.map (·.1)).Nodup &&
  ds.all (fun g =>
    match validateID g.1 with
    | none => false
    | some chain => lzIDs.contains chain && decide (g.2.map (·.asset)).Nodup && g.2.all (validateDepItem ts chain))

/-- x/assets/types/general.go: ExocoreAssetID -/
def exocoreAssetID : String := "0x0000000000000000000000000000000000000000_0x0"

/-- ValidateOperatorAssets, one AssetByID. `nativeExempt` = the F-18j repair: a pool of the native token needs no
    entry in tokens (x/delegation writes it for MsgDelegation); the comparison with the token's total is made whenever
    an entry exists. -/
def validateOpItem (nativeExempt : Bool) (ts : List TokenInfo) (a : OpItem) : Bool :=
  match tokenTotal ts a.asset with
  | none => nativeExempt && a.asset == exocoreAssetID && decide (a.opShare ≤ a.totalShare)
  | some tot => decide (a.total + a.pending ≤ tot) && decide (a.opShare ≤ a.totalShare)

/-- ValidateOperatorAssets (bech32 decoding of the operator not modelled) -/
def validateOpAssets (nativeExempt : Bool) (ts : List TokenInfo) (os : List (String × List OpItem)) : Bool :=
  decide (os.map (·.1)).Nodup &&
  os.all (fun g => decide (g.2.map (·.asset)).Nodup && g.2.all (validateOpItem nativeExempt ts))

/-- Params.Validate -/
def validateParams (p : AParams) : Bool := isHexAddress p.gateway && isHexHash p.topic

/-- x/assets/types/genesis.go: GenesisState.Validate -/
def validateAssetsWith (nativeExempt : Bool) (d : ADoc) : Bool :=
  validateChains d.chains && validateTokens (d.chains.map (·.lzID)) d.tokens &&
  validateDeposits (d.chains.map (·.lzID)) d.tokens d.deposits && validateOpAssets nativeExempt d.tokens d.opAssets &&
  validateParams d.params

/-- the code as it is (after the F-18j repair) -/
def validateAssets (d : ADoc) : Bool := validateAssetsWith true d
/-- the code before the F-18j repair: every pool needed a registered token. Kept for the regression theorems. -/
def validateAssetsPreFix (d : ADoc) : Bool := validateAssetsWith false d

/-! ## the readers that look a pool up for a delegation row

x/delegation keeps one row per (staker, asset, operator) under `stakerID/assetID/operator`; UpdateDelegationState never
deletes it (a row whose share and pending amount are both zero stays: the source carries a todo about it), and
x/assets UpdateOperatorAssetState never deletes a pool row either. AllDelegatedInfoForStakerAsset,
TotalDelegatedAmountForStakerAsset (x/delegation) and CalculateUSDValueForStaker (x/operator; the staker's weight in
x/feedistribution AllocateTokensToStakers) walk the delegation rows of a staker and look the pool of EVERY row up:
a missing pool row is ErrNoOperatorAssetKey for the whole question. -/

/-- one row of x/delegation's KeyPrefixRestakerDelegationInfo store; `share` = UndelegatableShare (raw LegacyDec) -/
structure DelegRow where
  staker : String
  asset : String
  operator : String
  share : Int
  pending : Int
deriving DecidableEq, Repr, Inhabited

def DelegRow.key (r : DelegRow) : String := r.staker ++ "/" ++ r.asset ++ "/" ++ r.operator

/-- x/assets/keeper/operator_asset.go: GetOperatorSpecifiedAssetInfo — `none` = ErrNoOperatorAssetKey -/
def getOperatorAssetInfo (s : Assets) (operator asset : String) : Option OpRow :=
  ssGet (joinKey operator asset) s.opAssets

/-- x/delegation/keeper/share.go: TokensFromShares on raw LegacyDec shares (`none` = ErrInsufficientShares /
    ErrDivisorIsZero): stakerShare.MulInt(totalAmount).QuoTruncate(totalShare).TruncateInt() -/
def tokensFromShares (share totalShare totalAmount : Int) : Option Int :=
  if share > totalShare then none
  else if totalShare = 0 then (if totalAmount = 0 then some 0 else none)
  else some (Int.tdiv (Int.tdiv (share * totalAmount * 1000000000000000000) totalShare) 1000000000000000000)

/-- what the body of the readers' closure computes for one delegation row: the pool of the row and the amount the row's
    share stands for; `none` = the pool has no row (the reader returns ErrNoOperatorAssetKey) -/
def poolOfRow (s : Assets) (r : DelegRow) : Option (OpRow × Option Int) :=
  (getOperatorAssetInfo s r.operator r.asset).map (fun p => (p, tokensFromShares r.share p.totalShare p.total))

/-- x/delegation/keeper/delegation_state.go: AllDelegatedInfoForStakerAsset over the rows of one (staker, asset) in store
    order: operator ↦ amount; the first missing pool / failed conversion is the error of the whole call (`none`) -/
def delegatedInfo (s : Assets) : List DelegRow → Option (List (String × Int))
  | [] => some []
  | r :: rs =>
    match poolOfRow s r with
    | some (_, some amt) => (delegatedInfo s rs).map (fun l => (r.operator, amt) :: l)
    | _ => none

/-- every delegation row has its pool row: what DelegateTo establishes (it writes both) and no writer undoes -/
def PoolsCover (s : Assets) (rows : List DelegRow) : Prop :=
  ∀ r ∈ rows, (getOperatorAssetInfo s r.operator r.asset).isSome = true

end ExoVerif.Genesis
