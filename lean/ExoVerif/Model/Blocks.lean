/-
  C11 — block processing with explicit `halt` outcomes.
  The pieces of Begin/EndBlock in which the repository's own code can panic (as found by the
  regenerated panic-site list and confirmed on the real application) are modelled as total
  functions returning `Outcome`; everything a Go panic would do inside Begin/EndBlock is `halt`
  (baseapp recovers panics in DeliverTx only). Core Lean only.
-/
namespace ExoVerif.Blocks

inductive Outcome where
  | ok        -- processed
  | logged    -- error logged and skipped (the hooks' convention)
  | halt      -- panic inside BeginBlock / EndBlock / Commit: the node stops
deriving DecidableEq, Repr

/-- LegacyDec precision and limits (cosmossdk.io/math dec.go): raw = value·10^18, |raw| < 2^315 -/
def decOne : Int := 10 ^ 18
def decMaxBits : Nat := 315
def decOverflows (raw : Int) : Bool := decide (2 ^ decMaxBits ≤ raw.natAbs)
def int64Max : Int := 2 ^ 63 - 1

/-- LegacyDec.Quo: panics on a zero divisor (cosmossdk.io/math dec.go) -/
def decQuo? (a b : Int) : Option Int := if b = 0 then none else some ((a * decOne).tdiv b)

/-- x/operator/keeper/slash.go: SlashAssets, the proportion computation:
`if !StakingAndWaitUnbonding.IsPositive() { return nil, ErrValueIsNilOrZero }` then
`slashUSDValue.Quo(StakingAndWaitUnbonding)`. `none` = the Quo panicked. -/
def slashProportion (slashUSDValue stakingAndWaitUnbonding : Int) : Option (Except Unit Int) :=
  if ¬ (0 < stakingAndWaitUnbonding) then some (.error ())
  else match decQuo? slashUSDValue stakingAndWaitUnbonding with
    | some q => some (.ok q)
    | none => none

/-- Reached from BeginBlock (x/slashing, x/evidence → dogfood.SlashWithInfractionReason →
operator.SlashWithInfractionReason → Slash → SlashAssets); operator.SlashWithInfractionReason logs an
error of Slash and returns 0: nothing is slashed, the block goes on. -/
def slashAssets (stakingAndWaitUnbonding : Int) : Outcome :=
  match slashProportion 1 stakingAndWaitUnbonding with
  | none => .halt
  | some (.error _) => .logged
  | some (.ok _) => .ok

/-- x/operator/keeper/common_func.go: CalculateUSDValue: `divisor := NewIntWithDecimal(1, assetDecimal+priceDecimal)`,
then `assetValueDec.QuoInt(divisor)` (big.Int.Quo panics on zero) -/
def usdDivisor (assetDecimal priceDecimal : Int) : Int := (1 : Int) * (10 : Int) ^ (Int.toNat (assetDecimal + priceDecimal))

/-- x/delegation/keeper/share.go: TokensFromShares, control flow around the Quo (raw Dec values);
`none` = the Quo panicked -/
def tokensFromSharesQuo? (stakerShare totalShare totalAmount : Int) : Option (Except Unit Int) :=
  if totalShare < stakerShare then some (.error ())
  else if totalShare = 0 then (if totalAmount = 0 then some (.ok 0) else some (.error ()))
  else (decQuo? (stakerShare * totalAmount) totalShare).map Except.ok

/-- x/feedistribution/keeper/allocation.go: AllocateTokens: `if totalPreviousPower == 0 { return nil }`
(twice) before `NewDec(val.Power).QuoTruncate(NewDec(totalPreviousPower))`; `none` = panic -/
def allocateFraction? (valPower totalPreviousPower : Int) : Option (Option Int) :=
  if totalPreviousPower = 0 then some none
  else (decQuo? (valPower * decOne) (totalPreviousPower * decOne)).map some

/-- x/oracle/keeper/common/types.go: BigIntList.Median, even length: `Div(sum, big.NewInt(2))` -/
def medianDivisor : Int := 2

/-! ### x/gov EndBlocker → Tally (cosmos-sdk v0.47 x/gov/keeper/tally.go) over x/dogfood as staking keeper -/

/-- sdk.DefaultPowerReduction of this chain (evmos: 10^18) -/
def powerReduction : Int := 10 ^ 18

/-- a bonded validator as the tally sees it -/
structure GovVal where
  power : Int           -- x/dogfood vote power applied at the last epoch (>= 1 for every member of the set)
  operatorShares : Int  -- raw DelegatorShares x/operator derives from the operator's *current* USD value (0 is possible)
  voted : Bool
deriving DecidableEq, Repr

/-- x/dogfood/keeper/impl_sdk.go: IterateBondedValidatorsByPower: `val.Tokens = TokensFromConsensusPower(v.Power)` -/
def govTokens (v : GovVal) : Int := v.power * powerReduction
/-- … and, as repaired, `val.DelegatorShares = val.Tokens.ToLegacyDec()` (raw Dec) -/
def govShares (v : GovVal) : Int := govTokens v * decOne
/-- before the repair the shares were the ones x/operator filled in -/
def govSharesPre (v : GovVal) : Int := v.operatorShares

/-- one voting validator: `sharesAfterDeductions.MulInt(val.BondedTokens).Quo(val.DelegatorShares)`; the
deductions are zero because IterateDelegations (repaired: a no-op) never reports a delegation.
`none` = LegacyDec.Quo panicked. -/
def tallyVal (shares tokens : Int) : Option Int := decQuo? (shares * tokens) shares

/-- the loop over `currValidators`: total voting power, or `none` if a Quo panicked -/
def govTally (shareOf : GovVal → Int) : List GovVal → Option Int
  | [] => some 0
  | v :: rest =>
    if v.voted then
      match tallyVal (shareOf v) (govTokens v), govTally shareOf rest with
      | some w, some t => some (w + t)
      | _, _ => none
    else govTally shareOf rest

/-- x/dogfood TotalBondedTokens as repaired: last total power times the power reduction -/
def totalBondedTokens (totalPower : Int) : Int := totalPower * powerReduction

/-- the quorum: `if TotalBondedTokens.IsZero() { return }` then `totalVotingPower.Quo(NewDecFromInt(TotalBondedTokens))` -/
def govQuorum? (totalVoting totalPower : Int) : Option (Option Int) :=
  if totalBondedTokens totalPower = 0 then some none
  else (decQuo? totalVoting (totalBondedTokens totalPower * decOne)).map some

/-- one proposal whose voting period ends in this block -/
def govProposalEnd (totalPower : Int) (vals : List GovVal) : Outcome :=
  match govTally govShares vals with
  | none => .halt
  | some t => match govQuorum? t totalPower with
    | none => .halt
    | some _ => .ok

/-- the gov EndBlocker over all proposals ending now -/
def govEndBlock (totalPower : Int) (ending : List (List GovVal)) : Outcome :=
  if ending.any (fun vals => govProposalEnd totalPower vals == .halt) then .halt else .ok

/-- the EndBlocker before the repair: TotalBondedTokens / IterateDelegations `panic("unimplemented on this keeper")`
as soon as one proposal is tallied -/
def govEndBlockPre (ending : List (List GovVal)) : Outcome := if ending.isEmpty then .ok else .halt

/-- one stored task result as x/avs AfterEpochEnd sees it after the protobuf round trip:
an empty signature reads back as nil -/
structure TaskRes where
  taskId : Nat
  hasSignature : Bool

/-- x/avs/keeper/task.go: SetTaskResultInfo, phase one: `if len(info.BlsSignature) == 0 { return ErrParamNotEmptyError }`
(before the repair the check was `== nil`, which an empty, non-nil slice passed). `sigLen` = len(BlsSignature). -/
def phaseOneAccepts (sigLen : Nat) : Bool := sigLen != 0

/-- what is stored and read back for an accepted phase-one result -/
def storedPhaseOne (taskId sigLen : Nat) : TaskRes := { taskId := taskId, hasSignature := sigLen != 0 }

/-- one (taskID, taskAddr) group of AfterEpochEnd with the outcome of its GetTaskInfo lookup -/
structure TaskGroup where
  results : List TaskRes
  taskInfoFound : Bool

/-- x/avs/keeper/impl_epoch_hook.go: AfterEpochEnd, one group, as repaired: taskID / taskAddr are taken
from the first *signed* result; `if len(signedOperatorList) == 0 { log; continue }`, then
`if err != nil || taskInfo == nil { log; continue }` — the nil *TaskInfo is no longer dereferenced. -/
def avsGroup (g : TaskGroup) : Outcome :=
  if !(g.results.any (·.hasSignature)) then .logged
  else if !g.taskInfoFound then .logged
  else .ok

def avsEpochEnd (groups : List TaskGroup) : Outcome :=
  if groups.any (fun g => avsGroup g == .halt) then .halt else .ok

/-- x/operator epoch hook (BeginBlock): USD value = amount · price / 10^decimals as LegacyDec;
MulInt panics "Int overflow" beyond 315 bits. `amountTimesPrice` is the integer product. -/
def usdValueUpdate (amountTimesPrice : Int) : Outcome :=
  if decOverflows (amountTimesPrice * decOne) then .halt else .ok

/-- x/dogfood/keeper/abci.go: EndBlock at an epoch end: vote power = usdValue.TruncateInt64-style
conversion, `Int64()` panics "out of bound" above 2^63-1. -/
def dogfoodEndBlock (usdValueInt : Int) : Outcome :=
  if int64Max < usdValueInt then .halt else .ok

/-- the block-relevant part of the state -/
structure St where
  slashedOperatorValue : Option Int   -- Some v: a slash for an operator of total value v arrives in BeginBlock
  endingProposals : List (List GovVal) -- per proposal whose voting period ends now: the bonded validators with their votes
  lastTotalPower : Int                -- x/dogfood LastTotalPower
  avsGroups : List TaskGroup          -- groups whose statistical epoch ends in this block
  maxAmountTimesPrice : Int           -- largest per-asset amount·price of any operator (epoch end)
  maxUsdValueInt : Int                -- largest operator USD value (integer part)

/-- the slash arriving in this block's BeginBlock, if any -/
def slashStep (o : Option Int) : Outcome :=
  match o with | some v => slashAssets v | none => .ok

def seqO (a b : Outcome) : Outcome := match a with | .halt => .halt | _ => b

/-- BeginBlock (epochs → hooks: operator, avs; slashing/evidence) then EndBlock (dogfood, gov) -/
def block (s : St) : Outcome :=
  seqO (usdValueUpdate s.maxAmountTimesPrice)
  (seqO (avsEpochEnd s.avsGroups)
  (seqO (slashStep s.slashedOperatorValue)
  (seqO (dogfoodEndBlock s.maxUsdValueInt) (govEndBlock s.lastTotalPower s.endingProposals))))

/-- the states excluded by the `_partial` theorem, i.e. the negation of the two recorded open defects F-11f / F-11g, plus the validator-set invariant the gov tally relies on (F-04b, F-11a and F-11b were repaired: a slash of a valueless operator and an unsigned task-result group are logged and skipped, the gov tally is implemented) -/
structure Inv (s : St) : Prop where
  valPowers : ∀ vals ∈ s.endingProposals, ∀ v ∈ vals, 1 ≤ v.power          -- kept by x/dogfood: EndBlock drops keys with power < 1
  powerFits : s.maxUsdValueInt ≤ int64Max                                  -- ¬F-11f
  usdFits : decOverflows (s.maxAmountTimesPrice * decOne) = false          -- ¬F-11g

/-! ### DeliverTx: panics are recovered -/
inductive MsgRes (σ : Type) where
  | ok (s : σ)
  | err (s : σ)     -- Go: error returned, possibly after writes (discarded with the tx's cache)
  | panic

inductive TxOutcome where | accepted | rejected
deriving DecidableEq, Repr

/-- baseapp.runTx in deliver mode: the message runs on a branch of the state; an error or a
recovered panic discards the branch -/
def deliverTx {σ : Type} (m : σ → MsgRes σ) (s : σ) : TxOutcome × σ :=
  match m s with
  | .ok s' => (.accepted, s')
  | .err _ => (.rejected, s)
  | .panic => (.rejected, s)

end ExoVerif.Blocks
