import ExoVerif.Model.Oracle
/-! # The check-side copy of the aggregator context (C13: a simulated submission changes nothing)

`keeper.GetAggregatorContext` hands message handlers that run with `ctx.IsCheckTx()` (with this SDK:
`BaseApp.Simulate` only — CheckTx/ReCheckTx stop after the ante chain) the context
`agcCheckTx = agc.Copy4CheckTx()`; it is kept until `ResetAggregatorContextCheckTx` at the next EndBlock.

`Model/Oracle.lean` treats the aggregator context as a VALUE (`Agc`). In the Go code it is an object graph:
`rounds map[uint64]*roundInfo` holds one pointer per feeder and `FillPrice` writes
`agc.rounds[msg.FeederID].status = roundStatusClosed` through it. Whether the value view is sound for
the pair (deliver-side context, check-side context) depends on how `Copy4CheckTx` builds the second
map. Part 1 models exactly that: a heap of `roundInfo` cells, contexts holding addresses, the copy as
the code makes it (a fresh cell per entry), the writes through a context's pointers. Part 2 is the
node-level step the driver replays for a simulated transaction. Core Lean only. -/
namespace ExoVerif.OracleCheckSide
open ExoVerif.Oracle

/-! ## Part 1: cells and pointers (aggregator/context.go) -/

/-- the Go heap as far as `roundInfo` values are concerned: `cell a` is the value stored at address `a`;
every address `≥ next` is unallocated -/
structure Heap where
  cell : Nat → Option Round
  next : Nat

/-- `AggregatorContext.rounds : map[uint64]*roundInfo` — feeder id ↦ address -/
structure Ctx where
  rounds : List (Nat × Nat)
deriving Repr, DecidableEq

/-- `&vTmp` of a fresh local `vTmp := r`: a new cell -/
def Heap.alloc (h : Heap) (r : Round) : Heap × Nat :=
  ({ cell := fun x => if x = h.next then some r else h.cell x, next := h.next + 1 }, h.next)

/-- `*p = r` -/
def Heap.store (h : Heap) (a : Nat) (r : Round) : Heap :=
  { h with cell := fun x => if x = a then some r else h.cell x }

/-- what a context sees: every feeder's round, read through its pointer -/
def Ctx.view (c : Ctx) (h : Heap) : List (Nat × Option Round) :=
  c.rounds.map (fun ka => (ka.1, h.cell ka.2))

/-- context.go: Copy4CheckTx, the rounds —
`rounds: make(map[uint64]*roundInfo)` … `for k, v := range agc.rounds { vTmp := *v; ret.rounds[k] = &vTmp }`.
(A nil entry would panic at `*v`; the map never holds one — the entry is skipped here.) -/
def copyRounds : Heap → List (Nat × Nat) → Heap × List (Nat × Nat)
  | h, [] => (h, [])
  | h, (k, a) :: rest =>
    match h.cell a with
    | some r =>
      let (h1, a') := h.alloc r
      let (h2, rest') := copyRounds h1 rest
      (h2, (k, a') :: rest')
    | none => copyRounds h rest

def copy4CheckTx (h : Heap) (c : Ctx) : Heap × Ctx :=
  let (h', rs) := copyRounds h c.rounds
  (h', { rounds := rs })

/-- the variant `rounds: maps.Clone(agc.rounds)`: a new map holding the SAME addresses -/
def copyShallow (h : Heap) (c : Ctx) : Heap × Ctx := (h, { rounds := c.rounds })

/-- an assignment through a context's pointer: `c.rounds[fid].<field> = …` -/
def Ctx.write (c : Ctx) (h : Heap) (fid : Nat) (f : Round → Round) : Heap :=
  match alookup fid c.rounds with
  | some a =>
    match h.cell a with
    | some r => h.store a (f r)
    | none => h
  | none => h

/-- context.go: FillPrice, `agc.rounds[msg.FeederID].status = roundStatusClosed` -/
def Ctx.closeRound (c : Ctx) (h : Heap) (fid : Nat) : Heap :=
  c.write h fid (fun r => { r with status := .closed })

/-- any sequence of writes through one context -/
def Ctx.writes (c : Ctx) : Heap → List (Nat × (Round → Round)) → Heap
  | h, [] => h
  | h, (fid, f) :: ws => c.writes (c.write h fid f) ws

/-- every pointer of the context is an allocated address -/
def Ctx.Below (c : Ctx) (n : Nat) : Prop := ∀ ka ∈ c.rounds, ka.2 < n

/-- every pointer of the context is at or above `n` -/
def Ctx.AtLeast (c : Ctx) (n : Nat) : Prop := ∀ ka ∈ c.rounds, n ≤ ka.2

/-! ## Part 2: a simulated transaction at the level of `Model/Oracle.lean`

By part 1 (`Props/C13CheckSide.lean`) the two contexts share no cell, so the check-side context is a
value of its own: `none` until the first handler execution on the check state in the block, then what
the simulated handlers made of the copy. -/

structure Node where
  deliver : State
  check : Option Agc        -- single.go: agcCheckTx
deriving Repr, DecidableEq, Inhabited

/-- single.go: GetAggregatorContext under `ctx.IsCheckTx()` — the existing check-side context, or a
copy of the deliver-side one -/
def Node.checkAgc (n : Node) : Option Agc :=
  match n.check with
  | some g => some g
  | none => n.deliver.agc

/-- baseapp.Simulate of a create-price tx: the ante chain and the handlers run on a branch of the check
state (`chkStore`, header time `chkTime` of the last committed block) and on the check-side context;
every store write is dropped, the pending cache is not touched under `IsCheckTx`
(`if !ctx.IsCheckTx() { cs.AddCache / cs.RemoveCache }`), the check-side context keeps what the
handlers did. The signature check is skipped when simulating (`!simulate && !pubKey.VerifySignature`). -/
def simulateTx (n : Node) (chkStore : Store) (chkTime : Int) (tx : Tx) : Node × TxOut :=
  let tx' : Tx := { tx with infos := tx.infos.map (fun i => { i with sigValid := true }) }
  let s : State := { n.deliver with store := chkStore, agc := n.checkAgc, blockTime := chkTime }
  let (s', out) := deliverTx s tx'
  ({ n with check := s'.agc }, out)

/-- a block's worth of simulations (each on its own check-state snapshot) -/
def simulateMany : Node → List (Store × Int × Tx) → Node
  | n, [] => n
  | n, (st, t, tx) :: rest => simulateMany (simulateTx n st t tx).1 rest

/-- DeliverTx on a node: the deliver side only -/
def Node.deliverTx (n : Node) (tx : Tx) : Node × TxOut :=
  let (s', out) := ExoVerif.Oracle.deliverTx n.deliver tx
  ({ n with deliver := s' }, out)

/-- module.go: EndBlock — `ResetAggregatorContextCheckTx()` drops the check-side context -/
def Node.endBlock (n : Node) (updates : List (Nat × Int)) : Option Node :=
  match ExoVerif.Oracle.endBlock n.deliver updates with
  | some s' => some { deliver := s', check := none }
  | none => none

end ExoVerif.OracleCheckSide
