import ExoVerif.Model.Ledger
/-
  Where the amount of a native-restaking balance adjustment comes from (C01): the glue between
    * precompiles/assets/tx.go: DepositOrWithdraw (depositNST / withdrawNST: books the amount in x/assets and
      hands it, NEGATED for a withdrawal, to the oracle's per-staker record),
    * x/oracle/keeper/native_token.go: UpdateNSTValidatorListForStaker (validator list + effective balance in
      whole tokens, staker list) and UpdateNSTByBalanceChange (one balance report of an oracle round: for every
      listed staker `32 x validators + change`, booked through x/delegation UpdateNSTBalance as the difference to
      the recorded balance),
  on top of the ledger model. Mirrors the code as it is (the whole report is refused if one staker is out of
  range; a staker whose recorded balance falls to 0 or below leaves the list and loses its record).
-/
namespace ExoVerif.NstGlue
open ExoVerif ExoVerif.KV ExoVerif.Ledger

/-- x/oracle StakerInfo: ValidatorPubkeyList and the Balance of the latest BalanceList entry -/
structure NRec where
  vals : List String
  bal : Int
deriving DecidableEq, Repr, Inhabited

structure G where
  led : L
  asset : AID
  dec : Nat                         -- decimals of the asset (getDecimal)
  chain : String                    -- hexutil.EncodeUint64(client chain id), the suffix of staker ids
  recs : List (String × NRec)       -- NativeTokenStakerKey(assetID, stakerAddr)
  list : List String                -- NativeTokenStakerListKey(assetID): StakerAddrs
deriving DecidableEq, Repr, Inhabited

/-- maxEffectiveBalance[NSTETHASSETID] -/
def maxEff : Int := 32

def unitOf (g : G) : Int := 10 ^ g.dec

/-- x/oracle getStakerID(stakerAddr, chainID) -/
def sidOf (g : G) (addr : String) : SID := addr ++ "_" ++ g.chain

/-- UpdateNSTValidatorListForStaker: whole tokens added to the recorded balance
    (`amount.GTE(efbUnit)` ⇒ 32, else `amount.Quo(decimalInt).Int64()`, truncated towards zero) -/
def effUnits (amount unit : Int) : Int :=
  if maxEff * unit ≤ amount then maxEff else Int.tdiv amount unit

def balOf (g : G) (addr : String) : Int := at0 (·.bal) g.recs addr
def valsOf (g : G) (addr : String) : List String := ((find? g.recs addr).map (·.vals)).getD []

/-- x/oracle/keeper/native_token.go: UpdateNSTValidatorListForStaker(assetID, stakerAddr, pubkey, amount) -/
def updateValidatorList (g : G) (addr pk : String) (amount : Int) : Except String G :=
  -- a new record starts as NewStakerInfo(stakerAddr, pubkey) = [pk] and is not appended to again; an existing one
  -- gets the key appended on a deposit; a withdrawal drops the first occurrence of the key (for a new record:
  -- [pk] without pk). All four cases are `known validators ++ [pk]` resp. `known validators without pk`.
  let vals := if 0 < amount then valsOf g addr ++ [pk] else (valsOf g addr).erase pk
  let bal := balOf g addr + effUnits amount (unitOf g)
  let recs := if bal ≤ 0 then erase g.recs addr else set g.recs addr ⟨vals, bal⟩
  if g.list.contains addr then
    .ok { g with list := if bal ≤ 0 then g.list.erase addr else g.list, recs := recs }
  else if 0 < amount then
    .ok { g with list := g.list ++ [addr], recs := recs }
  else .error "remove unexist validator"

/-- precompiles/assets: depositNST as the gateway (DepositWithdrawParams refuses a non-positive amount;
    PerformDepositOrWithdraw books it; the oracle record gets `+x`) -/
def depositNST (g : G) (addr pk : String) (x : Int) : Except String G :=
  if !(0 < x) then .error "ErrContractInputParaOrType"
  else match deposit g.led (sidOf g addr) g.asset x with
    | .error e => .error e
    | .ok led => updateValidatorList { g with led := led } addr pk x

/-- precompiles/assets: withdrawNST as the gateway: the oracle record gets `opAmount.Neg()` -/
def withdrawNST (g : G) (addr pk : String) (x : Int) : Except String G :=
  if !(0 < x) then .error "ErrContractInputParaOrType"
  else match withdraw g.led (sidOf g addr) g.asset x with
    | .error e => .error e
    | .ok led => updateValidatorList { g with led := led } addr pk (-x)

/-- one staker of UpdateNSTByBalanceChange: reported effective balance = 32 per validator + change -/
def roundStaker (g : G) (addr : String) (change : Int) : Except String G :=
  match find? g.recs addr with
  | none => .error "stakerInfo does not exist"
  | some r =>
    let maxB : Int := maxEff * r.vals.length
    let b := maxB + change
    if maxB < b ∨ b ≤ 0 then .error "effective balance should never exceeds 32 for one validator and should be positive"
    else if b - r.bal = 0 then .ok g
    else match nstUpdate g.led (sidOf g addr) g.asset ((b - r.bal) * unitOf g) with
      | .error e => .error e
      | .ok led => .ok { g with led := led, recs := set g.recs addr ⟨r.vals, b⟩ }

/-- the loop over the staker list; `changes` by position in the list (absent = 0, "which is expected") -/
def roundFrom (changes : List (Nat × Int)) : Nat → List String → G → Except String G
  | _, [], g => .ok g
  | i, a :: rest, g =>
    match roundStaker g a (getD changes i 0) with
    | .error e => .error e
    | .ok g' => roundFrom changes (i + 1) rest g'

/-- UpdateNSTByBalanceChange(assetID, rawData, roundID) for well-formed raw data: all stakers or none -/
def round (g : G) (changes : List (Nat × Int)) : Except String G :=
  if g.list.isEmpty then .error "staker list is empty" else roundFrom changes 0 g.list g

end ExoVerif.NstGlue
