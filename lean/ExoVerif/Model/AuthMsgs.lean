import ExoVerif.Model.Auth
/-!
# Every Cosmos message of the exocore modules as an entry point (C10)

`Model/Auth.lean` transcribes the decision of the entry points somebody uses. This file closes the list: every
type an exocore module registers as `sdk.Msg` (InterfaceRegistry: x/*/types/codec.go) has a row in `msgTable`
with the class of what a signed transaction carrying it reaches — a handler with a decision function of
`Model/Auth.lean`, a handler whose body is `panic("implement me")`, or no handler at all — and `admitMsg`
decides it. The table is compared with the running application by the harness (dom_auth_allmsgs.go enumerates
`InterfaceRegistry().ListImplementations` + `MsgServiceRouter().HandlerByTypeURL`; a url that is missing here, or
a routed flag that differs, is a model difference) and with the source by `C10_tie_msg_routes`. Core Lean only.
-/
namespace ExoVerif.Auth

/-- what a transaction carrying the message reaches -/
inductive MsgClass where
  | operatorMsg     -- x/operator/keeper/msg_server.go (admitOpMsg)
  | delegationMsg   -- x/delegation/keeper/msg_server.go: stakes / unstakes the SIGNER's native tokens (BaseInfo.FromAddress = GetSigners)
  | taskResult      -- x/avs/keeper/msg_server.go: SubmitTaskResult (admitTaskResult)
  | oraclePrice     -- x/oracle MsgCreatePrice (admitOraclePrice)
  | updateParams    -- UpdateParams of assets, dogfood, exomint, feedistribution, oracle (admitUpdateParams)
  | stub            -- x/avs/keeper/msg_server.go: RegisterAVS / DeRegisterAVS / RegisterAVSTask — `// TODO implement me` + `panic("implement me")`;
                    -- baseapp.runTx recovers the panic: the tx fails, the branch of runMsgs is dropped
  | unrouted        -- registered in the InterfaceRegistry, no handler in the MsgServiceRouter (x/assets MsgSetExoCoreAddr is in no
                    -- service; x/reward and x/slash do not call RegisterMsgServer): baseapp "can't route message"
  deriving Repr, DecidableEq

/-- every sdk.Msg type of the exocore modules, sorted by type url -/
def msgTable : List (String × MsgClass) :=
  [ ("/exocore.assets.v1.MsgSetExoCoreAddr", .unrouted),
    ("/exocore.assets.v1.MsgUpdateParams", .updateParams),
    ("/exocore.avs.v1.DeRegisterAVSReq", .stub),
    ("/exocore.avs.v1.RegisterAVSReq", .stub),
    ("/exocore.avs.v1.RegisterAVSTaskReq", .stub),
    ("/exocore.avs.v1.SubmitTaskResultReq", .taskResult),
    ("/exocore.delegation.v1.MsgDelegation", .delegationMsg),
    ("/exocore.delegation.v1.MsgUndelegation", .delegationMsg),
    ("/exocore.dogfood.v1.MsgUpdateParams", .updateParams),
    ("/exocore.exomint.v1.MsgUpdateParams", .updateParams),
    ("/exocore.feedistribution.v1.MsgUpdateParams", .updateParams),
    ("/exocore.operator.v1.OptIntoAVSReq", .operatorMsg),
    ("/exocore.operator.v1.OptOutOfAVSReq", .operatorMsg),
    ("/exocore.operator.v1.RegisterOperatorReq", .operatorMsg),
    ("/exocore.operator.v1.SetConsKeyReq", .operatorMsg),
    ("/exocore.oracle.v1.MsgCreatePrice", .oraclePrice),
    ("/exocore.oracle.v1.MsgUpdateParams", .updateParams),
    ("/exocore.reward.v1.MsgUpdateParams", .unrouted),
    ("/exocore.slash.v1.MsgUpdateParams", .unrouted) ]

def classOf (url : String) : Option MsgClass := (msgTable.find? (fun p => p.1 == url)).map (·.2)

/-- MsgServiceRouter().HandlerByTypeURL(url) ≠ nil -/
def MsgClass.routed : MsgClass → Bool
  | .unrouted => false
  | _ => true

/-- the route as tools/exofacts reads it off the source (facts_msgroutes.go) -/
def MsgClass.route : MsgClass → String
  | .unrouted => "unrouted"
  | .stub => "panic-stub"
  | _ => "impl"

/-- Decision of a signed transaction carrying one message of class `cls`. `r.arg0` = the sender field (what GetSigners
returns), `r.origin` = the account whose key signed, `r.subject` = TaskResultInfo.OperatorAddress; `handlerOk` = the
handler's own conditions on the payload (already registered, window, amounts …), which are not the subject here. -/
def admitMsg (cls : MsgClass) (st : AuthState) (r : Request) (handlerOk : Bool) : Bool :=
  match cls with
  | .operatorMsg => admitOpMsg r handlerOk
  | .delegationMsg => admitSdkMsg r && handlerOk
  | .taskResult => admitTaskResult st r handlerOk
  | .oraclePrice => admitOraclePrice st r && handlerOk
  | .updateParams => admitUpdateParams st r && handlerOk
  | .stub => false
  | .unrouted => false

/-- the accounts under whose address an admitted message writes records (counterparty aggregates — the operator
delegated to, the AVS opted into — and the module's own parameter record aside: the harness lists them one by one) -/
def msgRecordOwners (cls : MsgClass) (r : Request) : List Addr :=
  match cls with
  | .operatorMsg | .delegationMsg => [r.arg0]
  | .taskResult => [r.subject]
  | .oraclePrice | .updateParams | .stub | .unrouted => []

/-- the messages through which the AVS precompile's management methods would have a second, Cosmos-side door -/
def avsManagementMsgs : List String :=
  ["/exocore.avs.v1.RegisterAVSReq", "/exocore.avs.v1.DeRegisterAVSReq", "/exocore.avs.v1.RegisterAVSTaskReq"]

/-- VARIANT (not the code): a RegisterAVS message handler that takes the AVS address from the payload
(`avs` = Info.AvsAddress) and requires the sender to be in the owner list OF THE SAME PAYLOAD — the shape of the
precompile's check (`admitRegisterAVS`) with `contract.CallerAddress` replaced by a payload field. -/
def admitRegisterAVSMsgPayloadAddressed (st : AuthState) (r : Request) (avs : Addr) (owners : List Addr) : Bool :=
  admitSdkMsg r && owners.contains r.arg0 && !st.isAVS avs

end ExoVerif.Auth
