/-
  C18 — export / init model of the validator-set part of the x/dogfood genesis ("the same validator set continues").

  Mirrors, as they are:
    x/dogfood/keeper/genesis.go  ExportGenesis: val_set = GetAllExocoreValidators (the STORED validators, store order =
                                 ascending consensus address) sorted by power, descending, stable (sort.SliceStable);
                                 last_total_power = GetLastTotalPower.
                                 InitGenesis: for every entry of val_set, in order: GetOperatorAddressForChainIDAndConsAddr
                                 (x/operator's reverse lookup, imported before) must find an operator — otherwise panic —
                                 then the entry is appended to `out`; NOTHING else is asked about the operator (in particular
                                 not IsOperatorJailedForChainID: `ValCfg.skip` is constantly false for the code as it is);
                                 SetLastTotalPower(genState.LastTotalPower); return ApplyValidatorChanges(out).
    x/dogfood/keeper/validators.go ApplyValidatorChanges on the (empty) store of a fresh chain: an address not yet stored
                                 with power > 0 is stored (SetExocoreValidator) and reported to the consensus engine, with
                                 power < 1 it is neither; an address already stored (a duplicate in val_set: rejected by
                                 Validate, kept here for totality) has its power overwritten / is deleted and is reported.
    x/dogfood/keeper/impl_sdk.go IsValidatorJailed = x/operator IsOperatorJailedForChainID: the reverse lookup, then
                                 OptedInfo.Jailed of (operator, chain AVS). x/operator exports / imports the opted states
                                 with the flag (opt_states), so the set of jailed operators is the same on both chains.
  A validator jailed during an epoch (x/slashing, x/evidence -> Jail -> SetJailedState) stays in the store with its power
  until the epoch ends: `jailedOps` and `vals` are independent components of the state.
  The store is keyed by the consensus address; the model keeps the entries in the order they were written and the driver /
  the theorems compare them up to order (the harness prints them sorted).
-/
namespace ExoVerif.Genesis

structure ValSt where
  vals : List (String × Int)           -- x/dogfood validator store: (consensus address, power)
  total : Int                          -- LastTotalPower
  reverse : List (String × String)     -- x/operator ChainIDAndConsKeyToOperator: (consensus address, operator)
  jailedOps : List String              -- operators whose OptedInfo of the chain AVS has Jailed = true
deriving Repr, Inhabited, DecidableEq

structure ValDoc where
  valSet : List (String × Int)
  lastTotalPower : Int
deriving Repr, Inhabited, DecidableEq

/-- what the importer does beyond the code's `panic if no operator`: `skip s cons` = the entry is dropped (`continue`) -/
structure ValCfg where
  skip : ValSt → String → Bool

/-- x/operator GetOperatorAddressForChainIDAndConsAddr -/
def operatorOf (s : ValSt) (cons : String) : Option String :=
  (s.reverse.find? (fun r => r.1 == cons)).map (·.2)

/-- x/dogfood IsValidatorJailed / x/operator IsOperatorJailedForChainID: false for an unknown address -/
def isJailed (s : ValSt) (cons : String) : Bool :=
  match operatorOf s cons with
  | none => false
  | some op => s.jailedOps.contains op

/-- the code as it is: no entry of val_set is dropped -/
def codeValCfg : ValCfg := ⟨fun _ _ => false⟩
/-- an importer that drops the entries of jailed operators (kept for the regression theorems) -/
def skipJailedCfg : ValCfg := ⟨fun s c => isJailed s c⟩

/-- sort.SliceStable by power, descending: stable insertion -/
def insertByPower (v : String × Int) : List (String × Int) → List (String × Int)
  | [] => [v]
  | w :: ws => if w.2 < v.2 then v :: w :: ws else w :: insertByPower v ws

def sortByPower : List (String × Int) → List (String × Int)
  | [] => []
  | v :: vs => insertByPower v (sortByPower vs)

/-- x/dogfood ExportGenesis (validator part) -/
def exportVals (s : ValSt) : ValDoc := ⟨sortByPower s.vals, s.total⟩

/-- the loop of InitGenesis over val_set: `none` = panic("operator not found for key …") -/
def initLoop (C : ValCfg) (s : ValSt) : List (String × Int) → Option (List (String × Int))
  | [] => some []
  | v :: vs =>
    match operatorOf s v.1 with
    | none => none
    | some _ =>
      match initLoop C s vs with
      | none => none
      | some out => if C.skip s v.1 then some out else some (v :: out)

/-- ApplyValidatorChanges: (store, updates returned to the consensus engine) -/
def applyChanges : List (String × Int) → List (String × Int) → List (String × Int) × List (String × Int)
  | store, [] => (store, [])
  | store, c :: cs =>
    if store.any (fun v => v.1 == c.1) then
      let store' := if c.2 < 1 then store.filter (fun v => !(v.1 == c.1)) else store.map (fun v => if v.1 == c.1 then (v.1, c.2) else v)
      let r := applyChanges store' cs
      (r.1, c :: r.2)
    else if c.2 > 0 then
      let r := applyChanges (store ++ [c]) cs
      (r.1, c :: r.2)
    else applyChanges store cs

structure ValInit where
  st : ValSt
  updates : List (String × Int)        -- ResponseInitChain.Validators
deriving Repr, Inhabited, DecidableEq

/-- x/dogfood InitGenesis (validator part) on a fresh chain whose x/operator was imported before (`pre`: reverse lookups
    and jailed operators as exported; empty validator store) -/
def initVals (C : ValCfg) (pre : ValSt) (d : ValDoc) : Option ValInit :=
  match initLoop C pre d.valSet with
  | none => none
  | some out =>
    let r := applyChanges [] out
    some ⟨{ pre with vals := r.1, total := d.lastTotalPower }, r.2⟩

/-- the fresh chain before x/dogfood InitGenesis: x/operator's part is reproduced by its own export / import -/
def preOf (s : ValSt) : ValSt := { s with vals := [], total := 0 }

def roundtripVals (C : ValCfg) (s : ValSt) : Option ValInit := initVals C (preOf s) (exportVals s)

def sumPower : List (String × Int) → Int
  | [] => 0
  | v :: vs => v.2 + sumPower vs

end ExoVerif.Genesis
