import ExoVerif.Model.ConsKeys
/-
  C07 / C06 — jail status per chain as the SDK's slashing and evidence modules see it.

  x/operator/keeper/slash.go: IsOperatorJailedForChainID, reached through
  x/dogfood/keeper/impl_sdk.go: IsValidatorJailed and ValidatorByConsAddr(...).Jailed
  (x/operator/keeper/consensus_keys.go: ValidatorByConsAddrForChainID), and the only way out of
  jail: cosmos-sdk x/slashing/keeper/unjail.go: Unjail (MsgUnjail) over dogfood's Validator /
  Delegation / Unjail.
-/
namespace ExoVerif.ConsKeys
open ExoVerif.VMap ExoVerif.ValSet

/-- slash.go: IsOperatorJailedForChainID — reverse lookup of the consensus address (`!found ⇒
false`), the chain is an AVS, opt-in record of that operator (`err ⇒ false`), then its `Jailed`
flag. -/
def jailedView (s : St) (key : Nat) : Bool :=
  match s.rev key with
  | none => false
  | some op => s.hasInfo op && s.jailed op

inductive UOut where
  | ok | errNoValidator | errSelfTooLow | errNotJailed | errJailed | panic
deriving DecidableEq, Repr, Inhabited

/-- x/slashing/keeper/unjail.go: Unjail for validator address = operator `op`.
`total`, `self` = whole-number part of the operator's total / self USD value for the chain's AVS
(`total < 0`: GetOrCalculateOperatorUSDValues fails), `min` = the AVS's minimum self delegation,
`timeOK` = no signing info, or not tombstoned and the block time has reached `JailedUntil`.

* `sk.Validator` = validators.go: GetValidator: operator → key (needs a registered operator),
  then ValidatorByConsAddrForChainID: key → operator' (reverse lookup), operator' → key', USD
  values available; `Tokens = DelegatorShares = total × 10^6`, `Jailed = jailedView key`.
* `sk.Delegation`: shares = self × 10^6; `TokensFromShares` divides by `DelegatorShares`
  (`total = 0` ⇒ division by zero, the transaction panics and is rolled back).
* tokens < MinSelfDelegation (= min × 10^6) ⇒ ErrSelfDelegationTooLowToUnjail
* `!validator.IsJailed()` ⇒ ErrValidatorNotJailed
* tombstoned / still in the jail period ⇒ ErrValidatorJailed
* `sk.Unjail(consAddr of key')` = SetJailedState(key', false). -/
def unjailMsg (s : St) (op : Nat) (total self min : Int) (timeOK : Bool) : UOut × St :=
  if !s.registered op then (.errNoValidator, s)
  else
    match s.fwd op with
    | none => (.errNoValidator, s)
    | some key =>
      match s.rev key with
      | none => (.errNoValidator, s)
      | some op' =>
        match (if s.registered op' then s.fwd op' else none) with
        | none => (.errNoValidator, s)
        | some key' =>
          if total < 0 then (.errNoValidator, s)
          else if total = 0 then (.panic, s)
          else if self < min then (.errSelfTooLow, s)
          else if !jailedView s key then (.errNotJailed, s)
          else if !timeOK then (.errJailed, s)
          else (.ok, setJailed s key' false)

end ExoVerif.ConsKeys
