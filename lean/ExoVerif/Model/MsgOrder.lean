import ExoVerif.Model.Ledger
/-
  C08 — messages that carry a LIST of entries and execute them one after another on a cache context
  ("fail all if one fails"):
    x/delegation/keeper/msg_server.go: DelegateAssetToOperator   (MsgDelegation)
    x/delegation/keeper/msg_server.go: UndelegateAssetFromOperator (MsgUndelegation)
    x/delegation/keeper/msg_server.go: newDelegationParams (entries → params, IN MESSAGE ORDER:
      `for _, kv := range baseInfo.PerOperatorAmounts { res = append(res, …) }`, a range over a slice)

  What a node reports for such a message — error code of the entry that failed, gas consumed up to it —
  and, for undelegations, which record the nonce-keyed indexes point at (finding F-03a: last writer
  wins) is a function of the ORDER in which the entries are executed. The code executes them in
  message order, so the result is a function of the message; `paramsMerged` is the shape it must not
  take (entries merged in a Go map and executed in the runtime's iteration order), kept to state what
  goes wrong. Core Lean only.
-/
namespace ExoVerif.MsgOrder
open ExoVerif ExoVerif.KV ExoVerif.Ledger

/-! ## the loop, for any per-entry step -/

/-- what the handler returns: success (state to be written by `writeFunc()`, gas consumed) or the
error of the failing entry (its position in the executed list, gas consumed up to and including it) -/
inductive Res (σ : Type) where
  | ok (s : σ) (gas : Nat)
  | fail (idx : Nat) (err : String) (gas : Nat)
deriving DecidableEq, Repr

/-- `for _, p := range paramsList { if err := k.X(cachedCtx, p); err != nil { return nil, err } }`
with the gas meter running: `cost s e` = gas entry `e` consumes when executed on state `s`
(whether it fails or not). `i` = entries executed so far, `g` = gas consumed so far. -/
def runFrom {σ ε : Type} (step : σ → ε → Except String σ) (cost : σ → ε → Nat) :
    List ε → σ → Nat → Nat → Res σ
  | [], s, _, g => .ok s g
  | e :: es, s, i, g =>
    match step s e with
    | .error err => .fail i err (g + cost s e)
    | .ok s' => runFrom step cost es s' (i + 1) (g + cost s e)

def run {σ ε : Type} (step : σ → ε → Except String σ) (cost : σ → ε → Nat) (es : List ε) (s : σ) : Res σ :=
  runFrom step cost es s 0 0

/-- the entries one after another, without the meter: `.ok` iff every entry succeeds -/
def execAll {σ ε : Type} (step : σ → ε → Except String σ) : List ε → σ → Except String σ
  | [], s => .ok s
  | e :: es, s =>
    match step s e with
    | .error err => .error err
    | .ok s' => execAll step es s'

/-- gas of the entries of `es` that get executed (all of them while they succeed, the failing one, none after it) -/
def gasAll {σ ε : Type} (step : σ → ε → Except String σ) (cost : σ → ε → Nat) : List ε → σ → Nat
  | [], _ => 0
  | e :: es, s =>
    match step s e with
    | .error _ => cost s e
    | .ok s' => cost s e + gasAll step cost es s'

/-- number of entries that succeed before the first failing one (all of them if none fails) -/
def okPrefix {σ ε : Type} (step : σ → ε → Except String σ) : List ε → σ → Nat
  | [], _ => 0
  | e :: es, s =>
    match step s e with
    | .error _ => 0
    | .ok s' => 1 + okPrefix step es s'

/-- what the transaction result carries: the error (none = code 0) and the gas -/
def Res.code {σ : Type} : Res σ → Option String
  | .ok _ _ => none
  | .fail _ err _ => some err

def Res.gas {σ : Type} : Res σ → Nat
  | .ok _ g => g
  | .fail _ _ g => g

/-- what reaches the store: `writeFunc()` is called only after the loop, so a failing message keeps `orig` -/
def Res.committed {σ : Type} (orig : σ) : Res σ → σ
  | .ok s _ => s
  | .fail _ _ _ => orig

/-- success state, forgetting which error a failure reported -/
def stateOf {σ : Type} : Except String σ → Option σ
  | .ok s => some s
  | .error _ => none

/-! ## the two messages over the ledger model -/

/-- one element of `BaseInfo.PerOperatorAmounts`; `held` = the AVS hook (dogfood
AfterUndelegationStarted) placed a hold on the record of this entry: environment input, as in the
ledger driver -/
structure Entry where
  op : OID
  amount : Int
  held : Bool
deriving DecidableEq, Repr, Inhabited

/-- the ante handler's effect a message can see: the fee has left the sender's account (it stays gone
when the message fails) -/
def payFee (s : L) (st : SID) (fee : Int) : L := { s with bal := set s.bal st (getD s.bal st 0 - fee) }

/-- DelegateAssetToOperator's loop body: k.DelegateTo(cachedCtx, params) -/
def delegateStep (st : SID) (a : AID) (s : L) (e : Entry) : Except String L :=
  delegate s st a e.op e.amount

/-- UndelegateAssetFromOperator's loop body: k.UndelegateFrom(cachedCtx, params); every params of one
message carries the same (nonce, hash) -/
def undelegateStep (st : SID) (a : AID) (nonce : Nat) (hash : String) (s : L) (e : Entry) : Except String L :=
  match undelegate s st a e.op e.amount nonce hash with
  | .ok s' => .ok (if e.held then hold s' ⟨e.op, s.height, nonce, hash⟩ else s')
  | .error err => .error err

/-- the gas proxy of the model: one unit per executed entry -/
def unitCost {σ ε : Type} : σ → ε → Nat := fun _ _ => 1

/-- MsgDelegation as DeliverTx executes it: fee, then the entries in message order on a cache context -/
def msgDelegate (s : L) (st : SID) (a : AID) (fee : Int) (es : List Entry) : L × Res L :=
  let s0 := payFee s st fee
  let r := run (delegateStep st a) unitCost es s0
  (r.committed s0, r)

def msgUndelegate (s : L) (st : SID) (a : AID) (fee : Int) (nonce : Nat) (hash : String) (es : List Entry) : L × Res L :=
  let s0 := payFee s st fee
  let r := run (undelegateStep st a nonce hash) unitCost es s0
  (r.committed s0, r)

/-! ## builders: from the repeated field to the executed list, under an explicit schedule -/

/-- a builder turns the message's entries into the list the loop executes; `order` is the sequence in
which the Go runtime would deliver the keys of a map, should the builder range over one -/
abbrev Builder := List OID → List Entry → List Entry

/-- newDelegationParams as it is: a range over the slice — the schedule is not consulted -/
def paramsInMessageOrder : Builder := fun _ es => es

/-- the merge of entries naming the same operator (amounts added), keyed by operator -/
def mergeAmounts : List Entry → List (OID × Int)
  | [] => []
  | e :: es =>
    let m := mergeAmounts es
    set m e.op (getD m e.op 0 + e.amount)

/-- the shape newDelegationParams must not take: merge into a map, then `for op, amt := range amounts` —
the executed list follows the runtime's schedule -/
def paramsMerged : Builder := fun order es =>
  let m := mergeAmounts es
  order.filterMap (fun o => (find? m o).map (fun x => (⟨o, x, false⟩ : Entry)))

def handleWith (b : Builder) (order : List OID) (step : L → Entry → Except String L) (es : List Entry) (s : L) : Res L :=
  run step unitCost (b order es) s

end ExoVerif.MsgOrder
