import ExoVerif.Model.Epochs
/-
  C18 — export / init model of the cross-module core of the genesis round trip.

  Mirrors, as they are:
    x/delegation/keeper/genesis.go   ExportGenesis = AllUndelegations (records only; the hold counts written by
                                     IncrementUndelegationHoldCount live under their own prefix and are not exported),
                                     InitGenesis = SetUndelegationRecords (no hold count written); since the F-18b repair
                                     x/dogfood InitGenesis calls IncrementUndelegationHoldCount for every record key it
                                     imports into the maturity queue (`Prefixes.rebuildHolds`);
    x/dogfood/keeper/genesis.go      ExportGenesis = GetAllOptOutsToFinish / GetAllConsAddrsToPrune /
                                     GetAllUndelegationsToMature — each iterates the byte prefix given in `Prefixes.*Iter`
                                     (regenerated from opt_out.go / unbonding.go), InitGenesis re-appends every exported
                                     entry under the prefix its setter writes (`Prefixes.*Set`);
    x/operator/keeper/genesis.go     ExportGenesis = current keys (GetAllOperatorConsKeyRecords) + previous keys
                                     (GetAllPrevConsKeys); InitGenesis = setOperatorConsKeyForChainIDUnchecked (forward
                                     and reverse entry of the CURRENT key) + SetAllPrevConsKeys (forward entry of the
                                     previous key only; its reverse lookup ChainIDAndConsKeyToOperator is not rebuilt);
    x/epochs/keeper/genesis.go       ExportGenesis = AllEpochInfos, InitGenesis = AddEpochInfo per entry.
  Items of the per-epoch queues are opaque strings (the three value types are all `repeated bytes`); a maturity
  entry additionally lists the undelegation record ids it holds (`QEntry.recs`).
  Assets, oracle, mint and fee-distribution have no model: differential run only.
-/
namespace ExoVerif.Genesis
open ExoVerif.Epochs

structure Und where
  id : String
  complete : Int
  amount : Int
  hold : Int
deriving DecidableEq, Repr, Inhabited

/-- one per-epoch entry of a dogfood queue: store key = prefix byte ++ epoch -/
structure QEntry where
  pfx : Nat
  epoch : Int
  item : String
  /-- maturity entries only: the undelegation record ids the entry lists (empty for the other two queues) -/
  recs : List String := []
deriving DecidableEq, Repr, Inhabited

/-- the byte prefixes the three `GetAll*` exporters iterate and the three setters write -/
structure Prefixes where
  optOutsIter : Nat
  prunesIter : Nat
  maturesIter : Nat
  optOutsSet : Nat
  prunesSet : Nat
  maturesSet : Nat
  /-- x/dogfood InitGenesis re-places the hold of every imported maturity record -/
  rebuildHolds : Bool
deriving DecidableEq, Repr, Inhabited

/-- the code as it is (after the F-18a / F-18b repairs): every exporter iterates the prefix its setter writes,
    holds are re-placed at import -/
def codePrefixes : Prefixes :=
  { optOutsIter := 3, prunesIter := 5, maturesIter := 6, optOutsSet := 3, prunesSet := 5, maturesSet := 6, rebuildHolds := true }
/-- the code before the repairs: all three exporters iterated OptOutsToFinishBytePrefix (3), no hold was rebuilt.
    Kept for the regression theorems. -/
def preFixPrefixes : Prefixes :=
  { optOutsIter := 3, prunesIter := 3, maturesIter := 3, optOutsSet := 3, prunesSet := 5, maturesSet := 6, rebuildHolds := false }

structure Core where
  unds : List Und
  queues : List QEntry
  curKeys : List (String × String)    -- (operator, consensus address) of the current key
  prevKeys : List (String × String)   -- (operator/chain key, consensus address) of replaced, not yet pruned keys
  reverse : List (String × String)    -- (consensus address, operator): ChainIDAndConsKeyToOperator
  epochs : List EpochInfo
deriving Repr, Inhabited

structure Doc where
  undelegations : List (String × Int × Int)
  optOuts : List (Int × String × List String)
  prunes : List (Int × String × List String)
  matures : List (Int × String × List String)
  curKeys : List (String × String)
  prevKeys : List (String × String)
  epochs : List EpochInfo
deriving Repr, Inhabited

def queueOf (p : Nat) (qs : List QEntry) : List (Int × String × List String) :=
  (qs.filter (fun q => q.pfx == p)).map (fun q => (q.epoch, q.item, q.recs))

def exportDoc (P : Prefixes) (s : Core) : Doc :=
  { undelegations := s.unds.map (fun u => (u.id, u.complete, u.amount)),
    optOuts := queueOf P.optOutsIter s.queues,
    prunes := queueOf P.prunesIter s.queues,
    matures := queueOf P.maturesIter s.queues,
    curKeys := s.curKeys, prevKeys := s.prevKeys, epochs := s.epochs }

/-- number of imported maturity entries that list record `id` (one IncrementUndelegationHoldCount each) -/
def holdOf (ms : List (Int × String × List String)) (id : String) : Int :=
  ((ms.filter (fun e => e.2.2.contains id)).length : Int)

/-- x/epochs AddEpochInfo at import (block time `bt`, height `h`) -/
def initEpoch (bt h : Int) (e : EpochInfo) : EpochInfo :=
  { e with startTime := if e.startTime = 0 then bt else e.startTime,
           currentEpochStartHeight := if e.currentEpochStartHeight = 0 then h else e.currentEpochStartHeight }

def init (P : Prefixes) (bt h : Int) (d : Doc) : Core :=
  { unds := d.undelegations.map (fun r => { id := r.1, complete := r.2.1, amount := r.2.2,
                                            hold := if P.rebuildHolds then holdOf d.matures r.1 else 0 }),
    queues := d.optOuts.map (fun r => ⟨P.optOutsSet, r.1, r.2.1, r.2.2⟩) ++ d.prunes.map (fun r => ⟨P.prunesSet, r.1, r.2.1, r.2.2⟩) ++
              d.matures.map (fun r => ⟨P.maturesSet, r.1, r.2.1, r.2.2⟩),
    curKeys := d.curKeys, prevKeys := d.prevKeys,
    reverse := d.curKeys.map (fun k => (k.2, k.1)),
    epochs := (d.epochs.filter valid).map (initEpoch bt h) }

def roundtrip (P : Prefixes) (bt h : Int) (s : Core) : Core := init P bt h (exportDoc P s)

end ExoVerif.Genesis
