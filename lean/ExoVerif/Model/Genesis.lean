import ExoVerif.Model.Epochs
/-
  C18 — export / init model of the cross-module core of the genesis round trip.

  Mirrors, as they are:
    x/delegation/keeper/genesis.go   ExportGenesis = AllUndelegations (records only; the hold counts written by
                                     IncrementUndelegationHoldCount live under their own prefix and are not exported),
                                     InitGenesis = SetUndelegationRecords (no hold count written); since the F-18b repair
                                     x/dogfood InitGenesis calls IncrementUndelegationHoldCount for every record key it
                                     imports into the maturity queue (`Prefixes.rebuildHolds`);
    x/dogfood/keeper/genesis.go      ExportGenesis = GetAllOptOutsToFinish / GetAllConsAddrsToPrune /
                                     GetAllUndelegationsToMature — each iterates the byte prefix given in `Prefixes.*Iter`
                                     (regenerated from opt_out.go / unbonding.go), InitGenesis re-appends every exported
                                     entry under the prefix its setter writes (`Prefixes.*Set`);
    x/operator/keeper/genesis.go     ExportGenesis = current keys (GetAllOperatorConsKeyRecords) + previous keys
                                     (GetAllPrevConsKeys); InitGenesis = setOperatorConsKeyForChainIDUnchecked (forward
                                     and reverse entry of the CURRENT key) + SetAllPrevConsKeys (forward entry of the
                                     previous key and, since the F-18c repair, its ChainIDAndConsKeyToOperator reverse
                                     lookup: `Prefixes.rebuildPrevReverse`). Reverse entries of keys whose PrevConsKey
                                     record was already cleared at the end of the epoch (waiting in x/dogfood's prune
                                     queue) are in no export (F-18i);
    x/dogfood/keeper/genesis.go      val_set = the validators as stored by x/dogfood (GetAllExocoreValidators) since the
                                     F-18h repair (`Prefixes.exportStoredKeys`); before, each stored key was resolved through
                                     the operator module to the operator's CURRENT key (IterateBondedValidatorsByPower);
    x/epochs/keeper/genesis.go       ExportGenesis = AllEpochInfos, InitGenesis = AddEpochInfo per entry.
  Items of the per-epoch queues are opaque strings (the three value types are all `repeated bytes`); a maturity
  entry additionally lists the undelegation record ids it holds (`QEntry.recs`).
  x/assets is modelled in Model/GenesisAssets.lean, x/exomint, x/feedistribution and x/oracle in Model/GenesisMods.lean.
-/
namespace ExoVerif.Genesis
open ExoVerif.Epochs

structure Und where
  id : String
  complete : Int
  amount : Int
  hold : Int
deriving DecidableEq, Repr, Inhabited

/-- one per-epoch entry of a dogfood queue: store key = prefix byte ++ epoch -/
structure QEntry where
  pfx : Nat
  epoch : Int
  item : String
  /-- maturity entries only: the undelegation record ids the entry lists (empty for the other two queues) -/
  recs : List String := []
deriving DecidableEq, Repr, Inhabited

/-- the byte prefixes the three `GetAll*` exporters iterate and the three setters write -/
structure Prefixes where
  optOutsIter : Nat
  prunesIter : Nat
  maturesIter : Nat
  optOutsSet : Nat
  prunesSet : Nat
  maturesSet : Nat
  /-- x/dogfood InitGenesis re-places the hold of every imported maturity record -/
  rebuildHolds : Bool
  /-- x/operator SetAllPrevConsKeys also writes the reverse lookup of the previous key -/
  rebuildPrevReverse : Bool
  /-- x/dogfood ExportGenesis writes the stored validator keys (not the operators' current keys) -/
  exportStoredKeys : Bool
deriving DecidableEq, Repr, Inhabited

/-- the code as it is (after the F-18a / b / c / h repairs): every exporter iterates the prefix its setter writes,
    holds are re-placed at import, previous keys get their reverse lookup back, val_set carries the stored keys -/
def codePrefixes : Prefixes :=
  { optOutsIter := 3, prunesIter := 5, maturesIter := 6, optOutsSet := 3, prunesSet := 5, maturesSet := 6, rebuildHolds := true,
    rebuildPrevReverse := true, exportStoredKeys := true }
/-- the code before the repairs: all three exporters iterated OptOutsToFinishBytePrefix (3), no hold was rebuilt.
    Kept for the regression theorems. -/
def preFixPrefixes : Prefixes :=
  { optOutsIter := 3, prunesIter := 3, maturesIter := 3, optOutsSet := 3, prunesSet := 5, maturesSet := 6, rebuildHolds := false,
    rebuildPrevReverse := false, exportStoredKeys := false }

structure Core where
  unds : List Und
  queues : List QEntry
  curKeys : List (String × String)    -- (operator, consensus address) of the current key
  prevKeys : List (String × String)   -- (operator, consensus address) of the key replaced during the running epoch
  reverse : List (String × String)    -- (consensus address, operator): ChainIDAndConsKeyToOperator
  vals : List (String × Int)          -- x/dogfood validator store: (consensus address of the key in effect, power)
  epochs : List EpochInfo
deriving Repr, Inhabited

structure Doc where
  undelegations : List (String × Int × Int)
  optOuts : List (Int × String × List String)
  prunes : List (Int × String × List String)
  matures : List (Int × String × List String)
  curKeys : List (String × String)
  prevKeys : List (String × String)
  valSet : List (String × Int)
  epochs : List EpochInfo
deriving Repr, Inhabited

def queueOf (p : Nat) (qs : List QEntry) : List (Int × String × List String) :=
  (qs.filter (fun q => q.pfx == p)).map (fun q => (q.epoch, q.item, q.recs))

/-- x/operator ValidatorByConsAddrForChainID as IterateBondedValidatorsByPower used it: the consensus address is
    resolved to its operator through the reverse index, the validator returned carries the operator's CURRENT key -/
def currentKeyOf (s : Core) (cons : String) : String :=
  match s.reverse.find? (fun r => r.1 == cons) with
  | none => cons
  | some r =>
    match s.curKeys.find? (fun k => k.1 == r.2) with
    | none => cons
    | some k => k.2

def exportDoc (P : Prefixes) (s : Core) : Doc :=
  { undelegations := s.unds.map (fun u => (u.id, u.complete, u.amount)),
    optOuts := queueOf P.optOutsIter s.queues,
    prunes := queueOf P.prunesIter s.queues,
    matures := queueOf P.maturesIter s.queues,
    curKeys := s.curKeys, prevKeys := s.prevKeys,
    valSet := if P.exportStoredKeys then s.vals else s.vals.map (fun v => (currentKeyOf s v.1, v.2)),
    epochs := s.epochs }

/-- number of imported maturity entries that list record `id` (one IncrementUndelegationHoldCount each) -/
def holdOf (ms : List (Int × String × List String)) (id : String) : Int :=
  ((ms.filter (fun e => e.2.2.contains id)).length : Int)

/-- x/epochs AddEpochInfo at import (block time `bt`, height `h`) -/
def initEpoch (bt h : Int) (e : EpochInfo) : EpochInfo :=
  { e with startTime := if e.startTime = 0 then bt else e.startTime,
           currentEpochStartHeight := if e.currentEpochStartHeight = 0 then h else e.currentEpochStartHeight }

def init (P : Prefixes) (bt h : Int) (d : Doc) : Core :=
  { unds := d.undelegations.map (fun r => { id := r.1, complete := r.2.1, amount := r.2.2,
                                            hold := if P.rebuildHolds then holdOf d.matures r.1 else 0 }),
    queues := d.optOuts.map (fun r => ⟨P.optOutsSet, r.1, r.2.1, r.2.2⟩) ++ d.prunes.map (fun r => ⟨P.prunesSet, r.1, r.2.1, r.2.2⟩) ++
              d.matures.map (fun r => ⟨P.maturesSet, r.1, r.2.1, r.2.2⟩),
    curKeys := d.curKeys, prevKeys := d.prevKeys,
    reverse := d.curKeys.map (fun k => (k.2, k.1)) ++ (if P.rebuildPrevReverse then d.prevKeys.map (fun k => (k.2, k.1)) else []),
    vals := d.valSet,
    epochs := (d.epochs.filter valid).map (initEpoch bt h) }

def roundtrip (P : Prefixes) (bt h : Int) (s : Core) : Core := init P bt h (exportDoc P s)

end ExoVerif.Genesis
