import ExoVerif.Basic.KV
import ExoVerif.Model.GenesisAssets
/-
  C18 — export / init models of the x/exomint, x/feedistribution and x/oracle genesis.

    x/exomint/keeper/genesis.go          ExportGenesis = {Params: GetParams}; InitGenesis = SetParams, then panics unless
                                         the epoch identifier of the params names an existing epoch;
    x/feedistribution/keeper/genesis.go  the same two functions: PARAMS ONLY. The module's store also holds the fee pool,
                                         accumulated commissions, current / outstanding validator rewards and staker rewards
                                         (x/feedistribution/types/keys.go) — none of them is in GenesisState (F-18e);
    x/oracle/genesis.go                  ExportGenesis = GetParams, GetAllPrices, GetValidatorUpdateBlock, GetIndexRecentParams,
                                         GetIndexRecentMsg, GetAllRecentMsg, GetAllRecentParams, GetAllStakerInfosAssets,
                                         GetAllStakerListAssets; InitGenesis = the matching setters. The validator nonces
                                         (KeyNonce/value/…) are in no genesis field (F-18f). Before the F-18l repair
                                         GetAllStakerListAssets iterated the module store itself with the key prefix as iterator
                                         prefix, so `iterator.Key()` — which it exports as asset id — was the FULL key, prefix
                                         included, and SetStakerList prepended the prefix again (`OracleCfg.listKeyFull`); now it
                                         iterates a prefix store like the other exporters.
    x/oracle/keeper/native_token.go      UpdateNSTValidatorListForStaker, the branch that removes a staker whose balance reached
                                         zero (`removeStaker`): since the F-18m / F-18n repairs the list entry of the asset is
                                         deleted with its last staker and the StakerIndex stored in the infos of the stakers behind
                                         the removed one is rewritten (`NstCfg`).
  A collection is the list of its (key, value) entries in iteration order with `KV.set` (replace in place or append): an
  import that re-inserts the entries of a duplicate-free list in their order rebuilds the list. Values other than the
  fields the code inspects are opaque strings. The in-memory aggregator / caches are not part of the persisted state
  (rebuilt by recache, C14).
-/
namespace ExoVerif.Genesis
open ExoVerif

/-! ## x/exomint -/

structure MintParams where
  mintDenom : String
  epochReward : Int
  epochIdentifier : String
deriving DecidableEq, Repr, Inhabited

/-- x/exomint ExportGenesis -/
def exportMint (s : MintParams) : MintParams := s
/-- x/exomint InitGenesis (`epochs` = identifiers x/epochs knows; it is initialised before); `none` = panic -/
def initMint (epochs : List String) (d : MintParams) : Option MintParams :=
  if epochs.contains d.epochIdentifier then some d else none

/-! ## x/feedistribution -/

structure DistrParams where
  epochIdentifier : String
  communityTax : Int
deriving DecidableEq, Repr, Inhabited

structure Distr where
  params : DistrParams
  /-- FeePoolKey: community pool (denom, raw Dec) -/
  feePool : List (String × Int)
  /-- ValidatorAccumulatedCommissionPrefix -/
  commissions : List (String × Int)
  /-- ValidatorCurrentRewardsPrefix -/
  currentRewards : List (String × Int)
  /-- ValidatorOutstandingRewardsPrefix -/
  outstanding : List (String × Int)
  /-- StakerOutstandingRewardsPrefix -/
  stakerRewards : List (String × Int)
deriving DecidableEq, Repr, Inhabited

/-- x/feedistribution ExportGenesis: GenesisState has the single field Params -/
def exportDistr (s : Distr) : DistrParams := s.params
/-- x/feedistribution InitGenesis on an empty store -/
def initDistr (epochs : List String) (d : DistrParams) : Option Distr :=
  if epochs.contains d.epochIdentifier then some ⟨d, [], [], [], [], []⟩ else none

/-! ## x/oracle -/

structure PriceRound where
  roundID : Nat
  /-- price, decimal, timestamp -/
  body : String
deriving DecidableEq, Repr, Inhabited

/-- the per-token sub-store: one entry per round id and the `nextRoundID/` entry -/
structure TokenPrices where
  rounds : List (Nat × PriceRound)
  nextRound : Option Nat
deriving DecidableEq, Repr, Inhabited

structure StakerInfo where
  addr : String
  index : Int
  /-- validator pubkeys, balance list -/
  body : String
deriving DecidableEq, Repr, Inhabited

structure Oracle where
  params : String
  prices : List (Nat × TokenPrices)                   -- Prices/value/<tokenID>/…
  valUpdateBlock : Option Nat                         -- ValidatorUpdateBlock/value/
  idxRecentParams : Option String                     -- IndexRecentParams/value/
  idxRecentMsg : Option String                        -- IndexRecentMsg/value/
  recentMsgs : List (Nat × String)                    -- RecentMsg/value/<block>/
  recentParams : List (Nat × String)                  -- RecentParams/value/<block>/
  stakerInfos : List ((String × String) × StakerInfo) -- NativeToken/stakerInfo/value/<assetID>/<staker>
  stakerLists : List (String × List String)           -- NativeToken/stakerList/value/<assetID>
  nonces : List (String × String)                     -- KeyNonce/value/<validator>/
deriving DecidableEq, Repr, Inhabited

/-- Prices{TokenID, PriceList, NextRoundID} -/
structure PricesDoc where
  tokenID : Nat
  rounds : List PriceRound
  nextRound : Nat
deriving DecidableEq, Repr, Inhabited

structure OracleDoc where
  params : String
  prices : List PricesDoc
  valUpdateBlock : Option Nat
  idxRecentParams : Option String
  idxRecentMsg : Option String
  recentMsgs : List (Nat × String)
  recentParams : List (Nat × String)
  stakerInfos : List (String × List StakerInfo)
  stakerLists : List (String × List String)
deriving DecidableEq, Repr, Inhabited

structure OracleCfg where
  /-- the key prefix of the staker lists -/
  listPrefix : String
  /-- GetAllStakerListAssets exports the full store key (prefix included) as the asset id -/
  listKeyFull : Bool
deriving DecidableEq, Repr, Inhabited

/-- the code as it is (after the F-18l repair): the exporter iterates a prefix store, the key is the asset id -/
def codeOracleCfg : OracleCfg := ⟨"NativeToken/stakerList/value/", false⟩
/-- the code before the repair. Kept for the regression theorems. -/
def preFixOracleCfg : OracleCfg := ⟨"NativeToken/stakerList/value/", true⟩

/-- GetAllStakerInfosAssets: a new StakerInfosAssets whenever the asset id of the key changes -/
def groupInfos (l : List ((String × String) × StakerInfo)) : List (String × List StakerInfo) :=
  (groupAdj (fun r => r.1.1) l).map (fun g => (g.1, g.2.map (·.2)))

/-- x/oracle/genesis.go: ExportGenesis -/
def exportOracle (cfg : OracleCfg) (s : Oracle) : OracleDoc :=
  { params := s.params,
    prices := s.prices.map (fun p => ⟨p.1, p.2.rounds.map (·.2), p.2.nextRound.getD 0⟩),
    valUpdateBlock := s.valUpdateBlock, idxRecentParams := s.idxRecentParams, idxRecentMsg := s.idxRecentMsg,
    recentMsgs := s.recentMsgs, recentParams := s.recentParams,
    stakerInfos := groupInfos s.stakerInfos,
    stakerLists := s.stakerLists.map (fun p => (if cfg.listKeyFull then cfg.listPrefix ++ p.1 else p.1, p.2)) }

/-- SetPrices: one Set per round under its RoundID, then the nextRoundID entry -/
def setPrices (st : List (Nat × TokenPrices)) (d : PricesDoc) : List (Nat × TokenPrices) :=
  let cur := KV.getD st d.tokenID ⟨[], none⟩
  KV.set st d.tokenID ⟨d.rounds.foldl (fun m r => KV.set m r.roundID r) cur.rounds, some d.nextRound⟩

/-- x/oracle/genesis.go: InitGenesis on an empty store (no setter fails) -/
def initOracle (d : OracleDoc) : Oracle :=
  { params := d.params,
    prices := d.prices.foldl setPrices [],
    valUpdateBlock := d.valUpdateBlock, idxRecentParams := d.idxRecentParams, idxRecentMsg := d.idxRecentMsg,
    recentMsgs := d.recentMsgs.foldl (fun m r => KV.set m r.1 r.2) [],
    recentParams := d.recentParams.foldl (fun m r => KV.set m r.1 r.2) [],
    stakerInfos := (d.stakerInfos.flatMap (fun g => g.2.map (fun i => (g.1, i)))).foldl
                     (fun m r => KV.set m (r.1, r.2.addr) r.2) [],
    stakerLists := d.stakerLists.foldl (fun m r => KV.set m r.1 r.2) [],
    nonces := [] }

def roundtripOracle (cfg : OracleCfg) (s : Oracle) : Oracle := initOracle (exportOracle cfg s)

/-! ## native restaking: the staker list and the staker infos of ONE asset, and what Validate asks of their export -/

structure NstCfg where
  /-- the list entry is deleted when its last staker is removed (F-18m repair) -/
  deleteEmptyList : Bool
  /-- the StakerIndex of the stakers behind a removed one is rewritten (F-18n repair) -/
  shiftIndexes : Bool
deriving DecidableEq, Repr, Inhabited

def codeNstCfg : NstCfg := ⟨true, true⟩
def preFixNstCfg : NstCfg := ⟨false, false⟩

/-- one NST asset: whether the NativeToken/stakerList/value/<asset> entry exists, and the stakers in list order, each with
    the StakerIndex stored in its info (a staker is in the list exactly when its info exists) -/
structure Nst where
  listPresent : Bool
  stakers : List (String × Int)
deriving DecidableEq, Repr, Inhabited

/-- the infos in list order carry the positions k, k+1, … -/
def indexedFrom (k : Int) : List (String × Int) → Bool
  | [] => true
  | (_, i) :: r => decide (i = k) && indexedFrom (k + 1) r

/-- x/oracle/types/genesis.go Validate, the clauses about one asset's staker_list_assets / staker_infos_assets entries:
    both or neither present (a StakerInfosAssets entry exists iff the asset has an info), same length (by construction
    here), no staker twice, every info's StakerIndex = its position in the list -/
def validateNst (s : Nst) : Bool :=
  (s.listPresent == !s.stakers.isEmpty) && decide (s.stakers.map (·.1)).Nodup && indexedFrom 0 s.stakers

def renumber (k : Int) : List (String × Int) → List (String × Int)
  | [] => []
  | (a, _) :: r => (a, k) :: renumber (k + 1) r

/-- the list without `addr`; with `shift` the stakers behind it get their new position as StakerIndex -/
def removeFrom (shift : Bool) (addr : String) (k : Int) : List (String × Int) → List (String × Int)
  | [] => []
  | (a, i) :: r => if a = addr then (if shift then renumber k r else r) else (a, i) :: removeFrom shift addr (k + 1) r

/-- UpdateNSTValidatorListForStaker, a withdrawal that brings the balance of `addr` (a staker of the list) to zero -/
def removeStaker (cfg : NstCfg) (s : Nst) (addr : String) : Nst :=
  let rest := removeFrom cfg.shiftIndexes addr 0 s.stakers
  { listPresent := if rest.isEmpty && cfg.deleteEmptyList then false else s.listPresent, stakers := rest }

end ExoVerif.Genesis
