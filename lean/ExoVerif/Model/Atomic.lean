/-!
# Effects and the check/write shape of entry points (C09)

`Eff σ α := σ → Except Err α × σ` — the state *survives* an error, exactly as in Go, where a keeper
that returns `err` after two `store.Set`s has still written twice.  `cached m` is
`ctx.CacheContext()` + conditional `writeFunc()`.  The three outer wrappers are the three real
failure semantics of the application:

* `deliverMsg`     — SDK message (baseapp.runTx): error or panic ⇒ the message's writes are dropped;
* `precompileCall` — precompiles/*/…: Run: error ⇒ **`false` is returned and the writes are kept**;
                     panic ⇒ the whole EVM tx is dropped;
* `blockHook`      — Begin/EndBlock item: error ⇒ logged, writes kept unless `cached`; panic ⇒ halt.

An entry point is modelled as the *sequence of its checks and writes in source order* (`Prog`), read
from the Go code; what each check tests and what each write stores is left arbitrary (`Impl`), so the
atomicity theorems hold for every state, every input and every implementation of the individual
steps: they depend on the order only.  Core Lean only.
-/
namespace ExoVerif.Atomic

/-- why an operation did not succeed -/
inductive Err where
  | reject (code : String)   -- a Go `error` return
  | panic (what : String)    -- a Go panic
  deriving Repr, DecidableEq

/-- state survives an error -/
def Eff (σ α : Type) : Type := σ → Except Err α × σ

namespace Eff
def pure {σ α} (a : α) : Eff σ α := fun s => (.ok a, s)
def bind {σ α β} (m : Eff σ α) (f : α → Eff σ β) : Eff σ β := fun s =>
  match m s with
  | (.ok a, s') => f a s'
  | (.error e, s') => (.error e, s')
def fail {σ α} (e : Err) : Eff σ α := fun s => (.error e, s)
def modify {σ} (f : σ → σ) : Eff σ Unit := fun s => (.ok (), f s)
def get {σ} : Eff σ σ := fun s => (.ok s, s)
end Eff

instance {σ : Type} : Monad (Eff σ) where
  pure := Eff.pure
  bind := Eff.bind

/-- ctx.CacheContext() … if err == nil { writeFunc() } -/
def cached {σ α} (m : Eff σ α) : Eff σ α := fun s =>
  match m s with
  | (.ok a, s') => (.ok a, s')
  | (.error e, _) => (.error e, s)

/-- what the caller of an entry point observes -/
inductive Outcome where
  | ok                       -- success
  | failed (code : String)   -- reported failure: error return / `false` flag / logged item error
  | reverted (what : String) -- panic inside a tx: everything dropped by runTx
  | halt (what : String)     -- panic inside Begin/EndBlock: the node stops
  deriving Repr, DecidableEq

def Outcome.isFailure : Outcome → Bool
  | .ok => false
  | _ => true

/-- baseapp.runTx / runMsgs: msCache.Write() only when the handler returned nil -/
def deliverMsg {σ α} (m : Eff σ α) (s : σ) : Outcome × σ :=
  match m s with
  | (.ok _, s') => (.ok, s')
  | (.error (.reject c), _) => (.failed c, s)
  | (.error (.panic w), _) => (.reverted w, s)

/-- precompiles/{assets,delegation,avs,reward}: Run — `if err != nil { bz, err = Pack(false) }`
    (no revert); a panic propagates to runTx -/
def precompileCall {σ α} (m : Eff σ α) (s : σ) : Outcome × σ :=
  match m s with
  | (.ok _, s') => (.ok, s')
  | (.error (.reject c), s') => (.failed c, s')
  | (.error (.panic w), _) => (.reverted w, s)

/-- a keeper call made from Begin/EndBlock: the error is logged, the writes stay -/
def blockHook {σ α} (m : Eff σ α) (s : σ) : Outcome × σ :=
  match m s with
  | (.ok _, s') => (.ok, s')
  | (.error (.reject c), s') => (.failed c, s')
  | (.error (.panic w), s') => (.halt w, s')

/-! ## programs = sequences of named checks and writes -/

inductive Step where
  | check (n : String)   -- a test that may return an error and writes nothing
  | write (n : String)   -- a store mutation that cannot fail
  | call (n : String)    -- a callee that may write *and* fail in any order (not looked into)
  | openC                -- cc, writeFunc := ctx.CacheContext()
  | closeC               -- writeFunc()
  deriving Repr, DecidableEq

abbrev Prog := List Step

/-- the meaning of the named steps: arbitrary functions of the state at entry and the current state -/
structure Impl (σ : Type) where
  chk : String → σ → σ → Option Err
  wr  : String → σ → σ → σ
  eff : String → σ → Eff σ Unit

/-- interpreter. `snap` = state saved by the outermost open cache context, `d` = nesting depth.
    On an error the function returns immediately (Go: `return err`), so every open cache context is
    discarded: the state falls back to the outermost snapshot. -/
def exec {σ} (I : Impl σ) (s0 : σ) : Prog → σ → Option σ → Nat → Except Err Unit × σ
  | [], cur, _, _ => (.ok (), cur)
  | .check n :: k, cur, snap, d =>
    match I.chk n s0 cur with
    | none => exec I s0 k cur snap d
    | some e => (.error e, snap.getD cur)
  | .write n :: k, cur, snap, d => exec I s0 k (I.wr n s0 cur) snap d
  | .call n :: k, cur, snap, d =>
    match I.eff n s0 cur with
    | (.ok _, c') => exec I s0 k c' snap d
    | (.error e, c') => (.error e, snap.getD c')
  | .openC :: k, cur, snap, d =>
    exec I s0 k cur (match snap with | some x => some x | none => some cur) (d + 1)
  | .closeC :: k, cur, snap, d => exec I s0 k cur (if d ≤ 1 then none else snap) (d - 1)

/-- an entry point as an effect -/
def run {σ} (I : Impl σ) (p : Prog) : Eff σ Unit := fun s => exec I s p s none 0

/-- The shape condition: "all checks precede the first write, or the writes sit inside `cached`".
    `inf` lists the checks assumed never to fail where they stand (implied by earlier checks or by a
    state invariant); `dirty` = a write is already visible to the caller, `pend` = a write is pending
    in an open cache context. -/
def shapeOK (inf : List String) : Prog → Bool → Bool → Nat → Bool
  | [], _, _, _ => true
  | .check n :: k, dirty, pend, d => (inf.contains n || !dirty) && shapeOK inf k dirty pend d
  | .write _ :: k, dirty, pend, d =>
    if d = 0 then shapeOK inf k true pend d else shapeOK inf k dirty true d
  | .call _ :: k, dirty, _, d => d != 0 && !dirty && shapeOK inf k dirty true d
  | .openC :: k, dirty, pend, d => shapeOK inf k dirty pend (d + 1)
  | .closeC :: k, dirty, pend, d =>
    if d ≤ 1 then shapeOK inf k (dirty || pend) false (d - 1) else shapeOK inf k dirty pend (d - 1)

def atomicShape (p : Prog) : Bool := shapeOK [] p false false 0
def atomicShapeAssuming (inf : List String) (p : Prog) : Bool := shapeOK inf p false false 0

/-- index of the first step named `n`, and whether a failure *at* that step can leave a trace:
    used by the correspondence driver (`clean`/`dirty` per failing step). -/
def dirtyAt : Prog → String → Bool → Bool → Nat → Option Bool
  | [], _, _, _, _ => none
  | .check m :: k, n, dirty, pend, d => if m = n then some dirty else dirtyAt k n dirty pend d
  | .write _ :: k, n, dirty, pend, d =>
    if d = 0 then dirtyAt k n true pend d else dirtyAt k n dirty true d
  | .call m :: k, n, dirty, pend, d =>
    if m = n then some (dirty || d = 0) else
      (if d = 0 then dirtyAt k n true pend d else dirtyAt k n dirty true d)
  | .openC :: k, n, dirty, pend, d => dirtyAt k n dirty pend (d + 1)
  | .closeC :: k, n, dirty, pend, d =>
    if d ≤ 1 then dirtyAt k n (dirty || pend) false (d - 1) else dirtyAt k n dirty pend (d - 1)

/-! ## per-item processing in EndBlock (`for … { cc, write := ctx.CacheContext(); … continue }`) -/

/-- x/delegation/keeper/abci.go: EndBlock — each record is handled in its own cache context; an
    error `continue`s with the next record -/
def runItems {σ} (items : List (Eff σ Unit)) (s : σ) : σ :=
  items.foldl (fun cur it => match cached it cur with | (.ok _, s') => s' | (.error _, s') => s') s

/-! ## the modelled entry points (steps in source order; names = Go callee / condition) -/

/-- x/assets/keeper/staker_asset.go: UpdateStakerAssetState -/
def updateStakerAssetState : Prog :=
  [.check "UpdateAssetValue(TotalDepositAmount)", .check "UpdateAssetValue(WithdrawableAmount)",
   .check "UpdateAssetValue(PendingUndelegationAmount)", .write "Set(stakerAsset)"]

/-- x/assets/keeper/client_chain_asset.go: UpdateStakingAssetTotalAmount -/
def updateStakingAssetTotalAmount : Prog :=
  [.check "changeAmount.IsNil", .check "Get(asset)!=nil", .check "UpdateAssetValue(StakingTotalAmount)",
   .write "Set(asset)"]

/-- x/assets/keeper/operator_asset.go: UpdateOperatorAssetState -/
def updateOperatorAssetState : Prog :=
  [.check "UpdateAssetValue(operator.TotalAmount)", .check "UpdateAssetValue(operator.PendingUndelegationAmount)",
   .check "UpdateAssetDecValue(TotalShare)", .check "UpdateAssetDecValue(OperatorShare)", .write "Set(operatorAsset)"]

/-- x/assets/keeper/bank.go: PerformDepositOrWithdraw -/
def performDepositOrWithdraw : Prog :=
  [.check "OpAmount.IsNegative", .check "IsStakingAsset", .check "Action"] ++
  updateStakerAssetState ++ updateStakingAssetTotalAmount

/-- precompiles/assets/tx.go: DepositOrWithdraw, LST methods: the booking and the final read run on one
    cache context that is written last (fix of F-09a) -/
def assetsDepositWithdrawLST : Prog :=
  [.check "CheckExocoreGatewayAddr", .check "DepositWithdrawParams", .openC] ++ performDepositOrWithdraw ++
  [.check "GetStakerSpecifiedAssetInfo", .closeC]

/-- x/oracle/keeper/native_token.go: UpdateNSTValidatorListForStaker (checks before its writes) -/
def updateNSTValidatorListForStaker : Prog :=
  [.check "getDecimal", .check "exists||amount.IsPositive", .write "Set(stakerList)", .write "Set/Delete(stakerInfo)"]

/-- precompiles/assets/tx.go: DepositOrWithdraw, NST methods: the deposit/withdraw is booked, then the
    oracle's validator list is updated and may refuse — all on the same cache context, written only
    after the last step succeeded (fix of F-09a; before it there was no cache context) -/
def assetsDepositWithdrawNST : Prog :=
  [.check "CheckExocoreGatewayAddr", .check "DepositWithdrawParams", .openC] ++ performDepositOrWithdraw ++
  updateNSTValidatorListForStaker ++ [.check "GetStakerSpecifiedAssetInfo", .closeC]

/-- precompiles/assets/tx.go: RegisterOrUpdateClientChain -/
def registerOrUpdateClientChain : Prog :=
  [.check "CheckExocoreGatewayAddr", .check "ClientChainInfoFromInputs", .write "SetClientChainInfo"]

/-- precompiles/assets/tx.go: RegisterToken (after the fix of F-09b): one cache context; the asset is
    validated and stored first (SetStakingAssetInfo), then the oracle token/feeder is registered, whose
    last step updates the oracle's in-memory params cache — a write that a cache context cannot undo
    and that therefore has to come after every check (`C09_registerToken_mem_write_last`) -/
def registerToken : Prog :=
  [.check "CheckExocoreGatewayAddr", .check "TokenFromInputs", .check "IsStakingAsset(already)", .openC,
   -- x/assets/keeper/client_chain_asset.go: SetStakingAssetInfo
   .check "Decimals>MaxDecimal", .check "StakingTotalAmount.IsNegative", .check "Has(assetID)", .write "Set(asset)",
   -- x/oracle/keeper/params.go: RegisterNewTokenAndSetTokenFeeder
   .check "GetTokenIDFromAssetID", .check "ParseInt(decimal)", .check "ParseUint(interval)",
   .write "oracle.SetParams", .write "cs.AddCache(ItemP)", .closeC]

/-- precompiles/assets/tx.go: UpdateToken -/
def updateToken : Prog :=
  [.check "CheckExocoreGatewayAddr", .check "UpdateTokenFromInputs", .check "GetStakingAssetInfo", .write "Set(asset)"]

/-- x/delegation/keeper/delegation.go: delegateTo (LST branch) -/
def delegateTo : Prog :=
  [.check "OpAmount.IsPositive", .check "IsOperator", .check "IsOperatorFrozen",
   .check "GetStakerSpecifiedAssetInfo", .check "WithdrawableAmount.LT(OpAmount)"] ++
  updateStakerAssetState ++
  [.check "CalculateShare", .check "GetAssociatedOperator"] ++ updateOperatorAssetState ++
  [.check "UpdateDelegationState", .write "Set(delegationState)", .check "AppendStakerForOperator",
   .write "Set(stakersByOperator)", .write "Hooks.AfterDelegation"]

/-- precompiles/delegation/tx.go: Delegate -/
def precompileDelegate : Prog :=
  [.check "CheckExocoreGatewayAddr", .check "GetDelegationParamsFromInputs"] ++ delegateTo

/-- x/delegation/keeper/delegation.go: UndelegateFrom (+ share.go: RemoveShare), followed by the one registered
    delegation hook, x/dogfood/keeper/impl_delegation_hooks.go: AfterUndelegationStarted — reads of x/operator and
    x/dogfood (early `return nil`s), then AppendUndelegationToMature and SetUndelegationMaturityEpoch (no error
    result), then the tail call IncrementUndelegationHoldCount (`prev == math.MaxUint64` before its own Set).
    SetUndelegationRecords tests the completion height of the record and then overwrites: the check stands after
    RemoveShare's writes. -/
def undelegateFrom : Prog :=
  [.check "OpAmount.IsPositive", .check "IsOperator", .check "ValidateUndelegationAmount",
   -- RemoveShare / RemoveShareFromOperator
   .check "share.IsPositive", .check "GetOperatorSpecifiedAssetInfo", .check "share.GT(TotalShare)",
   .check "TokensFromShares", .check "GetAssociatedOperator"] ++ updateOperatorAssetState ++
  updateStakerAssetState ++
  [.check "UpdateDelegationState", .write "Set(delegationState)", .check "DeleteStakerForOperator",
   .write "Set(stakersByOperator)", .check "SetUndelegationRecords", .write "Set(undelegationRecord)",
   -- Hooks().AfterUndelegationStarted
   .write "AppendUndelegationToMature|SetUndelegationMaturityEpoch", .check "IncrementUndelegationHoldCount",
   .write "Set(undelegationOnHold)"]

/-- precompiles/delegation/tx.go: Undelegate -/
def precompileUndelegate : Prog :=
  [.check "CheckExocoreGatewayAddr", .check "GetDelegationParamsFromInputs", .check "ctx.Value(TxHash)"] ++
  undelegateFrom

/-- x/delegation/keeper/delegation.go: AssociateOperatorWithStaker via precompiles/delegation/tx.go -/
def precompileAssociate : Prog :=
  [.check "CheckExocoreGatewayAddr", .check "args", .check "ClientChainExists", .check "IsOperator",
   .check "GetAssociatedOperator", .check "associatedOperator!=\"\"",
   .call "IterateDelegationsForStaker(UpdateOperatorAssetState)", .write "SetAssociatedOperator"]

/-- x/delegation/keeper/delegation.go: DissociateOperatorFromStaker via the precompile -/
def precompileDissociate : Prog :=
  [.check "CheckExocoreGatewayAddr", .check "args", .check "GetAssociatedOperator",
   .check "associatedOperator==\"\"", .check "AccAddressFromBech32",
   .call "IterateDelegationsForStaker(UpdateOperatorAssetState)", .write "DeleteAssociatedOperator"]

/-- x/delegation/keeper/msg_server.go: DelegateAssetToOperator (cache context around the loop) -/
def msgDelegate : Prog :=
  [.check "GetSequence", .openC, .call "DelegateTo*", .closeC]

/-- x/delegation/keeper/msg_server.go: UndelegateAssetFromOperator -/
def msgUndelegate : Prog :=
  [.check "GetSequence", .openC, .call "UndelegateFrom*", .closeC]

/-- x/operator/keeper/msg_server.go: OptIntoAVS (deferred writeFunc on nil error) -/
def msgOptIn : Prog :=
  [.openC, .check "PublicKeyJSON", .call "OptIn/OptInWithConsKey", .closeC]

/-- x/operator/keeper/msg_server.go: OptOutOfAVS -/
def msgOptOut : Prog := [.openC, .call "OptOut", .closeC]

/-- x/operator/keeper/opt.go: OptIn, reached *without* a cache context from the AVS precompile
    (precompiles/avs/tx.go: BindOperatorToAVS → x/avs/keeper: OperatorOptAction) -/
def precompileOptIn : Prog :=
  [.check "args", .check "AccAddressFromBech32", .check "IsOperator", .check "IsAVS",
   .check "IsOperator(2)", .check "IsAVS(2)", .check "IsOptedIn", .check "GetOrCalculateOperatorUSDValues",
   .check "GetAVSMinimumSelfDelegation", .check "SelfUSDValue.LT(min)", .check "IsOperatorFrozen",
   .check "InitOperatorUSDValue", .write "Set(operatorUSDValue)", .check "GetAVSSlashContract",
   .check "SetOptedInfo", .write "Set(optedInfo)"]

/-- x/operator/keeper/opt.go: OptOut via the AVS precompile -/
def precompileOptOut : Prog :=
  [.check "args", .check "AccAddressFromBech32", .check "IsOperator", .check "IsAVS",
   .check "IsOperator(2)", .check "IsAVS(2)", .check "IsActive", .check "IsOperatorFrozen",
   .write "DeleteOperatorUSDValue", .check "HandleOptedInfo", .write "Set(optedInfo)",
   .write "InitiateOperatorKeyRemovalForChainID"]

/-- x/operator/keeper/slash.go: Slash — SlashAssets *and* UpdateOperatorSlashInfo run on the same
    cache context `cc`; `writeFunc()` is the last statement (after commit b01075b; before it,
    `writeFunc()` preceded UpdateOperatorSlashInfo's checks: see `slashPreFix` in Props/C09.lean) -/
def slash : Prog :=
  [.check "CheckSlashParameter", .openC, .call "SlashAssets",
   -- x/operator/keeper/operator_slash_state.go: UpdateOperatorSlashInfo (on cc)
   .check "AccAddressFromBech32", .check "Has(slashInfoKey)", .check "GetAVSSlashContract",
   .check "SlashContract!=stored", .check "EventHeight>SubmittedHeight", .check "SlashProportion range",
   .write "Set(slashInfo)", .closeC]

/-- x/delegation/keeper/abci.go: EndBlock, one matured record (non-held branch) -/
def endBlockRecord : Prog :=
  [.openC, .check "UpdateDelegationState", .write "Set(delegationState)"] ++ updateStakerAssetState ++
  updateOperatorAssetState ++ [.check "DeleteUndelegationRecord", .write "Delete(record)", .closeC]

/-- x/operator/keeper/abci.go: UpdateVotingPower, main branch -/
def updateVotingPower : Prog :=
  [.check "GetAVSSupportedAssets", .check "GetAssetsDecimal", .check "GetMultipleAssetsPrices",
   .check "GetAVSMinimumSelfDelegation", .openC, .call "IterateOperatorsForAVS(update)",
   .check "SetAVSUSDValue", .write "Set(avsUSDValue)", .closeC]

/-- x/operator/keeper/abci.go: UpdateVotingPower, "no assets" branch (no cache context) -/
def updateVotingPowerNoAssets : Prog :=
  [.call "DeleteAllOperatorsUSDValueForAVS", .check "DeleteAVSUSDValue", .write "Delete(avsUSDValue)"]

/-- x/oracle/keeper/native_token.go: UpdateNSTByBalanceChange, the loop unrolled for two stakers:
    staker 1 is updated and stored before staker 2 is examined — inside one cache context that is
    written only after the last staker (fix of F-09d) -/
def updateNSTByBalanceChange2 : Prog :=
  [.check "len(rawData)<32", .check "len(StakerAddrs)==0", .check "parseBalanceChange", .openC,
   .check "stakerInfo(1)!=nil", .check "balance range(1)", .check "getDecimal(1)", .call "UpdateNSTBalance(1)",
   .write "Set(stakerInfo 1)",
   .check "stakerInfo(2)!=nil", .check "balance range(2)", .check "getDecimal(2)", .call "UpdateNSTBalance(2)",
   .write "Set(stakerInfo 2)", .closeC]

/-- x/avs/keeper/keeper.go: CreateAVSTask via precompiles/avs/tx.go -/
def precompileCreateTask : Prog :=
  [.check "GetTaskParamsFromInputs", .check "GetAVSInfoByTaskAddress", .check "owner contains caller",
   .check "GetAVSUSDValue>0", .check "GetEpochInfo", .check "IsExistTask", .check "GetOptInOperators",
   .write "GetTaskID(Set latest)", .check "IsHexAddress(task)", .write "Set(taskInfo)", .check "EmitCreateAVSTaskEvent"]

/-- precompiles/reward/methods.go: Reward (x/reward/keeper: RewardForWithdraw always refuses) -/
def precompileReward : Prog :=
  [.check "CheckExocoreGatewayAddr", .check "GetRewardParamsFromInputs", .check "RewardForWithdraw"]

/-- x/oracle/keeper/msg_server_create_price.go: CreatePrice → aggregator/context.go: NewCreatePrice
    (checkMsg, then FillPrice → worker.go: do → filter.go: filtrate). The state here is the module
    stores TOGETHER WITH the oracle's process memory (aggregator context `agc`, cache `cs`): no cache
    context covers the latter, so the handler's own order is all there is — every refusing check has
    to precede the first mutation of `agc`. The steps named `mem:…` are those mutations.
    Two things FillPrice does before its last refusal are not steps of this program, because they
    are no change of the compared state: (1) `aggregators[feederID] = newWorker(…)` when the feeder
    has no worker yet — a fresh worker is never sealed and its empty filter lets every message that
    passed checkMsg through, so a refusal after it ("sealed", "ignored") is only possible when the
    worker already existed and the statement did nothing; (2) the nonce `filtrate` records in the
    filter before it looks at the det ids — the nonce bookkeeping the property exempts ("apart from
    … sequence/nonce changes": an admitted submission that is then ignored has consumed its nonce);
    the harness removes the filter's nonce sets from the dump it compares. -/
def oracleCreatePrice : Prog :=
  [.check "checkTimestamp",
   -- context.go: checkMsg
   .check "sanityCheck", .check "round open", .check "basedBlock", .check "CheckRules", .check "CheckDecimal",
   -- context.go: FillPrice / worker.go: do / filter.go: filtrate
   .check "worker.sealed", .check "filtrate",
   .write "mem:aggregator.fillPrice", .write "mem:calculator.fillPrice", .write "mem:aggregator.confirmDSPrice",
   .write "mem:round.status=closed+worker.seal",
   -- back in the msg server
   .write "AppendPriceTR|GrowRoundID", .write "RemoveNonceWithFeederIDForValidators", .write "cs.RemoveCache|cs.AddCache"]

/-- x/oracle/keeper/msg_server_update_params.go: UpdateParams. Every step up to Validate works on
    `p`, a value decoded from the store by `ms.GetParams(ctx)` that shares nothing with the process
    memory (tie `C09_tie_updateParams_base`); UpdateTokens cannot fail and is not listed. The writes:
    the store (dropped with the message's cache on error) and the in-memory params cache. -/
def oracleUpdateParams : Prog :=
  [.check "authority", .check "AddSources", .check "AddChains", .check "UpdateMaxPriceCount",
   .check "UpdateTokenFeeder", .check "Validate", .write "SetParams", .write "cs.AddCache(ItemP)"]

/-- the registry used by `C09_full` and by the correspondence driver -/
def entryPoints : List (String × Prog) :=
  [("assets.depositLST", assetsDepositWithdrawLST), ("assets.withdrawLST", assetsDepositWithdrawLST),
   ("assets.depositNST", assetsDepositWithdrawNST), ("assets.withdrawNST", assetsDepositWithdrawNST),
   ("assets.registerOrUpdateClientChain", registerOrUpdateClientChain),
   ("assets.registerToken", registerToken), ("assets.updateToken", updateToken),
   ("delegation.delegate", precompileDelegate), ("delegation.undelegate", precompileUndelegate),
   ("delegation.associateOperatorWithStaker", precompileAssociate),
   ("delegation.dissociateOperatorFromStaker", precompileDissociate),
   ("avs.registerOperatorToAVS", precompileOptIn), ("avs.deregisterOperatorFromAVS", precompileOptOut),
   ("avs.createTask", precompileCreateTask), ("reward.claimReward", precompileReward),
   ("msg.delegate", msgDelegate), ("msg.undelegate", msgUndelegate),
   ("msg.optIn", msgOptIn), ("msg.optOut", msgOptOut),
   ("operator.Slash", slash), ("delegation.EndBlock.record", endBlockRecord),
   ("operator.UpdateVotingPower", updateVotingPower),
   ("operator.UpdateVotingPower.noAssets", updateVotingPowerNoAssets),
   ("oracle.UpdateNSTByBalanceChange", updateNSTByBalanceChange2),
   ("oracle.CreatePrice", oracleCreatePrice), ("oracle.UpdateParams", oracleUpdateParams)]

def lookup (name : String) : Option Prog := (entryPoints.find? (·.1 = name)).map (·.2)

end ExoVerif.Atomic
