import ExoVerif.Basic.Dec
/-
  C19 — accounting of one Ethereum transaction around an OPAQUE execution result.

  Mirrors, as they are:
    baseapp.runTx (DeliverTx mode): block-gas-meter pre-check, ante in a cache (written only
      when the whole chain of decorators passes), runMsgs in a second cache, consumeBlockGas
      before the second cache is written (a panic there discards the message's writes);
    app/ante/handler_options.go newEVMAnteHandler, in DeliverTx mode:
      fees.go EthMinGasPriceDecorator, setup_ctx.go EthValidateBasicDecorator (numeric part),
      sigverify (a boolean input), eth.go CanTransferDecorator, EthGasConsumeDecorator
      (x/evm/keeper/fees.go VerifyFee + DeductTxCostsFromUserBalance, tx gas vs block gas limit),
      EthIncrementSenderSequenceDecorator;  EthAccountVerificationDecorator is CheckTx-only
      (`if !ctx.IsCheckTx() { return next(...) }`) and therefore NOT part of `admissible`;
    x/evm/keeper/state_transition.go ApplyTransaction / ApplyMessageWithConfig: intrinsic-gas
      error path (all gas charged), minimum gas used, RefundGas at msg.GasPrice().
  NOT modelled (inherited go-ethereum / evmos code, exercised by the differential run only): the EVM
  interpreter and statedb journal. Their result enters as `Exec` (gas consumed after the refund
  counter, failed flag) and `Tx.intrinsic` (core.IntrinsicGas), `Tx.sigOk` (signature/chain-id).

  Accounts are numbered; `St.bal` is the bank balance in the EVM denom, `St.nonce` the auth sequence.
-/
namespace ExoVerif.EvmFee

structure Env where
  baseFee : Int          -- feemarket base fee of the block (London is enabled from block 0)
  blockGasLimit : Int    -- consensus Block.MaxGas: > 0 limited, otherwise (−1) unlimited
  minGasMult : Dec       -- feemarket MinGasMultiplier
  minGasPrice : Dec      -- feemarket MinGasPrice
  collector : Nat        -- fee collector module account
deriving Inhabited

structure Tx where
  ty : Nat               -- 0 legacy, 1 access-list, 2 dynamic-fee
  sender : Nat
  recipient : Nat        -- account credited with `value` on success (`to`, or the created contract)
  nonce : Int
  gasLimit : Int
  feeCap : Int           -- GasPrice (ty 0/1) or GasFeeCap (ty 2)
  tipCap : Int           -- GasTipCap (ty 2); unused otherwise
  value : Int
  sigOk : Bool           -- EthSigVerificationDecorator passes
  intrinsic : Int        -- core.IntrinsicGas(data, accessList, isCreate, …)
deriving Inhabited

/-- what the EVM returned: gas consumed after the refund counter (`temporaryGasUsed`), vmErr != nil -/
structure Exec where
  evmGasUsed : Int
  failed : Bool
  /-- only for a rejected tx: ctx.GasMeter().GasConsumed() of the context baseapp.runTx holds when it gives up
      (0 once EthSetupContextDecorator has installed its meter; the block-wide infinite meter of the deliver
      context when msg.ValidateBasic fails before the ante handler or a decorator panics). The deferred
      consumeBlockGas adds it to the block gas meter although the tx is rejected. -/
  rejGas : Int := 0
deriving Inhabited

structure St where
  bal : Nat → Int
  nonce : Nat → Int
  blockGas : Int         -- ctx.BlockGasMeter().GasConsumed()

inductive Outcome where
  | rejected                      -- ante (or block-gas pre-check) failed: nothing written
  | applyErr                      -- ApplyMessageWithConfig returned an error (intrinsic gas): all gas charged
  | blockGas                      -- block gas meter overflowed after execution: message writes dropped
  | executed (failed : Bool)      -- EVM ran; failed = reverted / out of gas / invalid opcode …
deriving DecidableEq, Repr, Inhabited

def addAt (f : Nat → Int) (k : Nat) (d : Int) : Nat → Int := fun a => if a = k then f a + d else f a

/-- x/evm/keeper/gas.go: GasToRefund (uint64 arithmetic; refundQuotient ≠ 0) -/
def gasToRefund (availableRefund gasConsumed refundQuotient : Int) : Int :=
  let refund := Int.tdiv gasConsumed refundQuotient
  if availableRefund < refund then availableRefund else refund

/-- ApplyMessageWithConfig: `temporaryGasUsed -= refund` -/
def evmGasAfterRefund (rawGasUsed refundCounter refundQuotient : Int) : Int :=
  rawGasUsed - gasToRefund refundCounter rawGasUsed refundQuotient

/-- evmos x/evm/types TxData.EffectiveGasPrice (dynamic_fee_tx.go / legacy_tx.go / access_list_tx.go):
    the price the ante handler charges per unit of gas -/
def antePrice (e : Env) (t : Tx) : Int :=
  if t.ty = 2 then min (t.tipCap + e.baseFee) t.feeCap else t.feeCap

/-- go-ethereum Transaction.AsMessage(signer, baseFee): msg.GasPrice(), the price RefundGas uses.
    For legacy/access-list txs gasTipCap = gasFeeCap = gasPrice. -/
def msgPrice (e : Env) (t : Tx) : Int :=
  let tip := if t.ty = 2 then t.tipCap else t.feeCap
  min (tip + e.baseFee) t.feeCap

/-- numeric part of MsgEthereumTx.ValidateBasic / TxData.Validate -/
def wellFormed (t : Tx) : Bool :=
  decide (t.ty ≤ 2) && decide (0 < t.gasLimit) && decide (t.gasLimit < 9223372036854775808) &&
  decide (0 ≤ t.feeCap) && decide (0 ≤ t.value) &&
  (t.ty != 2 || (decide (0 ≤ t.tipCap) && decide (t.tipCap ≤ t.feeCap)))

/-- app/ante/evm/fees.go: EthMinGasPriceDecorator -/
def minGasPriceOk (e : Env) (t : Tx) : Bool :=
  if e.minGasPrice.isZero then true
  else
    let feeAmt := (if t.ty = 0 then t.feeCap else antePrice e t) * t.gasLimit
    let requiredFee := Dec.mul e.minGasPrice (Dec.ofInt t.gasLimit)
    !(Dec.lt (Dec.ofInt feeAmt) requiredFee)

/-- fee deducted by EthGasConsumeDecorator: VerifyFee = txData.EffectiveFee(baseFee) -/
def anteFee (e : Env) (t : Tx) : Int := antePrice e t * t.gasLimit

/-- The admission checks DeliverTx performed before the F-19a repair (value and fee compared with the balance
    separately); still all performed, kept as a definition of its own for the regression theorem. -/
def admissibleSeparate (e : Env) (s : St) (t : Tx) : Bool :=
  !(decide (0 < e.blockGasLimit) && decide (e.blockGasLimit ≤ s.blockGas)) &&  -- runTx: BlockGasMeter().IsOutOfGas()
  minGasPriceOk e t && wellFormed t && t.sigOk &&
  decide (e.baseFee ≤ t.feeCap) &&                                             -- CanTransferDecorator / VerifyFee
  !(decide (0 < t.value) && decide (s.bal t.sender < t.value)) &&              -- CanTransferDecorator
  decide (anteFee e t ≤ s.bal t.sender) &&                                     -- authante.DeductFees
  !(decide (0 < e.blockGasLimit) && decide (e.blockGasLimit < t.gasLimit)) &&  -- tx gas > block gas limit
  decide (t.nonce = s.nonce t.sender)                                          -- EthIncrementSenderSequenceDecorator

/-- x/evm/keeper/fees.go CheckSenderBalance, called by EthAccountVerificationDecorator in every mode (F-19a repair):
    balance ≥ txData.Cost() = gasLimit·feeCap + value (the fee CAP, as go-ethereum's buyGas) -/
def totalCostOk (s : St) (t : Tx) : Bool := decide (t.feeCap * t.gasLimit + t.value ≤ s.bal t.sender)

/-- DeliverTx-mode admission: every check that makes baseapp drop the ante cache. -/
def admissible (e : Env) (s : St) (t : Tx) : Bool := admissibleSeparate e s t && totalCostOk s t

/-- state after a passing ante handler: fee escrowed with the collector, sequence + 1 -/
def afterAnte (e : Env) (s : St) (t : Tx) : St :=
  { s with bal := addAt (addAt s.bal t.sender (-(anteFee e t))) e.collector (anteFee e t),
           nonce := addAt s.nonce t.sender 1 }

/-- ApplyMessageWithConfig: `minimumGasUsed := gasLimit.Mul(minGasMultiplier)` -/
def minimumGasUsed (gasLimit : Int) (minGasMultiplier : Dec) : Dec :=
  Dec.mul (Dec.ofInt gasLimit) minGasMultiplier

/-- ApplyMessageWithConfig: `gasUsed := LegacyMaxDec(minimumGasUsed, LegacyNewDec(temporaryGasUsed)).TruncateInt()` -/
def finalGasUsed (minimumGasUsed : Dec) (temporaryGasUsed : Int) : Int :=
  Dec.truncateInt (Dec.maxDec minimumGasUsed (Dec.ofInt temporaryGasUsed))

def gasUsed (e : Env) (t : Tx) (x : Exec) : Int :=
  finalGasUsed (minimumGasUsed t.gasLimit e.minGasMult) x.evmGasUsed

/-- RefundGas: leftover · msg.GasPrice() moved from the collector to the sender when positive -/
def refundAmt (e : Env) (t : Tx) (g : Int) : Int :=
  let remaining := (t.gasLimit - g) * msgPrice e t
  if 0 < remaining then remaining else 0

/-- message writes of a completed ApplyTransaction -/
def afterExec (e : Env) (s1 : St) (t : Tx) (x : Exec) (g : Int) : St :=
  let b := if x.failed then s1.bal else addAt (addAt s1.bal t.sender (-t.value)) t.recipient t.value
  let r := refundAmt e t g
  { s1 with bal := addAt (addAt b e.collector (-r)) t.sender r }

/-- one DeliverTx. Returns the new state, the outcome class and the gas the sender is charged for. -/
def deliver (e : Env) (s : St) (t : Tx) (x : Exec) : St × Outcome × Int :=
  if !admissible e s t then ({ s with blockGas := s.blockGas + x.rejGas }, .rejected, 0)
  else
    let s1 := afterAnte e s t
    if t.gasLimit < t.intrinsic then
      -- ApplyMessageWithConfig: core.ErrIntrinsicGas ⇒ ResetGasMeterAndConsumeGas(ctx, limit); msg cache dropped.
      -- The deferred consumeBlockGas still runs: when it overflows the block meter its panic replaces the error.
      ({ s1 with blockGas := s.blockGas + t.gasLimit },
       (if decide (0 < e.blockGasLimit) && decide (e.blockGasLimit < s.blockGas + t.gasLimit) then .blockGas else .applyErr),
       t.gasLimit)
    else
      let g := gasUsed e t x
      let total := s.blockGas + g
      if decide (0 < e.blockGasLimit) && decide (e.blockGasLimit < total) then
        -- consumeBlockGas panics (consumed stays past the limit); message cache not written
        ({ s1 with blockGas := total }, .blockGas, t.gasLimit)
      else
        ({ afterExec e s1 t x g with blockGas := total }, .executed x.failed, g)

/-- a list of transactions of one block sharing the block gas meter -/
def deliverAll (e : Env) (s : St) : List (Tx × Exec) → St × List (Outcome × Int)
  | [] => (s, [])
  | (t, x) :: rest =>
    let r := deliver e s t x
    let rr := deliverAll e r.1 rest
    (rr.1, (r.2.1, r.2.2) :: rr.2)

end ExoVerif.EvmFee
