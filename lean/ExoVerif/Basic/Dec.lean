/-
  LegacyDec of cosmossdk.io/math v1.2.0 (dec.go), 18 decimals, as exact integer arithmetic.
  `raw` is the big.Int the SDK stores (value = raw / 10^18). Every operation below is a
  transcription of the Go method of the same name, including rounding direction:
    Quo        = chopPrecisionAndRound ((a * 10^36) `big.Int.Quo` b)   (banker's rounding)
    QuoTruncate= chopPrecisionAndTruncate (…)
    QuoInt     = a `big.Int.Quo` i                                     (truncation toward 0)
    Mul        = chopPrecisionAndRound (a*b);  MulTruncate = truncate (a*b)
    MulInt     = a * i (exact)
    TruncateInt= raw `Quo` 10^18
  big.Int.Quo is T-division (`Int.tdiv`). The SDK panics when a result exceeds 315 bits
  (maxDecBitLen); that side condition is carried separately where a property needs it.
-/
namespace ExoVerif

/-- 10^18 -/
def PREC : Int := 1000000000000000000

theorem PREC_pos : 0 < PREC := by decide

structure Dec where
  raw : Int
deriving DecidableEq, Repr, Inhabited

namespace Dec

def zero : Dec := ⟨0⟩
def one : Dec := ⟨PREC⟩
def ofInt (i : Int) : Dec := ⟨i * PREC⟩          -- LegacyNewDecFromInt / NewDecFromBigInt
def add (a b : Dec) : Dec := ⟨a.raw + b.raw⟩
def sub (a b : Dec) : Dec := ⟨a.raw - b.raw⟩
def neg (a : Dec) : Dec := ⟨-a.raw⟩
def isZero (a : Dec) : Bool := a.raw == 0
def isNegative (a : Dec) : Bool := a.raw < 0
def isPositive (a : Dec) : Bool := 0 < a.raw
def gt (a b : Dec) : Bool := b.raw < a.raw
def gte (a b : Dec) : Bool := b.raw ≤ a.raw
def lt (a b : Dec) : Bool := a.raw < b.raw
def lte (a b : Dec) : Bool := a.raw ≤ b.raw
def eq (a b : Dec) : Bool := a.raw == b.raw
def minDec (a b : Dec) : Dec := if a.raw < b.raw then a else b   -- LegacyMinDec
def maxDec (a b : Dec) : Dec := if a.raw < b.raw then b else a   -- LegacyMaxDec

/-- chopPrecisionAndRound on a non-negative big.Int -/
def chopRoundNonneg (d : Int) : Int :=
  let q := d.tdiv PREC
  let r := d.tmod PREC
  if r == 0 then q
  else if r < 500000000000000000 then q
  else if 500000000000000000 < r then q + 1
  else if q % 2 == 0 then q else q + 1

/-- chopPrecisionAndRound -/
def chopRound (d : Int) : Int :=
  if d < 0 then -(chopRoundNonneg (-d)) else chopRoundNonneg d

/-- chopPrecisionAndTruncate -/
def chopTrunc (d : Int) : Int := d.tdiv PREC

/-- chopPrecisionAndRoundUp -/
def chopRoundUp (d : Int) : Int :=
  if d < 0 then -((-d).tdiv PREC)
  else if d.tmod PREC == 0 then d.tdiv PREC else d.tdiv PREC + 1

def mul (a b : Dec) : Dec := ⟨chopRound (a.raw * b.raw)⟩
def mulTruncate (a b : Dec) : Dec := ⟨chopTrunc (a.raw * b.raw)⟩
def mulInt (a : Dec) (i : Int) : Dec := ⟨a.raw * i⟩
/-- Quo: the Go code panics on a zero divisor (big.Int division by zero); callers model that. -/
def quo (a b : Dec) : Dec := ⟨chopRound ((a.raw * (PREC * PREC)).tdiv b.raw)⟩
def quoTruncate (a b : Dec) : Dec := ⟨chopTrunc ((a.raw * (PREC * PREC)).tdiv b.raw)⟩
def quoRoundUp (a b : Dec) : Dec := ⟨chopRoundUp ((a.raw * (PREC * PREC)).tdiv b.raw)⟩
def quoInt (a : Dec) (i : Int) : Dec := ⟨a.raw.tdiv i⟩
def truncateInt (a : Dec) : Int := a.raw.tdiv PREC
def roundInt (a : Dec) : Int := chopRound a.raw

/-- BitLen(raw) ≤ 315  (the SDK's overflow guard) -/
def fits (a : Dec) : Bool := a.raw.natAbs < 2 ^ 315

instance : ToString Dec := ⟨fun d => toString d.raw⟩

end Dec
end ExoVerif
