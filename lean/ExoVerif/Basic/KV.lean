/-
  Association-list maps used by the models for KV stores, with the sum lemmas that the
  conservation proofs need. Core Lean only.
  A store is `List (κ × α)`; `set` replaces the first binding of a key in place or appends, so
  a map built from `[]` by `set`/`erase` never holds two bindings for one key (`NoDup`).
-/
namespace ExoVerif.KV

variable {κ : Type} {α : Type} [DecidableEq κ]

def find? (m : List (κ × α)) (k : κ) : Option α :=
  match m with
  | [] => none
  | (k', v) :: rest => if k' = k then some v else find? rest k

def getD (m : List (κ × α)) (k : κ) (d : α) : α := (find? m k).getD d

def has (m : List (κ × α)) (k : κ) : Bool := (find? m k).isSome

def set (m : List (κ × α)) (k : κ) (v : α) : List (κ × α) :=
  match m with
  | [] => [(k, v)]
  | (k', v') :: rest => if k' = k then (k, v) :: rest else (k', v') :: set rest k v

def erase (m : List (κ × α)) (k : κ) : List (κ × α) :=
  match m with
  | [] => []
  | (k', v') :: rest => if k' = k then rest else (k', v') :: erase rest k

def keys (m : List (κ × α)) : List κ := m.map (·.1)

def sumBy (f : α → Int) (m : List (κ × α)) : Int :=
  match m with
  | [] => 0
  | (_, v) :: rest => f v + sumBy f rest

/-- value of `f` at key `k`, 0 when absent -/
def at0 (f : α → Int) (m : List (κ × α)) (k : κ) : Int :=
  match find? m k with
  | some v => f v
  | none => 0

def NoDup (m : List (κ × α)) : Prop := (keys m).Nodup

@[simp] theorem find?_nil (k : κ) : find? ([] : List (κ × α)) k = none := rfl

theorem find?_set_same (m : List (κ × α)) (k : κ) (v : α) : find? (set m k v) k = some v := by
  induction m with
  | nil => simp [set, find?]
  | cons p rest ih =>
    obtain ⟨k', v'⟩ := p
    by_cases h : k' = k
    · simp [set, find?, h]
    · simp [set, find?, h, ih]

theorem find?_set_other (m : List (κ × α)) (k k2 : κ) (v : α) (h : k2 ≠ k) :
    find? (set m k v) k2 = find? m k2 := by
  induction m with
  | nil => simp [set, find?]; intro h'; exact absurd h'.symm h
  | cons p rest ih =>
    obtain ⟨k', v'⟩ := p
    by_cases h1 : k' = k
    · subst h1
      have : ¬ k' = k2 := fun e => h e.symm
      simp [set, find?, this]
    · by_cases h2 : k' = k2
      · subst h2; simp [set, find?, h1]
      · simp [set, find?, h1, h2, ih]

theorem getD_set_same (m : List (κ × α)) (k : κ) (v d : α) : getD (set m k v) k d = v := by
  simp [getD, find?_set_same]

theorem getD_set_other (m : List (κ × α)) (k k2 : κ) (v d : α) (h : k2 ≠ k) :
    getD (set m k v) k2 d = getD m k2 d := by
  simp [getD, find?_set_other m k k2 v h]

theorem keys_set_mem (m : List (κ × α)) (k : κ) (v : α) (x : κ) :
    x ∈ keys (set m k v) ↔ x = k ∨ x ∈ keys m := by
  induction m with
  | nil => simp [set, keys]
  | cons p rest ih =>
    obtain ⟨k', v'⟩ := p
    by_cases h : k' = k
    · subst h; simp [set, keys]
    · simp only [set, h, if_false, keys, List.map_cons, List.mem_cons] at ih ⊢
      constructor
      · rintro (h1 | h1)
        · exact Or.inr (Or.inl h1)
        · rcases ih.1 h1 with h2 | h2
          · exact Or.inl h2
          · exact Or.inr (Or.inr h2)
      · rintro (h1 | h1 | h1)
        · exact Or.inr (ih.2 (Or.inl h1))
        · exact Or.inl h1
        · exact Or.inr (ih.2 (Or.inr h1))

theorem noDup_set (m : List (κ × α)) (k : κ) (v : α) (h : NoDup m) : NoDup (set m k v) := by
  induction m with
  | nil => simp [set, NoDup, keys]
  | cons p rest ih =>
    obtain ⟨k', v'⟩ := p
    simp only [NoDup, keys, List.map_cons, List.nodup_cons] at h
    by_cases h1 : k' = k
    · subst h1; simp only [set, if_true, NoDup, keys, List.map_cons, List.nodup_cons]; exact h
    · simp only [set, h1, if_false, NoDup, keys, List.map_cons, List.nodup_cons]
      refine ⟨?_, ih h.2⟩
      intro hm
      have := (keys_set_mem rest k v k').1 hm
      rcases this with h2 | h2
      · exact h1 h2
      · exact h.1 h2

theorem find?_none_of_not_mem (m : List (κ × α)) (k : κ) (h : k ∉ keys m) : find? m k = none := by
  induction m with
  | nil => rfl
  | cons p rest ih =>
    obtain ⟨k', v'⟩ := p
    simp only [keys, List.map_cons, List.mem_cons, not_or] at h
    have : ¬ k' = k := fun e => h.1 e.symm
    simp [find?, this]; exact ih h.2

/-- the sum changes by exactly (new − old) at the key that was set -/
theorem sumBy_set (f : α → Int) (m : List (κ × α)) (k : κ) (v : α) :
    sumBy f (set m k v) = sumBy f m - at0 f m k + f v := by
  induction m with
  | nil => simp [set, sumBy, at0]
  | cons p rest ih =>
    obtain ⟨k', v'⟩ := p
    by_cases h : k' = k
    · simp [set, sumBy, at0, find?, h]; omega
    · simp only [set, h, if_false, sumBy, ih, at0, find?]; omega

theorem sumBy_erase (f : α → Int) (m : List (κ × α)) (k : κ) :
    sumBy f (erase m k) = sumBy f m - at0 f m k := by
  induction m with
  | nil => simp [erase, sumBy, at0]
  | cons p rest ih =>
    obtain ⟨k', v'⟩ := p
    by_cases h : k' = k
    · simp [erase, sumBy, at0, find?, h]; omega
    · simp only [erase, h, if_false, sumBy, ih, at0, find?]; omega

theorem sumBy_nonneg (f : α → Int) (m : List (κ × α)) (h : ∀ p ∈ m, 0 ≤ f p.2) : 0 ≤ sumBy f m := by
  induction m with
  | nil => simp [sumBy]
  | cons p rest ih =>
    obtain ⟨k', v'⟩ := p
    simp only [sumBy]
    have h1 := h (k', v') (by simp)
    have h2 := ih (fun q hq => h q (by simp [hq]))
    simp at h1; omega

theorem find?_mem (m : List (κ × α)) (k : κ) (v : α) (h : find? m k = some v) : (k, v) ∈ m := by
  induction m with
  | nil => simp [find?] at h
  | cons p rest ih =>
    obtain ⟨k', v'⟩ := p
    by_cases h1 : k' = k
    · simp [find?, h1] at h; subst h1; subst h; simp
    · simp [find?, h1] at h; simp [ih h]

theorem at0_le_sumBy (f : α → Int) (m : List (κ × α)) (k : κ) (h : ∀ p ∈ m, 0 ≤ f p.2) :
    at0 f m k ≤ sumBy f m := by
  induction m with
  | nil => simp [at0, sumBy]
  | cons p rest ih =>
    obtain ⟨k', v'⟩ := p
    have h1 := h (k', v') (by simp)
    have hrest : ∀ q ∈ rest, 0 ≤ f q.2 := fun q hq => h q (by simp [hq])
    have h2 := sumBy_nonneg f rest hrest
    by_cases hk : k' = k
    · simp [at0, find?, hk, sumBy]; simp at h1; omega
    · have := ih hrest
      simp only [at0, find?, hk, if_false, sumBy] at this ⊢
      simp at h1; omega

theorem find?_of_mem (m : List (κ × α)) (k : κ) (v : α) (hn : NoDup m) (h : (k, v) ∈ m) :
    find? m k = some v := by
  induction m with
  | nil => cases h
  | cons p rest ih =>
    obtain ⟨k', v'⟩ := p
    simp only [NoDup, keys, List.map_cons, List.nodup_cons] at hn
    rcases List.mem_cons.1 h with h1 | h1
    · injection h1 with e1 e2; subst e1; subst e2; simp [find?]
    · have hk : k ∈ keys rest := List.mem_map.2 ⟨(k, v), h1, rfl⟩
      have : ¬ k' = k := fun e => hn.1 (e ▸ hk)
      simp only [find?, this, if_false]
      exact ih hn.2 h1

/-! ### key-aware sums (per-asset sums filter on the key) -/

def sumP (f : κ × α → Int) (m : List (κ × α)) : Int :=
  match m with
  | [] => 0
  | p :: rest => f p + sumP f rest

/-- value of `f` at key `k`, 0 when absent -/
def atP (f : κ × α → Int) (m : List (κ × α)) (k : κ) : Int :=
  match find? m k with
  | some v => f (k, v)
  | none => 0

theorem sumP_set (f : κ × α → Int) (m : List (κ × α)) (k : κ) (v : α) :
    sumP f (set m k v) = sumP f m - atP f m k + f (k, v) := by
  induction m with
  | nil => simp [set, sumP, atP]
  | cons p rest ih =>
    obtain ⟨k', v'⟩ := p
    by_cases h : k' = k
    · subst h; simp [set, sumP, atP, find?]; omega
    · simp only [set, h, if_false, sumP, ih, atP, find?]; omega

theorem sumP_erase (f : κ × α → Int) (m : List (κ × α)) (k : κ) :
    sumP f (erase m k) = sumP f m - atP f m k := by
  induction m with
  | nil => simp [erase, sumP, atP]
  | cons p rest ih =>
    obtain ⟨k', v'⟩ := p
    by_cases h : k' = k
    · subst h; simp [erase, sumP, atP, find?]; omega
    · simp only [erase, h, if_false, sumP, ih, atP, find?]; omega

theorem sumP_nonneg (f : κ × α → Int) (m : List (κ × α)) (h : ∀ p ∈ m, 0 ≤ f p) : 0 ≤ sumP f m := by
  induction m with
  | nil => simp [sumP]
  | cons p rest ih =>
    simp only [sumP]
    have h1 := h p (by simp)
    have h2 := ih (fun q hq => h q (by simp [hq]))
    omega

theorem sumP_congr (f g : κ × α → Int) (m : List (κ × α)) (h : ∀ p ∈ m, f p = g p) : sumP f m = sumP g m := by
  induction m with
  | nil => rfl
  | cons p rest ih =>
    simp only [sumP]
    rw [h p (by simp), ih (fun q hq => h q (by simp [hq]))]

theorem atP_getD (f : κ × α → Int) (m : List (κ × α)) (k : κ) (d : α) (hd : f (k, d) = 0) :
    atP f m k = f (k, getD m k d) := by
  unfold atP getD
  cases find? m k <;> simp [hd]

theorem find?_erase_same (m : List (κ × α)) (k : κ) (h : NoDup m) : find? (erase m k) k = none := by
  induction m with
  | nil => rfl
  | cons p rest ih =>
    obtain ⟨k', v'⟩ := p
    simp only [NoDup, keys, List.map_cons, List.nodup_cons] at h
    by_cases h1 : k' = k
    · subst h1; simp only [erase, if_true]; exact find?_none_of_not_mem rest k' h.1
    · simp only [erase, h1, if_false, find?]; exact ih h.2

theorem find?_erase_other (m : List (κ × α)) (k k2 : κ) (h : k2 ≠ k) :
    find? (erase m k) k2 = find? m k2 := by
  induction m with
  | nil => rfl
  | cons p rest ih =>
    obtain ⟨k', v'⟩ := p
    by_cases h1 : k' = k
    · subst h1
      have : ¬ k' = k2 := fun e => h e.symm
      simp [erase, find?, this]
    · by_cases h2 : k' = k2
      · subst h2; simp [erase, find?, h1]
      · simp [erase, find?, h1, h2, ih]

theorem keys_erase_sub (m : List (κ × α)) (k x : κ) (hx : x ∈ keys (erase m k)) : x ∈ keys m := by
  induction m with
  | nil => simp [erase, keys] at hx
  | cons p rest ih =>
    obtain ⟨k', v'⟩ := p
    by_cases h1 : k' = k
    · simp only [erase, h1, if_true] at hx; simp [keys]; exact Or.inr (by simpa [keys] using hx)
    · simp only [erase, h1, if_false, keys, List.map_cons, List.mem_cons] at hx ⊢
      rcases hx with h2 | h2
      · exact Or.inl h2
      · exact Or.inr (ih h2)

theorem noDup_erase (m : List (κ × α)) (k : κ) (h : NoDup m) : NoDup (erase m k) := by
  induction m with
  | nil => simpa [erase] using h
  | cons p rest ih =>
    obtain ⟨k', v'⟩ := p
    simp only [NoDup, keys, List.map_cons, List.nodup_cons] at h
    by_cases h1 : k' = k
    · simp only [erase, h1, if_true]; exact h.2
    · simp only [erase, h1, if_false, NoDup, keys, List.map_cons, List.nodup_cons]
      exact ⟨fun hm => h.1 (keys_erase_sub rest k k' hm), ih h.2⟩

end ExoVerif.KV
