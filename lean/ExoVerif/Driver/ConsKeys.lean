import ExoVerif.Driver.Common
import ExoVerif.Model.ConsKeys
import ExoVerif.Model.ConsKeysJail
/- driver for the C07 / C16 correspondence (ops `ck.*`, see harness/dom_conskeys.go) -/
namespace ExoVerif.Driver.ConsKeys
open ExoVerif.ConsKeys ExoVerif.ValSet ExoVerif.Driver

def showOpt (o : Option Nat) : String := match o with | some k => toString k | none => "-"
def showOptI (o : Option Int) : String := match o with | some k => toString k | none => "-"
def b01 (b : Bool) : String := if b then "1" else "0"
def showNats (l : List Nat) : String := joinWith "," (l.map toString)

def showOut : Out → String
  | .ok => "ok" | .errNotOperator => "ErrOperatorNotExist" | .errAlreadyOptedIn => "ErrAlreadyOptedIn"
  | .errMinDelegation => "ErrMinDelegationNotMet" | .errAlreadyRemovingKey => "ErrAlreadyRemovingKey"
  | .errConsKeyInUse => "ErrConsKeyAlreadyInUse" | .errNotOptedIn => "ErrNotOptedIn" | .panic => "panic"

def showUOut : UOut → String
  | .ok => "ok" | .errNoValidator => "ErrNoValidatorForAddress" | .errSelfTooLow => "ErrSelfDelegationTooLowToUnjail"
  | .errNotJailed => "ErrValidatorNotJailed" | .errJailed => "ErrValidatorJailed" | .panic => "panic"

def showVals (vs : VSet) : String :=
  joinWith "," ((ExoVerif.VMap.isort (fun (a b : Nat × Int) => decide (a.1 ≤ b.1)) vs).map (fun p => s!"{p.1}:{p.2}"))

def showSt (s : St) : String :=
  let ops := (List.range s.nOps).filter (fun o => s.registered o)
  let o := joinWith ";" (ops.map (fun op =>
    s!"{op}:{showOpt (s.fwd op)}:{showOpt (s.fwd2 op)}:{showOpt (s.prevKey op)}:{b01 (s.removing op)}:{b01 (s.optedIn op)}:{b01 (s.jailed op)}:{showOptI (s.optOutFinishEpoch op)}"))
  let r := joinWith "," ((List.range s.nKeys).filterMap (fun k => match s.rev k with | some op => some s!"{k}:{op}:{b01 (jailedView s k)}" | none => none))
  let win := (List.range 8).map (fun i => s.epoch - 2 + Int.ofNat i)
  let q := joinWith ";" (win.filterMap (fun e =>
    if (s.optOutsToFinish e).isEmpty && (s.addrsToPrune e).isEmpty && (s.undelToMature e).isEmpty then none
    else some s!"{e}:{showNats (s.optOutsToFinish e)}/{showNats (s.addrsToPrune e)}/{showNats (s.undelToMature e)}"))
  let h := joinWith "," ((List.range s.nRecs).map (fun r => s!"{r}:{s.holds r}:{showOptI (s.undelMaturity r)}"))
  s!"E={s.epoch},{s.nUnb},{b01 s.epochEnd}|O={o}|R={r}|V={showVals s.vs.vals}|Q={q}|P={showNats s.pendingOptOuts}/{showNats s.pendingAddrs}/{showNats s.pendingUndel}|H={h}"

def parsePowers (t : String) : Nat → Int :=
  let l : List (Nat × Int) := if t == "-" then [] else (t.splitOn ",").filterMap (fun x =>
    match x.splitOn ":" with
    | [o, p] => some (parseNat! o, parseInt! p)
    | _ => none)
  fun op => (ExoVerif.KV.find? l op).getD 0

def dstep (s : St) (w : List String) : St × String :=
  let fin (r : Out × St) : St × String := (r.2, showOut r.1 ++ "|" ++ showSt r.2)
  match w with
  | ["ck.reset"] => (St.init 0 0 0 0, "ok")
  | ["ck.init", nOps, nKeys, e, n] => (St.init (parseNat! nOps) (parseNat! nKeys) (parseInt! e) (parseInt! n), "ok")
  | ["ck.gen", op, key, power] =>
    let op := parseNat! op; let key := parseNat! key
    let s' := { s with registered := upd s.registered op true, hasInfo := upd s.hasInfo op true,
                       optedIn := upd s.optedIn op true, fwd := upd s.fwd op (some key),
                       fwd2 := upd s.fwd2 op (some key), rev := upd s.rev key (some op),
                       vs := { s.vs with vals := ExoVerif.VMap.put s.vs.vals key (parseInt! power) } }
    (s', "ok")
  | ["ck.total", t] => ({ s with vs := { s.vs with lastTotalPower := parseInt! t } }, "ok|" ++ showSt s)
  | ["ck.register", op] => fin (ExoVerif.ConsKeys.step s (.register (parseNat! op)))
  | ["ck.optin", op, key, ok] => fin (ExoVerif.ConsKeys.step s (.optIn (parseNat! op) (parseNat! key) (ok == "1")))
  | ["ck.setkey", op, key] => fin (ExoVerif.ConsKeys.step s (.setKey (parseNat! op) (parseNat! key)))
  | ["ck.optout", op] => fin (ExoVerif.ConsKeys.step s (.optOut (parseNat! op)))
  | ["ck.jail", key, b] => fin (ExoVerif.ConsKeys.step s (.jail (parseNat! key) (b == "1")))
  | ["ck.unjailmsg", op, total, self, min, t] =>
    let r := unjailMsg s (parseNat! op) (parseInt! total) (parseInt! self) (parseInt! min) (t == "1")
    (r.2, showUOut r.1 ++ "|" ++ showSt r.2)
  | ["ck.undel", op, rc] =>
    let rc := parseNat! rc
    let r := ExoVerif.ConsKeys.step s (.undelegate (parseNat! op) rc)
    fin (r.1, if r.1 == Out.ok then { r.2 with nRecs := max s.nRecs (rc + 1) } else r.2)
  | ["ck.undel", op, rc, via] =>
    -- the entry point (keeper | precompile) is part of the op line; the hook is wired for both (Model: hooksWired)
    let rc := parseNat! rc
    let e : Entry := if via == "precompile" then .precompile else .keeper
    let r := undelegateVia (hooksWired e) s (parseNat! op) rc
    fin (r.1, if r.1 == Out.ok then { r.2 with nRecs := max s.nRecs (rc + 1) } else r.2)
  | ["ck.slashprobe", key, staked] =>
    -- slash / jail / ValidatorByConsAddr by consensus address in a discarded cache context: who is hit (state unchanged)
    let key := parseNat! key
    let st : List Nat := if staked == "-" then [] else (staked.splitOn ",").map (fun x => parseNat! x)
    let dash (l : List Nat) : String := if l.isEmpty then "-" else showNats l
    (s, dash (slashedBy s key (fun op => st.contains op)) ++ "/" ++ dash (jailTarget s key).toList
        ++ "/" ++ dash (validatorTarget s key).toList)
  | ["ck.param", n] => fin (ExoVerif.ConsKeys.step s (.setUnbonding (parseInt! n)))
  | ["ck.begin", e] => fin (ExoVerif.ConsKeys.step s (.epochEnd (parseInt! e)))
  | ["ck.end", m, pw] => fin (ExoVerif.ConsKeys.step s (.endBlock (parsePowers pw) (parseNat! m)))
  -- directed runs outside the model (dom_conskeys_gate.go: real evidence path, HistoricalEntries boundary):
  -- the observation is part of the op line, the state is untouched
  | w :: _ => if w.startsWith "ckgate." || w.startsWith "ckhist." then (s, "ok") else (s, "bad-op")
  | _ => (s, "bad-op")

def main : IO Unit := runDriver (St.init 0 0 0 0) dstep

end ExoVerif.Driver.ConsKeys
