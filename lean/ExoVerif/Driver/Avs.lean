import ExoVerif.Driver.Common
import ExoVerif.Model.Avs
/- driver for the C20 correspondence. Words: `~` = nil, `-` = empty, lists comma-separated.
   ops: avs.reset | avs.env <operators> <assets> | avs.epochs id=n,… | avs.update … | avs.opt … |
        avs.task … | avs.bls … | avs.submit … | avs.challenge … | avs.block … | avs.dump |
        (avs.challenge: abiOk = 0 | 1 | 2, 2 = the ABI packer panics on the stored response) |
        avs.note … (a ledger / price change of the environment: delegation, undelegation, slash, oracle
        price; its effect reaches the model as the self-delegated value of the next avs.opt line) -/
namespace ExoVerif.Driver.Avs
open ExoVerif ExoVerif.Avs ExoVerif.Driver

def str (w : String) : String := if w == "-" then "" else w
def optStr (w : String) : Option String := if w == "~" then none else some (str w)
def lst (w : String) : List String := if w == "-" || w == "~" then [] else w.splitOn ","
def optLst (w : String) : Option (List String) := if w == "~" then none else some (lst w)
def showStr (s : String) : String := if s == "" then "-" else s
def showOpt : Option String → String
  | none => "~"
  | some s => showStr s
def showLst (l : List String) : String := if l.isEmpty then "-" else joinWith "," l

def kvInt (w : String) : List (String × Int) :=
  (lst w).filterMap (fun kv => match kv.splitOn "=" with
    | [k, v] => (parseInt? v).map (fun n => (k, n))
    | _ => none)

def showAVS (a : AVS) : String :=
  s!"{a.addr};{showStr a.name};{showStr a.taskAddr};{showLst a.owners};{showLst a.assets};{a.minSelf};{a.unbonding};{showStr a.epochId};{a.startingEpoch}"

def showTask (t : Task) : String :=
  let pw := joinWith "," (t.powers.map (fun p => s!"{p.1}={p.2}"))
  s!"{t.taskAddr}#{t.id};{showStr t.name};{showStr t.hash};{t.resp};{t.stat};{t.chal};{t.startingEpoch};{showLst t.optIn};{showLst t.signed};{showLst t.noSigned};{if pw == "" then "-" else pw};{t.totalPower};{t.actualThreshold}"

def showRes (r : Result) : String :=
  s!"{r.op}/{r.taskAddr}#{r.id};{r.stage};{showOpt r.sig};{showOpt r.response};{showStr r.respHash}"

def optState (s : State) (op avs : String) : String :=
  match KV.find? s.opted (op, avs) with
  | none => "none"
  | some true => "in"
  | some false => "out"

/-- canonical dump: every list sorted by its key's text -/
def dump (s : State) : String :=
  let sortBy (l : List (String × String)) : List String :=
    (sortStr (l.map (·.1))).filterMap (fun k => (l.find? (fun p => p.1 == k)).map (·.2))
  let avs := sortBy (s.avss.map (fun p => (p.1, showAVS p.2)))
  let tasks := sortBy (s.tasks.map (fun p => (s!"{p.1.1}#{p.1.2}", showTask p.2)))
  let res := sortBy (s.results.map (fun p => (s!"{p.1.1}/{p.1.2.1}#{p.1.2.2}", showRes p.2)))
  let ch := sortBy (s.challenges.map (fun p => (s!"{p.1.1}/{p.1.2.1}#{p.1.2.2}", s!"{p.1.1}/{p.1.2.1}#{p.1.2.2}={p.2}")))
  let num := sortBy (s.taskNum.map (fun p => (p.1, s!"{p.1}={p.2}")))
  let pk := sortBy (s.pubkeys.map (fun p => (p.1, s!"{p.1}={p.2}")))
  let opt := sortBy (s.opted.map (fun p => (s!"{p.1.1}/{p.1.2}", s!"{p.1.1}/{p.1.2}={if p.2 then "in" else "out"}")))
  s!"AVS[{joinWith "|" avs}] NUM[{joinWith "|" num}] TASK[{joinWith "|" tasks}] RES[{joinWith "|" res}] CH[{joinWith "|" ch}] PK[{joinWith "|" pk}] OPT[{joinWith "|" opt}]"

def b (w : String) : Bool := w == "1"

def stepLine (s : State) (w : List String) : State × String :=
  match w with
  | ["avs.reset"] => (init, "ok")
  | ["avs.env", ops, assets] => step s (.setEnv (lst ops) (lst assets))
  | ["avs.epochs", e] => step s (.setEpochs (kvInt e))
  | ["avs.update", action, addr, name, taskAddr, owners, assets, unb, minSelf, epochId, caller] =>
    let p : AvsParams := { action := parseNat! action, avsAddr := str addr, name := str name, taskAddr := str taskAddr,
                           owners := optLst owners, assets := optLst assets, unbonding := parseInt! unb,
                           minSelf := parseNat! minSelf, epochId := str epochId, caller := str caller }
    let (s', r) := step s (.update p)
    (s', r ++ "|" ++ (match KV.find? s'.avss p.avsAddr with | some a => showAVS a | none => "-"))
  | ["avs.opt", direct, action, op, avs, usd] =>
    let (s', r) := step s (.opt (b direct) (parseNat! action) op avs (parseInt? usd))
    (s', r ++ "|" ++ optState s' op avs)
  | ["avs.task", taskAddr, caller, name, hash, resp, stat, chal, givenId, powerOk] =>
    let p : TaskParams := { taskAddr := str taskAddr, caller := str caller, name := str name, hash := str hash,
                            resp := parseInt! resp, stat := parseInt! stat, chal := parseInt! chal,
                            givenId := parseNat! givenId, powerOk := b powerOk }
    let (s', r) := step s (.task p)
    if r == "ok" then
      let id := (KV.find? s'.taskNum p.taskAddr).getD 0
      (s', r ++ "|" ++ (match KV.find? s'.tasks (p.taskAddr, id) with | some t => showTask t | none => "-"))
    else (s', r ++ "|-")
  | ["avs.bls", op, pk, regOk] => step s (.bls op (str pk) (b regOk))
  | ["avs.submit", frm, op, taskAddr, id, stage, sig, response, hash, respTaskId, blsOk, digest] =>
    let i : Submit := { fromAddr := frm, op := op, taskAddr := str taskAddr, id := parseNat! id, stage := str stage,
                        sig := optStr sig, response := optStr response, respHash := str hash,
                        respTaskId := parseNat? respTaskId, blsOk := b blsOk, digest := str digest }
    let (s', r) := step s (.submit i)
    (s', r ++ "|" ++ (match KV.find? s'.results (i.op, i.taskAddr, i.id) with | some x => showRes x | none => "-"))
  | ["avs.challenge", taskAddr, id, op, taskHash, abiOk, callerOk, caller] =>
    let c : Challenge := { taskAddr := str taskAddr, id := parseNat! id, op := op, taskHash := str taskHash,
                           abiHashOk := b abiOk, callerOk := b callerOk, caller := caller,
                           abiPanics := abiOk == "2" }
    let (s', r) := step s (.challenge c)
    (s', r ++ "|" ++ (if KV.has s'.challenges (c.op, c.taskAddr, c.id) then "1" else "0"))
  | ["avs.block", ends, avsPw, opPw, eps] =>
    -- one BeginBlock: AfterEpochEnd for every identifier whose epoch ended (in store order), then
    -- the new epoch numbers become visible to the transactions of the block
    let act : List ((Addr × String) × Int) := (kvInt opPw).filterMap (fun p =>
      match p.1.splitOn "/" with
      | [a, o] => some ((a, o), p.2)
      | _ => none)
    let pw : Powers := { avsTotal := kvInt avsPw, active := act }
    let endL : List (String × Int) := (lst ends).filterMap (fun e =>
      match e.splitOn ":" with
      | [id, n] => (parseInt? n).map (fun k => (id, k))
      | _ => none)
    let s' := endL.foldl (fun st e => (step st (.epochEnd e.1 e.2 pw)).1) s
    if s'.halted then (s', "HALT") else step s' (.setEpochs (kvInt eps))
  | ["avs.dump"] => (s, if s.halted then "HALT" else dump s)
  | "avs.note" :: _ => (s, "ok")
  | _ => (s, "bad-op")

def main : IO Unit := runDriver init stepLine

end ExoVerif.Driver.Avs
