import ExoVerif.Driver.Common
import ExoVerif.Model.NstBitmap
/- driver for the NST balance-bitmap correspondence (C11, domain `liveness_nstparse`):
     nstp.reset …                       → ok
     nstp.parse <nStakers> <hex|->      → len32 | empty | err:index | err:short | err:len0 | range | ok:<bal0>,<bal1>,… | panic
                                          (UpdateNSTByBalanceChange on a discarded branch, every staker at balance 32)
     nstp.route <nStakers> <hex|->      → halt=<bool>   (price stored while the list was empty, then re-parsed by EndBlock)
   every other line → `-` -/
namespace ExoVerif.Driver.NstBitmap
open ExoVerif ExoVerif.NstBitmap ExoVerif.Driver

def hexVal (c : Char) : Nat :=
  if '0' ≤ c ∧ c ≤ '9' then c.toNat - '0'.toNat
  else if 'a' ≤ c ∧ c ≤ 'f' then c.toNat - 'a'.toNat + 10
  else 0

def unhex : List Char → List Nat
  | a :: b :: rest => (hexVal a * 16 + hexVal b) :: unhex rest
  | _ => []

def parseHex (s : String) : List Nat := if s == "-" then [] else unhex s.toList

def showUpd : Upd → String
  | .len32 => "len32"
  | .empty => "empty"
  | .errIndex => "err:index"
  | .errShort => "err:short"
  | .errLen0 => "err:len0"
  | .range => "range"
  | .applied b => "ok:" ++ joinWith "," (b.map toString)
  | .panic => "panic"

def step (s : Unit) (w : List String) : Unit × String :=
  match w with
  | "nstp.reset" :: _ => (s, "ok")
  | ["nstp.parse", n, h] => (s, showUpd (updateCur .perChunk (parseHex h) (parseNat! n)))
  | ["nstp.route", n, h] => (s, s!"halt={endBlockHalts .perChunk (parseHex h) (parseNat! n)}")
  | _ => (s, "-")

def main : IO Unit := runDriver () step

end ExoVerif.Driver.NstBitmap
