import ExoVerif.Driver.Common
import ExoVerif.Model.EpochsOrder
/- driver for the C15 subscriber-order correspondence (harness domain `epochsorder`):
   `order.reset`, `order.subscribers`, `order.fanout <ev,ev,…>`, `order.cfg distrId mintId reward`,
   `order.epoch …` (= epoch.add), `order.bal fc distr`, `order.fee amt`, `order.block bt h`,
   `order.note …` -/
namespace ExoVerif.Driver.EpochsOrder
open ExoVerif.Epochs ExoVerif.Driver

structure St where
  es : List EpochInfo := []
  cfg : OrderCfg := { distrId := "", mintId := "", reward := 0 }
  pots : Pots := { feeCollector := 0, distr := 0 }

def showInfo (e : EpochInfo) : String :=
  s!"{e.identifier}={e.currentEpoch},{e.currentEpochStartTime},{if e.epochCountingStarted then 1 else 0},{e.currentEpochStartHeight}"

def showEv : Ev → String
  | .epochEnd id n => s!"E:{id}:{n}"
  | .epochStart id n => s!"S:{id}:{n}"

def showMove : Move → String
  | .sweep a => s!"D:{a}"
  | .mint a => s!"M:{a}"

def parseEv? (s : String) : Option Ev :=
  match s.splitOn ":" with
  | ["E", id, n] => (parseInt? n).map (Ev.epochEnd id)
  | ["S", id, n] => (parseInt? n).map (Ev.epochStart id)
  | _ => none

def step (s : St) (w : List String) : St × String :=
  match w with
  | ["order.reset"] => ({}, "ok")
  | "order.note" :: _ => (s, "ok")
  | ["order.subscribers"] => (s, joinWith "," (hookOrder.map subName))
  | ["order.fanout", evs] =>
    match (evs.splitOn ",").mapM parseEv? with
    | some evs => (s, joinWith "," ((fanOut evs).map (fun d => subName d.1 ++ "<" ++ showEv d.2)))
    | none => (s, "bad-op")
  | ["order.cfg", d, m, r] =>
    match parseInt? r with
    | some r => ({ s with cfg := { distrId := d, mintId := m, reward := r } }, "ok")
    | none => (s, "bad-op")
  | ["order.epoch", id, st, dur, cur, curSt, started, hgt] =>
    match parseInt? st, parseInt? dur, parseInt? cur, parseInt? curSt, parseInt? hgt with
    | some st, some dur, some cur, some curSt, some hgt =>
      let e : EpochInfo :=
        { identifier := id, startTime := st, duration := dur, currentEpoch := cur,
          currentEpochStartTime := curSt, epochCountingStarted := started == "1",
          currentEpochStartHeight := hgt }
      ({ s with es := s.es ++ [e] }, "ok")
    | _, _, _, _, _ => (s, "bad-op")
  | ["order.bal", fc, d] =>
    match parseInt? fc, parseInt? d with
    | some fc, some d => ({ s with pots := { feeCollector := fc, distr := d } }, "ok")
    | _, _ => (s, "bad-op")
  | ["order.fee", a] =>
    match parseInt? a with
    | some a => ({ s with pots := { s.pots with feeCollector := s.pots.feeCollector + a } }, "ok")
    | none => (s, "bad-op")
  | ["order.block", bt, h] =>
    match parseInt? bt, parseInt? h with
    | some bt, some h =>
      let (es', evs) := beginBlocker s.es bt h
      let (p', tr) := notifyAll s.cfg hookOrder s.pots evs
      let items := tr.flatMap (fun x => showEv x.1 :: x.2.map showMove)
      ({ s with es := es', pots := p' },
        joinWith ";" (es'.map showInfo) ++ "|" ++ joinWith "," items ++ "|" ++
          s!"{p'.feeCollector} {p'.distr}")
    | _, _ => (s, "bad-op")
  | _ => (s, "bad-op")

def main : IO Unit := runDriver ({} : St) step

end ExoVerif.Driver.EpochsOrder
