import ExoVerif.Driver.Common
import ExoVerif.Model.Atomic
import ExoVerif.Model.AtomicItems
/- driver for the C09 correspondence: for every failing call the harness names the entry point and the
   step (check / callee) that refused; the model answers whether a failure at that step can leave a
   trace (`dirty`) or not (`clean`), from the order of checks and writes alone.
   ops: `at.reset`, `at <entry> <step name…>`, `at.skip …` (unclassified failure, monitor only),
   `at.item <loop> <step name…>` (harness/dom_atomic_items.go: an item of a per-item loop of block processing failed at
   that step and a later item of the same block succeeded: `isolated` | `trace`, Model/AtomicItems.lean: itemVerdict) -/
namespace ExoVerif.Driver.Atomic
open ExoVerif.Atomic ExoVerif.Driver

def step (u : Unit) (w : List String) : Unit × String :=
  match w with
  | ["at.reset"] => (u, "ok")
  | "at.skip" :: _ => (u, "skip")
  | "at.item" :: loop :: rest => (u, Items.itemVerdict loop (joinWith " " rest))
  | "at" :: entry :: rest =>
    match lookup entry with
    | none => (u, "unknown-entry")
    | some p =>
      match dirtyAt p (joinWith " " rest) false false 0 with
      | none => (u, "unknown-step")
      | some true => (u, "dirty")
      | some false => (u, "clean")
  | _ => (u, "bad-op")

def main : IO Unit := runDriver () step

end ExoVerif.Driver.Atomic
