import ExoVerif.Driver.Common
import ExoVerif.Model.Auth
import ExoVerif.Model.AuthMsgs
import ExoVerif.Model.AuthOwners
/- driver for the C10 correspondence. The harness abstracts every real request into the facts the
   decision functions read (computed from the real state and the real transaction):
   `auth <entry> g a o p v <sig> eq m au x`
     g  caller address = configured gateway        a  caller address is a registered AVS
     o  arg0 ∈ stored owners of the caller-AVS (BLS: operator already has a key)
     p  arg0 is a registered operator              v  arg0 has a validator entry in x/oracle
     sig valid|forged|nopub                        eq arg0 (from-field) = signer/origin
     m  chain id is a mainnet id                   au arg0 = keeper authority
     x  registerAVS: arg0 ∈ owner-list argument; BLS: proof of possession verifies
   answer: accept | reject -/
namespace ExoVerif.Driver.Auth
open ExoVerif.Auth ExoVerif.Driver

def b (s : String) : Bool := s == "1"

def decide' (entry : String) (g a o p v : Bool) (sig : SigStatus) (eq m au x : Bool) : Option Bool :=
  let arg0 : Addr := 10
  let caller : Addr := if g then 1 else 2
  let st : AuthState :=
    { gateway := 1, avsOwners := fun c => if c = caller && o then [arg0] else [],
      isAVS := fun c => c == caller && a, isOperator := fun c => c == arg0 && p,
      isValidator := fun c => c == arg0 && v, authority := if au then arg0 else 99, mainnet := m }
  let r : Request := { callerAddress := caller, origin := if eq then arg0 else 11, arg0 := arg0, sig := sig }
  match entry with
  | "gateway" => some (admitGateway st r)
  | "registerAVS" => some (admitRegisterAVS st r (if x then [arg0] else []))
  | "manageAVS" => some (admitManageAVS st r)
  | "avsOpt" => some (admitAvsOpt st r)
  | "registerBLS" => some (admitRegisterBLS st r x o)
  | "sdkMsg" => some (admitSdkMsg r)
  | "oraclePrice" => some (admitOraclePrice st r)
  | "updateParams" => some (admitUpdateParams st r)
  | _ => none

def exStateD : AuthState :=
  { gateway := 1, avsOwners := (fun _ => []), isAVS := (fun _ => true), isOperator := (fun _ => true),
    isValidator := (fun _ => false), authority := 99, mainnet := true }

/-- task result: ph 1|2|x; eq = from-field = signer; same = from-field = Info.OperatorAddress;
    isOp = Info.OperatorAddress is a registered operator; ok = payload otherwise admissible in its phase -/
def taskDecide (ph sig : String) (eq same isOp ok : Bool) : String :=
  let subject : Addr := if same then 10 else 20
  let st : AuthState :=
    { gateway := 1, avsOwners := fun _ => [], isAVS := fun _ => false,
      isOperator := fun c => c == subject && isOp,
      isValidator := fun _ => false, authority := 99, mainnet := true }
  let phase : Phase := if ph == "1" then .one else if ph == "2" then .two else .other
  let mk (sg : SigStatus) : String :=
    let r : Request :=
      { callerAddress := 0, origin := if eq then 10 else 11, arg0 := 10, sig := sg, subject := subject, phase := phase }
    if admitTaskResult st r ok then "accept" else "reject"
  if sig == "valid" then mk .valid else if sig == "forged" then mk .forged else if sig == "nopub" then mk .noPubKey else "bad-op"

/-- `auth.oracleTx (v sig)*`: one pair per signer of a create-price tx, in slot order — v = the creator
    has a validator entry in x/oracle, sig = valid|forged|nopub (status of that signer's slot) -/
def oracleTxPairs : List String → Option (List (Bool × SigStatus))
  | [] => some []
  | v :: sig :: rest =>
    let sg := match sig with | "valid" => some SigStatus.valid | "forged" => some .forged | "nopub" => some .noPubKey | _ => none
    match sg, oracleTxPairs rest with
    | some sg, some ps => some ((b v, sg) :: ps)
    | _, _ => none
  | _ => none

def oracleTxDecide (ps : List (Bool × SigStatus)) : String :=
  let idx := List.range ps.length
  let rs : List Request := (ps.zip idx).map (fun (p, i) => { callerAddress := 0, origin := 10 + i, arg0 := 10 + i, sig := p.2 })
  let vals : List Addr := ((ps.zip idx).filter (fun (p, _) => p.1)).map (fun (_, i) => 10 + i)
  let st : AuthState :=
    { gateway := 1, avsOwners := fun _ => [], isAVS := fun _ => false, isOperator := fun _ => false,
      isValidator := fun c => vals.contains c, authority := 99, mainnet := true }
  if admitOraclePriceTx st rs then "accept" else "reject"

/-- operator message (harness/dom_auth_opmsg.go): kind, signature status, eq = from-field = signer,
    pe / pa = Info.EarningsAddr / Info.ApproveAddr equal the signer, ok = the handler's own conditions hold;
    answer: `accept:<owners of the records written>` | `reject` -/
def opMsgDecide (kind sig : String) (eq pe pa ok : Bool) : String :=
  let m : Option OpMsg := match kind with
    | "RegisterOperator" => some .registerOperator | "OptIntoAVS" => some .optIntoAVS
    | "OptOutOfAVS" => some .optOutOfAVS | "SetConsKey" => some .setConsKey | _ => none
  let sg : Option SigStatus := match sig with
    | "valid" => some .valid | "forged" => some .forged | "nopub" => some .noPubKey | _ => none
  match m, sg with
  | some m, some sg =>
    let r : Request := { callerAddress := 0, origin := if eq then 10 else 11, arg0 := 10, sig := sg }
    let p : OpPayload := { earnings := if pe then 10 else 12, approve := if pa then 10 else 13 }
    if admitOpMsg r ok then
      let name (a : Addr) : String :=
        if a == r.origin then "signer" else if a == p.earnings then "earnings"
        else if a == p.approve then "approve" else "other"
      "accept:" ++ joinWith "," ((opMsgRecordKeys m r p).map name)
    else "reject"
  | _, _ => "bad-op"

/-- every registered sdk.Msg type as an outsider's signed tx (harness/dom_auth_allmsgs.go):
    `auth.msg <url> <routed> <sig> <eq> <m> <au> <v> <same> <isOp> <h>` — routed = the MsgServiceRouter has a handler;
    eq = sender field = the account whose key signed; au = sender field = keeper authority; v = the signing key has a
    validator entry in x/oracle; same / isOp = the payload's operator_address field equals the sender field / is a
    registered operator; h = the handler's own conditions on the payload held (taken from the real outcome: the model
    decides the identity part). The class comes from the model's own table: an unknown url or a different routed flag
    is a difference. Answer: `reject` | `accept:<owners of the records written>` -/
def msgDecide (url : String) (routed : Bool) (sig : String) (eq m au v same isOp h : Bool) : String :=
  match classOf url with
  | none => "unknown-msg-type"
  | some cls =>
    if cls.routed != routed then "route-mismatch" else
    let sg : Option SigStatus := match sig with
      | "valid" => some .valid | "forged" => some .forged | "nopub" => some .noPubKey | _ => none
    match sg with
    | none => "bad-op"
    | some sg =>
      let subject : Addr := if same then 10 else 20
      let st : AuthState :=
        { gateway := 1, avsOwners := fun _ => [], isAVS := fun _ => false,
          isOperator := fun c => c == subject && isOp, isValidator := fun c => c == 10 && v,
          authority := if au then 10 else 99, mainnet := m }
      let r : Request :=
        { callerAddress := 0, origin := if eq then 10 else 11, arg0 := 10, sig := sg, subject := subject, phase := .one }
      if admitMsg cls st r h then
        "accept:" ++ joinWith "," ((msgRecordOwners cls r).map (fun a => if a == r.origin then "signer" else "other"))
      else "reject"

/-- owner lists (harness/dom_auth_ownerlists.go): `auth.own <register|update|deregister|createTask> <avs> <sender> <ok> <n> <owner>*` —
    the AVS contract `avs` calls with sender argument `sender` (indices), ok = the payload conditions besides the identity
    hold, owners = the owner list of the payload; answer `accept|reject o=<stored list of the AVS afterwards | ->` -/
def ownStep (s : AuthOwners.Owners) (op : String) (avs sender : Nat) (ok : Bool) (owners : List Nat) : AuthOwners.Owners × String :=
  let o : Option AuthOwners.Op := match op with
    | "register" => some (.register avs sender owners) | "update" => some (.update avs sender owners)
    | "deregister" => some (.deregister avs sender) | "createTask" => some (.createTask avs sender) | _ => none
  match o with
  | none => (s, "bad-op")
  | some o =>
    let s' := AuthOwners.step s o ok
    let l := match AuthOwners.lookup s' avs with
      | none => "-"
      | some l => "[" ++ joinWith "," (l.map toString) ++ "]"
    (s', (if AuthOwners.admitOwn s o ok then "accept" else "reject") ++ " o=" ++ l)

def step (u : AuthOwners.Owners) (w : List String) : AuthOwners.Owners × String :=
  match w with
  | ["auth.reset"] => ([], "ok")
  | "auth.own" :: op :: avs :: sender :: ok :: n :: owners =>
    if parseNat! n != owners.length then (u, "bad-op") else ownStep u op (parseNat! avs) (parseNat! sender) (b ok) (owners.map parseNat!)
  | "auth.oracleTx" :: rest =>
    match oracleTxPairs rest with
    | some ps => (u, oracleTxDecide ps)
    | none => (u, "bad-op")

  | ["auth.msg", url, routed, sig, eq, m, au, v, same, isOp, h] =>
    (u, msgDecide url (b routed) sig (b eq) (b m) (b au) (b v) (b same) (b isOp) (b h))
  | ["auth.msg.foreign", url, _] =>
    -- a message of a module that holds no store key of an exocore module: it cannot write there
    (u, if url.startsWith "/exocore." then "exocore-type-classified-foreign" else "untouched")
  | ["auth.msg.exempt", url, _] => (u, if url.startsWith "/exocore." then "exocore-type-without-sender-field" else "ok")
  | ["auth.msg.count"] => (u, toString msgTable.length)
  | ["auth.opmsg", kind, sig, eq, pe, pa, ok] => (u, opMsgDecide kind sig (b eq) (b pe) (b pa) (b ok))
  | "auth.note" :: _ => (u, "ok")
  | ["auth.task", ph, sig, eq, same, isOp, ok] => (u, taskDecide ph sig (b eq) (b same) (b isOp) (b ok))
  | ["auth.challenge", ok] => (u, if admitChallenge exStateD { callerAddress := 50, origin := 50, arg0 := 61, sig := .valid } (b ok) then "accept" else "reject")
  | ["auth", entry, g, a, o, p, v, sig, eq, m, au, x] =>
    let sg := match sig with | "valid" => some SigStatus.valid | "forged" => some .forged | "nopub" => some .noPubKey | _ => none
    match sg with
    | none => (u, "bad-op")
    | some sg =>
      match decide' entry (b g) (b a) (b o) (b p) (b v) sg (b eq) (b m) (b au) (b x) with
      | some true => (u, "accept")
      | some false => (u, "reject")
      | none => (u, "unknown-entry")
  | _ => (u, "bad-op")

def main : IO Unit := runDriver ([] : AuthOwners.Owners) step

end ExoVerif.Driver.Auth
