import ExoVerif.Driver.Common
import ExoVerif.Model.ValSet
import ExoVerif.Model.ConsKeys
/- driver for the C06 correspondence: ops `vs.reset`, `vs.init total k:p,…`, `vs.epoch maxVals op:key:power:rev,…`, `vs.block`,
   and the key operations of the domain, replayed one step at a time on the observed pre-state with the registry model
   (`vs.setkey` / `vs.optin op key registered optedIn jailed|selfOK removing cur prev rev(key) rev(cur)`): outcome, the
   operator's key afterwards, who the new and the old key resolve to, whether the old key was queued for pruning -/
namespace ExoVerif.Driver.ValSet
open ExoVerif.ValSet ExoVerif.Driver

def parseList (s : String) : List (List String) :=
  if s == "-" then [] else (s.splitOn ",").map (fun t => t.splitOn ":")

def parseVals (s : String) : VSet :=
  (parseList s).filterMap (fun f => match f with
    | [k, p] => some (parseNat! k, parseInt! p)
    | _ => none)

def parseCands (s : String) : List Cand :=
  (parseList s).filterMap (fun f => match f with
    | [o, k, p, r] => some ⟨parseNat! o, parseNat! k, parseInt! p, r == "1"⟩
    | _ => none)

def showUpds (l : List Upd) : String := joinWith "," (l.map (fun u => s!"{u.key}:{u.power}"))

def showVals (vs : VSet) : String :=
  joinWith "," ((ExoVerif.VMap.isort (fun (a b : Nat × Int) => decide (a.1 ≤ b.1)) vs).map (fun p => s!"{p.1}:{p.2}"))

def showState (s : DState) (ups : List Upd) : String :=
  s!"U={showUpds ups}|S={showUpds s.valUpdates}|V={showVals s.vals}|T={s.lastTotalPower}"

def optNat (t : String) : Option Nat := if t == "-" then none else some (parseNat! t)
def showOpt (o : Option Nat) : String := match o with | some k => toString k | none => "-"

def showOut : ExoVerif.ConsKeys.Out → String
  | .ok => "ok" | .errNotOperator => "ErrOperatorNotExist" | .errAlreadyOptedIn => "ErrAlreadyOptedIn"
  | .errMinDelegation => "ErrMinDelegationNotMet" | .errAlreadyRemovingKey => "ErrAlreadyRemovingKey"
  | .errConsKeyInUse => "ErrConsKeyAlreadyInUse" | .errNotOptedIn => "ErrNotOptedIn" | .panic => "panic"

/-- the slice of the registry one key operation of `op` with `key` reads, around the validator set `d` -/
def keySt (d : DState) (op key : Nat) (reg inn jl rm : Bool) (cur prev rk rc : Option Nat) : ExoVerif.ConsKeys.St :=
  let s0 := ExoVerif.ConsKeys.St.init 64 64 0 0
  let rev0 : Nat → Option Nat := match cur with
    | some c => ExoVerif.ConsKeys.upd s0.rev c rc
    | none => s0.rev
  { s0 with registered := ExoVerif.ConsKeys.upd s0.registered op reg,
            hasInfo := ExoVerif.ConsKeys.upd s0.hasInfo op (inn || jl),
            optedIn := ExoVerif.ConsKeys.upd s0.optedIn op inn,
            jailed := ExoVerif.ConsKeys.upd s0.jailed op jl,
            removing := ExoVerif.ConsKeys.upd s0.removing op rm,
            fwd := ExoVerif.ConsKeys.upd s0.fwd op cur, fwd2 := ExoVerif.ConsKeys.upd s0.fwd2 op cur,
            prevKey := ExoVerif.ConsKeys.upd s0.prevKey op prev,
            rev := ExoVerif.ConsKeys.upd rev0 key rk,
            vs := d }

def showKeyOp (r : ExoVerif.ConsKeys.Out × ExoVerif.ConsKeys.St) (op key : Nat) (cur : Option Nat) : String :=
  let s' := r.2
  let ro := match cur with | some c => showOpt (s'.rev c) | none => "-"
  let q := match cur with
    | some c => if (s'.addrsToPrune (ExoVerif.ConsKeys.completionEpoch s')).contains c then "1" else "0"
    | none => "0"
  s!"{showOut r.1}|{showOpt (s'.fwd op)}|{showOpt (s'.rev key)}|{ro}|{q}"

def step (s : DState) (w : List String) : DState × String :=
  match w with
  | ["vs.setkey", op, key, reg, inn, jl, rm, cur, prev, rk, rc] =>
    let op := parseNat! op; let key := parseNat! key
    let st := keySt s op key (reg == "1") (inn == "1") (jl == "1") (rm == "1") (optNat cur) (optNat prev) (optNat rk) (optNat rc)
    (s, showKeyOp (ExoVerif.ConsKeys.setKey st op key) op key (optNat cur))
  | ["vs.optin", op, key, reg, inn, ok, rm, cur, prev, rk, rc] =>
    let op := parseNat! op; let key := parseNat! key
    let st := keySt s op key (reg == "1") (inn == "1") false (rm == "1") (optNat cur) (optNat prev) (optNat rk) (optNat rc)
    (s, showKeyOp (ExoVerif.ConsKeys.optIn st op key (ok == "1")) op key (optNat cur))
  | ["vs.reset"] => ({ vals := [], lastTotalPower := 0, valUpdates := [] }, "ok")
  | ["vs.init", t, vals] => ({ vals := parseVals vals, lastTotalPower := parseInt! t, valUpdates := [] }, "ok")
  | ["vs.epoch", m, cands] =>
    let (s', ups) := endBlockEpoch s (parseCands cands) (parseNat! m)
    (s', showState s' ups)
  | ["vs.block"] =>
    let (s', ups) := endBlockOther s
    (s', showState s' ups)
  | _ => (s, "bad-op")

def main : IO Unit := runDriver ({ vals := [], lastTotalPower := 0, valUpdates := [] } : DState) step

end ExoVerif.Driver.ValSet
