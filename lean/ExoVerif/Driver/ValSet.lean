import ExoVerif.Driver.Common
import ExoVerif.Model.ValSet
/- driver for the C06 correspondence: ops `vs.reset`, `vs.init total k:p,…`, `vs.epoch maxVals op:key:power:rev,…`, `vs.block` -/
namespace ExoVerif.Driver.ValSet
open ExoVerif.ValSet ExoVerif.Driver

def parseList (s : String) : List (List String) :=
  if s == "-" then [] else (s.splitOn ",").map (fun t => t.splitOn ":")

def parseVals (s : String) : VSet :=
  (parseList s).filterMap (fun f => match f with
    | [k, p] => some (parseNat! k, parseInt! p)
    | _ => none)

def parseCands (s : String) : List Cand :=
  (parseList s).filterMap (fun f => match f with
    | [o, k, p, r] => some ⟨parseNat! o, parseNat! k, parseInt! p, r == "1"⟩
    | _ => none)

def showUpds (l : List Upd) : String := joinWith "," (l.map (fun u => s!"{u.key}:{u.power}"))

def showVals (vs : VSet) : String :=
  joinWith "," ((ExoVerif.VMap.isort (fun (a b : Nat × Int) => decide (a.1 ≤ b.1)) vs).map (fun p => s!"{p.1}:{p.2}"))

def showState (s : DState) (ups : List Upd) : String :=
  s!"U={showUpds ups}|S={showUpds s.valUpdates}|V={showVals s.vals}|T={s.lastTotalPower}"

def step (s : DState) (w : List String) : DState × String :=
  match w with
  | ["vs.reset"] => ({ vals := [], lastTotalPower := 0, valUpdates := [] }, "ok")
  | ["vs.init", t, vals] => ({ vals := parseVals vals, lastTotalPower := parseInt! t, valUpdates := [] }, "ok")
  | ["vs.epoch", m, cands] =>
    let (s', ups) := endBlockEpoch s (parseCands cands) (parseNat! m)
    (s', showState s' ups)
  | ["vs.block"] =>
    let (s', ups) := endBlockOther s
    (s', showState s' ups)
  | _ => (s, "bad-op")

def main : IO Unit := runDriver ({ vals := [], lastTotalPower := 0, valUpdates := [] } : DState) step

end ExoVerif.Driver.ValSet
