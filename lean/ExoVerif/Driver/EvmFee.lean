import ExoVerif.Driver.Common
import ExoVerif.Model.EvmFee
import ExoVerif.Model.EvmBatch
/- driver for the C19 correspondence.
   ops:  evm.reset
         evm.env <baseFee> <blockGasLimit> <minGasMultRaw> <minGasPriceRaw> <collector>   (new block: block gas meter = 0)
         evm.set <id> <balance> <nonce>
         evm.tx <ty> <sender> <recipient> <nonce> <gasLimit> <feeCap> <tipCap> <value> <sigOk> <intrinsic> <evmGasUsed> <failed> <rejGas>
         evm.batch <rejGas> <k> then k x (<ty> <sender> <recipient> <nonce> <gasLimit> <feeCap> <tipCap> <value> <sigOk> <intrinsic>
                   <evmGasUsed> <failed> <isCreate>)        one cosmos tx carrying k MsgEthereumTx (Model/EvmBatch.lean)
   obs of evm.tx:  <outcome> g=<gas> n=<nonce of sender> b=<balances of all known ids in order of first `evm.set`>
   obs of evm.batch: <outcome> rg=<gas figure of the tx> g=<gas per message> f=<failed per message> n=<nonces of the senders, in order of first appearance> b=<balances> -/
namespace ExoVerif.Driver.EvmFee
open ExoVerif ExoVerif.EvmFee ExoVerif.Driver

structure DS where
  env : Env
  st : St
  ids : List Nat

def init : DS :=
  { env := { baseFee := 0, blockGasLimit := -1, minGasMult := ⟨0⟩, minGasPrice := ⟨0⟩, collector := 0 },
    st := { bal := fun _ => 0, nonce := fun _ => 0, blockGas := 0 }, ids := [] }

def showOutcome : Outcome → String
  | .rejected => "rej"
  | .applyErr => "apperr"
  | .blockGas => "blockgas"
  | .executed false => "ok"
  | .executed true => "vmfail"

def parseMsgs : List String → List Msg
  | ty :: s :: r :: n :: gl :: fc :: tc :: v :: sg :: intr :: eg :: fl :: cr :: rest =>
    { t := { ty := parseNat! ty, sender := parseNat! s, recipient := parseNat! r, nonce := parseInt! n,
             gasLimit := parseInt! gl, feeCap := parseInt! fc, tipCap := parseInt! tc, value := parseInt! v,
             sigOk := sg == "1", intrinsic := parseInt! intr },
      x := { evmGasUsed := parseInt! eg, failed := fl == "1" }, isCreate := cr == "1" } :: parseMsgs rest
  | _ => []

def showBatchOutcome : BatchOutcome → String
  | .rejected => "rej"
  | .applyErr => "apperr"
  | .blockGas => "blockgas"
  | .executed _ => "ok"

def batchFlags : BatchOutcome → List Bool
  | .executed l => l
  | _ => []

def step (d : DS) (w : List String) : DS × String :=
  match w with
  | ["evm.reset"] => (init, "ok")
  | ["evm.env", bf, bl, mm, mp, c] =>
    ({ d with env := { baseFee := parseInt! bf, blockGasLimit := parseInt! bl, minGasMult := ⟨parseInt! mm⟩,
                       minGasPrice := ⟨parseInt! mp⟩, collector := parseNat! c },
              st := { d.st with blockGas := 0 } }, "ok")
  | ["evm.set", id, b, n] =>
    let i := parseNat! id
    let bv := parseInt! b
    let nv := parseInt! n
    let ob := d.st.bal
    let on := d.st.nonce
    ({ d with st := { d.st with bal := fun a => if a = i then bv else ob a, nonce := fun a => if a = i then nv else on a },
              ids := if d.ids.contains i then d.ids else d.ids ++ [i] }, "ok")
  | ["evm.tx", ty, s, r, n, gl, fc, tc, v, sg, intr, eg, fl, rg] =>
    let t : Tx := { ty := parseNat! ty, sender := parseNat! s, recipient := parseNat! r, nonce := parseInt! n,
                    gasLimit := parseInt! gl, feeCap := parseInt! fc, tipCap := parseInt! tc, value := parseInt! v,
                    sigOk := sg == "1", intrinsic := parseInt! intr }
    let x : Exec := { evmGasUsed := parseInt! eg, failed := fl == "1", rejGas := parseInt! rg }
    let res := deliver d.env d.st t x
    let st' := res.1
    -- materialise the balances so that closures do not grow with the history
    let bs := d.ids.map (fun i => (i, st'.bal i, st'.nonce i))
    let st'' : St := { bal := fun a => ((bs.find? (fun p => p.1 == a)).map (fun p => p.2.1)).getD 0,
                       nonce := fun a => ((bs.find? (fun p => p.1 == a)).map (fun p => p.2.2)).getD 0,
                       blockGas := st'.blockGas }
    ({ d with st := st'' },
      s!"{showOutcome res.2.1} g={res.2.2} n={st'.nonce t.sender} b=" ++ joinWith "," (d.ids.map (fun i => toString (st'.bal i))))
  | "evm.batch" :: rg :: k :: rest =>
    let ms := parseMsgs rest
    if ms.length != parseNat! k then (d, "bad-op") else
    let res := deliverBatch d.env d.st ms (parseInt! rg)
    let st' := res.1
    let bs := d.ids.map (fun i => (i, st'.bal i, st'.nonce i))
    let st'' : St := { bal := fun a => ((bs.find? (fun p => p.1 == a)).map (fun p => p.2.1)).getD 0,
                       nonce := fun a => ((bs.find? (fun p => p.1 == a)).map (fun p => p.2.2)).getD 0,
                       blockGas := st'.blockGas }
    ({ d with st := st'' },
      s!"{showBatchOutcome res.2.1} rg={res.2.2.2} g=" ++ joinWith ";" (res.2.2.1.map toString) ++
      " f=" ++ joinWith ";" ((batchFlags res.2.1).map (fun b => if b then "1" else "0")) ++
      " n=" ++ joinWith "," ((ms.map (fun m => m.t.sender)).eraseDups.map (fun i => toString (st'.nonce i))) ++
      " b=" ++ joinWith "," (bs.map (fun p => toString p.2.1)))
  | _ => (d, "bad-op")

def main : IO Unit := runDriver init step

end ExoVerif.Driver.EvmFee
