import ExoVerif.Driver.Ledger
import ExoVerif.Model.NstGlue
/- driver for the native-restaking glue correspondence (C01, domain `nstglue`): ops `nst.*`, observation =
   `ok|rej` + the ledger dump + the oracle's per-staker records and staker list. -/
namespace ExoVerif.Driver.NstGlue
open ExoVerif ExoVerif.Ledger ExoVerif.NstGlue ExoVerif.Driver ExoVerif.KV

def dumpG (g : G) : String :=
  ExoVerif.Driver.Ledger.dump g.led ++ " " ++
  ExoVerif.Driver.Ledger.section_ "N" (g.recs.map fun e => s!"{e.1}={e.2.bal}:{joinWith "," e.2.vals}") ++
  " NL=[" ++ joinWith "," g.list ++ "]"

def emptyG : G := { led := ExoVerif.Driver.Ledger.empty, asset := "", dec := 0, chain := "", recs := [], list := [] }

def resultG (g : G) (r : Except String G) : G × String :=
  match r with
  | .ok g' => (g', "ok " ++ dumpG g')
  | .error _ => (g, "rej " ++ dumpG g)

/-- `i:c,i:c` or `-` -/
def parseChanges (s : String) : List (Nat × Int) :=
  if s == "-" then [] else
  (s.splitOn ",").filterMap fun p =>
    match p.splitOn ":" with
    | [i, c] => some (parseNat! i, parseInt! c)
    | _ => none

def setupOps : List String := ["nst.asset", "nst.staker", "nst.pool", "nst.deleg", "nst.slist", "nst.assoc", "nst.escrow", "nst.operator", "nst.bal"]

def step (g : G) (w : List String) : G × String :=
  match w with
  | ["nst.reset", h, ub, a, d] =>
    ({ emptyG with led := { ExoVerif.Driver.Ledger.empty with height := parseNat! h, unbonding := parseNat! ub },
                   asset := a, dec := parseNat! d }, "ok")
  | ["nst.chain", c] => ({ g with chain := c, led := { g.led with clientChains := g.led.clientChains ++ [c] } }, "ok")
  | ["nst.dump"] => (g, "ok " ++ dumpG g)
  | ["nst.endblock"] => let g' := { g with led := nextBlock (endBlock g.led) }; (g', "ok " ++ dumpG g')
  | ["nst.deposit", addr, pk, x] => resultG g (depositNST g addr pk (parseInt! x))
  | ["nst.withdraw", addr, pk, x] => resultG g (withdrawNST g addr pk (parseInt! x))
  | ["nst.round", _, ch] => resultG g (round g (parseChanges ch))
  | op :: args =>
    if setupOps.contains op then
      let (l', o) := ExoVerif.Driver.Ledger.step g.led (("ledger." ++ op.drop 4) :: args)
      ({ g with led := l' }, o)
    else (g, "bad-op")
  | _ => (g, "bad-op")

def main : IO Unit := runDriver emptyG step

end ExoVerif.Driver.NstGlue
