import ExoVerif.Driver.Common
import ExoVerif.Model.VotingPower
/- driver for the C05 correspondence.
   ops:  vp.reset | vp.note … | vp.avs <addr> <epochId> <startingEpoch>
         vp.entry <avs> <op> <self> <total> <active> | vp.avsval <avs> <val>
         vp.optin <avs> <op> | vp.optout <avs> <op>
         vp.block <nEv> {<id> <n>}* <nAvs> { <avs> <assetsOk> <nCfg|-1> {<asset> <price> <pdec> <adec>}*
                  <minSelf|x> <nOps> { <op> <nAssets> {<asset> <amount> <totalShare> <operatorShare>}* }* }*
-/
namespace ExoVerif.Driver.VotingPower
open ExoVerif ExoVerif.VP ExoVerif.KV ExoVerif.Driver

structure DS where
  regs : List AvsReg
  st : St
deriving Inhabited

def init : DS := { regs := [], st := { entries := [], avsVal := [] } }

def insertBy (x : String × String) : List (String × String) → List (String × String)
  | [] => [x]
  | y :: rest => if x.1 < y.1 then x :: y :: rest else y :: insertBy x rest

def sortShow (xs : List (String × String)) : String :=
  joinWith ";" ((xs.foldl (fun acc x => insertBy x acc) []).map (fun x => x.1 ++ "=" ++ x.2))

def showSt (s : St) : String :=
  let es := s.entries.flatMap (fun (avs, l) => l.map (fun (op, o) => (avs ++ "/" ++ op, s!"{o.self},{o.total},{o.active}")))
  let vs := s.avsVal.map (fun (avs, v) => (avs, toString v))
  sortShow es ++ "|" ++ sortShow vs

def parseEvs : Nat → List String → Option (List (String × Int) × List String)
  | 0, w => some ([], w)
  | n + 1, id :: k :: rest =>
    match parseInt? k, parseEvs n rest with
    | some k, some (l, r) => some ((id, k) :: l, r)
    | _, _ => none
  | _, _ => none

def parseCfgs : Nat → List String → Option (List (String × AssetCfg) × List String)
  | 0, w => some ([], w)
  | n + 1, a :: p :: pd :: ad :: rest =>
    match parseInt? p, parseInt? pd, parseInt? ad, parseCfgs n rest with
    | some p, some pd, some ad, some (l, r) => some ((a, { price := p, priceDec := pd, decimals := ad }) :: l, r)
    | _, _, _, _ => none
  | _, _ => none

def parseAssets : Nat → List String → Option (List (String × AssetState) × List String)
  | 0, w => some ([], w)
  | n + 1, a :: amt :: ts :: os :: rest =>
    match parseInt? amt, parseInt? ts, parseInt? os, parseAssets n rest with
    | some amt, some ts, some os, some (l, r) =>
      some ((a, { totalAmount := amt, totalShare := ts, operatorShare := os }) :: l, r)
    | _, _, _, _ => none
  | _, _ => none

def parseOps : Nat → List String → Option (List (String × List (String × AssetState)) × List String)
  | 0, w => some ([], w)
  | n + 1, op :: na :: rest =>
    match parseNat? na with
    | some na =>
      match parseAssets na rest with
      | some (as, r) =>
        match parseOps n r with
        | some (l, r') => some ((op, as) :: l, r')
        | none => none
      | none => none
    | none => none
  | _, _ => none

def parseAvsIns : Nat → List String → Option (List (String × AvsIn))
  | 0, [] => some []
  | 0, _ => none
  | n + 1, avs :: ok :: ncfg :: rest =>
    let cfgsR : Option (Option (List (String × AssetCfg)) × List String) :=
      if ncfg == "-1" then some (none, rest)
      else match parseNat? ncfg with
        | some k => match parseCfgs k rest with
          | some (l, r) => some (some l, r)
          | none => none
        | none => none
    match cfgsR with
    | some (cfgs, ms :: nops :: r) =>
      let minSelf : Option Int := if ms == "x" then none else parseInt? ms
      match parseNat? nops with
      | some nops =>
        match parseOps nops r with
        | some (ops, r') =>
          match parseAvsIns n r' with
          | some l => some ((avs, { assetsOk := ok == "1", cfgs := cfgs, minSelf := minSelf, opAssets := ops }) :: l)
          | none => none
        | none => none
      | none => none
    | _ => none
  | _, _ => none

def step (d : DS) (w : List String) : DS × String :=
  match w with
  | ["vp.reset"] => (init, "ok")
  | "vp.note" :: _ => (d, "ok")
  | ["vp.avs", addr, eid, se] =>
    match parseInt? se with
    | some se => ({ d with regs := (d.regs.filter (fun r => r.addr != addr)) ++ [{ addr := addr, epochId := eid, startingEpoch := se }] }, "ok")
    | none => (d, "bad-op")
  | ["vp.entry", avs, op, a, b, c] =>
    match parseInt? a, parseInt? b, parseInt? c with
    | some a, some b, some c =>
      let es := getD d.st.entries avs []
      ({ d with st := { d.st with entries := set d.st.entries avs (set es op { self := a, total := b, active := c }) } }, "ok")
    | _, _, _ => (d, "bad-op")
  | ["vp.avsval", avs, v] =>
    match parseInt? v with
    | some v => ({ d with st := { d.st with avsVal := set d.st.avsVal avs v } }, "ok")
    | none => (d, "bad-op")
  | ["vp.optin", avs, op] => ({ d with st := optIn d.st avs op }, "ok")
  | ["vp.optout", avs, op] => ({ d with st := optOut d.st avs op }, "ok")
  | "vp.block" :: nev :: rest =>
    match parseNat? nev with
    | some nev =>
      match parseEvs nev rest with
      | some (evs, navs :: r) =>
        match parseNat? navs with
        | some navs =>
          match parseAvsIns navs r with
          | some ins =>
            let st' := evs.foldl (fun s (id, n) => epochEnd d.regs ins s id n) d.st
            ({ d with st := st' }, showSt st')
          | none => (d, "bad-op")
        | none => (d, "bad-op")
      | _ => (d, "bad-op")
    | none => (d, "bad-op")
  | _ => (d, "bad-op")

def main : IO Unit := runDriver init step

end ExoVerif.Driver.VotingPower
