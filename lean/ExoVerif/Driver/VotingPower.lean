import ExoVerif.Driver.Common
import ExoVerif.Model.VotingPower
import ExoVerif.Model.VPOracle
/- driver for the C05 correspondence.
   ops:  vp.reset | vp.note … | vp.avs <addr> <epochId> <startingEpoch>
         vp.entry <avs> <op> <self> <total> <active> | vp.avsval <avs> <val>
         vp.optin <avs> <op> | vp.optout <avs> <op>
         vp.read <avs> <op> <none|out|in> <jailed 0|1>   → self,total,active | ErrNoKeyInTheStore
         vp.oracle <nTokens> { <Token.AssetID | -> <latest price | - (no round) | x (not an integer)> <decimal> }*
                  the oracle's token table (position = token id) and latest rounds as committed before the block
         vp.block <nEv> {<id> <n>}* <nAvs> { <avs> <assetsOk> <nAssets|-1> {<asset> <adec>}*
                  <minSelf|x> <nOps> { <op> <nAssets> {<asset> <amount> <totalShare> <operatorShare>}* }* }*
                  the prices are resolved by the model (Model/VPOracle.lean) from the last vp.oracle
-/
namespace ExoVerif.Driver.VotingPower
open ExoVerif ExoVerif.VP ExoVerif.KV ExoVerif.Driver

structure DS where
  regs : List AvsReg
  st : St
  orc : OracleSt
deriving Inhabited

def init : DS := { regs := [], st := { entries := [], avsVal := [] }, orc := { toks := [] } }

def parseToks : Nat → List String → Option (List (String × Option Round))
  | 0, [] => some []
  | 0, _ => none
  | n + 1, ids :: p :: dec :: rest =>
    let ids := if ids == "-" then "" else ids
    match parseInt? dec, parseToks n rest with
    | some dec, some l =>
      if p == "-" then some ((ids, none) :: l)
      else if p == "x" then some ((ids, some { price := none, decimal := dec }) :: l)
      else match parseInt? p with
        | some v => some ((ids, some { price := some v, decimal := dec }) :: l)
        | none => none
    | _, _ => none
  | _, _ => none

def insertBy (x : String × String) : List (String × String) → List (String × String)
  | [] => [x]
  | y :: rest => if x.1 < y.1 then x :: y :: rest else y :: insertBy x rest

def sortShow (xs : List (String × String)) : String :=
  joinWith ";" ((xs.foldl (fun acc x => insertBy x acc) []).map (fun x => x.1 ++ "=" ++ x.2))

def showSt (s : St) : String :=
  let es := s.entries.flatMap (fun (avs, l) => l.map (fun (op, o) => (avs ++ "/" ++ op, s!"{o.self},{o.total},{o.active}")))
  let vs := s.avsVal.map (fun (avs, v) => (avs, toString v))
  sortShow es ++ "|" ++ sortShow vs

def parseEvs : Nat → List String → Option (List (String × Int) × List String)
  | 0, w => some ([], w)
  | n + 1, id :: k :: rest =>
    match parseInt? k, parseEvs n rest with
    | some k, some (l, r) => some ((id, k) :: l, r)
    | _, _ => none
  | _, _ => none

def parseDecs : Nat → List String → Option (List (String × Int) × List String)
  | 0, w => some ([], w)
  | n + 1, a :: ad :: rest =>
    match parseInt? ad, parseDecs n rest with
    | some ad, some (l, r) => some ((a, ad) :: l, r)
    | _, _ => none
  | _, _ => none

def parseAssets : Nat → List String → Option (List (String × AssetState) × List String)
  | 0, w => some ([], w)
  | n + 1, a :: amt :: ts :: os :: rest =>
    match parseInt? amt, parseInt? ts, parseInt? os, parseAssets n rest with
    | some amt, some ts, some os, some (l, r) =>
      some ((a, { totalAmount := amt, totalShare := ts, operatorShare := os }) :: l, r)
    | _, _, _, _ => none
  | _, _ => none

def parseOps : Nat → List String → Option (List (String × List (String × AssetState)) × List String)
  | 0, w => some ([], w)
  | n + 1, op :: na :: rest =>
    match parseNat? na with
    | some na =>
      match parseAssets na rest with
      | some (as, r) =>
        match parseOps n r with
        | some (l, r') => some ((op, as) :: l, r')
        | none => none
      | none => none
    | none => none
  | _, _ => none

def parseAvsIns (o : OracleSt) : Nat → List String → Option (List (String × AvsIn))
  | 0, [] => some []
  | 0, _ => none
  | n + 1, avs :: ok :: ncfg :: rest =>
    let cfgsR : Option (Option (List (String × Int)) × List String) :=
      if ncfg == "-1" then some (none, rest)
      else match parseNat? ncfg with
        | some k => match parseDecs k rest with
          | some (l, r) => some (some l, r)
          | none => none
        | none => none
    match cfgsR with
    | some (assets, ms :: nops :: r) =>
      let minSelf : Option Int := if ms == "x" then none else parseInt? ms
      match parseNat? nops with
      | some nops =>
        match parseOps nops r with
        | some (ops, r') =>
          match parseAvsIns o n r' with
          | some l => some ((avs, avsInOf o (ok == "1") assets minSelf ops) :: l)
          | none => none
        | none => none
      | none => none
    | _ => none
  | _, _ => none

def step (d : DS) (w : List String) : DS × String :=
  match w with
  | ["vp.reset"] => (init, "ok")
  | "vp.note" :: _ => (d, "ok")
  | ["vp.avs", addr, eid, se] =>
    match parseInt? se with
    | some se => ({ d with regs := (d.regs.filter (fun r => r.addr != addr)) ++ [{ addr := addr, epochId := eid, startingEpoch := se }] }, "ok")
    | none => (d, "bad-op")
  | ["vp.entry", avs, op, a, b, c] =>
    match parseInt? a, parseInt? b, parseInt? c with
    | some a, some b, some c =>
      let es := getD d.st.entries avs []
      ({ d with st := { d.st with entries := set d.st.entries avs (set es op { self := a, total := b, active := c }) } }, "ok")
    | _, _, _ => (d, "bad-op")
  | ["vp.avsval", avs, v] =>
    match parseInt? v with
    | some v => ({ d with st := { d.st with avsVal := set d.st.avsVal avs v } }, "ok")
    | none => (d, "bad-op")
  | ["vp.optin", avs, op] => ({ d with st := optIn d.st avs op }, "ok")
  | ["vp.optout", avs, op] => ({ d with st := optOut d.st avs op }, "ok")
  | ["vp.read", avs, op, st, j] =>
    -- GetOperatorOptedUSDValue for the OptedInfo state the harness read: none | out | in, jailed 0/1
    let info : Option OptedInfo :=
      if st == "none" then none else some { optedOut := st == "out", jailed := j == "1" }
    match readOpted d.st avs op info with
    | .error e => (d, e)
    | .ok o => (d, s!"{o.self},{o.total},{o.active}")
  | "vp.oracle" :: n :: rest =>
    match parseNat? n with
    | some n =>
      match parseToks n rest with
      | some toks => ({ d with orc := { toks := toks } }, "ok")
      | none => (d, "bad-op")
    | none => (d, "bad-op")
  | "vp.block" :: nev :: rest =>
    match parseNat? nev with
    | some nev =>
      match parseEvs nev rest with
      | some (evs, navs :: r) =>
        match parseNat? navs with
        | some navs =>
          match parseAvsIns d.orc navs r with
          | some ins =>
            let st' := evs.foldl (fun s (id, n) => epochEnd d.regs ins s id n) d.st
            ({ d with st := st' }, showSt st')
          | none => (d, "bad-op")
        | none => (d, "bad-op")
      | _ => (d, "bad-op")
    | none => (d, "bad-op")
  | _ => (d, "bad-op")

def main : IO Unit := runDriver init step

end ExoVerif.Driver.VotingPower
