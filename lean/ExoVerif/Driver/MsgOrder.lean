import ExoVerif.Driver.Common
import ExoVerif.Driver.Ledger
import ExoVerif.Model.MsgOrder
/- driver for the C08 message-order correspondence (harness domain `determinism_msgorder`):
   every `ledger.*` op of Driver/Ledger.lean, plus
     `msg.delegate   <stakerID> <assetID> <fee> <nonce> <hash> <operator:amount:held>…`
     `msg.undelegate <stakerID> <assetID> <fee> <nonce> <hash> <operator:amount:held>…`
   = one signed MsgDelegation / MsgUndelegation through DeliverTx: fee, then the entries in message
   order on a cache context. Observation = `ok` | `rej:<error of the first failing entry>` + the
   ledger dump. -/
namespace ExoVerif.Driver.MsgOrder
open ExoVerif ExoVerif.Ledger ExoVerif.MsgOrder ExoVerif.Driver

def parseEntry? (w : String) : Option Entry :=
  match w.splitOn ":" with
  | [o, x, h] => (parseInt? x).map (fun x => (⟨o, x, h == "1"⟩ : Entry))
  | _ => none

def showRes (p : L × Res L) : L × String :=
  match p.2 with
  | .ok _ _ => (p.1, "ok " ++ Ledger.dump p.1)
  | .fail _ err _ => (p.1, "rej:" ++ err ++ " " ++ Ledger.dump p.1)

def step (s : L) (w : List String) : L × String :=
  match w with
  | "msg.delegate" :: st :: a :: fee :: _nonce :: _hash :: es =>
    match es.mapM parseEntry?, parseInt? fee with
    | some es, some fee => showRes (msgDelegate s st a fee es)
    | _, _ => (s, "bad-op")
  | "msg.undelegate" :: st :: a :: fee :: nonce :: hash :: es =>
    match es.mapM parseEntry?, parseInt? fee, parseNat? nonce with
    | some es, some fee, some nonce => showRes (msgUndelegate s st a fee nonce hash es)
    | _, _, _ => (s, "bad-op")
  | _ => Ledger.step s w

def main : IO Unit := runDriver Ledger.empty step

end ExoVerif.Driver.MsgOrder
