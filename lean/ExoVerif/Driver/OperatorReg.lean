import ExoVerif.Driver.Common
import ExoVerif.Model.OperatorReg
/- driver for the operator-registration correspondence (C11, domain `liveness_commission`):
     opreg.reset                                                     → ok
     opreg.genesis <addr> <rate> <max> <change>                      → ok | refused      (an operator of the genesis file)
     opreg.vb <fromOk> <infoNil> <earnOk> <metaLen> <approveEmpty> <rate> <max> <change>
                                                                     → ok | rej:<sentinel> | panic   (Msg.ValidateBasic)
     opreg.tx <sender> <fromOk> <infoNil> <earnOk> <metaLen> <approveEmpty> <rate> <max> <change> <earnListOk>
                                                                     → ok | rej          (DeliverTx code 0 or not)
     opreg.dump                                                      → addr=rate/max/change,… sorted by address
   every other line (blocks, staking steps, comments of the harness) → `-`
   a rate is a raw LegacyDec integer or `nil`. -/
namespace ExoVerif.Driver.OperatorReg
open ExoVerif ExoVerif.OpReg ExoVerif.Driver ExoVerif.KV

def parseRate (s : String) : Option Int := if s == "nil" then none else s.toInt?

def parseBool (s : String) : Bool := s == "1"

def insertSorted (e : String × Rec) : List (String × Rec) → List (String × Rec)
  | [] => [e]
  | x :: rest => if e.1 < x.1 then e :: x :: rest else x :: insertSorted e rest

def sortReg (s : Reg) : List (String × Rec) := s.foldl (fun acc e => insertSorted e acc) []

def dump (s : Reg) : String :=
  joinWith "," ((sortReg s).map fun e => s!"{e.1}={e.2.rate}/{e.2.max}/{e.2.change}")

def mkMsg (sender fromOk infoNil earnOk metaLen approveEmpty rate mx change earnListOk : String) : RegMsg :=
  { sender := sender, fromOk := parseBool fromOk, infoNil := parseBool infoNil, earnOk := parseBool earnOk,
    metaLen := parseNat! metaLen, approveEmpty := parseBool approveEmpty,
    rates := ⟨parseRate rate, parseRate mx, parseRate change⟩, earnListOk := parseBool earnListOk }

def step (s : Reg) (w : List String) : Reg × String :=
  match w with
  | ["opreg.reset"] => ([], "ok")
  | ["opreg.genesis", a, r, m, c] =>
    match genesis [(a, ⟨parseRate r, parseRate m, parseRate c⟩)] with
    | some [(_, x)] => (s ++ [(a, x)], "ok")
    | _ => (s, "refused")
  | ["opreg.vb", f, n, e, l, ap, r, m, c] =>
    (s, (msgValidateBasic (mkMsg "-" f n e l ap r m c "1")).show)
  | ["opreg.tx", a, f, n, e, l, ap, r, m, c, el] =>
    let (s', ok) := deliver s (mkMsg a f n e l ap r m c el)
    (s', if ok then "ok" else "rej")
  | ["opreg.dump"] => (s, dump s)
  | _ => (s, "-")

def main : IO Unit := runDriver ([] : Reg) step

end ExoVerif.Driver.OperatorReg
