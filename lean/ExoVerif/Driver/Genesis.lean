import ExoVerif.Driver.Common
import ExoVerif.Model.Genesis
import ExoVerif.Model.GenesisAssets
/- driver for the C18 correspondence: the harness describes the cross-module core of the real state before the
   export (`gen.und`, `gen.q`, `gen.cur`, `gen.prev`, `gen.rev`, `gen.val`), `gen.roundtrip` prints what the model says the
   re-imported chain holds (undelegations with hold counts, dogfood queues, reverse key lookups, validator set).
   x/assets: the four prefix stores read raw before the export (`gen.ap` params, `gen.ac` chain, `gen.at` token, `gen.ad`
   staker row, `gen.ao` operator pool row — each with its store key); `gen.assets` prints the verdict of
   validateAssets on exportAssets and the stores initAssets rebuilds from it. -/
namespace ExoVerif.Driver.Genesis
open ExoVerif.Genesis ExoVerif.Driver

def empty : Core := { unds := [], queues := [], curKeys := [], prevKeys := [], reverse := [], vals := [], epochs := [] }

def insertSorted (x : String) : List String → List String
  | [] => [x]
  | y :: ys => if x < y then x :: y :: ys else y :: insertSorted x ys

def sortStrings (xs : List String) : List String := xs.foldl (fun acc x => insertSorted x acc) []

def showCore (s : Core) : String :=
  let us := sortStrings (s.unds.map (fun u => s!"{u.id} {u.complete} {u.amount} {u.hold}"))
  let qs := s.queues.map (fun q => s!"{q.pfx} {q.epoch} {q.item}")
  let rs := sortStrings (s.reverse.map (fun r => s!"{r.1} {r.2}"))
  let vs := sortStrings (s.vals.map (fun v => s!"{v.1} {v.2}"))
  "und=[" ++ joinWith "," us ++ "] q=[" ++ joinWith "," qs ++ "] rev=[" ++ joinWith "," rs ++ "] val=[" ++ joinWith "," vs ++ "]"

def emptyAssets : Assets := { params := ⟨"-", "-"⟩, chains := [], tokens := [], deposits := [], opAssets := [] }

def showAssets (a : Assets) : String :=
  let cs := a.chains.map (fun p => s!"{p.1}:{p.2.lzID}:{p.2.name}:{p.2.addrLen}:{p.2.rest}")
  let ts := a.tokens.map (fun p => s!"{p.1}:{p.2.lzID}:{p.2.addr}:{p.2.decimals}:{p.2.total}:{p.2.rest}")
  let ds := a.deposits.map (fun p => s!"{p.1}:{p.2.total}:{p.2.withdrawable}:{p.2.pending}")
  let os := a.opAssets.map (fun p => s!"{p.1}:{p.2.total}:{p.2.pending}:{p.2.totalShare}:{p.2.opShare}")
  s!"params={a.params.gateway}:{a.params.topic} chains=[" ++ joinWith "," cs ++ "] tokens=[" ++ joinWith "," ts ++ "] dep=[" ++
    joinWith "," ds ++ "] ops=[" ++ joinWith "," os ++ "]"

/-- the client chain name travels hex-encoded ("-" = empty): only its emptiness matters to the model -/
def nameOf (h : String) : String := if h == "-" then "" else h
def showName (a : Assets) : Assets :=
  { a with chains := a.chains.map (fun p => (p.1, { p.2 with name := if p.2.name == "" then "-" else p.2.name })) }

def assetsRoundtrip (a : Assets) : String :=
  let d := exportAssets a
  let v := if validateAssets d then "true" else "false"
  match initAssets d with
  | none => s!"validate={v} init=panic"
  | some a' => s!"validate={v} init=ok " ++ showAssets (showName a')

def step (st : Core × Assets) (w : List String) : (Core × Assets) × String :=
  let s := st.1
  let a := st.2
  match w with
  | ["gen.reset"] => ((empty, emptyAssets), "ok")
  | ["gen.und", id, c, am, h] => (({ s with unds := s.unds ++ [⟨id, parseInt! c, parseInt! am, parseInt! h⟩] }, a), "ok")
  | ["gen.q", p, e, it] => (({ s with queues := s.queues ++ [⟨parseNat! p, parseInt! e, it, []⟩] }, a), "ok")
  | ["gen.q", p, e, it, recs] => (({ s with queues := s.queues ++ [⟨parseNat! p, parseInt! e, it, recs.splitOn "+"⟩] }, a), "ok")
  | ["gen.cur", op, cons] => (({ s with curKeys := s.curKeys ++ [(op, cons)] }, a), "ok")
  | ["gen.prev", op, cons] => (({ s with prevKeys := s.prevKeys ++ [(op, cons)] }, a), "ok")
  | ["gen.val", cons, pw] => (({ s with vals := s.vals ++ [(cons, parseInt! pw)] }, a), "ok")
  | ["gen.rev", cons, op] => (({ s with reverse := s.reverse ++ [(cons, op)] }, a), "ok")
  | ["gen.roundtrip"] => (st, showCore (roundtrip codePrefixes 0 0 s))
  | ["gen.ap", gw, topic] => ((s, { a with params := ⟨gw, topic⟩ }), "ok")
  | ["gen.ac", k, lz, nm, al, rest] =>
    ((s, { a with chains := a.chains ++ [(k, ⟨parseNat! lz, nameOf nm, parseNat! al, rest⟩)] }), "ok")
  | ["gen.at", k, lz, addr, dec, tot, rest] =>
    ((s, { a with tokens := a.tokens ++ [(k, ⟨parseNat! lz, addr, parseNat! dec, rest, parseInt! tot⟩)] }), "ok")
  | ["gen.ad", k, sk, asset, t, wd, p] =>
    ((s, { a with deposits := a.deposits ++ [(k, ⟨sk, asset, parseInt! t, parseInt! wd, parseInt! p⟩)] }), "ok")
  | ["gen.ao", k, o, asset, t, p, ts, os] =>
    ((s, { a with opAssets := a.opAssets ++ [(k, ⟨o, asset, parseInt! t, parseInt! p, parseInt! ts, parseInt! os⟩)] }), "ok")
  | ["gen.assets"] => (st, assetsRoundtrip a)
  | _ => (st, "bad-op")

def main : IO Unit := runDriver (empty, emptyAssets) step

end ExoVerif.Driver.Genesis
